(* CvProof4: layer W of the proofs about Model/CvModel.v -- no wake-up is lost.
   W0  semaphore counts and the posts owed by the abstract mutex are never negative
   W1  a native waiter inside its wait loop whose record is on no list and was not removed by itself has waiting = 0
   W2  a thread asleep in nsync_sem_wait_with_cancel_ whose record a waker has finished with (on no list) has a post:
       its semaphore is positive, or the waker that took it is at the V for it, or the abstract mutex owes it one
   W3  converse of the mutex-queue invariants: a record located on the mutex queue / among the records dequeued by an
       unlocker really is on that list
   and the corrected progress statement [no_stuck_reachable]; layer N: the same for the sleepers of nsync_wait_n.
   Continues Proof/CvProof3.v. *)
From NsyncBase Require Import CSem.
From NsyncGen Require Import Consts Sites.
From NsyncModel Require Import CvModel.
From NsyncProof Require Import CvProof CvProof2 CvProof3.
From Coq Require Import List ZArith Bool Lia PeanoNat.
Import ListNotations.
Local Open Scope Z_scope.

(* the pcs of nsync_cv_wait_with_deadline_generic between the release store of the enqueue and the exit of the loop *)
Definition jpc (p : pc) : bool :=
  match p with
  | WStoreRel _ | WMuRel _ | WLoop _ | WSem _ | WLoad6 _ | SpLoad _ (KWaitTo _) | SpCas (KWaitTo _) _ | WLoad7 _ | WLoad8 _
  | WStoreW _ | WLoad13 _ => true
  | _ => false
  end.

(* a post for thread t exists or is about to be made *)
Definition posted (w : world) (t : nat) : Prop :=
  0 < sem w t \/ 0 < owed w t \/ exists s k, taker (recs w t) = Some s /\ pcof w s = VV k t.

Definition WInv (w : world) : Prop :=
  (forall u, 0 <= sem w u /\ 0 <= owed w u) /\
  (forall t, (t < length (thr w))%nat -> jpc (pcof w t) = true -> lc w t = PNone -> waiting (recs w t) = 0) /\
  (forall t l, pcof w t = WSem l -> lc w t = PNone -> posted w t) /\
  (forall r, (lc w r = PMuq -> In r (muq w)) /\ (lc w r = PMwake -> In r (mwake w))).

Lemma jpc_after_todo k : jpc (after_todo k) = false.
Proof. unfold after_todo. destruct (k_todo k); reflexivity. Qed.
Lemma jpc_enter_wake_loop k : jpc (enter_wake_loop k) = false.
Proof. unfold enter_wake_loop. destruct (k_wake k); reflexivity. Qed.

(* ---------- what a thread step does to the semaphores and to the ghost counters ---------- *)
Lemma step_core_sem w t c :
  let w' := fst (step_core w t c) in
  owed w' = owed w /\ mwake w' = mwake w /\ incl (muq w) (muq w') /\
  (forall u, 0 <= sem w u -> 0 <= sem w' u) /\ (forall u, u <> t -> sem w u <= sem w' u).
Proof.
  step_cases w t; simpl; (split; [reflexivity|]); (split; [reflexivity|]);
    (split; [try apply incl_refl; try (apply incl_appl; apply incl_refl)|]).
  all: split; intros u; unfold fupd; try (intros; lia).
  all: zbool; try (destruct (Nat.eqb_spec u t); intros; subst; try lia; congruence).
  all: destruct (Nat.eqb_spec u o); intros; subst; lia.
Qed.

Lemma begin_op_ghost w t : owed (begin_op w t) = owed w /\ wlog (begin_op w t) = wlog w.
Proof.
  unfold begin_op. destruct (t_pc (get w t)); auto. destruct (t_ops (get w t)) as [|o rest]; auto.
  destruct o; simpl; auto.
Qed.

Section WStep.
  Variables (w : world) (t : nat) (c : choice).
  Hypothesis HI : Inv w.
  Hypothesis HW : WInv w.
  Hypothesis HQ : Q2c w.
  Hypothesis Hlt : (t < length (thr w))%nat.
  Local Notation w' := (fst (step_core w t c)).

  (* the stepping thread's own waiter struct *)
  Lemma W1_self : jpc (pcof w' t) = true -> lc w' t = PNone -> waiting (recs w' t) = 0.
  Proof.
    destruct HI as (_ & _ & HS & HP). destruct HW as (_ & W1 & _).
    pose proof HP as (_ & HT). destruct (HT t) as (Hnat & _). specialize (Hnat Hlt). specialize (W1 t Hlt).
    pose proof HS as (_ & _ & _ & S4). pose proof (S4 t) as S4t.
    unfold pcof, lc in *.
    step_cases w t; try rewrite Hpc in *; simpl fst; pc_nf; try rewrite Hpc; simpl jpc;
      rewrite ?jpc_after_todo, ?jpc_enter_wake_loop; try discriminate.
    all: autorewrite with getdb; try rewrite Hpc; simpl jpc; try discriminate.
    all: try match goal with H : _ = SpLoad _ ?k |- _ => is_var k; destruct k; simpl jpc; try discriminate end.
    all: try match goal with H : _ = SpCas ?k _ |- _ => is_var k; destruct k; simpl jpc; try discriminate end.
    all: simpl in W1, Hnat; intros _; simpl recs; unfold clear_cv_mu.
    all: try (apply W1; reflexivity).
    all: rewrite ?fupd_same; simpl loc; simpl waiting.
    all: try reflexivity.
    all: try (intros Hl; destruct Hnat as (A & _); unfold lc in A; congruence).
  Qed.

  Lemma W2_self l : pcof w' t = WSem l -> lc w' t = PNone -> posted w' t.
  Proof.
    destruct HI as (_ & _ & HS & HP). destruct HW as (_ & W1 & W2 & _).
    specialize (W1 t Hlt). pose proof (W2 t) as W2t.
    unfold pcof, lc in *.
    step_cases w t; try rewrite Hpc in *; simpl fst; pc_nf; try rewrite Hpc; try discriminate.
    all: autorewrite with getdb; try rewrite Hpc; try discriminate.
    all: try (unfold after_todo, enter_wake_loop; destr_all; discriminate).
    all: try (intros [= <-] Hl; apply (W2t _ eq_refl Hl)).
    (* WLoop -> WSem: waiting was read non-zero *)
    all: intros _; simpl recs; intros Hl; exfalso; zbool; simpl in W1; specialize (W1 eq_refl Hl); congruence.
  Qed.

  Lemma posted_keep t' : t' <> t -> taker (recs w' t') = taker (recs w t') -> posted w t' -> posted w' t'.
  Proof.
    intros Hne Htk Hp. destruct HW as (W0 & _). pose proof (step_core_sem w t c) as (Ho & _ & _ & _ & Hs).
    destruct Hp as [Hp|[Hp|(s & k & Hs1 & Hs2)]].
    - left. specialize (Hs t' Hne). lia.
    - right; left. now rewrite Ho.
    - destruct (Nat.eq_dec s t) as [->|Hst].
      + left. rewrite (VV_posts w t k t' c Hlt Hs2). destruct (W0 t'). lia.
      + right; right. exists s, k. rewrite Htk. split; [assumption|]. unfold pcof in *. now rewrite step_core_other by congruence.
  Qed.

  Lemma W12_other t' : t' <> t -> (t' < length (thr w))%nat ->
    (jpc (pcof w' t') = true -> lc w' t' = PNone -> waiting (recs w' t') = 0) /\
    (forall l, pcof w' t' = WSem l -> lc w' t' = PNone -> posted w' t').
  Proof.
    intros Hne Hl'. destruct HI as (_ & _ & HS & HP). pose proof HW as (W0 & W1 & W2 & _).
    pose proof (foreign_native w t HS Hlt t' Hne Hl') as Hno.
    assert (Epc : pcof w' t' = pcof w t') by (unfold pcof; now rewrite step_core_other by congruence).
    rewrite Epc. unfold lc.
    destruct (step_core_other_rec w t c t' HP HS Hlt Hno) as [(E & _)|[(El & E & _)|[(Hin & E & _)|(El & _ & _ & [(E & _)|E])]]];
      cbv zeta in E; rewrite E; simpl.
    - split; [apply W1; assumption|]. intros l Hpc Hl. apply posted_keep; [assumption | now rewrite E | now apply (W2 t' l)].
    - split; intros; discriminate.
    - split; [apply W1; assumption|]. intros l Hpc Hl. apply posted_keep; [assumption | now rewrite E | now apply (W2 t' l)].
    - split; intros; discriminate.
    - split; [reflexivity|]. intros l Hpc _.
      (* the store of wake_waiters: the waker is now at the V for t' *)
      right; right. exists t.
      pose proof HP as ((_ & _ & _ & _ & _ & _ & _ & _ & _ & _) & HT). destruct (HT t') as (Hnat & _). specialize (Hnat Hl').
      rewrite Hpc in Hnat. simpl in Hnat. destruct Hnat as (HJ & _). unfold Jst in HJ. rewrite El in HJ. destruct HJ as (_ & Htk & _).
      pose proof HS as (_ & S2 & _). destruct (S2 t' Hl') as (Hown & _).
      destruct (private_fate_step w t c t' HP Hlt (HQ t' t El)) as [Hin|[(_ & _ & k & Hk)|(_ & _ & _ & Hmu)]].
      + exfalso. pose proof (PInv_step_core w t c HP (proj1 (proj2 HI)) HS Hlt) as ((_ & _ & Q2' & _) & _).
        destruct (Q2' t) as (_ & B). specialize (B t' Hin). unfold lc in B. cbv zeta in B. rewrite E in B. discriminate.
      + exists k. rewrite Hown in Hk. split; [rewrite E; exact Htk | exact Hk].
      + exfalso. unfold lc in Hmu. cbv zeta in Hmu. rewrite E in Hmu. discriminate.
  Qed.

  Lemma W3_step r : (lc w' r = PMuq -> In r (muq w')) /\ (lc w' r = PMwake -> In r (mwake w')).
  Proof.
    destruct HI as (_ & HA & HS & HP). destruct HW as (_ & _ & _ & W3). destruct (W3 r) as (Wq & Wk).
    pose proof (step_core_sem w t c) as (_ & Emw & Hincl & _).
    pose proof (step_core_loc w t c r HP HS Hlt) as Hloc. cbv zeta in Hloc. split; intros Hl.
    - destruct Hloc as [E|[(_ & E)|[(_ & E & _)|[(_ & E & _)|(El & _)]]]]; try congruence.
      + apply Hincl, Wq. congruence.
      + destruct (private_fate_step w t c r HP Hlt (HQ r t El)) as [Hin|[(_ & Hn & _)|(Hmu & _)]]; [|congruence|exact Hmu].
        exfalso. pose proof (PInv_step_core w t c HP HA HS Hlt) as ((_ & _ & Q2' & _) & _).
        destruct (Q2' t) as (_ & B). specialize (B r Hin). congruence.
    - rewrite Emw. apply Wk. destruct Hloc as [E|[(_ & E)|[(_ & E & _)|[(_ & E & _)|(_ & [E|E])]]]]; congruence.
  Qed.
End WStep.

Lemma WInv_step_core w t c : Inv w -> Q2c w -> WInv w -> (t < length (thr w))%nat -> WInv (fst (step_core w t c)).
Proof.
  intros HI HQ HW Hlt. pose proof (step_core_sem w t c) as (Ho & _ & _ & Hs0 & _).
  pose proof (step_core_misc w t c) as (_ & _ & Hlen & _).
  split; [|split; [|split]].
  - intros u. destruct HW as (W0 & _). destruct (W0 u). split; [now apply Hs0 | now rewrite Ho].
  - intros t' Hl'. rewrite Hlen in Hl'. destruct (Nat.eq_dec t' t) as [->|Hne]; [now apply W1_self | now apply (proj1 (W12_other w t c HI HW HQ Hlt t' Hne Hl'))].
  - intros t' l Hpc. destruct (Nat.eq_dec t' t) as [->|Hne]; [now apply (W2_self w t c HI HW Hlt l)|].
    destruct (le_lt_dec (length (thr w)) t') as [Hoob|Hl'].
    + unfold pcof in Hpc. rewrite step_core_other in Hpc by congruence. rewrite (get_oob w t' Hoob) in Hpc. discriminate.
    + exact (proj2 (W12_other w t c HI HW HQ Hlt t' Hne Hl') l Hpc).
  - intros r. now apply W3_step.
Qed.

(* ---------- steps that leave the threads alone ---------- *)
Lemma pc_not_idle_lt w t : pcof w t <> Idle -> (t < length (thr w))%nat.
Proof.
  intros H. destruct (le_lt_dec (length (thr w)) t) as [Hoob|]; [|assumption]. elim H. unfold pcof. now rewrite (get_oob w t Hoob).
Qed.

Lemma WInv_env w w' :
  WInv w -> SInv w ->
  (forall t, get w' t = get w t) -> length (thr w') = length (thr w) ->
  (forall u, 0 <= sem w' u /\ 0 <= owed w' u) ->
  (forall u, pcof w u <> Idle ->
     (0 < sem w u -> 0 < sem w' u \/ 0 < owed w' u) /\ (0 < owed w u -> 0 < sem w' u \/ 0 < owed w' u)) ->
  (forall r, (loc (recs w' r) = loc (recs w r) /\ waiting (recs w' r) = waiting (recs w r) /\ taker (recs w' r) = taker (recs w r)) \/
             loc (recs w' r) <> PNone \/
             (waiting (recs w' r) = 0 /\ 0 < owed w' (owner (recs w r)))) ->
  (forall r, (lc w' r = PMuq -> In r (muq w')) /\ (lc w' r = PMwake -> In r (mwake w'))) ->
  WInv w'.
Proof.
  intros (W0 & W1 & W2 & W3) (S1 & S2 & _) Hget Hlen Hnn Hpost Hrec H3.
  assert (Hpc : forall s, pcof w' s = pcof w s) by (intros; unfold pcof; now rewrite Hget).
  split; [exact Hnn|]. split; [|split; [|exact H3]].
  - intros t Hlt. rewrite Hlen in Hlt. rewrite Hpc. unfold lc. intros Hj Hl.
    destruct (Hrec t) as [(A & B & _)|[A|(A & _)]]; [|congruence|exact A].
    rewrite B. apply W1; auto. unfold lc. congruence.
  - intros t l. rewrite Hpc. unfold lc. intros Hp Hl.
    assert (Hni : pcof w t <> Idle) by (rewrite Hp; discriminate).
    pose proof (pc_not_idle_lt w t Hni) as Hlt. destruct (Hpost t Hni) as (P1 & P2).
    destruct (Hrec t) as [(A & _ & C)|[A|(_ & A)]]; [|congruence|].
    + assert (Hl0 : lc w t = PNone) by (unfold lc; congruence).
      destruct (W2 t l Hp Hl0) as [Hs|[Ho|(s & k & Hs1 & Hs2)]].
      * destruct (P1 Hs); [left | right; left]; assumption.
      * destruct (P2 Ho); [left | right; left]; assumption.
      * right; right. exists s, k. rewrite C, Hpc. auto.
    + right; left. destruct (S2 t Hlt) as (Ho & _). now rewrite Ho in A.
Qed.

Lemma WInv_begin_op w t : Inv w -> WInv w -> WInv (begin_op w t).
Proof.
  intros (_ & _ & HS & HP) (W0 & W1 & W2 & W3). pose proof HS as (S1 & _). pose proof HP as ((Q0 & _) & _).
  pose proof (begin_op_misc w t) as (_ & _ & Hlen & _ & _ & Hrec & _ & _ & _ & Hmuq & Hmw & _ & Hsem & _).
  pose proof (begin_op_ghost w t) as (Howed & _).
  assert (Hpcs : forall s, pcof (begin_op w t) s = pcof w s \/ (s = t /\ pcof w s = Idle /\ jpc (pcof (begin_op w t) s) = false /\
                                                              (forall l, pcof (begin_op w t) s <> WSem l) /\ forall k o, pcof (begin_op w t) s <> VV k o)).
  { intros s. destruct (Nat.eq_dec s t) as [->|Hne]; [|left; unfold pcof; now rewrite begin_op_other by congruence].
    destruct (begin_op_pc w t) as [E|(Hpc & _ & o & rest & _ & E)]; [left; unfold pcof; now rewrite E|].
    right. unfold pcof. rewrite E. split; [reflexivity|]. split; [exact Hpc|].
    destruct o; simpl; try destruct (held (get w t)); repeat split; intros; discriminate. }
  assert (Hthr : forall s, (s < length (thr w))%nat -> recs (begin_op w t) s = recs w s) by (intros; apply Hrec; lia).
  split; [intros u; rewrite Hsem, Howed; apply W0|]. split; [|split].
  - intros s Hls. rewrite Hlen in Hls. unfold lc. rewrite (Hthr s Hls).
    destruct (Hpcs s) as [E|(_ & _ & E & _)]; [rewrite E; now apply W1 | rewrite E; discriminate].
  - intros s l Hp. destruct (Hpcs s) as [E|(_ & _ & _ & E & _)]; [|elim (E l Hp)]. rewrite E in Hp.
    assert (Hls : (s < length (thr w))%nat) by (apply pc_not_idle_lt; rewrite Hp; discriminate).
    unfold lc, posted. rewrite (Hthr s Hls), Hsem, Howed. intros Hl.
    destruct (W2 s l Hp Hl) as [A|[A|(s' & k & A & B)]]; [now left | now right; left |]. right; right. exists s', k. split; [exact A|].
    destruct (Hpcs s') as [E'|(_ & E' & _)]; [now rewrite E' | rewrite E' in B; discriminate].
  - intros r. rewrite Hmuq, Hmw. destruct (Nat.eq_dec r (nrec w)) as [->|Hne]; [|unfold lc; rewrite (Hrec r Hne); apply W3].
    assert (El : lc (begin_op w t) (nrec w) = PNone).
    { destruct (begin_op_nrec w t) as [(_ & E)|(dl & rest & Hpc & Hops & _)].
      - unfold lc. rewrite E. apply Q0. lia.
      - unfold lc. rewrite (begin_op_recs_new w t _ dl rest Hpc Hops), Nat.eqb_refl. reflexivity. }
    rewrite El. split; discriminate.
Qed.

Lemma WInv_step w a c : Inv w -> Q2c w -> WInv w -> WInv (fst (step w a c)).
Proof.
  intros HI HQ HW. pose proof HI as (_ & _ & HS & HP). pose proof HW as (W0 & W1 & W2 & W3).
  pose proof HP as ((_ & _ & _ & Q3 & Q4 & _) & _).
  destruct a as [t| | | | | | | |].
  { simpl. destruct (le_lt_dec (length (thr w)) t) as [Hoob|Hlt]; [now rewrite step_thr_oob|].
    unfold step_thr. destruct HI as (HT & HA & _).
    apply WInv_step_core.
    - split; [now apply TInv_begin_op|]. split; [now apply AInv_begin_op|]. split; [now apply SInv_begin_op | now apply PInv_begin_op].
    - now apply Q2c_begin_op.
    - apply WInv_begin_op; [|assumption]. exact (conj HT (conj HA (conj HS HP))).
    - now rewrite (proj1 (proj2 (proj2 (begin_op_misc w t)))). }
  all: assert (Hsame : forall w0, (forall r : nat,
           loc (recs w0 r) = loc (recs w0 r) /\ waiting (recs w0 r) = waiting (recs w0 r) /\ taker (recs w0 r) = taker (recs w0 r) \/
           loc (recs w0 r) <> PNone \/ waiting (recs w0 r) = 0 /\ 0 < owed w0 (owner (recs w0 r)))) by (intros; left; auto).
  - (* Tick *) simpl. destruct (0 <=? dt); [|exact HW]. apply (WInv_env w); auto; simpl; auto.
  - (* Notify *) apply (WInv_env w); auto; simpl; auto.
  - (* MuEnv *) simpl. destruct (match mspin w with Some _ => _ | None => true end); [|exact HW]. apply (WInv_env w); auto; simpl; auto.
  - (* MuDeq *) simpl. destruct (mspin w) as [?|]; [exact HW|]. destruct (mem_id r (muq w)) eqn:Hm; [|exact HW]. apply mem_id_In in Hm. destruct (Q3 r Hm) as (A & B).
    apply (WInv_env w); auto; simpl; auto.
    + intros r0. unfold fupd. destruct (Nat.eqb_spec r0 r); [subst; right; left; simpl; discriminate | left; auto].
    + intros r0. unfold lc; simpl. unfold fupd. destruct (Nat.eqb_spec r0 r) as [->|Hne]; simpl.
      * split; [discriminate|]. intros _. apply in_app_iff. right. now left.
      * destruct (W3 r0) as (X & Y). split; intros Hl; [apply In_remove_id; split; [now apply X | assumption] | apply in_app_iff; left; now apply Y].
  - (* MuWakeSt *) simpl. destruct (mem_id r (mwake w)) eqn:Hm; [|exact HW]. apply mem_id_In in Hm. destruct (Q4 r Hm) as (A & B).
    apply (WInv_env w); auto; simpl; auto.
    + intros u. destruct (W0 u), (W0 (owner (recs w r))). split; [assumption|]. unfold fupd. destruct (Nat.eqb u (owner (recs w r))); lia.
    + intros u _. unfold fupd. destruct (W0 (owner (recs w r))). destruct (Nat.eqb_spec u (owner (recs w r))) as [->|]; split; intros; auto; right; lia.
    + intros r0. destruct (Nat.eq_dec r0 r) as [->|Hne]; [|left; rewrite !fupd_other by assumption; auto].
      right; right. rewrite !fupd_same. simpl. split; [reflexivity|]. destruct (W0 (owner (recs w r))). lia.
    + intros r0. unfold lc; simpl. unfold fupd. destruct (Nat.eqb_spec r0 r) as [->|Hne]; simpl.
      * split; discriminate.
      * destruct (W3 r0) as (X & Y). split; intros Hl; [now apply X | apply In_remove_id; split; [now apply Y | assumption]].
  - (* EnvV *) simpl. destruct (W0 t) as (Wt1 & Wt2). destruct (0 <? owed w t) eqn:E; zbool; (apply (WInv_env w); auto; simpl; auto).
    all: try (intros u; destruct (W0 u); unfold fupd; destruct (Nat.eqb_spec u t); subst; split; lia).
    all: intros u _; destruct (W0 u); unfold fupd; destruct (Nat.eqb_spec u t); subst; split; intros; auto; left; lia.
  - (* EnvRc *) simpl. destruct ((r <? length (thr w))%nat && is_mucv (recs w r) && rc_env_ok (t_pc (get w (owner (recs w r)))) && negb (mem_id r (cvq w))); [|exact HW].
    apply (WInv_env w); auto; simpl; auto.
    + intros r0. left. unfold fupd. destruct (Nat.eqb_spec r0 r); subst; auto.
    + intros r0. unfold lc; simpl. unfold fupd. destruct (Nat.eqb_spec r0 r); subst; simpl; apply W3.
  - (* EnvP *) simpl. destruct (t_pc (get w t)) eqn:Hpc; try exact HW. destruct (0 <? sem w t) eqn:Es; [|exact HW]. zbool.
    apply (WInv_env w); auto; simpl; auto.
    + intros u. destruct (W0 u). unfold fupd. destruct (Nat.eqb_spec u t); subst; split; lia.
    + intros u Hu. unfold fupd. destruct (Nat.eqb_spec u t) as [->|]; [elim Hu; exact Hpc|]. split; auto.
Qed.

Lemma WInv_init progs clock0 exp : WInv (init progs clock0 exp).
Proof.
  split; [intros u; simpl; lia|]. split; [|split].
  - intros t _. unfold pcof. rewrite (proj1 (get_init progs clock0 exp t)). discriminate.
  - intros t l. unfold pcof. rewrite (proj1 (get_init progs clock0 exp t)). discriminate.
  - intros r. unfold lc; simpl. split; discriminate.
Qed.
Lemma WInv_run progs clock0 exp sched : WInv (run (init progs clock0 exp) sched).
Proof.
  induction sched as [|[a c] s IH] using rev_ind; [apply WInv_init|]. rewrite run_snoc.
  apply WInv_step; [apply Inv_run | apply Q2c_run | exact IH].
Qed.

(* ================================================================== *)
(* No lost wake-up, and progress                                       *)
(* ================================================================== *)
(* a thread asleep in nsync_sem_wait_with_cancel_ whose record a waker s has taken: the waker still has it on its
   to_wake_list (it will transfer or wake it: [waker_moves]), or the abstract mutex has it (queued / dequeued by an
   unlocker), or its waiting flag is clear and a post exists: the semaphore is positive, or s is at the V for t, or the
   abstract mutex owes t a post *)
Lemma no_lost_wakeup_reachable progs clock0 exp sched :
  let w := run (init progs clock0 exp) sched in
  forall t l s, (t < length (thr w))%nat -> pcof w t = WSem l -> taker (recs w t) = Some s -> s <> t ->
  (lc w t = PPriv s /\ In t (priv (pcof w s))) \/
  (lc w t = PMuq /\ In t (muq w)) \/ (lc w t = PMwake /\ In t (mwake w)) \/
  (lc w t = PNone /\ waiting (recs w t) = 0 /\ (0 < sem w t \/ (exists k, pcof w s = VV k t) \/ 0 < owed w t)).
Proof.
  cbv zeta. set (w := run (init progs clock0 exp) sched). intros t l s Hlt Hpc Htk Hne.
  pose proof (Inv_run progs clock0 exp sched) as (_ & _ & _ & HP). fold w in HP.
  pose proof (Q2c_run progs clock0 exp sched) as HQ. fold w in HQ.
  pose proof (WInv_run progs clock0 exp sched) as (_ & W1 & W2 & W3). fold w in W1, W2, W3.
  pose proof HP as (_ & HT). destruct (HT t) as (Hnat & _). specialize (Hnat Hlt).
  rewrite Hpc in Hnat. simpl in Hnat. destruct Hnat as (HJ & _). unfold Jst in HJ. fold (lc w t) in HJ.
  destruct (lc w t) as [| |s'| |] eqn:El.
  - right; right; right. split; [reflexivity|]. split; [apply W1; [assumption | rewrite Hpc; reflexivity | assumption]|].
    destruct (W2 t l Hpc El) as [A|[A|(s' & k & A & B)]]; [now left | now right; right |].
    right; left. exists k. rewrite Htk in A. now injection A as <-.
  - destruct HJ as (_ & A). congruence.
  - left. destruct HJ as (_ & A & _). rewrite Htk in A. injection A as <-. split; [reflexivity | now apply HQ].
  - right; left. split; [reflexivity | now apply W3].
  - right; right; left. split; [reflexivity | now apply W3].
Qed.

(* a waker at the V is never blocked *)
Lemma VV_moves w t k o c : (t < length (thr w))%nat -> pcof w t = VV k o -> fst (step w (Thr t) c) <> w.
Proof.
  intros Hlt Hpc E. simpl in E. unfold step_thr in E.
  assert (Eb : begin_op w t = w) by (unfold begin_op; unfold pcof in Hpc; rewrite Hpc; reflexivity).
  rewrite Eb in E. apply (f_equal (fun x => sem x o)) in E. rewrite (VV_posts w t k o c Hlt Hpc) in E. lia.
Qed.

(* Progress.  In a reachable world in which no thread step changes anything, the abstract mutex holds no transferred
   record and OWES NO POST, every thread asleep in nsync_sem_wait_with_cancel_ still has its record on the cv queue:
   nobody has signalled it. *)
Lemma no_stuck_reachable progs clock0 exp sched :
  let w := run (init progs clock0 exp) sched in
  (forall t c, fst (step w (Thr t) c) = w) -> muq w = [] -> mwake w = [] -> (forall u, owed w u = 0) ->
  forall t l, (t < length (thr w))%nat -> pcof w t = WSem l -> In t (cvq w).
Proof.
  cbv zeta. set (w := run (init progs clock0 exp) sched). intros Hblk Hmq Hmw Howed t l Hlt Hpc.
  pose proof (Inv_run progs clock0 exp sched) as (_ & _ & _ & HP). fold w in HP.
  pose proof (Q2c_run progs clock0 exp sched) as HQ. fold w in HQ.
  pose proof (WInv_run progs clock0 exp sched) as (_ & W1 & W2 & W3). fold w in W1, W2, W3.
  pose proof HP as ((_ & (_ & Q1) & _) & HT). destruct (HT t) as (Hnat & _). specialize (Hnat Hlt).
  rewrite Hpc in Hnat. simpl in Hnat. destruct Hnat as (HJ & _). unfold Jst in HJ. fold (lc w t) in HJ.
  assert (Hmove : forall s, (exists k o, pcof w s = VV k o) \/ priv (pcof w s) <> [] -> False).
  { intros s Hs. destruct (le_lt_dec (length (thr w)) s) as [Hoob|Hls].
    - unfold pcof in Hs. rewrite (get_oob w s Hoob) in Hs. simpl in Hs. destruct Hs as [(k & o & E)|E]; [discriminate | now apply E].
    - destruct Hs as [(k & o & E)|E]; [apply (VV_moves w s k o CNormal Hls E) | apply (waker_moves w s CNormal Hls E)]; apply Hblk. }
  destruct (lc w t) as [| |s| |] eqn:El.
  - exfalso. destruct (W2 t l Hpc El) as [A|[A|(s & k & _ & B)]].
    + specialize (Hblk t CNormal). simpl in Hblk. unfold step_thr in Hblk.
      assert (Eb : begin_op w t = w) by (unfold begin_op; unfold pcof in Hpc; rewrite Hpc; reflexivity).
      rewrite Eb in Hblk. unfold step_core in Hblk. unfold pcof in Hpc. rewrite Hpc in Hblk. unfold st_WSem in Hblk.
      apply Z.ltb_lt in A. rewrite A in Hblk. simpl in Hblk.
      apply (f_equal (fun x => t_pc (get x t))) in Hblk. rewrite pc_set_pc in Hblk by (simpl; assumption).
      rewrite Hpc in Hblk. destruct (nsync_cv_wait_with_deadline_generic_load4_guard _); discriminate.
    + rewrite Howed in A. lia.
    + apply (Hmove s). left. eauto.
  - now apply Q1.
  - exfalso. apply (Hmove s). right. intros E. specialize (HQ t s El). rewrite E in HQ. exact HQ.
  - exfalso. apply W3 in El. rewrite Hmq in El. exact El.
  - exfalso. apply W3 in El. rewrite Hmw in El. exact El.
Qed.

(* ================================================================== *)
(* Layer N: the same for the sleepers of nsync_wait_n on the cv         *)
(* ================================================================== *)
(* the pcs of an nsync_wait_n call between the store waiting = 1 of cv_enqueue and cv_dequeue *)
Definition npc (p : pc) : option nl :=
  match p with NEnqRel n | NMuRel n | NReady n | NSem n => Some n | _ => None end.
Definition posted_n (w : world) (t : nat) : Prop := 0 < sem w t \/ exists s k, pcof w s = VV k t.

Definition NInv (w : world) : Prop :=
  (forall t n, npc (pcof w t) = Some n -> lc w (n_r n) = PNone -> waiting (recs w (n_r n)) = 0) /\
  (forall t n, pcof w t = NSem n -> lc w (n_r n) = PNone -> posted_n w t).

Lemma npc_after_todo k : npc (after_todo k) = None.
Proof. unfold after_todo. destruct (k_todo k); reflexivity. Qed.
Lemma npc_enter_wake_loop k : npc (enter_wake_loop k) = None.
Proof. unfold enter_wake_loop. destruct (k_wake k); reflexivity. Qed.
Lemma npc_pc_nl p n : npc p = Some n -> pc_nl p = Some n.
Proof. destruct p; simpl; congruence. Qed.

Section NStep.
  Variables (w : world) (t : nat) (c : choice).
  Hypothesis HI : Inv w.
  Hypothesis HW : WInv w.
  Hypothesis HN : NInv w.
  Hypothesis HQ : Q2c w.
  Hypothesis Hlt : (t < length (thr w))%nat.
  Local Notation w' := (fst (step_core w t c)).

  Lemma N_self n' : npc (pcof w' t) = Some n' ->
    (lc w' (n_r n') = PNone -> waiting (recs w' (n_r n')) = 0) /\
    (pcof w' t = NSem n' -> lc w' (n_r n') = PNone -> posted_n w' t).
  Proof.
    destruct HI as (_ & _ & HS & HP). destruct HN as (N1 & N2). pose proof HP as (_ & HT). destruct (HT t) as (_ & Hnw & _).
    pose proof (N1 t) as N1t. pose proof (N2 t) as N2t. unfold pcof, lc in *.
    step_cases w t; try rewrite Hpc in *; simpl fst; pc_nf; try rewrite Hpc; simpl npc;
      rewrite ?npc_after_todo, ?npc_enter_wake_loop; try discriminate.
    all: autorewrite with getdb; try rewrite Hpc; simpl npc; try discriminate.
    all: try match goal with H : _ = SpLoad _ ?k |- _ => is_var k; destruct k; simpl npc; try discriminate end.
    all: try match goal with H : _ = SpCas ?k _ |- _ => is_var k; destruct k; simpl npc; try discriminate end.
    all: intros [= <-]; simpl n_r; simpl recs; simpl in N1t, N2t.
    all: unfold nw_inv in Hnw; simpl in Hnw; unfold lc in Hnw.
    all: rewrite ?fupd_same; simpl loc; simpl waiting.
    all: (split; [try (apply (N1t _ eq_refl)) | try (intros [=]; fail); try (intros _; apply (N2t _ eq_refl))]).
    all: try (intros Hl; exfalso; destruct Hnw as (_ & A & _); congruence).
    (* NReady -> NSem: waiting was read non-zero *)
    all: intros _ Hl; exfalso; zbool; specialize (N1t _ eq_refl Hl); congruence.
  Qed.

  Lemma posted_n_keep t' : t' <> t -> posted_n w t' -> posted_n w' t'.
  Proof.
    intros Hne Hp. destruct HW as (W0 & _). pose proof (step_core_sem w t c) as (_ & _ & _ & _ & Hs).
    destruct Hp as [Hp|(s & k & Hs2)].
    - left. specialize (Hs t' Hne). lia.
    - destruct (Nat.eq_dec s t) as [->|Hst].
      + left. rewrite (VV_posts w t k t' c Hlt Hs2). destruct (W0 t'). lia.
      + right. exists s, k. unfold pcof in *. now rewrite step_core_other by congruence.
  Qed.

  Lemma N_other t' n : t' <> t -> npc (pcof w' t') = Some n ->
    (lc w' (n_r n) = PNone -> waiting (recs w' (n_r n)) = 0) /\
    (pcof w' t' = NSem n -> lc w' (n_r n) = PNone -> posted_n w' t').
  Proof.
    intros Hne. destruct HI as (_ & HA & HS & HP). destruct HN as (N1 & N2).
    assert (Epc : pcof w' t' = pcof w t') by (unfold pcof; now rewrite step_core_other by congruence).
    rewrite Epc. intros Hn. pose proof HS as (S1 & S2 & S3 & S4).
    destruct (S4 t' n (npc_pc_nl _ _ Hn)) as (Hb & Ho & Hm).
    assert (Hno : ~ own w t (n_r n)).
    { intros [E|(n2 & Hn2 & E)]; [lia|]. destruct (S4 t n2 Hn2) as (_ & Ho2 & _). rewrite <- E in Ho2. congruence. }
    unfold lc.
    destruct (step_core_other_rec w t c (n_r n) HP HS Hlt Hno) as [(E & _)|[(El & E & _)|[(Hin & E & _)|(El & _ & _ & [(E & _)|E])]]];
      cbv zeta in E; rewrite E; simpl.
    - split; [now apply (N1 t')|]. intros Hpc Hl. apply posted_n_keep; [assumption | now apply (N2 t' n)].
    - split; intros; discriminate.
    - split; [now apply (N1 t')|]. intros Hpc Hl. apply posted_n_keep; [assumption | now apply (N2 t' n)].
    - split; intros; discriminate.
    - split; [reflexivity|]. intros Hpc _. right. exists t.
      destruct (private_fate_step w t c (n_r n) HP Hlt (HQ (n_r n) t El)) as [Hin|[(_ & _ & k & Hk)|(_ & _ & _ & Hmu)]].
      + exfalso. pose proof (PInv_step_core w t c HP HA HS Hlt) as ((_ & _ & Q2' & _) & _).
        destruct (Q2' t) as (_ & B). specialize (B (n_r n) Hin). unfold lc in B. cbv zeta in B. rewrite E in B. discriminate.
      + exists k. now rewrite Ho in Hk.
      + exfalso. unfold lc in Hmu. cbv zeta in Hmu. rewrite E in Hmu. discriminate.
  Qed.
End NStep.

Lemma NInv_step_core w t c : Inv w -> Q2c w -> WInv w -> NInv w -> (t < length (thr w))%nat -> NInv (fst (step_core w t c)).
Proof.
  intros HI HQ HW HN Hlt. split.
  - intros t' n Hn. destruct (Nat.eq_dec t' t) as [->|Hne];
      [exact (proj1 (N_self w t c HI HN Hlt n Hn)) | exact (proj1 (N_other w t c HI HW HN HQ Hlt t' n Hne Hn))].
  - intros t' n Hpc. assert (Hn : npc (pcof (fst (step_core w t c)) t') = Some n) by (rewrite Hpc; reflexivity).
    destruct (Nat.eq_dec t' t) as [->|Hne];
      [exact (proj2 (N_self w t c HI HN Hlt n Hn) Hpc) | exact (proj2 (N_other w t c HI HW HN HQ Hlt t' n Hne Hn) Hpc)].
Qed.

(* steps that leave the threads, the records of nsync_wait_n calls and the cv-side pcs alone *)
Lemma NInv_env w w' :
  NInv w -> SInv w -> (forall t, get w' t = get w t) ->
  (forall u, pcof w u <> Idle -> 0 < sem w u -> 0 < sem w' u) ->
  (forall r, is_mucv (recs w r) = false -> recs w' r = recs w r) -> NInv w'.
Proof.
  intros (N1 & N2) (_ & _ & _ & S4) Hget Hsem Hrec.
  assert (Hpc : forall s, pcof w' s = pcof w s) by (intros; unfold pcof; now rewrite Hget).
  split.
  - intros t n. rewrite Hpc. intros Hn. destruct (S4 t n (npc_pc_nl _ _ Hn)) as (_ & _ & Hm). unfold lc. rewrite (Hrec _ Hm). now apply (N1 t).
  - intros t n. rewrite Hpc. intros Hp. destruct (S4 t n ltac:(unfold pcof in Hp; rewrite Hp; reflexivity)) as (_ & _ & Hm).
    unfold lc. rewrite (Hrec _ Hm). intros Hl. destruct (N2 t n Hp Hl) as [A|(s & k & A)].
    + left. apply Hsem; [rewrite Hp; discriminate | exact A].
    + right. exists s, k. now rewrite Hpc.
Qed.

Lemma NInv_begin_op w t : Inv w -> NInv w -> NInv (begin_op w t).
Proof.
  intros (_ & _ & HS & HP) (N1 & N2). pose proof HS as (S1 & _ & _ & S4).
  pose proof (begin_op_misc w t) as (_ & _ & _ & _ & _ & Hrec & _ & _ & _ & _ & _ & _ & Hsem & _).
  assert (Hpcs : forall s, pcof (begin_op w t) s = pcof w s \/
                           (pcof w s = Idle /\ npc (pcof (begin_op w t) s) = None /\ forall k o, pcof (begin_op w t) s <> VV k o)).
  { intros s. destruct (Nat.eq_dec s t) as [->|Hne]; [|left; unfold pcof; now rewrite begin_op_other by congruence].
    destruct (begin_op_pc w t) as [E|(Hpc & _ & o & rest & _ & E)]; [left; unfold pcof; now rewrite E|].
    right. unfold pcof. rewrite E. split; [exact Hpc|]. destruct o; simpl; try destruct (held (get w t)); split; intros; (reflexivity || discriminate). }
  assert (Hr : forall s n, npc (pcof w s) = Some n -> recs (begin_op w t) (n_r n) = recs w (n_r n)).
  { intros s n Hn. apply Hrec. destruct (S4 s n (npc_pc_nl _ _ Hn)) as (Hb & _). lia. }
  split.
  - intros s n Hn. destruct (Hpcs s) as [E|(_ & E & _)]; [|congruence]. rewrite E in Hn. unfold lc. rewrite (Hr s n Hn). now apply (N1 s).
  - intros s n Hp. destruct (Hpcs s) as [E|(_ & E & _)]; [|rewrite Hp in E; discriminate]. rewrite E in Hp.
    unfold lc. rewrite (Hr s n ltac:(rewrite Hp; reflexivity)). intros Hl. unfold posted_n. rewrite Hsem.
    destruct (N2 s n Hp Hl) as [A|(s' & k & A)]; [now left|]. right. exists s', k.
    destruct (Hpcs s') as [E'|(E' & _)]; [now rewrite E' | rewrite E' in A; discriminate].
Qed.

Lemma NInv_step w a c : Inv w -> Q2c w -> WInv w -> NInv w -> NInv (fst (step w a c)).
Proof.
  intros HI HQ HW HN. pose proof HI as (HT & HA & HS & HP). pose proof HP as ((_ & _ & _ & Q3 & Q4 & _) & _).
  destruct a as [t| | | | | | | |].
  { simpl. destruct (le_lt_dec (length (thr w)) t) as [Hoob|Hlt]; [now rewrite step_thr_oob|].
    unfold step_thr. apply NInv_step_core.
    - split; [now apply TInv_begin_op|]. split; [now apply AInv_begin_op|]. split; [now apply SInv_begin_op | now apply PInv_begin_op].
    - now apply Q2c_begin_op.
    - now apply WInv_begin_op.
    - now apply NInv_begin_op.
    - now rewrite (proj1 (proj2 (proj2 (begin_op_misc w t)))). }
  - (* Tick *) simpl. destruct (0 <=? dt); [|exact HN]. apply (NInv_env w); auto.
  - (* Notify *) apply (NInv_env w); auto.
  - (* MuEnv *) simpl. destruct (match mspin w with Some _ => _ | None => true end); [|exact HN]. apply (NInv_env w); auto.
  - (* MuDeq *) simpl. destruct (mspin w) as [?|]; [exact HN|]. destruct (mem_id r (muq w)) eqn:Hm; [|exact HN]. apply mem_id_In in Hm. destruct (Q3 r Hm) as (_ & B).
    apply (NInv_env w); auto. intros r0 Hr0. simpl. apply fupd_other. congruence.
  - (* MuWakeSt *) simpl. destruct (mem_id r (mwake w)) eqn:Hm; [|exact HN]. apply mem_id_In in Hm. destruct (Q4 r Hm) as (_ & B).
    apply (NInv_env w); auto. intros r0 Hr0. simpl. apply fupd_other. congruence.
  - (* EnvV *) simpl. apply (NInv_env w); auto.
    + intros t0. destruct (0 <? owed w t); reflexivity.
    + intros u _ Hu. destruct (0 <? owed w t); simpl; unfold fupd; destruct (Nat.eqb_spec u t); subst; lia.
    + intros r0 _. destruct (0 <? owed w t); reflexivity.
  - (* EnvRc *) simpl. destruct ((r <? length (thr w))%nat && is_mucv (recs w r) && rc_env_ok (t_pc (get w (owner (recs w r)))) && negb (mem_id r (cvq w))) eqn:Hg; [|exact HN].
    apply andb_true_iff in Hg. destruct Hg as (Hg & _). apply andb_true_iff in Hg. destruct Hg as (Hg & _).
    apply andb_true_iff in Hg. destruct Hg as (_ & Hmu).
    apply (NInv_env w); auto. intros r0 Hr0. simpl. apply fupd_other. congruence.
  - (* EnvP *) simpl. destruct (t_pc (get w t)) eqn:Hpc; try exact HN. destruct (0 <? sem w t) eqn:Es; [|exact HN].
    apply (NInv_env w); auto. intros u Hu. simpl. unfold fupd. destruct (Nat.eqb_spec u t) as [->|]; [elim Hu; exact Hpc | auto].
Qed.

Lemma NInv_run progs clock0 exp sched : NInv (run (init progs clock0 exp) sched).
Proof.
  induction sched as [|[a c] s IH] using rev_ind.
  - split; intros t n; unfold pcof, run; simpl fold_left; rewrite (proj1 (get_init progs clock0 exp t)); discriminate.
  - rewrite run_snoc. apply NInv_step; [apply Inv_run | apply Q2c_run | apply WInv_run | exact IH].
Qed.

(* a thread asleep in the P of nsync_wait_n whose record (on the cv) is no longer on the cv queue: a waker still has it
   on its to_wake_list, or its waiting flag is clear and the thread's semaphore is positive or a waker is at the V
   for it (records of nsync_wait_n calls are never handed to the mutex queue) *)
Lemma no_lost_wakeup_waitn_reachable progs clock0 exp sched :
  let w := run (init progs clock0 exp) sched in
  forall t n, pcof w t = NSem n -> ~ In (n_r n) (cvq w) ->
  (exists s, s <> t /\ lc w (n_r n) = PPriv s /\ In (n_r n) (priv (pcof w s))) \/
  (lc w (n_r n) = PNone /\ waiting (recs w (n_r n)) = 0 /\ (0 < sem w t \/ exists s k, pcof w s = VV k t)).
Proof.
  cbv zeta. set (w := run (init progs clock0 exp) sched). intros t n Hpc Hnq.
  pose proof (Inv_run progs clock0 exp sched) as (_ & _ & HS & HP). fold w in HS, HP.
  pose proof (Q2c_run progs clock0 exp sched) as HQ. fold w in HQ.
  pose proof (WInv_run progs clock0 exp sched) as (_ & _ & _ & W3). fold w in W3.
  pose proof (NInv_run progs clock0 exp sched) as (N1 & N2). fold w in N1, N2.
  pose proof HP as ((_ & (_ & Q1) & Q2 & Q3 & Q4 & _) & HT). destruct HS as (_ & _ & _ & S4).
  destruct (S4 t n ltac:(unfold pcof in Hpc; rewrite Hpc; reflexivity)) as (Hb & Ho & Hm).
  destruct (HT t) as (_ & Hnw & _). rewrite Hpc in Hnw. unfold nw_inv in Hnw. simpl in Hnw. destruct Hnw as (_ & _ & Hd).
  destruct (lc w (n_r n)) as [| |s| |] eqn:El.
  - right. split; [reflexivity|]. split; [apply (N1 t n); [rewrite Hpc; reflexivity | exact El]|]. now apply (N2 t n).
  - elim Hnq. now apply Q1.
  - left. exists s. split; [|split; [reflexivity | now apply HQ]].
    intros ->. destruct (Q2 t) as (_ & B). specialize (HQ _ _ El). rewrite Hpc in HQ. exact HQ.
  - exfalso. apply W3 in El. destruct (Q3 _ El). congruence.
  - exfalso. apply W3 in El. destruct (Q4 _ El). congruence.
Qed.

(* progress for those sleepers: in a quiescent world every thread asleep in nsync_wait_n's P still has its record on the
   cv queue *)
Lemma no_stuck_waitn_reachable progs clock0 exp sched :
  let w := run (init progs clock0 exp) sched in
  (forall t c, fst (step w (Thr t) c) = w) ->
  forall t n, (t < length (thr w))%nat -> pcof w t = NSem n -> In (n_r n) (cvq w).
Proof.
  cbv zeta. set (w := run (init progs clock0 exp) sched). intros Hblk t n Hlt Hpc.
  destruct (in_dec Nat.eq_dec (n_r n) (cvq w)) as [Hin|Hnin]; [exact Hin|]. exfalso.
  assert (Hmove : forall s, (exists k o, pcof w s = VV k o) \/ priv (pcof w s) <> [] -> False).
  { intros s Hs. destruct (le_lt_dec (length (thr w)) s) as [Hoob|Hls].
    - unfold pcof in Hs. rewrite (get_oob w s Hoob) in Hs. simpl in Hs. destruct Hs as [(k & o & E)|E]; [discriminate | now apply E].
    - destruct Hs as [(k & o & E)|E]; [apply (VV_moves w s k o CNormal Hls E) | apply (waker_moves w s CNormal Hls E)]; apply Hblk. }
  destruct (no_lost_wakeup_waitn_reachable progs clock0 exp sched t n Hpc Hnin) as [(s & _ & _ & Hin)|(_ & _ & [A|(s & k & A)])].
  - apply (Hmove s). right. intros E. fold w in Hin. rewrite E in Hin. exact Hin.
  - specialize (Hblk t CNormal). simpl in Hblk. unfold step_thr in Hblk.
    assert (Eb : begin_op w t = w) by (unfold begin_op; unfold pcof in Hpc; rewrite Hpc; reflexivity).
    rewrite Eb in Hblk. unfold step_core in Hblk. unfold pcof in Hpc. rewrite Hpc in Hblk. unfold st_NSem in Hblk.
    fold w in A. apply Z.ltb_lt in A. rewrite A in Hblk. simpl in Hblk.
    apply (f_equal (fun x => t_pc (get x t))) in Hblk. rewrite pc_set_pc in Hblk by (simpl; assumption). rewrite Hpc in Hblk. discriminate.
  - apply (Hmove s). left. eauto.
Qed.
