(* MuWaitWorld9: layer HB of the hand-off invariant of MuWaitWorld7 (ownership of the flag bits MU_LONG_WAIT,
   MU_WRITER_WAITING, MU_WAITING; what the scan of nsync_mu_unlock_slow_ knows) holds of every reachable world of
   Model/MuWaitModel.v.

   HB as stated in MuWaitWorld7 is not inductive by itself; the invariant proved here is HBX = HB + four extras:
     (1) the witness of MU_WRITER_WAITING in set_on_release (scanB / finB, last clause) is unconditional when the
         scan released the mutex early (late_release_mu = 0)                                  [scanX, finX];
     (2) MU_WRITER_WAITING in set_on_release implies wake_type <> NULL                         [scanX];
     (3) at the pcs of nsync_remove_from_mu_queue_ called from the scan, the waiter being removed is wakeable
         (so it is not the witness)                                                            [rmX];
     (4) inside nsync_mu_wait_with_deadline, from "Prepare to wait" to the end of the iteration, the waiter's
         condition field is not NULL (so a waiter with a NULL condition on a list is inside nsync_mu_lock_slow_) [h_wc].
   HBX_HB : HBX w -> HB w.

   Part 1  pure: what inner / end_inner_set / round_end / finalize / scan_from / after_inner do to the scan knowledge.
   Part 2  HBX; the generic step lemmas HBX_intro (word written: fl old S C new) and HBX_intro0 (word unchanged);
           HBX_ext, HBX_quiet (begin_op), HBX_setc, HBX_scan_finish; the witness of MU_WRITER_WAITING becomes a claimant.
   Part 3  HBX_step_thr (one pass over the pcs), HBX_step, HBX_init, HBX_reachable, HB_reachable. *)
From NsyncBase Require Import CSem.
From NsyncGen Require Import Consts Sites.
From NsyncModel Require Import MuWaitModel MuWaitSpec.
From NsyncProof Require Import WordView MuWaitProof MuWaitRings MuWaitBits MuWaitWorld1 MuWaitWorld2 MuWaitWorld3 MuWaitWorld4
  MuWaitWorld5 MuWaitWorld6 MuWaitFlags MuWaitWorld7 MuWaitWorld8.
From Coq Require Import List ZArith Bool Lia PeanoNat.
Import ListNotations.
Local Open Scope Z_scope.

(* ================= the strengthened scan knowledge ================= *)
Definition scanX (w : world) (u : uscan) : Prop :=
  tb 5 (u_set u) = true ->
  u_wty u <> None /\
  exists p, In p (u_done u ++ u_new u) /\ wtype w p = W /\ wtrue (wcond w) (pst w) p = true /\
            (u_late u = 0 -> wcond w p = None).
Definition scanF (w : world) (u : uscan) : Prop :=
  uset_ok (u_set u) /\ (u_wake u = [] <-> u_wty u = None) /\ (u_wty u = None -> tb 7 (u_set u) = true) /\ scanX w u.
Definition rmX (w : world) (u : uscan) : Prop := forall e tl, u_rest u = e :: tl -> wakeable w u e = true.
Definition finX (w : world) (f : usl) : Prop :=
  tb 5 (set_on f) = true -> tb 5 (clear_on f) = false ->
  exists p, In p (queue w) /\ wtype w p = W /\ wtrue (wcond w) (pst w) p = true /\ (late f = 0 -> wcond w p = None).
Definition finF (w : world) (f : usl) : Prop :=
  tb 2 (set_on f) = false /\ tb 3 (set_on f) = false /\ tb 6 (set_on f) = false /\ tb 6 (clear_on f) = false /\
  (wake f = [] -> tb 7 (set_on f) = true /\ tb 3 (clear_on f) = true) /\
  (tb 2 (clear_on f) = true -> queue w = []) /\
  tb 5 (clear_on f) = tb 2 (clear_on f) /\
  (tb 7 (set_on f) = true -> tb 7 (clear_on f) = true -> tb 2 (clear_on f) = true) /\
  finX w f.
Definition PB (w : world) (p : pc) : Prop :=
  (forall k u, sk_of p = Some (k, u) -> scanF w u /\ (k = SRm -> rmX w u)) /\
  (forall f, fin_of p = Some f -> finF w f).

Lemma scanF_scanB w u : scanF w u -> scanB w u.
Proof.
  intros (A & B & C & D). split; [exact A|]. split; [exact B|]. split; [exact C|].
  intros H5. destruct (D H5) as (_ & p & P1 & P2 & P3 & _). exists p. auto.
Qed.
Lemma finF_finB w f : finF w f -> finB w f.
Proof.
  intros (A1 & A2 & A3 & A4 & A5 & A6 & A7 & A8 & A9). repeat (split; [assumption|]).
  intros H1 H2. destruct (A9 H1 H2) as (p & P1 & P2 & P3 & _). exists p. auto.
Qed.

Lemma scanF_ext w w' u : wtype w' = wtype w -> wcond w' = wcond w -> pst w' = pst w -> scanF w u -> scanF w' u.
Proof. intros E1 E2 E3 (A & B & C & D). unfold scanF, scanX. rewrite E1, E2, E3. auto. Qed.
Lemma rmX_ext w w' u : wtype w' = wtype w -> rmX w u -> rmX w' u.
Proof. intros E H e tl Er. specialize (H e tl Er). unfold wakeable in *. rewrite E. exact H. Qed.
Lemma finF_ext w w' f : wtype w' = wtype w -> wcond w' = wcond w -> pst w' = pst w -> queue w' = queue w -> finF w f -> finF w' f.
Proof. intros E1 E2 E3 E4 H. unfold finF, finX in *. rewrite E1, E2, E3, E4. exact H. Qed.
Lemma PB_ext w w' p : wtype w' = wtype w -> wcond w' = wcond w -> pst w' = pst w -> queue w' = queue w -> PB w p -> PB w' p.
Proof.
  intros E1 E2 E3 E4 [A B]. split.
  - intros k u E. destruct (A k u E) as [A1 A2]. split; [eapply scanF_ext; eauto | intros K; eapply rmX_ext; eauto].
  - intros f E. eapply finF_ext; eauto.
Qed.
Lemma PB_none w p : sk_of p = None -> fin_of p = None -> PB w p.
Proof. intros A B. split; [intros k u E; congruence | intros f E; congruence]. Qed.
(* a pc with the same scan locals *)
Lemma PB_same w p p' : sk_of p' = sk_of p -> fin_of p' = fin_of p -> PB w p -> PB w p'.
Proof. intros E1 E2 [A B]. split; [rewrite E1; exact A | rewrite E2; exact B]. Qed.

(* ================= pure part: what inner / round_end / finalize / scan_from / after_inner return ================= *)
Lemma inner_F w m : forall rest u, scanF w u -> (forall x, In x rest -> In x (u_new u)) ->
  match inner w m u rest with
  | InPc p => PB w p
  | InEnd u' => scanF w u' /\ (u_rest u' <> [] -> u_wty u' = Some W)
  end.
Proof.
  induction rest as [|p tl IH]; intros u HF Hsub; cbn [inner].
  - split; [exact HF | intros N; exfalso; apply N; reflexivity].
  - destruct (u_wty u) as [[|]|] eqn:Ew; [split; [exact HF | intros _; exact Ew] | |];
    (destruct (wcond w p) as [c|] eqn:Ec;
     [ destruct (u_test u);
       [ split; [intros k u0 E; injection E as <- <-; split; [exact HF | discriminate] | intros f E; discriminate E]
       | apply PB_none; reflexivity ]
     | destruct (wakeable w u p) eqn:Wk;
       [ split; [| intros f E; discriminate E];
         intros k u0 E; injection E as <- <-; split; [exact HF|];
         intros _ e tl0 Er; cbn [u_rest set_rest] in Er; injection Er as <- <-; exact Wk
       | assert (Hw : u_wty u <> None /\ wtype w p = W)
           by (unfold wakeable in Wk; rewrite Ew in Wk;
               first [discriminate Wk | split; [rewrite Ew; discriminate | destruct (wtype w p); [reflexivity | discriminate Wk]]]);
         destruct Hw as [Hw1 Hw2]; destruct HF as (A & B & C & D);
         apply IH;
         [ split; [apply uset_ok_set_ww; exact A|]; split; [exact B|]; split; [intros N; destruct (Hw1 N)|];
           intros _; split; [exact Hw1|]; exists p;
           split; [apply in_or_app; right; apply Hsub; left; reflexivity|];
           split; [exact Hw2|]; split; [unfold wtrue; rewrite Ec; reflexivity | intros _; exact Ec]
         | intros x Hx; apply Hsub; right; exact Hx ] ] ]).
Qed.

Lemma end_inner_F w u : scanF w u -> (u_rest u <> [] -> u_wty u = Some W) -> scanF w (end_inner_set u).
Proof.
  intros (A & B & C & D) Hr. unfold end_inner_set. destruct (u_rest u) eqn:E; [exact (conj A (conj B (conj C D)))|].
  specialize (Hr ltac:(discriminate)).
  split; [apply uset_ok_clear_af; exact A|]. split; [exact B|]. split; [intros N; cbn [u_wty set_uset] in N; congruence|].
  intros H5. cbn [u_set set_uset] in H5. rewrite clear_af_tb5 in H5. exact (D H5).
Qed.

Lemma round_end_F w u : scanF w u -> scanF (fst (round_end w u)) (snd (round_end w u)).
Proof.
  intros (A & B & C & D). destruct (round_end_fields w u) as (_ & _ & E3 & _ & _ & _ & E7 & _ & E9 & _ & _ & E12).
  rewrite E12. unfold scanF, scanX. rewrite E3, E7, E9. cbn [u_set u_wake u_wty u_done u_new u_late].
  split; [exact A|]. split; [exact B|]. split; [exact C|].
  intros H5. destruct (D H5) as (D1 & p & P1 & P2). split; [exact D1|]. exists p. split; [apply in_or_app; left; exact P1 | exact P2].
Qed.

Lemma finalize_F w m u : scanF w u -> u_new u = [] -> PB (fst (finalize w m u)) (snd (finalize w m u)).
Proof.
  intros (A & B & C & D) En. destruct (finalize_flags_gen w m u) as (f & Ef & F1 & F2 & F3 & F4 & F5 & F6 & _ & F8 & F9).
  rewrite Ef. cbn [fst snd]. split; [intros k u0 E; discriminate E|]. intros f0 E. injection E as <-.
  destruct A as (A2 & A3 & _ & A6).
  unfold finF. rewrite F2. split; [exact A2|]. split; [exact A3|]. split; [exact A6|]. split; [exact F8|].
  split; [intros Hw; rewrite F1 in Hw; split; [apply C, B, Hw | rewrite F4, Hw; reflexivity]|].
  split; [intros H2; rewrite F5 in H2; cbn [queue set_queue]; destruct (u_done u); [reflexivity | discriminate H2]|].
  split; [exact F6|].
  split; [intros H7 H7'; rewrite F9, H7 in H7'; exact H7'|].
  intros H5 H5'. unfold finX in *. rewrite F2 in H5. destruct (D H5) as (_ & p & P1 & P2 & P3 & P4).
  exists p. cbn [queue set_queue wtype wcond pst]. rewrite En, app_nil_r in P1. rewrite F3. auto.
Qed.

Lemma scan_from_F m : forall fuel w u, scanF w u -> PB (fst (scan_from fuel w m u)) (snd (scan_from fuel w m u)).
Proof.
  induction fuel as [|f IH]; intros w u HF; cbn [scan_from].
  - apply PB_none; reflexivity.
  - destruct (u_new u) as [|p rest] eqn:En; [apply finalize_F; assumption|].
    set (t' := adjust_test w u p).
    set (u1 := mk_us t' (u_late u) (u_done u) (p :: rest) (p :: rest) (u_wake u) (u_wty u) (u_set u)).
    assert (H1 : scanF w u1).
    { destruct HF as (A & B & C & D). split; [exact A|]. split; [exact B|]. split; [exact C|].
      intros H5. destruct (D H5) as (D1 & q & Q1 & Q2). split; [exact D1|]. exists q. rewrite En in Q1. auto. }
    destruct t'.
    + cbn [fst snd]. split; [| intros f0 E; discriminate E]. intros k u0 E. injection E as <- <-. split; [exact H1 | discriminate].
    + pose proof (inner_F w m (p :: rest) u1 H1 (fun x Hx => Hx)) as K.
      destruct (inner w m u1 (p :: rest)) as [p0|u2]; [exact K|].
      destruct K as [K1 K2]. pose proof (round_end_F w _ (end_inner_F w u2 K1 K2)) as R.
      destruct (round_end w (end_inner_set u2)) as [w2 u3]. cbn [fst snd] in R. apply IH. exact R.
Qed.

Lemma after_inner_F w m r :
  match r with InPc p => PB w p | InEnd u => scanF w u /\ (u_rest u <> [] -> u_wty u = Some W) end ->
  PB (fst (after_inner w m r)) (snd (after_inner w m r)).
Proof.
  destruct r as [p|u]; cbn [after_inner]; [auto|]. intros [K1 K2].
  pose proof (end_inner_F w u K1 K2) as E1.
  destruct (u_test (end_inner_set u)).
  - cbn [fst snd]. split; [| intros f E; discriminate E]. intros k u0 E. injection E as <- <-. split; [exact E1 | discriminate].
  - pose proof (round_end_F w _ E1) as R. destruct (round_end w (end_inner_set u)) as [w2 u3]. cbn [fst snd] in R.
    apply scan_from_F. exact R.
Qed.

Lemma inner_after_F w m u rest : scanF w u -> (forall x, In x rest -> In x (u_new u)) ->
  PB (fst (after_inner w m (inner w m u rest))) (snd (after_inner w m (inner w m u rest))).
Proof. intros H Hs. apply after_inner_F. apply inner_F; assumption. Qed.

(* ================= the invariant ================= *)
(* the pc / locals part of c3 *)
Definition c3b (p : pc) (mx : option mwl) : bool :=
  mq_of p mx && match mx with Some x => mode_eqb (mw_mode x) W && negb (mw_have x) | None => false end.

Lemma c3_iff w t : c3 w t <->
  c3b (P w t) (MX w t) = true /\ (waiting w t = false \/ (nowc w /\ wtrue (wcond w) (pst w) t = true)).
Proof.
  unfold c3, c3b. split.
  - intros (x & E & M & Q & H & D). rewrite E, Q, M, H. split; [reflexivity | exact D].
  - intros [B D]. destruct (MX w t) as [x|] eqn:E; [| rewrite andb_false_r in B; discriminate B].
    apply andb_true_iff in B. destruct B as [Q B]. apply andb_true_iff in B. destruct B as [M H]. exists x.
    split; [reflexivity|]. split; [destruct (mw_mode x); [reflexivity | discriminate M]|]. split; [exact Q|].
    split; [apply negb_true_iff in H; exact H | exact D].
Qed.

Record HBX (w : world) : Prop := mk_HBX {
  h_lsl : forall x m l, lsl_of (P w x) = Some (m, l) -> lslB m l;
  h_lw : tb 6 (word w) = true -> exists T, lwo (P w T) = true;
  h_ww : tb 5 (word w) = true -> exists c, claim w c;
  h_wt : (queue w <> [] \/ anyls w) -> tb 2 (word w) = true;
  h_swt : forall t, scl (P w t) = true -> tb 2 (word w) = true;
  h_pb : forall t, PB w (P w t);
  h_wc : forall t x, MX w t = Some x -> (pe_pc (P w t) || mcq (P w t)) = true -> wcond w t <> None }.

Lemma HBX_HB w : HBX w -> HB w.
Proof.
  intros [A B C D E F G]. constructor; auto.
  - intros t k u Es. apply scanF_scanB. exact (proj1 (proj1 (F t) k u Es)).
  - intros t f Ef. apply finF_finB. exact (proj2 (F t) f Ef).
Qed.

(* the scan knowledge of a thread y under a step of another thread *)
Lemma PB_frame w w' y : L1 w -> PB w (P w y) ->
  (forall x, member (queue w) (winfo w) x -> wcond w' x = wcond w x /\ wtype w' x = wtype w x) -> pst w' = pst w ->
  (forall f, fin_of (P w y) = Some f -> queue w' = queue w) -> PB w' (P w y).
Proof.
  intros HL [A B] Hm Hp Hq. split.
  - intros k u E. destruct (A k u E) as [(A1 & A2 & A3 & A4) A5].
    assert (M : forall x, In x (u_done u ++ u_new u) -> member (queue w) (winfo w) x).
    { intros x Hx. apply (sk_members w y k u); [unfold winfo, info_of; cbn [i_sk]; exact E | exact Hx]. }
    split.
    + split; [exact A1|]. split; [exact A2|]. split; [exact A3|]. intros H5. destruct (A4 H5) as (D1 & p & P1 & P2 & P3 & P4).
      destruct (Hm p (M p P1)) as [Ec Et]. split; [exact D1|]. exists p. split; [exact P1|]. split; [rewrite Et; exact P2|].
      split; [unfold wtrue in *; rewrite Ec, Hp; exact P3 | intros L; rewrite Ec; exact (P4 L)].
    + intros -> e tl Er. specialize (A5 eq_refl e tl Er). unfold wakeable in *.
      destruct (a_r2 _ _ _ _ _ _ _ HL y SRm u) as (_ & _ & [pre Epre] & _); [unfold winfo, info_of; cbn [i_sk]; exact E|].
      assert (He : In e (u_done u ++ u_new u)) by (apply in_or_app; right; rewrite Epre, Er; apply in_elt).
      rewrite (proj2 (Hm e (M e He))). exact A5.
  - intros f E. specialize (B f E). specialize (Hq f E). destruct B as (B1 & B2 & B3 & B4 & B5 & B6 & B7 & B8 & B9).
    unfold finF, finX. rewrite Hq. repeat (split; [assumption|]).
    intros H1 H2. destruct (B9 H1 H2) as (p & P1 & P2 & P3 & P4). destruct (Hm p (or_introl P1)) as [Ec Et].
    exists p. rewrite Et. unfold wtrue in *. rewrite Ec, Hp. auto.
Qed.

(* a claimant other than the stepping thread *)
Lemma claim_frame w w' t s' c : (forall y, y <> t -> get w' y = get w y) -> get w' t = s' -> c <> t ->
  (forall x, x <> t -> wcond w' x = wcond w x) -> pst w' = pst w ->
  (forall y, y <> t -> waiting w y = false -> waiting w' y = false) ->
  (nowc w -> wclient s' = false) ->
  claim w c -> claim w' c.
Proof.
  intros Ho Eg N Hwc Hp Hwa Hcl. unfold claim, c3, P, MX. rewrite (Ho c N).
  intros [A | [A | (x & E & M & Q & H & D)]]; auto. right; right. exists x. repeat (split; [assumption|]).
  destruct D as [D | [D T]]; [left; apply Hwa; assumption | right]. split.
  - intros y. destruct (Nat.eq_dec y t) as [->|Ny]; [rewrite Eg; apply Hcl; exact D | rewrite (Ho y Ny); apply D].
  - unfold wtrue in *. rewrite (Hwc c N), Hp. exact T.
Qed.

Lemma fl_refl x : fl x 0 0 x.
Proof.
  intros k Hk. change (tb k 0) with (Z.testbit 0 k). rewrite Z.bits_0. cbn [negb]. rewrite orb_false_r, andb_true_r. reflexivity.
Qed.

(* the generic step *)
Lemma HBX_intro w w' t s' S C :
  L1 w -> HBX w ->
  (forall y, y <> t -> get w' y = get w y) -> get w' t = s' ->
  fl (word w) S C (word w') ->
  (forall x, x <> t -> wcond w' x = wcond w x /\ wtype w' x = wtype w x) ->
  (member (queue w) (winfo w) t -> wcond w' t = wcond w t /\ wtype w' t = wtype w t) ->
  pst w' = pst w ->
  (forall y, y <> t -> waiting w y = false -> waiting w' y = false) ->
  (forall y f, y <> t -> fin_of (P w y) = Some f -> queue w' = queue w) ->
  (* MU_LONG_WAIT *)
  (tb 6 S = true -> lwo (t_pc s') = true) ->
  (lwo (P w t) = true -> lwo (t_pc s') = true \/ tb 6 C = true) ->
  (* MU_WRITER_WAITING *)
  (tb 5 S = true -> tb 5 C = false -> exists c, claim w' c) ->
  (tb 5 (word w) = true -> mts (P w t) = true -> mts (t_pc s') = true \/ tb 5 C = true) ->
  (tb 5 (word w) = true -> c2 (P w t) = true -> c2 (t_pc s') = true \/ tb 5 C = true) ->
  (tb 5 (word w) = true -> c3b (P w t) (MX w t) = true ->
     (mts (t_pc s') || c2 (t_pc s')) = true \/ tb 5 C = true \/
     (c3b (t_pc s') (mw s') = true /\ wcond w' t = wcond w t /\ (waiting w t = false -> waiting w' t = false))) ->
  (wclient s' = true -> wclient (get w t) = true \/ tb 5 C = true \/ (tb 5 S = false /\ tb 5 (word w) = false)) ->
  (* MU_WAITING *)
  (tb 2 C = true -> queue w' = [] /\ (forall y, lssw (P w' y) = false) /\ (forall y, scl (P w' y) = false)) ->
  (queue w' <> [] -> queue w <> [] \/ tb 2 (word w) = true \/ tb 2 S = true) ->
  (lssw (t_pc s') = true -> lssw (P w t) = true \/ tb 2 S = true) ->
  (scl (t_pc s') = true -> scl (P w t) = true \/ tb 2 (word w) = true \/ tb 2 S = true) ->
  (* the stepping thread's own clauses *)
  (forall m l, lsl_of (t_pc s') = Some (m, l) -> lslB m l) ->
  PB w' (t_pc s') ->
  (forall x, mw s' = Some x -> (pe_pc (t_pc s') || mcq (t_pc s')) = true -> wcond w' t <> None) ->
  HBX w'.
Proof.
  intros HL HX Ho Eg Hfl Hwc Hmem Hp Hwa Hfq L6s L6t W5s W5m W5c W5x W5w M2c M2q M2l M2s Olsl Opb Owc.
  assert (EP : forall y, y <> t -> P w' y = P w y) by (intros y N; unfold P; rewrite (Ho y N); reflexivity).
  assert (EM : forall y, y <> t -> MX w' y = MX w y) by (intros y N; unfold MX; rewrite (Ho y N); reflexivity).
  assert (EPt : P w' t = t_pc s') by (unfold P; rewrite Eg; reflexivity).
  assert (EMt : MX w' t = mw s') by (unfold MX; rewrite Eg; reflexivity).
  assert (Hmm : forall x, member (queue w) (winfo w) x -> wcond w' x = wcond w x /\ wtype w' x = wtype w x).
  { intros x Hx. destruct (Nat.eq_dec x t) as [->|N]; [apply Hmem; exact Hx | apply Hwc; exact N]. }
  constructor.
  - intros x m l E. destruct (Nat.eq_dec x t) as [->|N]; [rewrite EPt in E; eauto | rewrite (EP x N) in E; exact (h_lsl w HX x m l E)].
  - intros H6. rewrite (Hfl 6 ltac:(lia)) in H6. apply andb_true_iff in H6. destruct H6 as [A B]. apply negb_true_iff in B.
    apply orb_true_iff in A. destruct A as [A|A]; [| exists t; rewrite EPt; auto].
    destruct (h_lw w HX A) as [T HT]. destruct (Nat.eq_dec T t) as [->|N]; [| exists T; rewrite (EP T N); exact HT].
    exists t. rewrite EPt. destruct (L6t HT) as [X|X]; [exact X | congruence].
  - intros H5. rewrite (Hfl 5 ltac:(lia)) in H5. apply andb_true_iff in H5. destruct H5 as [A B]. apply negb_true_iff in B.
    destruct (tb 5 S) eqn:ES; [auto|]. rewrite orb_false_r in A.
    assert (Hcl : nowc w -> wclient s' = false).
    { intros Nw. destruct (wclient s') eqn:Ec; [| reflexivity]. destruct (W5w eq_refl) as [X | [X | [_ X]]]; [rewrite (Nw t) in X; discriminate X | congruence | congruence]. }
    destruct (h_ww w HX A) as [c Hc]. destruct (Nat.eq_dec c t) as [->|N].
    2:{ exists c. apply (claim_frame w w' t s' c Ho Eg N); auto. intros x Nx. apply (Hwc x Nx). }
    exists t. destruct Hc as [Hc | [Hc | Hc]].
    + left. rewrite EPt. destruct (W5m A Hc) as [X|X]; [exact X | congruence].
    + right; left. rewrite EPt. destruct (W5c A Hc) as [X|X]; [exact X | congruence].
    + apply c3_iff in Hc. destruct Hc as [Hb Hd]. destruct (W5x A Hb) as [X | [X | (X1 & X2 & X3)]]; [| congruence |].
      * unfold claim. rewrite EPt. apply orb_true_iff in X. destruct X as [X|X]; auto.
      * right; right. apply c3_iff. rewrite EPt, EMt. split; [exact X1|].
        destruct Hd as [Hd | [Hd T]]; [left; auto | right]. split.
        -- intros y. destruct (Nat.eq_dec y t) as [->|Ny]; [rewrite Eg; apply Hcl; exact Hd | rewrite (Ho y Ny); apply Hd].
        -- unfold wtrue in *. rewrite X2, Hp. exact T.
  - intros Hq. rewrite (Hfl 2 ltac:(lia)). destruct (tb 2 C) eqn:EC.
    + exfalso. destruct (M2c eq_refl) as (Q1 & Q2 & _). destruct Hq as [Hq | [y Hy]]; [exact (Hq Q1) | rewrite Q2 in Hy; discriminate Hy].
    + cbn [negb]. rewrite andb_true_r. apply orb_true_iff.
      destruct Hq as [Hq | [y Hy]].
      * destruct (M2q Hq) as [X | [X | X]]; auto. left. apply (h_wt w HX). left; exact X.
      * destruct (Nat.eq_dec y t) as [->|N].
        -- rewrite EPt in Hy. destruct (M2l Hy) as [X|X]; auto. left. apply (h_wt w HX). right. exists t. exact X.
        -- rewrite (EP y N) in Hy. left. apply (h_wt w HX). right. exists y. exact Hy.
  - intros y Hy. rewrite (Hfl 2 ltac:(lia)). destruct (tb 2 C) eqn:EC.
    + exfalso. destruct (M2c eq_refl) as (_ & _ & Q3). rewrite Q3 in Hy. discriminate Hy.
    + cbn [negb]. rewrite andb_true_r. apply orb_true_iff. destruct (Nat.eq_dec y t) as [->|N].
      * rewrite EPt in Hy. destruct (M2s Hy) as [X | [X | X]]; auto. left. exact (h_swt w HX t X).
      * rewrite (EP y N) in Hy. left. exact (h_swt w HX y Hy).
  - intros y. destruct (Nat.eq_dec y t) as [->|N]; [rewrite EPt; exact Opb|]. rewrite (EP y N).
    apply (PB_frame w w' y HL (h_pb w HX y) Hmm Hp). intros f Ef. exact (Hfq y f N Ef).
  - intros y x Ex Hpe. destruct (Nat.eq_dec y t) as [->|N]; [rewrite EMt in Ex; rewrite EPt in Hpe; eauto|].
    rewrite (EM y N) in Ex. rewrite (EP y N) in Hpe. rewrite (proj1 (Hwc y N)). exact (h_wc w HX y x Ex Hpe).
Qed.

(* a step that does not write the word *)
Lemma HBX_intro0 w w' t s' :
  L1 w -> HBX w ->
  (forall y, y <> t -> get w' y = get w y) -> get w' t = s' ->
  word w' = word w ->
  (forall x, x <> t -> wcond w' x = wcond w x /\ wtype w' x = wtype w x) ->
  (member (queue w) (winfo w) t -> wcond w' t = wcond w t /\ wtype w' t = wtype w t) ->
  pst w' = pst w ->
  (forall y, y <> t -> waiting w y = false -> waiting w' y = false) ->
  (forall y f, y <> t -> fin_of (P w y) = Some f -> queue w' = queue w) ->
  (lwo (P w t) = true -> lwo (t_pc s') = true) ->
  (tb 5 (word w) = true -> mts (P w t) = true -> mts (t_pc s') = true) ->
  (tb 5 (word w) = true -> c2 (P w t) = true -> c2 (t_pc s') = true) ->
  (tb 5 (word w) = true -> c3b (P w t) (MX w t) = true ->
     (mts (t_pc s') || c2 (t_pc s')) = true \/
     (c3b (t_pc s') (mw s') = true /\ wcond w' t = wcond w t /\ (waiting w t = false -> waiting w' t = false))) ->
  (wclient s' = true -> wclient (get w t) = true \/ tb 5 (word w) = false) ->
  (queue w' <> [] -> queue w <> [] \/ tb 2 (word w) = true) ->
  (lssw (t_pc s') = true -> lssw (P w t) = true) ->
  (scl (t_pc s') = true -> scl (P w t) = true \/ tb 2 (word w) = true) ->
  (forall m l, lsl_of (t_pc s') = Some (m, l) -> lslB m l) ->
  PB w' (t_pc s') ->
  (forall x, mw s' = Some x -> (pe_pc (t_pc s') || mcq (t_pc s')) = true -> wcond w' t <> None) ->
  HBX w'.
Proof.
  intros HL HX Ho Eg Ew Hwc Hmem Hp Hwa Hfq L6 W5m W5c W5x W5w M2q M2l M2s Olsl Opb Owc.
  apply (HBX_intro w w' t s' 0 0 HL HX Ho Eg);
    [ rewrite Ew; apply fl_refl | exact Hwc | exact Hmem | exact Hp | exact Hwa | exact Hfq
    | intros E; discriminate E | auto | intros E; discriminate E | auto | auto
    | intros T5 E; destruct (W5x T5 E) as [X|X]; auto
    | intros E; destruct (W5w E) as [X|X]; [left; exact X | right; right; split; [reflexivity | exact X]]
    | intros E; discriminate E
    | intros E; destruct (M2q E) as [X|X]; auto
    | auto
    | intros E; destruct (M2s E) as [X|X]; auto
    | exact Olsl | exact Opb | exact Owc ].
Qed.

(* a world that differs only in fields HBX does not mention *)
Lemma HBX_ext w w' : word w' = word w -> queue w' = queue w -> waiting w' = waiting w -> wtype w' = wtype w ->
  wcond w' = wcond w -> pst w' = pst w -> (forall y, get w' y = get w y) -> HBX w -> HBX w'.
Proof.
  intros E1 E2 E3 E4 E5 E6 Eg HX.
  assert (EP : forall y, P w' y = P w y) by (intros y; unfold P; rewrite Eg; reflexivity).
  assert (EM : forall y, MX w' y = MX w y) by (intros y; unfold MX; rewrite Eg; reflexivity).
  destruct HX as [A B C D E F G]. constructor.
  - intros x m l. rewrite EP. apply A.
  - rewrite E1. intros H. destruct (B H) as [T HT]. exists T. rewrite EP. exact HT.
  - rewrite E1. intros H. destruct (C H) as [c Hc]. exists c. unfold claim, c3, nowc in *. rewrite EP, EM, E3, E5, E6.
    destruct Hc as [Hc | [Hc | (x & X1 & X2 & X3 & X4 & X5)]]; auto. right; right. exists x. repeat (split; [assumption|]).
    destruct X5 as [X5 | [X5 X6]]; [left; exact X5 | right]. split; [intros y; rewrite Eg; apply X5 | exact X6].
  - rewrite E1, E2. intros [H | [y Hy]]; apply D; [left; exact H | right; exists y; rewrite <- EP; exact Hy].
  - intros y. rewrite EP, E1. apply E.
  - intros y. rewrite EP. apply (PB_ext w); auto.
  - intros y x. rewrite EP, EM, E5. apply G.
Qed.

(* pcs at which a thread has none of the attributes HBX talks about *)
Definition qpc (p : pc) : Prop :=
  lsl_of p = None /\ mts p = false /\ c2 p = false /\ (forall mx, mq_of p mx = false) /\ lssw p = false /\ scl p = false /\
  sk_of p = None /\ fin_of p = None /\ (pe_pc p || mcq p) = false /\ frozen_old p = None.
Lemma qpc_idle : qpc Idle.
Proof. repeat split. Qed.
Lemma qpc_start o h : qpc (fst (op_start o h)).
Proof.
  destruct o as [m|m| | |f a b|c e d k], h as [[|]|]; cbn [op_start fst]; repeat split.
Qed.

Lemma HBX_quiet w w' t : word w' = word w -> queue w' = queue w -> waiting w' = waiting w -> wtype w' = wtype w ->
  wcond w' = wcond w -> pst w' = pst w -> (forall y, y <> t -> get w' y = get w y) ->
  qpc (P w t) -> qpc (P w' t) -> held (get w' t) = held (get w t) -> conv (get w' t) = conv (get w t) ->
  HBX w -> HBX w'.
Proof.
  intros E1 E2 E3 E4 E5 E6 Ho (Q1 & Q2 & Q3 & Q4 & Q5 & Q6 & Q7 & Q8 & Q9 & Q10) (R1 & R2 & R3 & R4 & R5 & R6 & R7 & R8 & R9 & R10) Eh Ec HX.
  assert (EP : forall y, y <> t -> P w' y = P w y) by (intros y N; unfold P; rewrite (Ho y N); reflexivity).
  assert (EM : forall y, y <> t -> MX w' y = MX w y) by (intros y N; unfold MX; rewrite (Ho y N); reflexivity).
  assert (Ecl : wclient (get w' t) = wclient (get w t)).
  { unfold wclient. rewrite Eh, Ec. unfold P in Q10, R10. rewrite Q10, R10. reflexivity. }
  destruct HX as [A B C D E F G]. constructor.
  - intros x m l Ex. destruct (Nat.eq_dec x t) as [->|N]; [congruence | rewrite (EP x N) in Ex; exact (A x m l Ex)].
  - rewrite E1. intros H. destruct (B H) as [T HT]. destruct (Nat.eq_dec T t) as [->|N]; [| exists T; rewrite (EP T N); exact HT].
    unfold lwo in HT. rewrite Q1 in HT. discriminate HT.
  - rewrite E1. intros H. destruct (C H) as [c Hc]. exists c. destruct (Nat.eq_dec c t) as [->|N].
    + exfalso. destruct Hc as [Hc | [Hc | (x & _ & _ & X3 & _)]]; [congruence | congruence | rewrite Q4 in X3; discriminate X3].
    + apply (claim_frame w w' t (get w' t) c Ho eq_refl N); auto.
      * intros x _. rewrite E5. reflexivity.
      * intros y _. rewrite E3. auto.
      * intros Nw. rewrite Ecl. apply Nw.
  - rewrite E1, E2. intros [H | [y Hy]]; apply D; [left; exact H | right; exists y].
    destruct (Nat.eq_dec y t) as [->|N]; [congruence | rewrite <- (EP y N); exact Hy].
  - intros y Hy. rewrite E1. destruct (Nat.eq_dec y t) as [->|N]; [congruence | rewrite (EP y N) in Hy; exact (E y Hy)].
  - intros y. destruct (Nat.eq_dec y t) as [->|N]; [apply PB_none; assumption | rewrite (EP y N); apply (PB_ext w); auto].
  - intros y x Ex Hpe. destruct (Nat.eq_dec y t) as [->|N]; [congruence|].
    rewrite (EM y N) in Ex. rewrite (EP y N) in Hpe. rewrite E5. exact (G y x Ex Hpe).
Qed.

Section Step9.
Variable n : nat.
Hypothesis Hn : Z.of_nat n < 16777215.

Lemma begin_op_wtype w t : wtype (begin_op w t) = wtype w.
Proof.
  unfold begin_op. destruct (t_pc (get w t)); try reflexivity. destruct (t_ops (get w t)); try reflexivity.
  destruct (match o with OLock m => _ | _ => _ end) as [p x]. reflexivity.
Qed.

Lemma begin_op_HBX w t : Inv n w -> HBX w -> HBX (begin_op w t).
Proof.
  intros HI HX.
  destruct (begin_op_fields w t) as (Eq & _ & Ewc & _ & Ewa & _).
  pose proof (begin_op_word w t) as Ew. pose proof (begin_op_pst w t) as Ep. pose proof (begin_op_wtype w t) as Et.
  destruct (MuWaitWorld6.begin_op_cases w t) as [B | (o & rest & Ep0 & Eo & B)].
  - apply (HBX_ext w); auto. intros y. destruct (Nat.eq_dec y t) as [->|N]; [exact B | apply begin_op_get_other; exact N].
  - apply (HBX_quiet w _ t); auto.
    + intros y N. apply begin_op_get_other; exact N.
    + unfold P. rewrite Ep0. apply qpc_idle.
    + unfold P. rewrite B. cbn [t_pc]. apply qpc_start.
    + rewrite B. reflexivity.
    + rewrite B. reflexivity.
Qed.

(* the witness of MU_WRITER_WAITING in set_on_release is a claimant once the scanner has released *)
Lemma witness_claim w p : Inv n w -> L1 w -> HA w ->
  (forall t x, MX w t = Some x -> (pe_pc (P w t) || mcq (P w t)) = true -> wcond w t <> None) ->
  In p (queue w) -> wtype w p = W -> wtrue (wcond w) (pst w) p = true -> (nowc w \/ wcond w p = None) -> claim w p.
Proof.
  intros HI HL HAw Hwc Hq Ht Hw Hn0.
  destruct (a_m _ _ _ _ _ _ _ HL p (or_introl Hq)) as [Wt Mq]. unfold winfo, info_of in Mq; cbn [i_mq] in Mq.
  destruct (mq_cases _ _ Mq) as [Hl | [Hpe Hus]].
  - right; left. pose proof (a_t1 w HAw p) as T1. unfold P in *.
    destruct (t_pc (get w p)) eqn:Ep; try discriminate Hl; try (destruct k; try discriminate Hl);
      cbn [mq_of us_pc andb orb] in Mq; try discriminate Mq;
      destruct (T1 _ _ eq_refl) as [Tm _]; rewrite Ht in Tm; subst m; reflexivity.
  - destruct (mw (get w p)) as [x|] eqn:Ex.
    + assert (Hpm : (pe_pc (P w p) || mcq (P w p)) = true) by (unfold P; rewrite Hpe; reflexivity).
      pose proof (a_t2 w HAw p x Ex Hpm) as T2. rewrite Ht in T2.
      assert (Hh : mw_have x = false).
      { destruct (mw_have x) eqn:Eh; [| reflexivity]. rewrite (a_hv w HAw p x Ex Eh) in Wt; [discriminate Wt|].
        unfold P, MX. rewrite Ex. exact Mq. }
      destruct Hn0 as [Nw | Hc]; [| destruct (Hwc p x Ex Hpm Hc)].
      right; right. exists x. split; [exact Ex|]. split; [symmetry; exact T2|]. split; [unfold P; exact Mq|].
      split; [exact Hh | right; auto].
    + exfalso. pose proof (pc_ok_get n w p HI) as Hok. unfold pe_pc in Hpe.
      destruct (us_pc (t_pc (get w p))) eqn:U; [exact (Hus eq_refl eq_refl)|].
      cbn [orb] in Hpe. apply (pc_ok_mw _ Hok); [| exact Ex].
      destruct (t_pc (get w p)); try discriminate Hpe; try (destruct k; try discriminate Hpe); reflexivity.
Qed.


Lemma frozen_tb5 old : try_ok old -> tb 5 (mu_try_acquire_after_timeout_or_cancel_cas1_new old) = false.
Proof. intros T. rewrite (fl_mt_cas1 old T 5 ltac:(lia)). destruct (tb 5 old || tb 5 0); reflexivity. Qed.

(* a write to the protected state by a client inside a write section *)
Lemma HBX_setc w w' t : Inv n w -> word w' = word w -> queue w' = queue w -> waiting w' = waiting w -> wtype w' = wtype w ->
  wcond w' = wcond w -> (forall y, y <> t -> get w' y = get w y) ->
  qpc (P w t) -> qpc (P w' t) -> held (get w t) = Some W -> conv (get w t) = false ->
  HBX w -> HBX w'.
Proof.
  intros HI E1 E2 E3 E4 E5 Ho (Q1 & Q2 & Q3 & Q4 & Q5 & Q6 & Q7 & Q8 & Q9 & Q10) (R1 & R2 & R3 & R4 & R5 & R6 & R7 & R8 & R9 & R10) Eh Ec HX.
  assert (EP : forall y, y <> t -> P w' y = P w y) by (intros y N; unfold P; rewrite (Ho y N); reflexivity).
  assert (EM : forall y, y <> t -> MX w' y = MX w y) by (intros y N; unfold MX; rewrite (Ho y N); reflexivity).
  assert (Hcl : wclient (get w t) = true) by (unfold wclient; rewrite Eh, Ec; unfold P in Q10; rewrite Q10; reflexivity).
  assert (Hoh : forall y, y <> t -> held (get w y) <> Some W) by (intros y N; apply (other_holders n w t HI); [rewrite Eh; discriminate | exact N]).
  destruct HX as [A B C D E F G]. constructor.
  - intros x m l Ex. destruct (Nat.eq_dec x t) as [->|N]; [congruence | rewrite (EP x N) in Ex; exact (A x m l Ex)].
  - rewrite E1. intros H. destruct (B H) as [T HT]. destruct (Nat.eq_dec T t) as [->|N]; [| exists T; rewrite (EP T N); exact HT].
    unfold lwo in HT. rewrite Q1 in HT. discriminate HT.
  - rewrite E1. intros H. destruct (C H) as [c Hc]. exists c. destruct (Nat.eq_dec c t) as [->|N].
    + exfalso. destruct Hc as [Hc | [Hc | (x & _ & _ & X3 & _)]]; [congruence | congruence | rewrite Q4 in X3; discriminate X3].
    + unfold claim, c3 in *. rewrite (EP c N), (EM c N), E3. destruct Hc as [Hc | [Hc | (x & X1 & X2 & X3 & X4 & X5)]]; auto.
      right; right. exists x. repeat (split; [assumption|]). destruct X5 as [X5 | [X5 _]]; [left; exact X5|].
      rewrite (X5 t) in Hcl. discriminate Hcl.
  - rewrite E1, E2. intros [H | [y Hy]]; apply D; [left; exact H | right; exists y].
    destruct (Nat.eq_dec y t) as [->|N]; [congruence | rewrite <- (EP y N); exact Hy].
  - intros y Hy. rewrite E1. destruct (Nat.eq_dec y t) as [->|N]; [congruence | rewrite (EP y N) in Hy; exact (E y Hy)].
  - intros y. destruct (Nat.eq_dec y t) as [->|N]; [apply PB_none; assumption | rewrite (EP y N)].
    destruct (F y) as [F1 F2]. split.
    + intros k u Es. destruct (F1 k u Es) as [(S1 & S2 & S3 & S4) S5]. split; [| intros K; eapply rmX_ext; eauto].
      split; [exact S1|]. split; [exact S2|]. split; [exact S3|]. intros H5. destruct (S4 H5) as (D1 & p & P1 & P2 & P3 & P4).
      split; [exact D1|]. exists p. rewrite E4, E5. split; [exact P1|]. split; [exact P2|].
      destruct (scan_late n w y k u HI Es) as [[_ Hw] | [L _]]; [destruct (Hoh y N Hw)|].
      split; [unfold wtrue; rewrite (P4 L); reflexivity | exact P4].
    + intros f Ef. destruct (F2 f Ef) as (B1 & B2 & B3 & B4 & B5 & B6 & B7 & B8 & B9).
      unfold finF, finX. rewrite E2, E4, E5. repeat (split; [assumption|]).
      intros H1 H2. destruct (B9 H1 H2) as (p & P1 & P2 & P3 & P4). exists p. split; [exact P1|]. split; [exact P2|].
      destruct (fin_late n w y f HI Ef) as [[_ Hw] | [L _]]; [destruct (Hoh y N Hw)|].
      split; [unfold wtrue; rewrite (P4 L); reflexivity | exact P4].
  - intros y x Ex Hpe. destruct (Nat.eq_dec y t) as [->|N]; [congruence|].
    rewrite (EM y N) in Ex. rewrite (EP y N) in Hpe. rewrite E5. exact (G y x Ex Hpe).
Qed.

Lemma remove_from_fst wc we cl r q e : fst (remove_from wc we cl r q e) = remove1 e q.
Proof.
  unfold remove_from. destruct (remove1 e q); [reflexivity|]. destruct r as [sp sn].
  destruct (negb (Nat.eqb (sn e) e)); [reflexivity|]. destruct (negb _); reflexivity.
Qed.
Lemma after_in x : forall l y, In y (after x l) -> In y l.
Proof. induction l as [|z r IH]; cbn [after]; intros y H; [exact H|]. destruct (Nat.eqb z x); [right; exact H | right; apply IH; exact H]. Qed.
Lemma skip_past_in sp newl rest p y : (forall x, In x rest -> In x newl) -> In y (skip_past sp newl rest p) -> In y newl.
Proof.
  intros Hs. unfold skip_past. destruct (negb _ && negb _); [apply after_in|].
  intros H. apply Hs. destruct rest; [destruct H | right; exact H].
Qed.

Lemma us_pc_attrs p : us_pc p = true ->
  lsl_of p = None /\ mts p = false /\ c2 p = false /\ lssw p = false /\ pe_pc p = true /\ forall mx, mq_of p mx = mwb mx.
Proof.
  destruct p; cbn [us_pc]; try discriminate; try (destruct k; try discriminate); intros _; repeat split; intros mx; destruct mx; reflexivity.
Qed.
Lemma crash_attrs k : lsl_of (Crash k) = None /\ mts (Crash k) = false /\ c2 (Crash k) = false /\ lssw (Crash k) = false /\
  scl (Crash k) = false /\ (pe_pc (Crash k) || mcq (Crash k)) = false /\ forall mx, mq_of (Crash k) mx = false.
Proof. repeat split. Qed.
Lemma scanres_cases p : scanres p -> (exists k, p = Crash k) \/ us_pc p = true.
Proof. destruct p; cbn [scanres]; try contradiction; try (destruct k; try contradiction); intros _; first [left; eexists; reflexivity | right; reflexivity]. Qed.

(* the end of a step of the scanner (or of the CAS that starts the scan) *)
Lemma HBX_scan_finish w w2 t s' S : L1 w -> HBX w -> NCt s' ->
  (forall y, y <> t -> get w2 y = get w y) -> get w2 t = s' -> mw s' = MX w t ->
  fl (word w) S 0 (word w2) -> (S = 0 \/ S = 8) ->
  wcond w2 = wcond w -> wtype w2 = wtype w -> pst w2 = pst w -> waiting w2 = waiting w ->
  (forall y f, y <> t -> fin_of (P w y) = Some f -> False) ->
  us_pc (P w t) = true -> tb 2 (word w) = true ->
  (wclient s' = true -> wclient (get w t) = true) ->
  scanres (t_pc s') -> PB w2 (t_pc s') -> HBX w2.
Proof.
  intros HL HX HN Ho Eg Em Hfl HS Ewc Ewt Ep Ewa Hnf Hus H2 Hcl Hsr Hpb.
  destruct (us_pc_attrs _ Hus) as (U1 & U2 & U3 & U4 & U5 & U6).
  assert (HS' : tb 2 S = false /\ tb 5 S = false /\ tb 6 S = false) by (destruct HS as [-> | ->]; repeat split).
  destruct HS' as (S2 & S5 & S6).
  assert (Hnew : lsl_of (t_pc s') = None /\ mts (t_pc s') = false /\ c2 (t_pc s') = false /\ lssw (t_pc s') = false).
  { destruct (scanres_cases _ Hsr) as [[k ->] | Hu]; [repeat split | destruct (us_pc_attrs _ Hu) as (V1 & V2 & V3 & V4 & _); auto]. }
  destruct Hnew as (N1 & N2 & N3 & N4).
  apply (HBX_intro w w2 t s' S 0 HL HX Ho Eg Hfl).
  - intros x _. rewrite Ewc, Ewt. auto.
  - intros _. rewrite Ewc, Ewt. auto.
  - exact Ep.
  - intros y _ E. rewrite Ewa. exact E.
  - intros y f N Ef. destruct (Hnf y f N Ef).
  - intros E. congruence.
  - intros E. unfold lwo in E. rewrite U1 in E. discriminate E.
  - intros E. congruence.
  - intros _ E. congruence.
  - intros _ E. congruence.
  - intros _ E. right; right. unfold c3b in *. rewrite U6 in E. rewrite Em. rewrite Ewc, Ewa.
    destruct (MX w t) as [x|] eqn:Ex; [| discriminate E]. cbn [mwb andb] in E.
    destruct (scanres_cases _ Hsr) as [[k Ek] | Hu].
    + destruct (HN k Ek) as (_ & _ & _ & Hm). rewrite Em in Hm. discriminate Hm.
    + destruct (us_pc_attrs _ Hu) as (_ & _ & _ & _ & _ & V6). rewrite V6. cbn [mwb andb]. auto.
  - intros E. left. apply Hcl; exact E.
  - intros E. discriminate E.
  - intros _. right; left. exact H2.
  - intros E. congruence.
  - intros _. right; left. exact H2.
  - intros m l E. congruence.
  - exact Hpb.
  - intros x Ex Hpe. rewrite Ewc. rewrite Em in Ex. apply (h_wc w HX t x Ex). rewrite U5. reflexivity.
Qed.
(* ================= the step ================= *)
Lemma PB_keep w w' p p' : wtype w' = wtype w -> wcond w' = wcond w -> pst w' = pst w -> queue w' = queue w ->
  sk_of p' = sk_of p -> fin_of p' = fin_of p -> PB w p -> PB w' p'.
Proof. intros E1 E2 E3 E4 E5 E6 H. apply (PB_ext w); auto. apply (PB_same w p); auto. Qed.

Lemma lslB_init m : lslB m (ls_init m).
Proof. split; cbn [ls_init longw clr]; intros E; discriminate E. Qed.
Lemma lslB_init_desig m : lslB m (ls_init_desig m).
Proof. split; cbn [ls_init_desig longw clr zta]; intros E; [discriminate E | reflexivity]. Qed.
Lemma lslB_wait m l lw wc : lsl_ok m l -> lslB m (mk_lsl (band (zta l) clr_mask) MU_DESIG_WAKER lw wc).
Proof.
  intros (Hz & _). split; cbn [longw clr zta]; intros _; [reflexivity|].
  destruct Hz as [-> | ->]; [reflexivity | destruct m; reflexivity].
Qed.

Lemma guard_true_res o : nsync_mu_wait_with_deadline_store1_guard o (b2z true) = false.
Proof. unfold nsync_mu_wait_with_deadline_store1_guard. destruct (o =? 0); reflexivity. Qed.

Ltac cas_split9 w :=
  unfold cas;
  match goal with |- context [word w =? ?e] => destruct (Z.eqb_spec (word w) e) as [Hcas|Hcas] end;
  cbv beta iota; cbn [fst snd].
Ltac fldr9 :=
  rewrite ?acq_queue, ?acq_rings, ?acq_wcond, ?acq_cls, ?acq_waiting, ?acq_rcount, ?acq_wtype, ?acq_pst, ?acq_word,
          ?ru_queue, ?ru_rings, ?ru_wcond, ?ru_cls, ?ru_waiting, ?ru_rcount, ?ru_wtype, ?ru_pst, ?ru_word.
Ltac wcbn :=
  cbn [word queue wcond wtype waiting pst set_pc set_t set_thr set_winfo set_waiting set_queue set_rings set_rcount set_sem set_word
       set_own set_held set_spin set_mw upd_mw released mw_return add_ev log_eval set_pst w_merge].
Ltac fld9 := intros; fldr9; first [reflexivity | (wcbn; reflexivity)].
Ltac fldp9 Nx := fldr9; first [reflexivity | (wcbn; rewrite ?fupd_neq by exact Nx; reflexivity)].
Ltac mwsome9 Hok mx :=
  unfold try_frozen, mt_pre, in_mw in Hok; cbn [mw] in Hok;
  let x := fresh "x" in let Hx := fresh "Hx" in
  first [ destruct Hok as ((x & Hx & _) & _) | destruct Hok as (x & Hx & _) ]; subst mx.
Ltac simps Hs :=
  unfold P, MX, get; rewrite ?Hs; unfold mw_of;
  cbn [t_pc t_ops held conv spin mw last_ret
       lwo lsl_of mts c2 c3b mq_of us_pc mwb lssw scl sk_of fin_of wclient frozen_old pe_pc mcq andb orb negb
       mw_mode mw_have].
Ltac nomem9 w t HL Hs Hm :=
  let Wt := fresh "Wt" in let Mq := fresh "Mq" in
  exfalso; destruct (a_m _ _ _ _ _ _ _ HL t Hm) as [Wt Mq]; unfold winfo, get in Mq; rewrite Hs in Mq;
  cbn in Mq; first [discriminate Mq | congruence].
Ltac mem9 w t HL Hs :=
  first [ (intros _; split; fld9) | (let Hm := fresh "Hm" in intros Hm; nomem9 w t HL Hs Hm) ].
Ltac wa9 :=
  let y := fresh "y" in let Ny := fresh "Ny" in let E := fresh "E" in
  intros y Ny E; fldr9; first [exact E | (wcbn; rewrite ?fupd_neq by exact Ny; exact E) | (wcbn; unfold fupd; destruct (Nat.eqb _ _); [reflexivity | exact E])].
Ltac at9 Hs :=
  simps Hs; let E := fresh "E" in intros E;
  first [discriminate E | exact E | reflexivity
        | (match goal with m : mode |- _ => destruct m end; first [discriminate E | exact E | reflexivity])].
Ltac at59 Hs :=
  simps Hs; let T5 := fresh "T5" in let E := fresh "E" in intros T5 E;
  first [discriminate E | exact E | reflexivity
        | (match goal with m : mode |- _ => destruct m end; first [discriminate E | exact E | reflexivity])].
Ltac c39 Hs :=
  simps Hs; let T5 := fresh "T5" in let E := fresh "E" in intros T5 E;
  first [ discriminate E | (left; reflexivity)
        | (right; split; [exact E | split; [fld9 | let E2 := fresh "E2" in intros E2; fldr9; first [exact E2 | (wcbn; exact E2) | (wcbn; unfold fupd; destruct (Nat.eqb _ _); [reflexivity | exact E2])]]]) ].
Ltac wc9 Hs :=
  simps Hs; let E := fresh "E" in intros E; first [discriminate E | (left; exact E) | (left; reflexivity)].
Ltac q9 := fldr9; wcbn; let E := fresh "E" in intros E; left; exact E.
Ltac sc9 Hs :=
  simps Hs; let E := fresh "E" in intros E; first [discriminate E | (left; exact E) | (left; reflexivity)].
Ltac lsl9 w t HX Hs :=
  simps Hs; let m0 := fresh "m0" in let l0 := fresh "l0" in let E := fresh "E" in intros m0 l0 E;
  first [ discriminate E
        | (injection E as <- <-;
           first [ apply lslB_init | apply lslB_init_desig | (apply (h_lsl w HX t); simps Hs; reflexivity) ]) ].
Ltac pb9 w t HX Hs :=
  simps Hs;
  first [ (apply PB_none; reflexivity)
        | (apply (PB_keep w _ (P w t)); [fld9 | fld9 | fld9 | fld9 | simps Hs; reflexivity | simps Hs; reflexivity | exact (h_pb w HX t)]) ].
Ltac wcn9 w t HX Hs :=
  simps Hs; let x0 := fresh "x0" in let Ex := fresh "Ex" in let Hpe := fresh "Hpe" in intros x0 Ex Hpe;
  first [ discriminate Ex | discriminate Hpe
        | (fldr9; wcbn; eapply (h_wc w HX t); [simps Hs; reflexivity | simps Hs; reflexivity]) ].

Ltac boring9 w t HL HX Hs Hlen Ht :=
  try (match goal with mx : option mwl |- _ => destruct mx end);
  let HI' := fresh "HI'" in let Hoth := fresh "Hoth" in
  intros HI' Hoth _ _ _ _; cbn [fst] in *;
  lazymatch goal with |- HBX ?W =>
    let HT := fresh "HT" in let Eg := fresh "Eg" in
    eassert (HT : TS t w W _ _) by (ts_solve; rewrite Hlen; exact Ht);
    pose proof (TS_get _ _ _ _ _ HT) as Eg;
    eapply (HBX_intro0 w W t _ HL HX Hoth Eg);
    [> try fld9
     | try (let x := fresh "x" in let Nx := fresh "Nx" in intros x Nx; split; fldp9 Nx)
     | try (mem9 w t HL Hs)
     | try fld9
     | try wa9
     | try fld9
     | try (at9 Hs) | try (at59 Hs) | try (at59 Hs) | try (c39 Hs) | try (wc9 Hs) | try q9 | try (at9 Hs) | try (sc9 Hs)
     | try (lsl9 w t HX Hs) | try (pb9 w t HX Hs) | try (wcn9 w t HX Hs) ]
  end.
(* a step that writes the word: S and C are the set / cleared masks, FL the proof of fl *)
Ltac bit9 Hs :=
  simps Hs; let E := fresh "E" in intros E;
  first [ discriminate E | (left; exact E) | (left; reflexivity) | (right; reflexivity)
        | (right; left; reflexivity) | (right; right; reflexivity) ].
Ltac bit59 Hs :=
  simps Hs; let T5 := fresh "T5" in let E := fresh "E" in intros T5 E;
  first [ discriminate E | (left; exact E) | (left; reflexivity) | (right; reflexivity)
        | (right; left; reflexivity) | (right; right; reflexivity) ].
Ltac full9 w t HL HX Hs Hlen Ht S C FL :=
  let HI' := fresh "HI'" in let Hoth := fresh "Hoth" in let HA1 := fresh "HA1" in let HL' := fresh "HL'" in let HU' := fresh "HU'" in
  let HN' := fresh "HN'" in
  intros HI' Hoth HA1 HL' HU' HN'; cbn [fst] in *;
  lazymatch goal with |- HBX ?W =>
    let HT := fresh "HT" in let Eg := fresh "Eg" in
    eassert (HT : TS t w W _ _) by (ts_solve; rewrite Hlen; exact Ht);
    pose proof (TS_get _ _ _ _ _ HT) as Eg;
    eapply (HBX_intro w W t _ S C HL HX Hoth Eg);
    [> try (fldr9; wcbn; first [exact FL | (match goal with Hc : word _ = _ |- _ => rewrite ?Hc end; exact FL)])
     | try (let x := fresh "x" in let Nx := fresh "Nx" in intros x Nx; split; fldp9 Nx)
     | try (mem9 w t HL Hs)
     | try fld9
     | try wa9
     | try fld9
     | try (let E := fresh "E" in intros E; first [discriminate E | (simps Hs; reflexivity)])
     | try (bit9 Hs)
     | try (let E := fresh "E" in intros E; discriminate E)
     | try (bit59 Hs) | try (bit59 Hs)
     | try (simps Hs; let T5 := fresh "T5" in let E := fresh "E" in intros T5 E;
            first [ discriminate E | (left; reflexivity) | (right; left; reflexivity)
                  | (right; right; split; [exact E | split; [fld9 | let E2 := fresh "E2" in intros E2; fldr9; first [exact E2 | (wcbn; exact E2) | (wcbn; unfold fupd; destruct (Nat.eqb _ _); [reflexivity | exact E2])]]]) ])
     | try (bit9 Hs)
     | try (let E := fresh "E" in intros E; discriminate E)
     | try (fldr9; wcbn; let E := fresh "E" in intros E; left; exact E)
     | try (bit9 Hs) | try (bit9 Hs)
     | try (lsl9 w t HX Hs) | try (pb9 w t HX Hs) | try (wcn9 w t HX Hs) ]
  end.
Ltac F9 FL :=
  match goal with
  | HL : L1 ?w, HX : HBX ?w, Hlen : length (thr ?w) = _, Ht : (?t < _)%nat, Hs : nth ?t (thr ?w) dflt_t = _ |- _ =>
      match type of FL with fl _ ?S ?C _ => full9 w t HL HX Hs Hlen Ht S C FL end
  end.
Ltac own9 Ho := unfold own in Ho; cbn [held spin conv] in Ho; destruct Ho as (-> & -> & ->).
Ltac B9 :=
  match goal with
  | HL : L1 ?w, HX : HBX ?w, Hlen : length (thr ?w) = _, Ht : (?t < _)%nat, Hs : nth ?t (thr ?w) dflt_t = _ |- _ =>
      boring9 w t HL HX Hs Hlen Ht
  end.
Ltac noop9 := cbn [fst]; intros _ _ _ _ _ _; assumption.

Lemma HBX_step_thr w0 t c : Inv n w0 -> frozen_word w0 -> L1 w0 -> U1 w0 -> L2 w0 -> L3 w0 -> NC w0 -> HA w0 ->
  HA (fst (step_thr w0 t c)) -> HBX w0 -> HBX (fst (step_thr w0 t c)).
Proof.
  intros H0 HF HL HU H2 _ HN _ HA1 HX.
  pose proof (NC_step_thr n Hn w0 t c H0 HL HU H2 HN) as HN'. clear HN.
  pose proof (step_thr_ok n Hn w0 t c H0) as (HI' & _ & _ & Hoth).
  assert (HLI : LInv n (fst (step_thr w0 t c))) by (apply (LInv_step_thr n Hn); exact (conj (conj H0 HF) (conj HL (conj HU H2)))).
  destruct HLI as (_ & HL' & HU' & _).
  apply (begin_op_HBX _ t H0) in HX. apply (begin_op_L1 n _ t H0) in HL. apply (begin_op_U1 n _ t H0) in HU.
  apply (begin_op_L2 n _ t H0) in H2. apply (begin_op_frozen _ t) in HF. apply (begin_op_inv n w0 t) in H0.
  revert HI' Hoth HA1 HL' HU' HN'. unfold step_thr. set (w := begin_op w0 t) in *. clearbody w. clear w0. cbv zeta.
  destruct (Nat.lt_ge_cases t n) as [Ht|Ht].
  2:{ assert (Eg : get w t = dflt_t) by (apply get_oob'; destruct H0 as (-> & _); exact Ht).
      rewrite Eg. cbn. intros; assumption. }
  pose proof H0 as (Hlen & _ & Hok). specialize (Hok t).
  pose proof (Inv_rng n _ H0) as Rw.
  pose proof (Inv_held n w t) as Hheld. specialize (fun m => Hheld m H0).
  destruct (get w t) as [p ops h cv sp mx lr] eqn:Hs. unfold get in Hs. rewrite Hs in Hok.
  unfold pc_ok in Hok. cbn [t_pc t_ops held conv spin mw last_ret] in *.
  destruct p.
  - (* Idle *) noop9.
  - (* LkFast *) destruct Hok as (Ho & ->). own9 Ho. cas_split9 w; [| B9].
    pose proof (fl_fast_new m) as FL. F9 FL.
    simps Hs. intros E. right; right. split; [reflexivity | rewrite Hcas; reflexivity].
  - (* LkLoad *) destruct Hok as (Ho & ->). destruct (fast_guard2 m (word w)) eqn:G; B9.
  - (* LkCas2 *) destruct Hok as (Ho & -> & G). own9 Ho. cas_split9 w; [subst old | B9].
    pose proof (fl_fast_new2 m (word w) Rw G) as FL. destruct m; cbn [coa] in FL; F9 FL.
  - (* TryFast *) destruct Hok as (Ho & ->). own9 Ho. cas_split9 w; [| B9].
    pose proof (fl_try_new m) as FL. F9 FL.
    simps Hs. intros E. right; right. split; [reflexivity | rewrite Hcas; reflexivity].
  - (* TryLoad *) destruct Hok as (Ho & ->). destruct (try_guard2 m (word w)) eqn:G; B9.
  - (* TryCas2 *) destruct Hok as (Ho & -> & G). own9 Ho. cas_split9 w; [subst old | B9].
    pose proof (fl_try_new2 m (word w) Rw G) as FL. destruct m; cbn [coa] in FL; F9 FL.
  - (* LsLoad *) destruct (nsync_mu_lock_slow_cas1_guard (word w) (zta l)) eqn:G1; [B9|].
    destruct (nsync_mu_lock_slow_cas2_guard (word w) (zta l)) eqn:G2; [B9 | noop9].
  - (* LsCasAcq *) destruct Hok as (Ho & Hm & Hl & G). own9 Ho. cas_split9 w; [subst old | B9].
    pose proof (fl_lock_slow_cas1 m l (word w) Rw Hl G) as FL.
    destruct l as [z cl lw wc]; unfold lsl_ok in Hl; cbn [zta clr longw wcount] in *. destruct Hl as (Hz & [-> | ->] & [-> | ->]);
      destruct m; cbn [coa] in FL; destruct mx; F9 FL.
  - (* LsCasEnq *) destruct Hok as (Ho & Hm & Hl & G). own9 Ho. cas_split9 w; [subst old | B9].
    pose proof (fl_lock_slow_cas2 m l (word w) Rw Hl) as FL.
    destruct l as [z cl lw wc]; unfold lsl_ok in Hl; cbn [zta clr longw wcount] in *. destruct Hl as (Hz & [-> | ->] & [-> | ->]);
      destruct m; cbn [sww] in FL; destruct mx; F9 FL.
    all: intros _ _; exists t; right; left; unfold P; rewrite Eg; reflexivity.
  - (* LsStoreWaiting *) destruct Hok as (Ho & _). own9 Ho. B9.
    all: try (intros y0 f0 Ny0 Ef; exfalso; apply (no_other_fin n w w t y0 f0 H0); auto; unfold get; rewrite Hs; reflexivity).
    all: fldr9; wcbn; intros _; right; apply (h_wt w HX); right; exists t; simps Hs; reflexivity.
  - (* LsWaitLoad *) destruct Hok as (Ho & Hm & Hl). destruct (waiting w t) eqn:Ew; [B9|]. B9.
    all: first
      [ (simps Hs; cbn [longw]; intros E; destruct (_ =? LONG_WAIT_THRESHOLD); [reflexivity | exact E])
      | (simps Hs; intros mm ll E; injection E as <- <-; apply lslB_wait; exact Hl)
      | (simps Hs; intros _ E; left; apply andb_true_iff in E; destruct E as [E _];
         destruct (Hm _ eq_refl) as [Hm1 _]; rewrite Hm1 in E; destruct m; [reflexivity | discriminate E]) ].
  - (* LsSemP *) destruct (0 <? sem w t); [B9 | noop9].
  - (* RelLoad *) destruct k; try contradiction; B9.
  - (* RelCas *) destruct k; try contradiction.
    + cas_split9 w; [subst old | B9]. pose proof (fl_release_spinlock (word w) Rw) as FL. destruct mx; F9 FL.
    + cas_split9 w; [| B9].
      destruct Hok as (Hnh & lt & Hown & Hsc). cbn [scan_pc_ok spin] in Hsc. destruct Hsc as (-> & Hte & Hu).
      subst old. intros HI' Hoth HA1 HL' HU' HN'.
      assert (Ew : winfo w t = sinfo mx SRel u) by (rewrite (winfo_scan w t SRel u); unfold get; rewrite Hs; reflexivity).
      destruct (a_r2 _ _ _ _ _ _ _ HL t SRel u) as (_ & _ & [pre Hsuf] & _); [rewrite Ew; reflexivity|].
      destruct (proj1 (h_pb w HX t) SRel u) as [HFu _]; [simps Hs; reflexivity|].
      match goal with |- context [after_inner ?w2 m ?r] =>
        pose proof (inner_after_F w2 m u (u_rest u) HFu ltac:(intros x0 Hx0; rewrite Hsuf; apply in_or_app; right; exact Hx0)) as HP;
        pose proof (after_inner_sres w2 m r (inner_scanres w2 m (u_rest u) u)) as [Hsr _];
        pose proof (after_inner_wt w2 m r) as [Hw1 Hw2];
        destruct (after_inner_fields w2 m r) as (F1 & F2 & _ & F4 & _ & F6);
        destruct (after_inner w2 m r) as [w3 p'] eqn:Ea; cbn [fst snd] in *;
        eassert (HT : TS t w w2 _ _) by (ts_solve; rewrite Hlen; exact Ht)
      end.
      eassert (HT3 : TS t w (set_pc w3 t p') _ _) by (apply TS_set_pc; eapply TS_eq; [exact HT | exact Hw1 | exact Hw2]).
      pose proof (TS_get _ _ _ _ _ HT3) as Eg.
      eapply (HBX_scan_finish w (set_pc w3 t p') t _ 0 HL HX _ Hoth Eg).
      * simps Hs. reflexivity.
      * change (word (set_pc w3 t p')) with (word w3). rewrite Hw1. wcbn. exact (fl_release_spinlock (word w) Rw).
      * left; reflexivity.
      * change (wcond w3 = wcond w). rewrite F1. reflexivity.
      * change (wtype w3 = wtype w). rewrite F2. reflexivity.
      * change (pst w3 = pst w). rewrite F6. reflexivity.
      * change (waiting w3 = waiting w). rewrite F4. reflexivity.
      * intros y f0 Ny Ef. apply (no_other_fin_U w t y f0 HU); auto; unfold get; rewrite Hs; reflexivity.
      * simps Hs. reflexivity.
      * apply (h_swt w HX t). simps Hs. reflexivity.
      * simps Hs. unfold wclient. cbn [held conv t_pc frozen_old]. rewrite (proj1 (scanres_more _ Hsr)). intros E; exact E.
      * cbn [t_pc]. exact Hsr.
      * cbn [t_pc]. eapply (PB_ext w3); [reflexivity | reflexivity | reflexivity | reflexivity | exact HP].
      Unshelve. rewrite <- Eg. apply HN'.
  - (* SpinLoad *) destruct k; try contradiction; destruct (nsync_spin_test_and_set_cas1_guard (word w) MU_SPINLOCK) eqn:G; B9.
  - (* SpinCas *) destruct k; try contradiction.
    + unfold spin_set. cbv beta iota. cas_split9 w; [| B9].
      destruct Hok as (Hnh & lt & Hown & Hsc). cbn [scan_pc_ok spin] in Hsc. destruct Hsc as (-> & Hte & Hu & G).
      subst old. intros HI' Hoth HA1 HL' HU' HN'.
      destruct (proj1 (h_pb w HX t) SSpin u) as [HFu _]; [simps Hs; reflexivity|].
      match goal with |- context [round_end ?w2 u] =>
        eassert (HT : TS t w w2 _ _) by (ts_solve; rewrite Hlen; exact Ht);
        pose proof (round_end_F w2 u HFu) as HR;
        destruct (round_end_fields w2 u) as (R1 & _ & R3 & _ & R5 & _ & R7 & _ & R9 & R10 & R11 & _);
        destruct (round_end w2 u) as [w3 u3] eqn:Ere; cbn [fst snd] in *
      end.
      pose proof (scan_from_F m 3 w3 u3 HR) as HP.
      pose proof (scan_from_sres m 3 w3 u3) as [Hsr _].
      pose proof (scan_from_wt m 3 w3 u3) as [Hw1 Hw2].
      destruct (scan_from_fields m 3 w3 u3) as (F1 & F2 & _ & F4 & _ & F6).
      destruct (scan_from 3 w3 m u3) as [w4 p'] eqn:Esf. cbn [fst snd] in *.
      rewrite R10 in Hw1. rewrite R11 in Hw2. rewrite R3 in F1. rewrite R7 in F2. rewrite R5 in F4. rewrite R9 in F6.
      eassert (HT3 : TS t w (set_pc w4 t p') _ _) by (apply TS_set_pc; eapply TS_eq; [exact HT | exact Hw1 | exact Hw2]).
      pose proof (TS_get _ _ _ _ _ HT3) as Eg.
      eapply (HBX_scan_finish w (set_pc w4 t p') t _ 0 HL HX _ Hoth Eg).
      * simps Hs. reflexivity.
      * change (word (set_pc w4 t p')) with (word w4). rewrite Hw1. wcbn. exact (fl_spin_scan (word w) Rw).
      * left; reflexivity.
      * change (wcond w4 = wcond w). rewrite F1. reflexivity.
      * change (wtype w4 = wtype w). rewrite F2. reflexivity.
      * change (pst w4 = pst w). rewrite F6. reflexivity.
      * change (waiting w4 = waiting w). rewrite F4. reflexivity.
      * intros y f0 Ny Ef. apply (no_other_fin_U w t y f0 HU); auto; unfold get; rewrite Hs; reflexivity.
      * simps Hs. reflexivity.
      * apply (h_swt w HX t). simps Hs. reflexivity.
      * simps Hs. unfold wclient. cbn [held conv t_pc frozen_old]. rewrite (proj1 (scanres_more _ Hsr)). intros E; exact E.
      * cbn [t_pc]. exact Hsr.
      * cbn [t_pc]. eapply (PB_ext w4); [reflexivity | reflexivity | reflexivity | reflexivity | exact HP].
      Unshelve. rewrite <- Eg. apply HN'.
    + mwsome9 Hok mx. unfold spin_set. cbv beta iota. cas_split9 w; [subst old | B9].
      match goal with |- context [mw_first (get_mw ?ww t)] =>
        assert (get_mw ww t = x) as Eg0 by (erewrite (TS_get_mw t w); [| ts_solve; rewrite Hlen; exact Ht]; unfold get; rewrite Hs; reflexivity);
        rewrite Eg0 end.
      assert (Egm : get_mw w t = x) by (unfold get_mw, get; rewrite Hs; reflexivity). rewrite Egm.
      destruct (mw_cond x) as [c0|] eqn:Emc;
        [ pose proof (fl_spin_wait (word w) (Some c0) Rw) as FL | pose proof (fl_spin_wait (word w) None Rw) as FL ];
        destruct (mw_first x); F9 FL.
      all: first [ (intros _; right; right; reflexivity)
                 | (intros y0 f0 Ny0 Ef; exfalso; apply (no_other_fin n w _ t y0 f0 HI'); auto; rewrite Eg; reflexivity) ].
  - (* RmLoad *) destruct k; try contradiction; B9.
  - (* RmCas *) destruct k; try contradiction.
    + destruct (Z.eqb_spec (rcount w (List.hd t (u_rest u))) oldv) as [Erc|Erc]; [| B9].
      destruct Hok as (Hnh & lt & Hown & Hsc). cbn [scan_pc_ok spin] in Hsc. destruct Hsc as (-> & Hu).
      assert (Ew : winfo w t = sinfo mx SRm u) by (rewrite (winfo_scan w t SRm u); unfold get; rewrite Hs; reflexivity).
      destruct (a_r2 _ _ _ _ _ _ _ HL t SRm u) as (_ & Rn & [pre Hsuf] & (Hne & Hqe)); [rewrite Ew; reflexivity|].
      destruct (proj1 (h_pb w HX t) SRm u) as [HFu HRm]; [simps Hs; reflexivity|]. specialize (HRm eq_refl).
      destruct (u_rest u) as [|e tl0] eqn:Er; [congruence|]. cbn [List.hd List.tl] in *.
      match goal with |- context [remove_from ?a ?b ?c ?d (u_new u) e] =>
        pose proof (remove_from_fst a b c d (u_new u) e) as Enl;
        destruct (remove_from a b c d (u_new u) e) as [nl rg] eqn:Erm end.
      cbn [fst] in Enl.
      pose proof (RingInv_NoDup _ _ _ _ Rn) as Hnd. rewrite Hsuf in Hnd. apply NoDup_remove_2 in Hnd.
      intros HI' Hoth HA1 HL' HU' HN'.
      match goal with |- context [after_inner ?w2 m (inner ?w2 m ?u' tl0)] =>
        assert (HFu' : scanF w2 u');
        [ destruct HFu as (A & B & C & D);
          split; [exact A|]; split; [split; intros E0; [destruct (u_wake u); discriminate E0 | discriminate E0]|];
          split; [intros E0; discriminate E0|];
          intros H5; destruct (D H5) as (D1 & q & Q1 & Q2 & Q3 & Q4); split; [discriminate|]; exists q;
          assert (Nq : q <> e) by (intros ->; specialize (HRm e tl0 Er); unfold wakeable in HRm;
                                   destruct (u_wty u); [rewrite Q2 in HRm; discriminate HRm | congruence]);
          split; [| auto]; cbn [u_done u_new]; apply in_app_or in Q1; apply in_or_app;
          destruct Q1 as [Q1|Q1]; [left; exact Q1 | right; rewrite Enl; apply remove1_in_neq; assumption]
        | assert (Hsub : forall x0, In x0 tl0 -> In x0 (u_new u'))
            by (intros x0 Hx0; cbn [u_new]; rewrite Enl; apply remove1_in_neq;
                [intros ->; apply Hnd; apply in_or_app; right; exact Hx0 | rewrite Hsuf; apply in_or_app; right; right; exact Hx0]);
          pose proof (inner_after_F w2 m u' tl0 HFu' Hsub) as HP;
          pose proof (after_inner_sres w2 m _ (inner_scanres w2 m tl0 u')) as [Hsr _];
          pose proof (after_inner_wt w2 m (inner w2 m u' tl0)) as [Hw1 Hw2];
          destruct (after_inner_fields w2 m (inner w2 m u' tl0)) as (F1 & F2 & _ & F4 & _ & F6);
          destruct (after_inner w2 m (inner w2 m u' tl0)) as [w3 p'] eqn:Ea; cbn [fst snd] in *;
          eassert (HT : TS t w w2 _ _) by (ts_solve; rewrite Hlen; exact Ht) ]
      end.
      eassert (HT3 : TS t w (set_pc w3 t p') _ _) by (apply TS_set_pc; eapply TS_eq; [exact HT | exact Hw1 | exact Hw2]).
      pose proof (TS_get _ _ _ _ _ HT3) as Eg.
      eapply (HBX_scan_finish w (set_pc w3 t p') t _ 0 HL HX _ Hoth Eg).
      * simps Hs. reflexivity.
      * change (word (set_pc w3 t p')) with (word w3). rewrite Hw1. wcbn. exact (fl_refl (word w)).
      * left; reflexivity.
      * change (wcond w3 = wcond w). rewrite F1. reflexivity.
      * change (wtype w3 = wtype w). rewrite F2. reflexivity.
      * change (pst w3 = pst w). rewrite F6. reflexivity.
      * change (waiting w3 = waiting w). rewrite F4. reflexivity.
      * intros y f0 Ny Ef. apply (no_other_fin_U w t y f0 HU); auto; unfold get; rewrite Hs; reflexivity.
      * simps Hs. reflexivity.
      * apply (h_swt w HX t). simps Hs. reflexivity.
      * simps Hs. unfold wclient. cbn [held conv t_pc frozen_old]. rewrite (proj1 (scanres_more _ Hsr)). intros E; exact E.
      * cbn [t_pc]. exact Hsr.
      * cbn [t_pc]. eapply (PB_ext w3); [reflexivity | reflexivity | reflexivity | reflexivity | exact HP].
      Unshelve. rewrite <- Eg. apply HN'.
    + destruct (Z.eqb_spec (rcount w t) oldv) as [Erc|Erc]; [| B9].
      pose proof (a_kt _ _ _ _ _ _ _ HL t) as Hin. unfold winfo, get in Hin. rewrite Hs in Hin. specialize (Hin eq_refl).
      pose proof Hok as Hok'. unfold try_frozen, in_mw in Hok'; cbn [mw] in Hok'. destruct Hok' as ((x & Hx & Ho & _) & Hto). subst mx.
      assert (Ewf : word w = mu_try_acquire_after_timeout_or_cancel_cas1_new old) by (apply (HF t old); unfold get; rewrite Hs; reflexivity).
      assert (Hsp : spin (get w t) = true) by (unfold get; rewrite Hs; apply Ho).
      destruct (remove_from _ _ _ _ (queue _) t) as [nl rg] eqn:Erm. B9.
      * intros y0 f0 Ny0 Ef. exfalso. apply (no_other_fin n w w t y0 f0 H0); auto.
      * intros T5. rewrite Ewf, (frozen_tb5 old Hto) in T5. discriminate T5.
      * intros _. left. intros E. rewrite E in Hin. destruct Hin.
  - (* UlFast *) destruct Hok as (Ho & ->). own9 Ho. cas_split9 w; [| B9].
    pose proof (fl_ufast m) as FL. F9 FL.
  - (* UlLoad *) destruct Hok as (Ho & ->). destruct (unlock_try_cas2 m (word w)); [| destruct (unlock_bad m (word w))]; B9.
  - (* UlCas2 *) destruct Hok as (Ho & ->). own9 Ho. cas_split9 w; [subst old | B9].
    pose proof (fl_unlock_new2 m (word w) Rw (held_rel_pre _ _ (Hheld m eq_refl))) as FL. destruct m; cbn [cur] in FL; F9 FL.
  - (* UwFast *) destruct Hok as (Ho & ->). own9 Ho. cas_split9 w; [| B9].
    pose proof fl_uwfast as FL. F9 FL.
  - (* UwLoad *) destruct Hok as (Ho & ->). destruct (nsync_mu_unlock_without_wakeup_cas2_guard (word w)); [| destruct (uw_bad (word w))]; B9.
  - (* UwCas2 *) destruct Hok as (Ho & ->). own9 Ho. cas_split9 w; [subst old | B9].
    pose proof (fl_uw_new2 (word w) Rw (proj1 (Hheld W eq_refl))) as FL. F9 FL.
  - (* UsLoad *) destruct (nsync_mu_unlock_slow_cas1_guard (word w)); [B9|].
    destruct (nsync_mu_unlock_slow_cas2_guard (word w)) eqn:G2; [B9 | noop9].
  - (* UsCasRel *) destruct Hok as (Ho & Hnh). own9 Ho. cas_split9 w; [subst old | B9].
    pose proof (fl_unlock_slow_cas1 m (word w) Rw (held_rel_pre _ _ (Hheld m eq_refl))) as FL.
    destruct m; cbn [cur] in FL; destruct mx; F9 FL.
  - (* UsCasSpin *) cas_split9 w; [| B9].
    destruct Hok as (Ho & Hnh & G). own9 Ho. subst old. pose proof (held_rel_pre2 _ _ (Hheld m eq_refl)) as Hp.
    destruct (unlock_slow_cas2_guard_flags (word w) Rw G) as (G2 & G3 & G1).
    destruct (has (word w) MU_CONDITION) eqn:Etest; intros HI' Hoth HA1 HL' HU' HN';
    (match goal with |- context [scan_from 3 (set_queue ?w2 []) m ?u] =>
      eassert (HT : TS t w (set_queue w2 []) _ _) by (ts_solve; rewrite Hlen; exact Ht);
      assert (HFu : scanF (set_queue w2 []) u)
        by (split; [apply uset_ok_init|]; split; [split; reflexivity|]; split; [reflexivity|]; intros E5; discriminate E5);
      pose proof (scan_from_F m 3 (set_queue w2 []) u HFu) as HP;
      pose proof (scan_from_sres m 3 (set_queue w2 []) u) as [Hsr _];
      pose proof (scan_from_wt m 3 (set_queue w2 []) u) as [Hw1 Hw2];
      destruct (scan_from_fields m 3 (set_queue w2 []) u) as (F1 & F2 & _ & F4 & _ & F6);
      destruct (scan_from 3 (set_queue w2 []) m u) as [w4 p'] eqn:Esf; cbn [fst snd] in *
    end);
    (eassert (HT3 : TS t w (set_pc w4 t p') _ _) by (apply TS_set_pc; eapply TS_eq; [exact HT | exact Hw1 | exact Hw2]));
    pose proof (TS_get _ _ _ _ _ HT3) as Eg.
    + eapply (HBX_scan_finish w (set_pc w4 t p') t _ 8 HL HX _ Hoth Eg).
      * simps Hs. reflexivity.
      * change (word (set_pc w4 t p')) with (word w4). rewrite Hw1. wcbn. exact (fl_unlock_slow_cas2 m true (word w) Rw Hp).
      * right; reflexivity.
      * change (wcond w4 = wcond w). rewrite F1. reflexivity.
      * change (wtype w4 = wtype w). rewrite F2. reflexivity.
      * change (pst w4 = pst w). rewrite F6. reflexivity.
      * change (waiting w4 = waiting w). rewrite F4. reflexivity.
      * intros y f0 Ny Ef. apply (no_other_fin n w (set_pc w4 t p') t y f0 HI'); auto; rewrite Eg; reflexivity.
      * simps Hs. reflexivity.
      * exact G2.
      * simps Hs. intros E; discriminate E.
      * cbn [t_pc]. exact Hsr.
      * cbn [t_pc]. eapply (PB_ext w4); [reflexivity | reflexivity | reflexivity | reflexivity | exact HP].
      Unshelve. rewrite <- Eg. apply HN'.
    + eapply (HBX_scan_finish w (set_pc w4 t p') t _ 8 HL HX _ Hoth Eg).
      * simps Hs. reflexivity.
      * change (word (set_pc w4 t p')) with (word w4). rewrite Hw1. wcbn. exact (fl_unlock_slow_cas2 m false (word w) Rw Hp).
      * right; reflexivity.
      * change (wcond w4 = wcond w). rewrite F1. reflexivity.
      * change (wtype w4 = wtype w). rewrite F2. reflexivity.
      * change (pst w4 = pst w). rewrite F6. reflexivity.
      * change (waiting w4 = waiting w). rewrite F4. reflexivity.
      * intros y f0 Ny Ef. apply (no_other_fin n w (set_pc w4 t p') t y f0 HI'); auto; rewrite Eg; reflexivity.
      * simps Hs. reflexivity.
      * exact G2.
      * simps Hs. intros E; discriminate E.
      * cbn [t_pc]. exact Hsr.
      * cbn [t_pc]. eapply (PB_ext w4); [reflexivity | reflexivity | reflexivity | reflexivity | exact HP].
      Unshelve. rewrite <- Eg. apply HN'.
  - (* UsEval *)
    destruct Hok as (Hnh & lt & Hown & Hsc). cbn [scan_pc_ok spin] in Hsc. destruct Hsc as (-> & Hte & Hu).
    destruct (test_held _ lt u Hown Hu Hte) as [Hh Hl]. cbn [held] in Hh. subst h.
    assert (Ew : winfo w t = sinfo mx SEval u) by (rewrite (winfo_scan w t SEval u); unfold get; rewrite Hs; reflexivity).
    destruct (a_r2 _ _ _ _ _ _ _ HL t SEval u) as (_ & Rn & [pre Hsuf] & (p & tl0 & Er & Hc)); [rewrite Ew; reflexivity|].
    destruct (proj1 (h_pb w HX t) SEval u) as [HFu _]; [simps Hs; reflexivity|].
    rewrite Er. destruct (wcond w p) as [[f a]|] eqn:Ec; [clear Hc | congruence].
    intros HI' Hoth HA1 HL' HU' HN'.
    assert (Hsubr : forall x0, In x0 (p :: tl0) -> In x0 (u_new u)) by (intros x0 Hx0; rewrite Hsuf, Er; apply in_or_app; right; exact Hx0).
    match goal with |- context [after_inner ?w2 m ?r] =>
      assert (HP : PB (fst (after_inner w2 m r)) (snd (after_inner w2 m r)) /\ scanres (snd (after_inner w2 m r)))
    end.
    { destruct (pst w f a) eqn:Ef.
      - match goal with |- context [wakeable ?ww u p] => destruct (wakeable ww u p) eqn:Wk end.
        + cbn [after_inner fst snd]. split; [| exact I]. split; [| intros f0 E; discriminate E].
          intros k u0 E. injection E as <- <-. split; [exact HFu|]. intros _ e tl1 Er1. rewrite Er in Er1. injection Er1 as <- <-. exact Wk.
        + split; [| apply after_inner_sres; apply inner_scanres]. apply inner_after_F.
          * destruct HFu as (A & B & C & D).
            assert (Hw : u_wty u <> None /\ wtype w p = W).
            { unfold wakeable in Wk. destruct (u_wty u); [| discriminate Wk]. split; [discriminate|].
              change (mode_eqb (wtype w p) R = false) in Wk. destruct (wtype w p); [reflexivity | discriminate Wk]. }
            destruct Hw as [Hw1 Hw2].
            split; [apply uset_ok_set_ww; exact A|]. split; [exact B|]. split; [intros N0; destruct (Hw1 N0)|].
            intros _. split; [exact Hw1|]. exists p.
            split; [apply in_or_app; right; apply Hsubr; left; reflexivity|].
            split; [exact Hw2|]. split; [unfold wtrue; cbn [wcond pst log_eval add_ev]; rewrite Ec; exact Ef|].
            cbn [u_late set_uset]. intros L0. rewrite Hl in L0. discriminate L0.
          * intros x0 Hx0. apply Hsubr. right; exact Hx0.
      - split; [| apply after_inner_sres; apply inner_scanres]. apply inner_after_F; [exact HFu|].
        intros x0 Hx0. apply (skip_past_in _ _ _ _ _ Hsubr Hx0). }
    destruct HP as [HP Hsr].
    match goal with |- context [after_inner ?w2 m ?r] =>
      pose proof (after_inner_wt w2 m r) as [Hw1 Hw2];
      destruct (after_inner_fields w2 m r) as (F1 & F2 & _ & F4 & _ & F6);
      destruct (after_inner w2 m r) as [w3 p'] eqn:Ea; cbn [fst snd] in *;
      eassert (HT : TS t w w2 _ _) by (ts_solve; rewrite Hlen; exact Ht)
    end.
    eassert (HT3 : TS t w (set_pc w3 t p') _ _) by (apply TS_set_pc; eapply TS_eq; [exact HT | exact Hw1 | exact Hw2]).
    pose proof (TS_get _ _ _ _ _ HT3) as Eg.
      eapply (HBX_scan_finish w (set_pc w3 t p') t _ 0 HL HX _ Hoth Eg).
    * simps Hs. reflexivity.
    * change (word (set_pc w3 t p')) with (word w3). rewrite Hw1. wcbn. exact (fl_refl (word w)).
    * left; reflexivity.
    * change (wcond w3 = wcond w). rewrite F1. reflexivity.
    * change (wtype w3 = wtype w). rewrite F2. reflexivity.
    * change (pst w3 = pst w). rewrite F6. reflexivity.
    * change (waiting w3 = waiting w). rewrite F4. reflexivity.
    * intros y f0 Ny Ef. apply (no_other_fin_U w t y f0 HU); auto; unfold get; rewrite Hs; reflexivity.
    * simps Hs. reflexivity.
    * apply (h_swt w HX t). simps Hs. reflexivity.
    * simps Hs. unfold wclient. cbn [held conv t_pc frozen_old]. rewrite (proj1 (scanres_more _ Hsr)). intros E; exact E.
    * cbn [t_pc]. exact Hsr.
    * cbn [t_pc]. eapply (PB_ext w3); [reflexivity | reflexivity | reflexivity | reflexivity | exact HP].
    Unshelve. rewrite <- Eg. apply HN'.
  - (* UsRelLoad *) B9.
  - (* UsRelCas *) cas_split9 w; [| B9].
    destruct Hok as (Hnh & lt & Hown & Hsc). cbn [scan_pc_ok spin] in Hsc. destruct Hsc as (-> & Hu & Hl).
    assert (HW : late u = MU_WLOCK -> old mod 2 = 1).
    { subst old. destruct Hown as [(E1 & E2 & E3) | (E1 & E2 & E3)]; cbn [held] in E2; rewrite Hl, E1; subst h;
        [intros _; apply (Hheld W eq_refl) | discriminate]. }
    subst old. pose proof (fl_cas3 u (word w) Rw Hu HW) as FL.
    assert (HFf : finF w u) by (apply (proj2 (h_pb w HX t) u); simps Hs; reflexivity).
    destruct HFf as (B1 & B2 & B3 & B4 & B5 & B6 & B7 & B8 & B9).
    assert (Hsp : spin (get w t) = true) by (unfold get; rewrite Hs; reflexivity).
    assert (Hscl : scl (t_pc (get w t)) = true) by (unfold get; rewrite Hs; reflexivity).
    destruct (wake u) as [|q rest] eqn:Ewk; destruct mx as [x|]; F9 FL.
    all: first
      [ (intros E; rewrite B3 in E; discriminate E)
      | (intros E2c; split; [fldr9; wcbn; exact (B6 E2c)|]; split; intros y;
         (destruct (Nat.eq_dec y t) as [->|Ny]; [unfold P; rewrite Eg; simps Hs; reflexivity|]); unfold P; rewrite (Hoth y Ny);
         [ destruct (lssw (t_pc (get w y))) eqn:El; [exfalso | reflexivity];
           pose proof (pc_ok_get n w y H0) as Hoky; unfold pc_ok in Hoky; destruct (t_pc (get w y)); try discriminate El;
           destruct Hoky as ((_ & Hspy & _) & _); apply Ny; apply (spin_unique n w y t H0 Hspy Hsp)
         | destruct (scl (t_pc (get w y))) eqn:Es; [exfalso | reflexivity]; apply Ny; apply HU; assumption ])
      | (intros E5s E5c; destruct (B9 E5s E5c) as (p & P1 & P2 & P3 & P4);
         exists p; apply (witness_claim _ p HI' HL' HA1);
         [ intros y x0 Ex0 Hpe0; fldr9; wcbn; destruct (Nat.eq_dec y t) as [->|Ny];
           [ revert Ex0 Hpe0; unfold MX, P; rewrite Eg; simps Hs; intros Ex0 Hpe0;
             first [discriminate Ex0 | (eapply (h_wc w HX t); [simps Hs; reflexivity | simps Hs; reflexivity])]
           | unfold MX in Ex0; unfold P in Hpe0; rewrite (Hoth y Ny) in Ex0, Hpe0; exact (h_wc w HX y x0 Ex0 Hpe0) ]
         | fldr9; wcbn; exact P1 | fldr9; wcbn; exact P2 | fldr9; wcbn; exact P3
         | destruct Hown as [(E1 & E2 & E3) | (E1 & E2 & E3)];
           [ left; intros y; destruct (Nat.eq_dec y t) as [->|Ny]; [rewrite Eg; simps Hs; reflexivity|]; rewrite (Hoth y Ny); unfold wclient;
             destruct (held (get w y)) as [[|]|] eqn:Ehy; try reflexivity; exfalso;
             apply (other_holders n w t H0) with (t' := y); auto; unfold get; rewrite Hs; cbn [held] in *; rewrite E2; discriminate
           | right; fldr9; wcbn; apply P4; rewrite Hl; exact E1 ] ]) ].
  - (* UsWakeStore *) destruct (wake u) as [|q rest] eqn:Ewk; destruct mx; B9.
  - (* UsWakeV *) destruct (wake u) as [|q rest] eqn:Ewk; destruct mx; B9.
  - (* SetC *) destruct Hok as (Ho & ->). own9 Ho. intros HI' Hoth _ _ _ _. cbn [fst].
    match goal with |- HBX ?W0 => eassert (HT : TS t w W0 _ _) by (ts_solve; rewrite Hlen; exact Ht) end.
    pose proof (TS_get _ _ _ _ _ HT) as Eg.
    apply (HBX_setc w _ t H0); [reflexivity | reflexivity | reflexivity | reflexivity | reflexivity | exact Hoth
      | simps Hs; repeat split | unfold P; rewrite Eg; repeat split
      | unfold get; rewrite Hs; reflexivity | unfold get; rewrite Hs; reflexivity | exact HX].
  - (* MwLoad *) destruct Hok as (-> & -> & Hh & Hm). destruct h as [h|]; [| congruence]. destruct mx as [x|]; [| congruence].
    destruct (band (word w) MU_ANY_LOCK =? 0); [B9|].
    match goal with |- context [mw_cond (get_mw ?ww t)] =>
      assert (get_mw ww t = mk_mw (if negb (band (word w) MU_RHELD_IF_NON_ZERO =? 0) then R else W) (mw_cond x) (mw_eq x) (mw_dl x) (mw_canc x) (mw_first x) (mw_rc x) (mw_hadw x)
                                  (mw_semout x) (mw_have x) (mw_outcome x) (mw_tmo x) (mw_ent x)) as Eg
        by (erewrite (TS_get_mw t w); [| ts_solve; rewrite Hlen; exact Ht]; unfold get; rewrite Hs; reflexivity);
      rewrite Eg end.
    cbn [mw_cond]. destruct (mw_cond x) eqn:Emc; [B9|].
    unfold mw_after_eval. rewrite Eg. cbn [mw_outcome mw_mode mw_cond mw_eq]. rewrite guard_true_res. B9.
  - (* MwEval *) mwsome9 Hok mx. unfold get_mw, get. rewrite Hs. cbn [mw].
    destruct (mw_cond x) as [[f a]|] eqn:Emc; unfold mw_after_eval;
      (match goal with |- context [get_mw ?ww t] =>
         assert (get_mw ww t = x) as Eg by (unfold get_mw, get; cbn [thr log_eval add_ev]; rewrite Hs; reflexivity); rewrite Eg end);
      rewrite ?guard_true_res; try (destruct (nsync_mu_wait_with_deadline_store1_guard _ _) eqn:Gd); B9.
    intros x0 _ _. wcbn. rewrite fupd_eq, Emc. discriminate.
  - (* MwStoreWaiting *) mwsome9 Hok mx. B9.
  - (* MwRcLoad *) mwsome9 Hok mx. B9.
  - (* MwRelLoad *) mwsome9 Hok mx. B9.
  - (* MwRelCas *) unfold in_mw in Hok; cbn [mw] in Hok. destruct Hok as (x & Hx & Ho & Hh & Hadd). subst mx. own9 Ho.
    pose proof (held_rel_pre _ _ (Hheld (mw_mode x) eq_refl)) as Hp. cas_split9 w; [subst old | B9].
    pose proof (fl_mw_cas1 (mw_mode x) (word w) add Rw Hp Hadd) as FL.
    destruct (add =? 0).
    + match goal with |- context [mw_mode (get_mw ?ww t)] =>
        assert (get_mw ww t = x) as Eg by (erewrite (TS_get_mw t w); [| ts_solve; rewrite Hlen; exact Ht]; unfold get; rewrite Hs; reflexivity);
        rewrite Eg end.
      F9 FL.
    + F9 FL.
  - (* MwLoadW1 *) mwsome9 Hok mx. unfold get_mw, get. rewrite Hs. cbn [mw].
    destruct (waiting w t) eqn:Ew.
    + destruct (mw_semout x =? 0); B9.
    + destruct (mw_have x) eqn:Eh; B9.
      * simps Hs. intros _ E. rewrite Eh, andb_false_r in E. discriminate E.
      * simps Hs. intros _ E. left. destruct (mw_mode x); [reflexivity | discriminate E].
  - (* MwSemP *) mwsome9 Hok mx. unfold get_mw, get. rewrite Hs. cbn [mw]. destruct c.
    + destruct (0 <? sem w t); [B9 | noop9].
    + destruct (mw_dl x) as [d|]; [| noop9]. destruct (d <=? clock w); [B9 | noop9].
    + destruct (mw_canc x && note w); [B9 | noop9].
  - (* MwLoadW2 *) mwsome9 Hok mx. destruct (waiting w t); B9.
  - (* MwLoadW3 *) mwsome9 Hok mx. B9.
  - (* MtLoad *) mwsome9 Hok mx. destruct (mu_try_acquire_after_timeout_or_cancel_cas1_guard (word w)) eqn:G1;
      [| destruct (mu_try_acquire_after_timeout_or_cancel_cas2_guard (word w)) eqn:G2]; B9.
  - (* MtCas1 *) unfold mt_pre, in_mw in Hok; cbn [mw] in Hok. destruct Hok as ((x & Hx & Ho & _) & G). subst mx. own9 Ho. cas_split9 w.
    + subst old. pose proof (fl_mt_cas1 (word w) (mt_cas1_guard_facts _ Rw G)) as FL. F9 FL.
    + destruct (mu_try_acquire_after_timeout_or_cancel_cas2_guard old) eqn:G2; B9.
  - (* MtCas2 *) mwsome9 Hok mx. cas_split9 w; [subst old | B9].
    pose proof (fl_mt_cas2 (word w) Rw) as FL. F9 FL.
    intros _ _. exists t. left. unfold P. rewrite Eg. reflexivity.
  - (* MtLoadW *) mwsome9 Hok mx. destruct (waiting w t); B9.
  - (* MtLoadRc *) mwsome9 Hok mx. unfold get_mw, get. rewrite Hs. cbn [mw]. destruct (mw_rc x =? rcount w t); B9.
  - (* MtStoreW *) mwsome9 Hok mx. B9.
  - (* MtStore2 *) unfold try_frozen, in_mw in Hok; cbn [mw] in Hok. destruct Hok as ((x & Hx & Ho & _) & Hto). subst mx. own9 Ho.
    assert (Ewf : word w = mu_try_acquire_after_timeout_or_cancel_cas1_new old) by (apply (HF t old); unfold get; rewrite Hs; reflexivity).
    unfold get_mw, get. rewrite Hs. cbn [mw].
    pose proof (fl_mt_store2 old (mw_mode x) Hto) as FL. F9 FL.
    all: simps Hs; intros E; right; right; split; [reflexivity | rewrite Ewf; apply frozen_tb5; exact Hto].
  - (* MtStore3 *) unfold try_frozen, in_mw in Hok; cbn [mw] in Hok. destruct Hok as ((x & Hx & Ho & _) & Hto). subst mx. own9 Ho.
    assert (Ewf : word w = mu_try_acquire_after_timeout_or_cancel_cas1_new old) by (apply (HF t old); unfold get; rewrite Hs; reflexivity).
    pose proof (fl_mt_store3 old Hto) as FL. F9 FL.
  - (* Crash *) noop9.
Qed.

(* Tick / Notify / NoteV touch nothing HBX mentions *)
Lemma HBX_step w a : LInv3 n w -> NC w -> HA w -> HA (fst (step w a)) -> HBX w -> HBX (fst (step w a)).
Proof.
  intros (((HI & HFr) & HL1 & HU & H2) & H3) HN HAw HA1 HX. destruct a as [t c|dt| |p]; cbn [step] in *.
  - apply HBX_step_thr; assumption.
  - destruct (0 <=? dt); [| exact HX]. cbn [fst]. apply (HBX_ext w); try reflexivity; exact HX.
  - cbn [fst]. apply (HBX_ext w); try reflexivity; exact HX.
  - destruct (note w); [| exact HX]. cbn [fst]. apply (HBX_ext w); try reflexivity; exact HX.
Qed.

Lemma HBX_run sched : forall w, LInv3 n w -> NC w -> HA w -> HBX w -> HBX (run w sched).
Proof.
  unfold run. induction sched as [|a rest IH]; intros w HL3 HN HAw HX; cbn [fold_left]; [exact HX|].
  pose proof (HA_step n Hn w a (proj1 HL3) HN HAw) as HA1.
  apply IH; [apply (LInv3_step n Hn); exact HL3 | apply (NC_step_LInv n Hn); [exact (proj1 HL3) | exact HN] | exact HA1|].
  apply HBX_step; assumption.
Qed.

(* the statements asked for, for HB itself where HB alone suffices, for HBX otherwise *)
Lemma begin_op_HB w t : Inv n w -> HBX w -> HB (begin_op w t).
Proof. intros HI HX. apply HBX_HB, begin_op_HBX; assumption. Qed.
Lemma HB_step_thr w0 t c : Inv n w0 -> frozen_word w0 -> L1 w0 -> U1 w0 -> L2 w0 -> L3 w0 -> NC w0 -> HA w0 ->
  HA (fst (step_thr w0 t c)) -> HBX w0 -> HB (fst (step_thr w0 t c)).
Proof. intros. apply HBX_HB, HBX_step_thr; assumption. Qed.
Lemma HB_step w a : LInv3 n w -> NC w -> HA w -> HA (fst (step w a)) -> HBX w -> HB (fst (step w a)).
Proof. intros. apply HBX_HB, HBX_step; assumption. Qed.
End Step9.

Lemma HBX_init progs cl c0 : HBX (init progs cl c0).
Proof.
  assert (EP : forall t, P (init progs cl c0) t = Idle) by (intros t; unfold P; apply (init_get progs cl c0 t)).
  assert (EM : forall t, MX (init progs cl c0) t = None) by (intros t; unfold MX; apply (init_get progs cl c0 t)).
  constructor.
  - intros x m l E. rewrite EP in E. discriminate E.
  - intros E. discriminate E.
  - intros E. discriminate E.
  - intros [E | [y E]]; [exfalso; apply E; reflexivity | rewrite EP in E; discriminate E].
  - intros t E. rewrite EP in E. discriminate E.
  - intros t. rewrite EP. apply PB_none; reflexivity.
  - intros t x E. rewrite EM in E. discriminate E.
Qed.
Lemma HB_init progs cl c0 : HB (init progs cl c0).
Proof. apply HBX_HB, HBX_init. Qed.

Theorem HBX_reachable progs cl c0 sched :
  Z.of_nat (length progs) < 2 ^ 24 - 1 -> no_nw progs -> HBX (run (init progs cl c0) sched).
Proof.
  intros H Hnw. apply (HBX_run _ H).
  - split; [apply init_LInv | apply init_L3; exact Hnw].
  - apply NC_init.
  - apply HA_init.
  - apply HBX_init.
Qed.
Theorem HB_reachable progs cl c0 sched :
  Z.of_nat (length progs) < 2 ^ 24 - 1 -> no_nw progs -> HB (run (init progs cl c0) sched).
Proof. intros H Hnw. apply HBX_HB, HBX_reachable; assumption. Qed.

Print Assumptions HBX_HB.
Print Assumptions begin_op_HBX.
Print Assumptions HBX_step_thr.
Print Assumptions HBX_step.
Print Assumptions HBX_init.
Print Assumptions HBX_reachable.
Print Assumptions HB_reachable.
