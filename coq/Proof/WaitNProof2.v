(* WaitNProof2: the state forms of C11 (second part of the proofs about Model/WaitNModel.v; statements in
   Props/Properties_C11.v).
   Part 5: a second thread-local invariant (order of enqueue / unlock / P in the call's log, the sleep deadline as the minimum
           of the round's ready times, which objects a call has examined);
   part 6: how one step of a thread moves its own frame (a summary used by the world invariants);
   part 7: world invariants -- who holds the mutex, the sleep deadline against the notes' expiry times, the returned index
           against the objects' state. *)
From NsyncBase Require Import CSem.
From NsyncGen Require Import Consts Sites.
From NsyncModel Require Import WaitNModel.
From NsyncProof Require Import WaitNProof.
From Coq Require Import List ZArith Bool Arith Lia.
Import ListNotations.

(* ====================================================================== *)
(* Part 5: the log of a call *)

Definition is_p (e : ev) : bool := match e with EvP _ => true | _ => false end.
Definition not_unlock (e : ev) : Prop := match e with EvUnlock => False | _ => True end.
Definition not_enq (e : ev) : Prop := match e with EvEnq _ _ => False | _ => True end.

Lemma bu_cons2 L e : not_unlock e -> before_unlock (e :: L) = before_unlock L.
Proof. destruct e; simpl; try contradiction; auto. Qed.
Lemma hp_cons L e : has_p (e :: L) = is_p e || has_p L.
Proof. reflexivity. Qed.
Lemma ei_cons L e : not_enq e -> enq_idx (e :: L) = enq_idx L.
Proof. destruct e; simpl; try contradiction; auto. Qed.
Lemma hf_cons L e k : has_first L k -> has_first (e :: L) k.
Proof. intros [nt [A B]]. exists nt. split; auto. now right. Qed.
Lemma hd_cons L e j : has_deq L j -> has_deq (e :: L) j.
Proof. intros [r [o A]]. exists r, o. now right. Qed.
Lemma rev_seq_S i : rev (seq 0 (S i)) = i :: rev (seq 0 i).
Proof. rewrite seq_S. rewrite rev_app_distr. reflexivity. Qed.
Lemma hf_step L j nt : time_pos nt = true -> (forall k, (k < j)%nat -> has_first L k) ->
  forall k, (k < S j)%nat -> has_first (EvReady true j nt :: L) k.
Proof.
  intros Hp H k Hk. destruct (Nat.eq_dec k j) as [-> | Hne].
  - exists nt. split; auto. now left.
  - apply hf_cons. apply H. lia.
Qed.
Lemma hd_step L j r o : (forall k, (k < j)%nat -> has_deq L k) -> forall k, (k < S j)%nat -> has_deq (EvDeq j r o :: L) k.
Proof.
  intros H k Hk. destruct (Nat.eq_dec k j) as [-> | Hne].
  - exists r, o. now left.
  - apply hd_cons. apply H. lia.
Qed.
Lemma hd_weak L e j : (forall k, (k < j)%nat -> has_deq L k) -> forall k, (k < j)%nat -> has_deq (e :: L) k.
Proof. intros H k Hk. apply hd_cons. now apply H. Qed.
Lemma hf_weak L e j : (forall k, (k < j)%nat -> has_first L k) -> forall k, (k < j)%nat -> has_first (e :: L) k.
Proof. intros H k Hk. apply hf_cons. now apply H. Qed.
Lemma of_cons L j nt : only_first L -> only_first (EvReady true j nt :: L).
Proof. intros H e [<- | Hin]; [right; eauto | now apply H]. Qed.
Lemma of_nounlock L : only_first L -> before_unlock L = None /\ has_p L = false /\ enq_idx L = [].
Proof.
  induction L as [|e L IH]; intros H; [auto|].
  destruct IH as [A [B C]]; [intros x Hx; apply H; now right|].
  destruct (H e (or_introl eq_refl)) as [-> | [j [nt ->]]]; simpl; auto.
Qed.

(* the positive ready times of notes read in the current round are the notes' expiry times (ex n = expiry of note n: immutable) *)
Definition rnd_ok (ex : nat -> time) (objs : list oref) (L : list ev) : Prop :=
  forall k nt n, In (k, nt) (round L) -> nth k objs (ONote 0) = ONote n -> time_pos nt = true -> ex n = nt.
Lemma rnd_nil ex objs L : round L = [] -> rnd_ok ex objs L.
Proof. intros H k nt n Hin. rewrite H in Hin. destruct Hin. Qed.
Lemma rnd_cons ex objs L j nt : rnd_ok ex objs L -> (forall n, nth j objs (ONote 0) = ONote n -> time_pos nt = true -> ex n = nt) ->
  rnd_ok ex objs (EvReady false j nt :: L).
Proof. intros H Hn k nt' n [Heq | Hin]; [inversion Heq; subst; apply Hn | now apply H]. Qed.
Lemma rnd_ext ex ex' objs L : (forall n, ex n = ex' n) -> rnd_ok ex objs L -> rnd_ok ex' objs L.
Proof. intros He H k nt n A B C. rewrite <- He. eapply H; eauto. Qed.
Lemma ready_note_exp w o r w1 nt n : obj_ready_time w false o r = (w1, nt) -> o = ONote n -> time_pos nt = true -> n_expiry (notes w n) = nt.
Proof.
  intros H -> Hp. simpl in H. unfold note_deadline in H. destruct (znz (n_notified (notes w n))) eqn:E.
  - inversion H; subst. discriminate.
  - unfold nt_time in H. rewrite E in H. destruct (_ && _); inversion H; subst; [discriminate | reflexivity].
Qed.

(* the part of the invariant that holds from the end of the enqueue loop on *)
Definition mid2 (clk : Z) (s : tstate) : Prop :=
  let f := fr s in let L := f_log f in let cnt := count s in
  time_pos (f_dl f) = true /\ (forall k, (k < cnt)%nat -> has_first L k) /\
  (f_dl_seen f = true -> In (EvP PTimeout) L /\ f_i f = cnt /\ time_reached (f_dl f) clk = true) /\
  (if f_unlocked f then exists pre, before_unlock L = Some pre /\ enq_idx pre = rev (seq 0 cnt) /\ has_p pre = false
   else before_unlock L = None /\ (f_mu f <> None -> has_p L = false)) /\
  (has_p L = true -> f_i f = cnt).                     (* a P is reached only when all `count` enqueue calls were made *)
(* before the unlock / the sleep loop, k enqueue calls made *)
Definition pre2 (s : tstate) (k : nat) : Prop :=
  let f := fr s in let L := f_log f in
  before_unlock L = None /\ has_p L = false /\ f_dl_seen f = false /\ f_unlocked f = false /\ enq_idx L = rev (seq 0 k).

Definition linv2 (clk : Z) (ex : nat -> time) (s : tstate) : Prop :=
  let f := fr s in let L := f_log f in let cnt := count s in
  match pc_ s with
  | PFirst j => (forall k, (k < j)%nat -> has_first L k) /\ pre2 s 0 /\ only_first L
  | PInit i | PEnq i => time_pos (f_dl f) = true /\ (forall k, (k < cnt)%nat -> has_first L k) /\ pre2 s i
  | PUnlock => time_pos (f_dl f) = true /\ (forall k, (k < cnt)%nat -> has_first L k) /\ pre2 s cnt
  | PReady j mn => mid2 clk s /\ (f_mu f <> None -> f_unlocked f = true) /\ map fst (round L) = rev (seq 0 j) /\ mn = rmin (f_dl f) L /\
                   rnd_ok ex (f_objs f) L
  | PSleep mn => mid2 clk s /\ (f_mu f <> None -> f_unlocked f = true) /\ map fst (round L) = rev (seq 0 cnt) /\ mn = rmin (f_dl f) L /\
                 time_pos mn = true /\ rnd_ok ex (f_objs f) L
  | PDeqPre k | PDeq k => mid2 clk s /\ (forall j, (j < k)%nat -> has_deq L j)
  | PDeqSpin k => mid2 clk s /\ (forall j, (j < S k)%nat -> has_deq L j)
  | PFree | PLock => mid2 clk s /\ (forall j, (j < f_i f)%nat -> has_deq L j)
  | PRet => (only_first L /\ f_unlocked f = false /\
             (f_ready f = cnt -> time_pos (f_dl f) = false /\ forall k, (k < cnt)%nat -> has_first L k))
            \/ (mid2 clk s /\ (forall j, (j < f_i f)%nat -> has_deq L j))
  | _ => True
  end.

Lemma mid2_lg clk s e : not_unlock e -> (is_p e = true -> f_unlocked (fr s) = true \/ f_mu (fr s) = None) -> (is_p e = true -> f_i (fr s) = count s) ->
  mid2 clk s -> mid2 clk (lg e s).
Proof.
  intros Hu Hp Hi [A [B [C [D D']]]]. unfold mid2.
  change (f_log (fr (lg e s))) with (e :: f_log (fr s)). change (f_unlocked (fr (lg e s))) with (f_unlocked (fr s)).
  change (f_mu (fr (lg e s))) with (f_mu (fr s)). change (count (lg e s)) with (count s). change (f_dl (fr (lg e s))) with (f_dl (fr s)).
  change (f_dl_seen (fr (lg e s))) with (f_dl_seen (fr s)). change (f_i (fr (lg e s))) with (f_i (fr s)).
  splits; auto.
  - intros k Hk. apply hf_cons. auto.
  - intros H. destruct (C H) as [C1 [C2 C3]]. splits; auto. now right.
  - rewrite bu_cons2 by auto. destruct (f_unlocked (fr s)); auto. destruct D as [D1 D2]. split; auto.
    intros Hm. rewrite hp_cons, (D2 Hm). destruct (is_p e) eqn:E; auto. destruct (Hp eq_refl); congruence.
  - rewrite hp_cons. destruct (is_p e); simpl; auto.
Qed.
Lemma mid2_mono clk clk' s : (clk <= clk')%Z -> mid2 clk s -> mid2 clk' s.
Proof.
  intros Hc [A [B [C [D D']]]]. unfold mid2. splits; auto. intros H. destruct (C H) as [C1 [C2 C3]]. splits; auto.
  eapply time_reached_mono; eauto.
Qed.
Lemma linv2_mono clk clk' ex s : (clk <= clk')%Z -> linv2 clk ex s -> linv2 clk' ex s.
Proof.
  intros Hc. unfold linv2. destruct (pc_ s); auto; try (intros [A B]; split; auto; eapply mid2_mono; eauto).
  intros [A | [A B]]; [left; auto | right; split; auto; eapply mid2_mono; eauto].
Qed.
Lemma linv2_ext clk ex ex' s : (forall n, ex n = ex' n) -> linv2 clk ex s -> linv2 clk ex' s.
Proof.
  intros He. unfold linv2. destruct (pc_ s); auto.
  - intros [A [B [C [D E]]]]. splits; auto. eapply rnd_ext; eauto.
  - intros [A [B [C [D [E F]]]]]. splits; auto. eapply rnd_ext; eauto.
Qed.
Lemma mid2_of_pre2 clk s k : time_pos (f_dl (fr s)) = true -> (forall k, (k < count s)%nat -> has_first (f_log (fr s)) k) -> pre2 s k -> mid2 clk s.
Proof.
  intros A B [C [D [E [F G]]]]. unfold mid2. rewrite F. splits; auto; [rewrite E | rewrite D]; discriminate.
Qed.

(* ---------- linv2 is preserved by every step of the thread (case analysis over all control paths) ---------- *)
Ltac unfold_ctl := unfold ctl_call, ctl_first, ctl_init, ctl_enq, ctl_unlock, ctl_ready, ctl_p_timeout, ctl_p_ok, ctl_deqpre, ctl_deq, ctl_spin, ctl_free, ctl_lock, ctl_ret,
  after_first, after_deq, after_enq, deq_start, sleep_start, goto_deq, after_deqs, after_free.

Ltac nb :=
  repeat match goal with
  | H : (_ =? _)%nat = true |- _ => apply Nat.eqb_eq in H
  | H : (_ =? _)%nat = false |- _ => apply Nat.eqb_neq in H
  | H : (_ <? _)%nat = true |- _ => apply Nat.ltb_lt in H
  | H : (_ <? _)%nat = false |- _ => apply Nat.ltb_ge in H
  | H : _ && _ = true |- _ => apply andb_true_iff in H; destruct H
  | H : negb _ = true |- _ => apply negb_true_iff in H
  | H : negb _ = false |- _ => apply negb_false_iff in H
  end.



Ltac hyps := repeat match goal with
  | H : _ /\ _ |- _ => destruct H
  | H : exists _, _ |- _ => destruct H
  end.

Lemma of_call : only_first [EvCall].
Proof. intros e [<- | []]. now left. Qed.
Lemma seen_keep (b : bool) (x e : ev) L (A B : Prop) : (b = true -> In x L /\ A /\ B) -> b = true -> (e = x \/ In x L) /\ A /\ B.
Proof. intros H Hb. destruct (H Hb) as [? [? ?]]. auto. Qed.
Lemma seen_to (b c : bool) (x : ev) L (A : Prop) : (b = true -> In x L /\ A /\ c = true) -> A -> b || c = true -> (x = x \/ In x L) /\ A /\ c = true.
Proof. intros H HA Hb. splits; auto. apply orb_true_iff in Hb. destruct Hb as [Hb|Hb]; auto. now destruct (H Hb) as [? [? ?]]. Qed.
Lemma round_S j L : map fst (round L) = rev (seq 0 j) -> j :: map fst (round L) = rev (seq 0 (S j)).
Proof. intros H. rewrite rev_seq_S. now f_equal. Qed.
Lemma enq_S i b L : enq_idx L = rev (seq 0 i) -> enq_idx (EvEnq i b :: L) = rev (seq 0 (S i)).
Proof. intros H. rewrite rev_seq_S. unfold enq_idx in *. simpl. now f_equal. Qed.
Lemma rmin_lt dl j nt L : time_lt nt (rmin dl L) = true -> nt = rmin dl (EvReady false j nt :: L).
Proof. intros H. change (rmin dl (EvReady false j nt :: L)) with (tmin nt (rmin dl L)). unfold tmin. now rewrite H. Qed.
Lemma rmin_ge dl j nt L : time_lt nt (rmin dl L) = false -> rmin dl L = rmin dl (EvReady false j nt :: L).
Proof. intros H. change (rmin dl (EvReady false j nt :: L)) with (tmin nt (rmin dl L)). unfold tmin. now rewrite H. Qed.

Ltac fin1 :=
  first [ assumption | reflexivity | discriminate | lia | congruence
        | (intros; lia)
        | (apply hf_weak; assumption) | (apply hd_weak; assumption)
        | (apply hf_step; assumption) | (apply hd_step; assumption)
        | (apply of_cons; assumption) | apply of_call
        | (intros ? ?; apply hf_cons; auto; fail) 
        | (intros; discriminate) | (intros; congruence) | (intros; exfalso; lia)
        | (match goal with H : ?x = 0 |- context [?x] => rewrite H end; reflexivity)
        | (apply seen_keep; assumption) | (apply seen_to; assumption)
        | (apply round_S; assumption) | (apply enq_S; assumption)
        | (apply rnd_nil; reflexivity)
        | (apply rnd_cons; [assumption | intros; eapply ready_note_exp; eauto])
        | (match goal with H : S ?j = ?n |- context [?n] => rewrite <- H end; first [apply hf_step | apply hd_step | apply round_S | apply enq_S | apply hd_weak | apply hf_weak]; assumption)
        | (match goal with H : ?m = rmin _ _ |- _ => rewrite H in * end; first [apply rmin_lt | apply rmin_ge]; assumption)
        | (eexists; splits; [reflexivity | assumption..]) | (eexists; splits; eassumption)
        | (let X := fresh in intros X; repeat match goal with H : ?P -> _, X : ?P |- _ => specialize (H X) end; congruence)
        | (intros _; splits; fin1) ].

Definition expiry (w : world) : nat -> time := fun n => n_expiry (notes w n).
Section BruteForce.
Local Arguments seq : simpl never.
Local Arguments rev : simpl never.
Local Arguments Nat.eqb : simpl never.
Local Arguments Nat.ltb : simpl never.
Lemma linv2_step w t c : linv (thr w t) -> linv2 (clock w) (expiry w) (thr w t) -> linv2 (clock w) (expiry w) (thr (tnext w t c) t).
Proof.
  intros [Lr L] L2. unfold linv2 in L2. revert L L2. step_destruct w t; simpl; unfold mid, mid2, pre2, mpre; destruct (f_unlocked (fr (thr w t))) eqn:EU; intros L L2;
  eff_destruct; rewrite ?fupd_same; unfold_ctl; destruct_step; unfold linv2; simpl; rewrite ?Hpc; auto;
  unfold mid, mid2, pre2, mpre, count in *; simpl in *; rewrite ?EU in *; nb; hyps; simpl in *.
  all: try (splits; fin1; fail).
  all: try (left; splits; fin1; fail).
  all: try (right; splits; fin1; fail).
Qed.
End BruteForce.


Lemma linv2_idle_t clk ex p : linv2 clk ex (idle_t p).
Proof. exact I. Qed.
Definition inv2 (w : world) : Prop := forall t, linv2 (clock w) (expiry w) (thr w t).
Lemma inv2_next w a : (forall t, linv (thr w t)) -> inv2 w -> inv2 (next w a).
Proof.
  intros L H t. destruct a as [u c|d].
  - change (next w (Run u c)) with (tnext w u c).
    pose proof (step_eff w u c) as E. simpl in E. rewrite (e_clock _ _ _ _ _ E).
    apply (linv2_ext _ (expiry w)); [intros n; unfold expiry; now destruct (e_note _ _ _ _ _ E n) as [X _] |].
    destruct (Nat.eq_dec t u) as [-> | Hne]; [apply linv2_step; auto | rewrite step_other by auto; apply H].
  - change (thr (next w (Tick d)) t) with (thr w t). apply (linv2_mono (clock w)); [simpl; lia | apply H].
Qed.
Lemma inv2_reachable nts cts progs c0 sched : inv2 (run (init nts cts progs c0) sched).
Proof.
  apply (run_inv (fun w => (forall t, linv (thr w t)) /\ inv2 w)).
  - intros w a [L H]. split; [now apply linv_next | now apply inv2_next].
  - split; intros t; [apply linv_idle_t | exact I].
Qed.

(* ---------- C11_mutex_order: unlock after all `count` enqueue calls, before every P ---------- *)
Lemma mutex_order_of_linv2 clk ex s : linv2 clk ex s -> in_call s -> f_mu (fr s) <> None -> mutex_order (count s) (f_log (fr s)).
Proof.
  unfold linv2, in_call, mutex_order. intros H Hc Hm.
  assert (M : mid2 clk s -> match before_unlock (f_log (fr s)) with
                            | Some pre => enq_idx pre = rev (seq 0 (count s)) /\ has_p pre = false
                            | None => has_p (f_log (fr s)) = false end).
  { intros [_ [_ [_ [D _]]]]. destruct (f_unlocked (fr s)).
    - destruct D as [pre [D1 [D2 D3]]]. rewrite D1. auto.
    - destruct D as [D1 D2]. rewrite D1. auto. }
  assert (P : forall k, pre2 s k -> match before_unlock (f_log (fr s)) with
                            | Some pre => enq_idx pre = rev (seq 0 (count s)) /\ has_p pre = false
                            | None => has_p (f_log (fr s)) = false end).
  { intros k [A [B _]]. rewrite A. exact B. }
  destruct (pc_ s); try contradiction;
    try (destruct H as [[H _] | [H _]]; [destruct (of_nounlock _ H) as [A [B _]]; rewrite A; exact B | now apply M]);
    repeat match goal with H : _ /\ _ |- _ => destruct H end; first [now apply M | eapply P; eassumption].
Qed.

(* ---------- the sleep deadline is the minimum of the deadline and the round's ready times ---------- *)
Lemma time_le_refl a : time_le a a = true.
Proof. unfold time_le, time_lt. destruct a; auto. now rewrite Z.ltb_irrefl. Qed.
Lemma time_le_trans a b c : time_le a b = true -> time_le b c = true -> time_le a c = true.
Proof.
  unfold time_le, time_lt. destruct a, b, c; simpl; auto; try discriminate.
  rewrite !negb_true_iff, !Z.ltb_ge. lia.
Qed.
Lemma tmin_le_l nt m : time_le (tmin nt m) nt = true.
Proof. unfold tmin. destruct (time_lt nt m) eqn:E; [apply time_le_refl | unfold time_le; now rewrite E]. Qed.
Lemma tmin_le_r nt m : time_le (tmin nt m) m = true.
Proof.
  unfold tmin. destruct (time_lt nt m) eqn:E; [|apply time_le_refl].
  unfold time_le, time_lt in *. destruct nt, m; simpl in *; auto; try discriminate. apply Z.ltb_lt in E. apply negb_true_iff, Z.ltb_ge. lia.
Qed.
Lemma rmin_spec dl L :
  time_le (rmin dl L) dl = true /\ (forall j nt, In (j, nt) (round L) -> time_le (rmin dl L) nt = true) /\
  (rmin dl L = dl \/ exists j, In (j, rmin dl L) (round L)).
Proof.
  unfold rmin. induction (round L) as [|[j nt] l IH]; simpl.
  - splits; [apply time_le_refl | intros j nt [] | left; reflexivity].
  - set (m := fold_right (fun (p : nat * time) (m : time) => tmin (snd p) m) dl l) in *. destruct IH as [A [B C]]. splits.
    + eapply time_le_trans; [apply tmin_le_r | exact A].
    + intros j' nt' [Heq | Hin]; [inversion Heq; subst; apply tmin_le_l | eapply time_le_trans; [apply tmin_le_r | eauto]].
    + unfold tmin. destruct (time_lt nt m) eqn:E; [right; exists j; now left|].
      destruct C as [C | [j' C]]; [now left | right; exists j'; now right].
Qed.
Lemma seq_rev_in j cnt (l : list (nat * time)) : map fst l = rev (seq 0 cnt) -> (j < cnt)%nat -> exists nt, In (j, nt) l.
Proof.
  intros H Hj. assert (Hin : In j (map fst l)) by (rewrite H; apply in_rev; rewrite rev_involutive; apply in_seq; lia).
  apply in_map_iff in Hin. destruct Hin as [[j' nt] [A B]]. simpl in A. subst. eauto.
Qed.

(* at the timed P: mn is exactly min (abs_deadline, the `count` ready times just read), it is positive, it is not after the expiry time of any note
   among the objects, and (mutex given) the unlock callback has run *)
Lemma sleep_of_linv2 clk ex s mn : linv2 clk ex s -> pc_ s = PSleep mn ->
  mn = rmin (f_dl (fr s)) (f_log (fr s)) /\ map fst (round (f_log (fr s))) = rev (seq 0 (count s)) /\ time_pos mn = true /\
  time_le mn (f_dl (fr s)) = true /\
  (forall j nt, In (j, nt) (round (f_log (fr s))) -> time_le mn nt = true) /\
  (forall j n, (j < count s)%nat -> objat s j = ONote n -> time_le mn (ex n) = true) /\
  (f_mu (fr s) <> None -> f_unlocked (fr s) = true).
Proof.
  unfold linv2. intros H Hpc. rewrite Hpc in H. destruct H as [_ [A [B [C [D E]]]]].
  destruct (rmin_spec (f_dl (fr s)) (f_log (fr s))) as [R1 [R2 R3]]. rewrite <- C in R1, R2, R3.
  splits; auto. intros j n Hj Ho. destruct (seq_rev_in j _ _ B Hj) as [nt Hin].
  pose proof (R2 _ _ Hin) as Hle. assert (Hp : time_pos nt = true).
  { unfold time_le, time_lt, time_pos in *. destruct mn, nt; simpl in *; auto; try discriminate. apply negb_true_iff, Z.ltb_ge in Hle. apply Z.ltb_lt in D. apply Z.ltb_lt. lia. }
  rewrite (E j nt n Hin Ho Hp). exact Hle.
Qed.

(* ---------- a call that returns `count` ---------- *)
Lemma timeout_of_linv2 clk ex s : (0 <= clk)%Z -> linv2 clk ex s -> dq s -> pc_ s = PRet -> f_ready (fr s) = count s -> f_dl_seen (fr s) = true ->
  time_reached (f_dl (fr s)) clk = true /\ (forall k, (k < count s)%nat -> has_first (f_log (fr s)) k) /\
  ((time_pos (f_dl (fr s)) = false /\ only_first (f_log (fr s))) \/
   (time_pos (f_dl (fr s)) = true /\ In (EvP PTimeout) (f_log (fr s)) /\
    forall j, (j < count s)%nat -> exists onl, In (EvDeq j true onl) (f_log (fr s)))).
Proof.
  intros Hc H Hdq Hpc Hr Hs. unfold linv2 in H. rewrite Hpc in H. destruct H as [[A [B C]] | [[A [B [C D]]] E]].
  - destruct (C Hr) as [C1 C2]. splits; auto.
    destruct (f_dl (fr s)) as [z|]; simpl in *; [|discriminate]. apply Z.ltb_ge in C1. apply Z.leb_le. lia.
  - destruct (C Hs) as [C1 [C2 C3]]. splits; auto. right. splits; auto.
    intros j Hj. rewrite <- C2 in Hj. destruct (E j Hj) as [r [onl Hin]].
    rewrite (deq_results_of_dq s Hdq Hpc Hr _ _ _ Hin) in Hin. eauto.
Qed.

(* ====================================================================== *)
(* Part 6: how one step of a thread moves its own frame *)
Definition pcls (p : pc) : nat :=
  match p with
  | PFirst _ | PInit _ | PEnq _ | PUnlock => 1
  | PReady _ _ | PSleep _ | PDeqPre _ | PDeq _ | PDeqSpin _ | PFree | PLock => 2
  | PRet => 3
  | _ => 0
  end.
Definition decides (p : pc) : Prop := match p with PFirst _ | PDeq _ | PDeqSpin _ => True | _ => False end.

Lemma step_cls w t c : let s := thr w t in let s' := thr (tnext w t c) t in
  linv s -> in_call s -> pc_ s <> PRet ->
  f_mu (fr s') = f_mu (fr s) /\ f_dl (fr s') = f_dl (fr s) /\ f_objs (fr s') = f_objs (fr s) /\ f_held (fr s') = f_held (fr s) /\
  done s' = done s /\ in_call s' /\
  (f_unlocked (fr s') = f_unlocked (fr s) \/ (pc_ s = PUnlock /\ f_unlocked (fr s') = true)) /\
  (pcls (pc_ s) <= pcls (pc_ s'))%nat /\
  (pc_ s' = PRet -> f_unlocked (fr s') = true -> pc_ s = PLock) /\ (pc_ s = PUnlock -> f_unlocked (fr s') = true /\ pcls (pc_ s') = 2) /\
  (~ decides (pc_ s) -> f_ready (fr s') = f_ready (fr s)) /\
  (f_ready (fr s') = f_ready (fr s) \/ f_ready (fr s) = count s).
Proof.
  intros s s'. unfold s', s. intros [_ L] Hin Hnr. unfold in_call in Hin. revert L Hin Hnr.
  step_destruct w t; simpl; try (intros _ []; fail); try congruence; intros L _ _;
  eff_destruct; rewrite ?fupd_same; unfold_ctl; destruct_step; simpl in *; rewrite ?Hpc; simpl; splits; auto; try lia; try congruence; try exact I;
  try (intros; intuition congruence); try (unfold in_call; rewrite Hpc; exact I); try tauto.
  all: nb; auto.
Qed.

(* ---------- who can change the holder of a mutex ---------- *)
Lemma muh_note_do_notify w n : muh (note_do_notify w n) = muh w.
Proof. unfold note_do_notify. destruct (time_pos _); reflexivity. Qed.
Lemma muh_note_deadline w n : muh (fst (note_deadline w n)) = muh w.
Proof. unfold note_deadline. destruct (znz _); simpl; auto. destruct (_ && _); simpl; auto. apply muh_note_do_notify. Qed.
Lemma muh_obj_ready_time w f o r : muh (fst (obj_ready_time w f o r)) = muh w.
Proof. destruct o; simpl; auto. apply muh_note_deadline. Qed.
Lemma muh_obj_enqueue w o r : muh (fst (obj_enqueue w o r)) = muh w.
Proof. destruct o; simpl; auto; destruct (_ : bool); reflexivity. Qed.
Lemma muh_obj_dequeue w o r : muh (fst (obj_dequeue w o r)) = muh w.
Proof. destruct o; simpl; auto; destruct (_ : bool); reflexivity. Qed.
Lemma muh_ctr_add w n d w1 v : ctr_add w n d = Some (w1, v) -> muh w1 = muh w.
Proof.
  unfold ctr_add. destruct (if (d >? 0)%Z then _ else _); [|discriminate].
  intros H; inversion H; subst. destruct (nsync_counter_add_store1_guard _ _); reflexivity.
Qed.
Ltac muh_destruct :=
  repeat match goal with
    | |- context [note_deadline ?w ?n] => let E := fresh "E" in pose proof (muh_note_deadline w n); destruct (note_deadline w n) as [? ?] eqn:E; simpl in *
    | |- context [obj_ready_time ?w ?f ?o ?r] => let E := fresh "E" in pose proof (muh_obj_ready_time w f o r); destruct (obj_ready_time w f o r) as [? ?] eqn:E; simpl in *
    | |- context [obj_enqueue ?w ?o ?r] => let E := fresh "E" in pose proof (muh_obj_enqueue w o r); destruct (obj_enqueue w o r) as [? ?] eqn:E; simpl in *
    | |- context [obj_dequeue ?w ?o ?r] => let E := fresh "E" in pose proof (muh_obj_dequeue w o r); destruct (obj_dequeue w o r) as [? ?] eqn:E; simpl in *
    | |- context [ctr_add ?w ?n ?d] => let E := fresh "E" in destruct (ctr_add w n d) as [[? ?]|] eqn:E; [apply muh_ctr_add in E|]; simpl in *
    | |- context [match ?x with _ => _ end] => destruct x eqn:?; simpl in *
    end.

(* a step of thread u changes the holder of m only from Some u to None or from None to Some u *)
Lemma step_muh w u c mx :
  muh (tnext w u c) mx = muh w mx \/ (muh w mx = Some u /\ muh (tnext w u c) mx = None) \/ (muh w mx = None /\ muh (tnext w u c) mx = Some u).
Proof.
  step_destruct w u; simpl; auto; muh_destruct; rewrite ?muh_note_do_notify; try (left; congruence); auto.
  all: unfold fupd; match goal with |- context [Nat.eqb ?x ?k] => destruct (Nat.eqb_spec x k) as [-> | ?] end; auto; nb; subst; auto.
Qed.

Lemma step_muh_self w t c : let s := thr w t in
  match pc_ s with
  | PUnlock => forall m, f_mu (fr s) = Some m -> muh (tnext w t c) m <> Some t
  | PLock => forall m, f_mu (fr s) = Some m -> (muh (tnext w t c) m = Some t /\ pc_ (thr (tnext w t c) t) = PRet) \/ tnext w t c = w
  | PIdle => True
  | _ => muh (tnext w t c) = muh w
  end.
Proof.
  step_destruct w t; simpl; auto; muh_destruct; rewrite ?fupd_same; auto; try congruence.
  all: intros m Hm; inversion Hm; subst; rewrite ?fupd_same; nb; try congruence; auto.
Qed.

Lemma step_enter w t c : let s := thr w t in let s' := thr (tnext w t c) t in
  ~ in_call s -> in_call s' ->
  exists mu dl os rest, prog s = OpWaitN mu dl os :: rest /\ pc_ s = PIdle /\
    f_mu (fr s') = mu /\ f_held (fr s') = holds w mu t /\ f_unlocked (fr s') = false /\ muh (tnext w t c) = muh w /\
    f_ready (fr s') = count s' /\ done s' = done s.
Proof.
  intros s s' Hn. unfold s', s in *. clear s s'. assert (Hp : match pc_ (thr w t) with PIdle | PWake | PWakeV _ | PPanic => True | _ => False end).
  { unfold in_call in Hn. destruct (pc_ (thr w t)); auto. }
  clear Hn. revert Hp. step_destruct w t; try (intros []; fail); intros _.
  2:{ intros _. exists mu, dl, os, rest. simpl. rewrite fupd_same. unfold_ctl; destruct_step; simpl; splits; auto. }
  all: eff_destruct; rewrite ?fupd_same; unfold in_call; simpl; rewrite ?Hpc; try (intros []; fail).
  all: rewrite ?fupd_same; simpl; rewrite ?Hpc; try (intros []; fail).
Qed.

(* ====================================================================== *)
(* Part 7: world invariants *)

(* ---------- the mutex: held up to the unlock callback, not held between it and the lock callback, held again at the return ---------- *)
Definition minv (w : world) : Prop := forall t m, let s := thr w t in in_call s -> f_mu (fr s) = Some m ->
  if f_unlocked (fr s) then (if Nat.eqb (pcls (pc_ s)) 3 then muh w m = Some t else muh w m <> Some t)
  else (f_held (fr s) = true -> muh w m = Some t).

Lemma holds_spec w m t : holds w (Some m) t = true -> muh w m = Some t.
Proof. unfold holds. destruct (muh w m) as [h|]; [|discriminate]. intros H. apply Nat.eqb_eq in H. now subst. Qed.

Lemma pc_eq_ret p : p = PRet \/ p <> PRet.
Proof. destruct p; auto; right; congruence. Qed.
Lemma in_call_dec s : in_call s \/ ~ in_call s.
Proof. unfold in_call. destruct (pc_ s); auto. Qed.
Lemma pcls_ret p : Nat.eqb (pcls p) 3 = true <-> p = PRet.
Proof. destruct p; simpl; split; congruence. Qed.
Lemma step_ret_out w t c : pc_ (thr w t) = PRet -> ~ in_call (thr (tnext w t c) t).
Proof. intros Hpc. unfold tnext, step. rewrite Hpc. simpl. rewrite fupd_same. unfold in_call. simpl. auto. Qed.

Lemma minv_step w u c : (forall t, linv (thr w t)) -> minv w -> minv (tnext w u c).
Proof.
  intros L M t m. destruct (Nat.eq_dec t u) as [-> | Hne].
  - (* the thread's own step *)
    intros s' Hin' Hm'. unfold s' in *. clear s'.
    destruct (in_call_dec (thr w u)) as [Hin | Hout].
    + destruct (pc_eq_ret (pc_ (thr w u))) as [Hret | Hnr]; [exfalso; eapply step_ret_out; eauto|].
      destruct (step_cls w u c (L u) Hin Hnr) as [Fm [_ [_ [Fh [_ [_ [Fu [_ [Fr [Ful _]]]]]]]]]].
      rewrite Fm in Hm'. specialize (M u m Hin Hm'). simpl in M.
      pose proof (step_muh_self w u c) as S. simpl in S. pose proof (L u) as [_ Lu].
      assert (Hn3 : Nat.eqb (pcls (pc_ (thr w u))) 3 = false).
      { destruct (Nat.eqb _ 3) eqn:E; auto. apply pcls_ret in E. contradiction. }
      rewrite Hn3 in M. clear Hn3.
      destruct (pc_ (thr w u)) eqn:Hpc; try (unfold in_call in Hin; rewrite Hpc in Hin; contradiction); try congruence.
      all: try (destruct Fu as [Fu | [Fu _]]; [|congruence]; rewrite Fu, Fh, S;
                destruct (f_unlocked (fr (thr w u))); auto;
                destruct (Nat.eqb (pcls _) 3) eqn:E3; auto; apply pcls_ret in E3; specialize (Fr E3); rewrite Fu in Fr; specialize (Fr eq_refl); congruence).
      * (* PUnlock *) destruct (Ful eq_refl) as [A B]. rewrite A, B. simpl. auto.
      * (* PLock *) destruct Lu as [Lu _]. rewrite Lu in *. destruct Fu as [Fu | [Fu _]]; [|discriminate]. rewrite Fu.
        destruct (S m Hm') as [[A B] | A].
        -- rewrite B. simpl. exact A.
        -- rewrite A, Hpc. simpl. exact M.
    + destruct (step_enter w u c Hout Hin') as [mu [dl [os [rest [_ [_ [A [B [C [D _]]]]]]]]]].
      rewrite C, B, D. rewrite A in Hm'. subst mu. apply holds_spec.
  - rewrite step_other by auto. intros s Hin Hm. specialize (M t m Hin Hm). fold s in M.
    assert (Hiff : muh (tnext w u c) m = Some t <-> muh w m = Some t).
    { destruct (step_muh w u c m) as [H | [[H1 H2] | [H1 H2]]]; rewrite ?H, ?H1, ?H2; split; congruence. }
    destruct (f_unlocked (fr s)); [destruct (Nat.eqb _ 3)|]; rewrite Hiff; auto.
Qed.

Lemma minv_next w a : (forall t, linv (thr w t)) -> minv w -> minv (next w a).
Proof. intros L M. destruct a as [u c|d]; [now apply minv_step | exact M]. Qed.
Lemma minv_init nts cts progs c0 : minv (init nts cts progs c0).
Proof. intros t m s Hin. destruct Hin. Qed.
Lemma minv_reachable nts cts progs c0 sched : minv (run (init nts cts progs c0) sched).
Proof.
  apply (run_inv (fun w => (forall t, linv (thr w t)) /\ minv w)).
  - intros w a [L H]. split; [now apply linv_next | now apply minv_next].
  - split; [intros t; apply linv_idle_t | apply minv_init].
Qed.

(* ---------- the returned index against the objects' state ---------- *)
Definition ready_inv (w : world) (o : oref) (r : rid) : Prop :=
  match o with
  | ONote n => znz (n_notified (notes w n)) = true \/ time_reached (n_expiry (notes w n)) (clock w) = true
  | OCounter n => c_value (ctrs w n) = 0%Z /\ znz (c_waited (ctrs w n)) = true
  | OCv _ => taker w r <> None
  end.
Lemma ready_inv_world w o r : ready_inv w o r -> obj_ready_world w o r.
Proof. destruct o; simpl; auto; [tauto|]. destruct (taker w r) as [u|]; [eauto | congruence]. Qed.
Lemma ready_inv_set_thr w t s o r : ready_inv (set_thr w t s) o r <-> ready_inv w o r.
Proof. destruct o; simpl; tauto. Qed.

Lemma taker_note_do_notify w n : taker (note_do_notify w n) = taker w.
Proof. unfold note_do_notify. destruct (time_pos _); reflexivity. Qed.
Lemma taker_note_deadline w n : taker (fst (note_deadline w n)) = taker w.
Proof. unfold note_deadline. destruct (znz _); simpl; auto. destruct (_ && _); simpl; auto. apply taker_note_do_notify. Qed.
Lemma taker_obj_ready_time w f o r : taker (fst (obj_ready_time w f o r)) = taker w.
Proof. destruct o; simpl; auto. apply taker_note_deadline. Qed.
Lemma taker_obj_enqueue w o r : taker (fst (obj_enqueue w o r)) = taker w.
Proof. destruct o; simpl; auto; destruct (_ : bool); reflexivity. Qed.
Lemma taker_obj_dequeue w o r : taker (fst (obj_dequeue w o r)) = taker w.
Proof. destruct o; simpl; auto; destruct (_ : bool); reflexivity. Qed.
Lemma taker_ctr_add w n d w1 v : ctr_add w n d = Some (w1, v) -> taker w1 = taker w.
Proof.
  unfold ctr_add. destruct (if (d >? 0)%Z then _ else _); [|discriminate].
  intros H; inversion H; subst. destruct (nsync_counter_add_store1_guard _ _); reflexivity.
Qed.
Ltac tk_destruct :=
  repeat match goal with
    | |- context [note_deadline ?w ?n] => let E := fresh "E" in pose proof (taker_note_deadline w n); destruct (note_deadline w n) as [? ?] eqn:E; simpl in *
    | |- context [obj_ready_time ?w ?f ?o ?r] => let E := fresh "E" in pose proof (taker_obj_ready_time w f o r); destruct (obj_ready_time w f o r) as [? ?] eqn:E; simpl in *
    | |- context [obj_enqueue ?w ?o ?r] => let E := fresh "E" in pose proof (taker_obj_enqueue w o r); destruct (obj_enqueue w o r) as [? ?] eqn:E; simpl in *
    | |- context [obj_dequeue ?w ?o ?r] => let E := fresh "E" in pose proof (taker_obj_dequeue w o r); destruct (obj_dequeue w o r) as [? ?] eqn:E; simpl in *
    | |- context [ctr_add ?w ?n ?d] => let E := fresh "E" in destruct (ctr_add w n d) as [[? ?]|] eqn:E; [apply taker_ctr_add in E|]; simpl in *
    | |- context [match ?x with _ => _ end] => destruct x eqn:?; simpl in *
    end.
(* a record that a waker took stays taken, until its storage is initialised again (by its owner, for another index or call) *)
Lemma step_taker w u c r : taker w r <> None ->
  taker (tnext w u c) r <> None \/ (exists i, pc_ (thr w u) = PInit i /\ r = rec_of u (thr w u) i).
Proof.
  intros Hr. step_destruct w u; simpl; auto; tk_destruct; rewrite ?taker_note_do_notify; try (left; congruence); auto.
  unfold rupd. destruct (rid_eqb r (rec_of u (thr w u) i)) eqn:E; [right; exists i; split; auto; now apply rid_eqb_eq | left; exact Hr].
Qed.

Lemma ready_inv_step w u c o r : ready_inv w o r -> (forall i, pc_ (thr w u) = PInit i -> r <> rec_of u (thr w u) i) ->
  ready_inv (tnext w u c) o r.
Proof.
  intros H Hn. pose proof (step_eff w u c) as E. simpl in E. destruct o as [n|n|n]; simpl in *.
  - destruct (e_note _ _ _ _ _ E n) as [A [B _]]. rewrite A, (e_clock _ _ _ _ _ E). destruct H as [H|H]; auto.
  - destruct H as [H1 H2]. destruct (e_ctr _ _ _ _ _ E n) as [A B]. auto.
  - destruct (step_taker w u c r H) as [A | [i [A B]]]; auto. exfalso. exact (Hn i A B).
Qed.
Lemma ready_inv_tick w d o r : ready_inv w o r -> ready_inv (next w (Tick d)) o r.
Proof.
  destruct o as [n|n|n]; simpl; auto. intros [H|H]; auto. right. eapply time_reached_mono; eauto. lia.
Qed.

(* what the three deciding steps establish *)
Lemma npos_ready_inv w n : (0 <= clock w)%Z -> time_pos (nt_time (notes w n)) = false -> ready_inv w (ONote n) (0, 0, 0)%nat.
Proof.
  intros Hc H. simpl. unfold nt_time in H. destruct (znz (n_notified (notes w n))); auto. right.
  destruct (n_expiry (notes w n)) as [z|]; simpl in *; [|discriminate]. apply Z.ltb_ge in H. apply Z.leb_le. lia.
Qed.
Lemma c_waited_new : znz counter_ready_time_store1_new = true.
Proof. reflexivity. Qed.
Lemma first_ready_inv w o r w1 nt : obj_ready_time w true o r = (w1, nt) -> time_pos nt = false -> (0 <= clock w)%Z -> ready_inv w1 o r.
Proof.
  intros H Hn Hc. pose proof (eff_obj_ready_time w true o r) as E. rewrite H in E. simpl in E.
  destruct o as [n|n|n]; simpl in H.
  - apply (npos_ready_inv w1 n); [rewrite (e_clock _ _ _ _ _ E); exact Hc | eapply deadline_npos; eauto].
  - inversion H; subst. simpl. rewrite fupd_same. simpl. split; [|apply c_waited_new].
    destruct (c_value (ctrs w n) =? 0)%Z eqn:Ev; [now apply Z.eqb_eq | discriminate].
  - inversion H; subst. discriminate.
Qed.

Lemma deq_ready_inv w o r w1 : obj_dequeue w o r = (w1, false) -> is_cv o = false -> (0 <= clock w)%Z ->
  (forall n, o = OCounter n -> znz (c_waited (ctrs w n)) = true) -> ready_inv w1 o r.
Proof.
  intros H Hcv Hc Hw. pose proof (eff_obj_dequeue w o r) as E. rewrite H in E. simpl in E.
  destruct (deq_spec _ _ _ _ _ H) as [_ [_ [_ [_ [_ [_ [_ [_ [_ [Hr _]]]]]]]]]]. specialize (Hr eq_refl Hcv).
  destruct o as [n|n|n]; simpl in Hr; [| |discriminate].
  - apply (npos_ready_inv w1 n); [rewrite (e_clock _ _ _ _ _ E); exact Hc | now apply negb_true_iff in Hr].
  - simpl. split; [now apply Z.eqb_eq | apply (e_ctr _ _ _ _ _ E n); now apply Hw].
Qed.

Definition idx_ok (w : world) : Prop := forall t, let s := thr w t in
  in_call s -> (f_ready (fr s) < count s)%nat -> ready_inv w (objat s (f_ready (fr s))) (rec_of t s (f_ready (fr s))).

Lemma idx_step w u c : (forall t, linv (thr w t)) -> ginv w -> (forall t, cw_ok w (thr w t)) -> (0 <= clock w)%Z ->
  idx_ok w -> idx_ok (tnext w u c).
Proof.
  intros L G CW Hc H t. destruct (Nat.eq_dec t u) as [-> | Hne].
  2:{ rewrite step_other by auto. intros s Hin Hlt. apply ready_inv_step; [now apply H|].
      intros i _ Heq. unfold rec_of in Heq. inversion Heq. contradiction. }
  intros s' Hin' Hlt'. unfold s' in *. clear s'.
  destruct (in_call_dec (thr w u)) as [Hin | Hout].
  2:{ destruct (step_enter w u c Hout Hin') as [mu [dl [os [rest [_ [_ [_ [_ [_ [_ [A _]]]]]]]]]]]. lia. }
  destruct (pc_eq_ret (pc_ (thr w u))) as [Hret | Hnr]; [exfalso; eapply step_ret_out; eauto|].
  destruct (step_cls w u c (L u) Hin Hnr) as [_ [_ [Fo [_ [Fd [_ [_ [_ [_ [_ [Fk Fr]]]]]]]]]]].
  assert (Hcnt : count (thr (tnext w u c) u) = count (thr w u)) by (unfold count; now rewrite Fo).
  assert (Hobj : forall k, objat (thr (tnext w u c) u) k = objat (thr w u) k) by (intros; unfold objat; now rewrite Fo).
  assert (Hrec : forall k, rec_of u (thr (tnext w u c) u) k = rec_of u (thr w u) k) by (intros; unfold rec_of; now rewrite Fd).
  rewrite Hobj, Hrec. rewrite Hcnt in Hlt'. pose proof (L u) as [_ Lu].
  destruct (Nat.eq_dec (f_ready (fr (thr (tnext w u c) u))) (f_ready (fr (thr w u)))) as [Heq | Hneq].
  { rewrite Heq in *. apply ready_inv_step; [now apply H|].
    intros i Hpc Hr. rewrite Hpc in Lu. destruct Lu as [_ [Lr _]]. lia. }
  assert (Hcntr : f_ready (fr (thr w u)) = count (thr w u)) by (destruct Fr; [contradiction | assumption]).
  destruct (pc_ (thr w u)) eqn:Hpc; try (exfalso; apply Hneq; apply Fk; simpl; auto; fail).
  - (* PFirst *)
    destruct (obj_ready_time w true (objat (thr w u) j) (rec_of u (thr w u) j)) as [w1 nt] eqn:E1.
    assert (Hw' : tnext w u c = set_thr w1 u (ctl_first (thr w u) j nt (obj_ready_now w1 (objat (thr w u) j) (rec_of u (thr w u) j)) (clock w)))
      by (unfold tnext, step; rewrite Hpc, E1; reflexivity).
    rewrite Hw' in *. simpl thr in *. rewrite fupd_same in *. unfold ctl_first in *. destruct (time_pos nt) eqn:Ep.
    + exfalso. apply Hneq. destruct (S j =? count _)%nat; [|reflexivity].
      destruct (fr_after_first (lg (EvReady true j nt) (thr w u)) (clock w)) as [_ [X _]]. rewrite X. reflexivity.
    + simpl f_ready. apply ready_inv_set_thr. eapply first_ready_inv; eauto.
  - (* PDeq *)
    destruct (obj_dequeue w (objat (thr w u) j) (rec_of u (thr w u) j)) as [w1 ok] eqn:E1.
    assert (Hw' : tnext w u c = set_thr w1 u (ctl_deq w1 u (thr w u) j ok (mem (rec_of u (thr w u) j) (obj_list w (objat (thr w u) j)))))
      by (unfold tnext, step; rewrite Hpc, E1; reflexivity).
    rewrite Hw' in *. simpl thr in *. rewrite fupd_same in *. unfold ctl_deq in *.
    destruct (is_cv (objat (thr w u) j) && negb ok) eqn:Ecv; [exfalso; apply Hneq; reflexivity|].
    match goal with |- context [after_deq ?a ?b ?c ?d ?e] => destruct (fready_after_deq a b c d e) as [Fr' _] end.
    rewrite Fr' in *. simpl f_ready in *. autorewrite with cnt in *. rewrite Hcntr, Nat.eqb_refl in *.
    destruct ok; simpl in *; [exfalso; now apply Hneq|]. rewrite andb_true_r in Ecv.
    apply ready_inv_set_thr. destruct Lu as [Lj [Li _]]. eapply deq_ready_inv; eauto.
    intros n Hn. apply (CW u j n); [rewrite Hpc; exact I | lia | exact Hn].
  - (* PDeqSpin *)
    destruct (g_spin w G u j Hpc) as [Gcv Gtk].
    revert Hneq Hlt'. unfold tnext, step. rewrite Hpc. destruct (znz (waiting w (rec_of u (thr w u) j))) eqn:Ez; simpl; [intros Hneq; exfalso; now apply Hneq|].
    rewrite fupd_same. unfold ctl_spin.
    match goal with |- context [after_deq ?a ?b ?c ?d ?e] => destruct (fready_after_deq a b c d e) as [Fr' _] end.
    rewrite Fr'. simpl f_ready. autorewrite with cnt. rewrite Hcntr, Nat.eqb_refl. simpl. intros _ _.
    apply ready_inv_set_thr. destruct (objat (thr w u) j); try discriminate. exact Gtk.
Qed.

Lemma idx_tick w d : idx_ok w -> idx_ok (next w (Tick d)).
Proof. intros H t s Hin Hlt. apply ready_inv_tick. now apply H. Qed.
Lemma idx_reachable nts cts progs c0 sched : init_ok nts cts c0 -> idx_ok (run (init nts cts progs c0) sched).
Proof.
  intros Hi.
  assert (H : let w := run (init nts cts progs c0) sched in (inv w /\ hinv w /\ hinv2 w) /\ idx_ok w); [|apply H].
  apply (run_inv (fun w => (inv w /\ hinv w /\ hinv2 w) /\ idx_ok w)).
  - intros w a [[I [Hh H2]] X]. split; [splits; [now apply inv_next | now apply hinv_next | now apply hinv2_next]|].
    destruct a as [u c|d]; [|now apply idx_tick].
    destruct I as [L G]. destruct Hh as [CW _]. destruct H2 as [_ Hc]. now apply idx_step.
  - split; [exact (all_reachable nts cts progs c0 [] Hi)|]. intros t s Hin. destruct Hin.
Qed.

(* ---------- further readings of linv2 ---------- *)
(* the ghost flag `unlocked` is set exactly when the unlock callback is in the log *)
Lemma unlocked_iff_of_linv2 clk ex s : linv2 clk ex s -> in_call s -> (f_unlocked (fr s) = true <-> before_unlock (f_log (fr s)) <> None).
Proof.
  unfold linv2, in_call. intros H Hc.
  assert (M : mid2 clk s -> (f_unlocked (fr s) = true <-> before_unlock (f_log (fr s)) <> None)).
  { intros [_ [_ [_ [D _]]]]. destruct (f_unlocked (fr s)).
    - destruct D as [pre [D1 _]]. rewrite D1. split; congruence.
    - destruct D as [D1 _]. rewrite D1. split; congruence. }
  assert (P : forall k, pre2 s k -> (f_unlocked (fr s) = true <-> before_unlock (f_log (fr s)) <> None)).
  { intros k [A [_ [_ [B _]]]]. rewrite A, B. split; congruence. }
  destruct (pc_ s); try contradiction;
    try (destruct H as [[H [H' _]] | [H _]]; [destruct (of_nounlock _ H) as [A _]; rewrite A, H'; split; congruence | now apply M]);
    repeat match goal with H : _ /\ _ |- _ => destruct H end; first [now apply M | eapply P; eassumption].
Qed.
(* a call that reached a P has afterwards dequeued (= re-examined) every one of its `count` objects *)
Lemma slept_examined_of_linv2 clk ex s : linv2 clk ex s -> pc_ s = PRet -> has_p (f_log (fr s)) = true ->
  forall j, (j < count s)%nat -> has_deq (f_log (fr s)) j.
Proof.
  unfold linv2. intros H Hpc Hp. rewrite Hpc in H. destruct H as [[A _] | [[_ [_ [_ [_ B]]]] C]].
  - destruct (of_nounlock _ A) as [_ [X _]]. congruence.
  - intros j Hj. apply C. rewrite (B Hp). exact Hj.
Qed.

(* wake_waiters: the step that clears `waiting` of record r is the one that reads r's semaphore pointer (r is in its footprint) and hands it
   to the V step in the pc; the V step touches no record *)
Lemma wake_store_step w u c r rest : pc_ (thr w u) = PWake -> privs w u = r :: rest ->
  In r (snd (step w u c)) /\ pc_ (thr (tnext w u c) u) = PWakeV (owner r) /\ waiting (tnext w u c) r = 0%Z /\ privs (tnext w u c) u = rest.
Proof.
  intros Hpc Hp. unfold tnext, step. rewrite Hpc, Hp. simpl. rewrite !fupd_same, rupd_same. splits; auto.
Qed.
Lemma wake_v_step w u c s : pc_ (thr w u) = PWakeV s ->
  snd (step w u c) = [] /\ sem (tnext w u c) s = S (sem w s) /\ waiting (tnext w u c) = waiting w.
Proof. intros Hpc. unfold tnext, step. rewrite Hpc. simpl. rewrite fupd_same. auto. Qed.

(* the timed P may end as soon as the clock reaches min_ntime: the timeout step is enabled, and it leads to the dequeue loop over all objects *)
Lemma p_timeout_enabled w t mn : linv (thr w t) -> pc_ (thr w t) = PSleep mn -> time_reached mn (clock w) = true ->
  snd (fst (step w t true)) = EvP PTimeout /\
  let s' := thr (tnext w t true) t in
  f_i (fr s') = count s' /\ count s' = count (thr w t) /\
  (if (count s' =? 0)%nat then True else pc_ s' = PDeqPre 0 \/ pc_ s' = PDeq 0).
Proof.
  intros [_ L] Hpc Ht. rewrite Hpc in L. destruct L as [Li _]. unfold tnext, step. rewrite Hpc, Ht. simpl. split; auto.
  rewrite fupd_same. unfold ctl_p_timeout.
  set (s1 := see_dl (lg (EvP PTimeout) (thr w t)) (clock w)).
  assert (Hc : count (deq_start s1) = count (thr w t)) by (unfold count; rewrite fr_deq_start; reflexivity).
  rewrite Hc. rewrite fr_deq_start. change (f_i (fr s1)) with (f_i (fr (thr w t))). splits; auto.
  unfold deq_start. change (f_i (fr s1)) with (f_i (fr (thr w t))). rewrite Li.
  destruct (count (thr w t) =? 0)%nat eqn:E; auto. apply pcs_goto_deq.
Qed.
