(* CvProof2: layer P of the proofs about Model/CvModel.v (where every record is, the remove_count protocol, dead records),
   [Inv_run], the step-local facts about what a waker takes, and the first group of lemmas used by the Props files.
   Continues Proof/CvProof.v. *)
From NsyncBase Require Import CSem.
From NsyncGen Require Import Consts Sites.
From NsyncModel Require Import CvModel.
From NsyncProof Require Import CvProof.
From Coq Require Import List ZArith Bool Lia PeanoNat.
Import ListNotations.
Local Open Scope Z_scope.
(* ================================================================== *)
(* Layer P: where the records are, and the remove_count protocol       *)
(* ================================================================== *)
Definition priv (p : pc) : list nat :=
  match p with
  | KRcLoad k | KRcCas k _ | KStoreW k | VLoad1 k | VCas1 k _ | VLoad3 k | VCas2 k _ | VLoad5 k | VStore k | VV k _ => k_wake k
  | _ => []
  end.
Definition todo (p : pc) : list nat := match p with KRcLoad k | KRcCas k _ => k_todo k | _ => [] end.
Definition lc (w : world) (r : nat) : place := loc (recs w r).
Definition pcof (w : world) (t : nat) : pc := t_pc (get w t).

(* the remove_count protocol seen from the owner t of a native record, rc = the count it read when it enqueued *)
Definition Jst (w : world) (t : nat) (rc : Z) : Prop :=
  let x := recs w t in
  match loc x with
  | PCvq => rcount x = rc /\ taker x = None
  | PPriv s => s <> t /\ taker x = Some s /\
               ((In t (todo (pcof w s)) /\ rcount x = rc) \/ (~ In t (todo (pcof w s)) /\ rcount x = inc rc))
  | PMuq => rcount x = inc rc /\ exists s, s <> t /\ taker x = Some s
  | PMwake => rcount x = inc (inc rc) /\ exists s, s <> t /\ taker x = Some s
  | PNone => (rcount x = inc rc \/ rcount x = inc (inc rc)) /\ exists s, s <> t /\ taker x = Some s
  end.
Definition SELF (w : world) (t : nat) : Prop := lc w t = PNone /\ taker (recs w t) = Some t.

Definition nat_inv (w : world) (t : nat) (p : pc) : Prop :=
  match p with
  | WStore1 l => lc w t = PNone /\ w_out l = 0
  | WLoadMu l | SpLoad _ (KWaitEnq l) | SpCas (KWaitEnq l) _ => lc w t = PNone /\ waiting (recs w t) <> 0 /\ w_out l = 0
  | WLoadRc l => lc w t = PCvq /\ taker (recs w t) = None /\ w_out l = 0
  | WStoreRel l | WMuRel l | WSem l | WLoad6 l | SpLoad _ (KWaitTo l) | SpCas (KWaitTo l) _ | WLoad7 l | WLoad8 l =>
      Jst w t (w_rc l) /\ w_out l = 0
  | WStoreW l | WLoad13 l | WLoop l => (Jst w t (w_rc l) /\ w_out l = 0) \/ (SELF w t /\ waiting (recs w t) = 0)
  | WRcLoad l | WRcCas l _ | WStore0 l => SELF w t
  | WMuAcq l => lc w t = PNone /\ ((w_out l = 0 /\ exists s, s <> t /\ taker (recs w t) = Some s) \/ taker (recs w t) = Some t)
  | Crash _ => True      (* the thread violated the client contract and stopped *)
  | _ => lc w t = PNone
  end.

Definition nw_inv (w : world) (t : nat) (p : pc) : Prop :=
  match pc_nl p with
  | None => True
  | Some n =>
      let r := n_r n in
      (match p with NMuAcq _ => live (recs w r) = false | _ => live (recs w r) = true end) /\
      match p with
      | SpLoad _ (KEnq _) | SpCas (KEnq _) _ => lc w r = PNone /\ n_wasq n = false
      | NEnqStore _ => lc w r = PCvq /\ taker (recs w r) = None /\ n_wasq n = false
      | NDeqStore _ => lc w r = PNone /\ taker (recs w r) = Some t /\ n_wasq n = true
      | NDeqRel _ => if n_wasq n then lc w r = PNone /\ taker (recs w r) = Some t /\ waiting (recs w r) = 0
                     else lc w r <> PCvq /\ exists s, s <> t /\ taker (recs w r) = Some s
      | NDeqSpin _ => n_wasq n = false /\ lc w r <> PCvq /\ exists s, s <> t /\ taker (recs w r) = Some s
      | NMuAcq _ => lc w r = PNone /\ (if n_wasq n then taker (recs w r) = Some t else exists s, s <> t /\ taker (recs w r) = Some s)
      | _ => n_wasq n = false /\
             ((lc w r = PCvq /\ taker (recs w r) = None) \/ (lc w r <> PCvq /\ exists s, s <> t /\ taker (recs w r) = Some s))
      end
  end.

(* the log: outcome versus who unlinked the record (C04_outcome) *)
Definition ret_taker (t : nat) (r : ret) : Prop :=
  if r_wait r then (r_code r <> 0 -> r_taker r = Some t) /\ (exists s, r_taker r = Some s)
  else (r_code r = 1 /\ r_taker r = Some t) \/ (r_code r = 0 /\ exists s, s <> t /\ r_taker r = Some s).

(* wake_waiters works on the mutex only if the first waiter is a native one *)
Definition first_native (w : world) (p : pc) : Prop :=
  match p with
  | VLoad1 k | VCas1 k _ => exists f rest, k_wake k = f :: rest /\ is_mucv (recs w f) = true
  | _ => True
  end.

Definition QInv (w : world) : Prop :=
  (forall r, (nrec w <= r)%nat -> lc w r = PNone) /\
  (NoDup (cvq w) /\ forall r, In r (cvq w) <-> lc w r = PCvq) /\
  (forall t, NoDup (priv (pcof w t)) /\ forall r, In r (priv (pcof w t)) -> lc w r = PPriv t) /\
  (forall r, In r (muq w) -> lc w r = PMuq /\ is_mucv (recs w r) = true) /\
  (forall r, In r (mwake w) -> lc w r = PMwake /\ is_mucv (recs w r) = true) /\
  (forall r, lc w r <> PNone -> waiting (recs w r) <> 0 \/ exists n, pcof w (owner (recs w r)) = NEnqStore n /\ n_r n = r) /\
  (forall r, live (recs w r) = false -> lc w r = PNone) /\
  (forall t, NoDup (todo (pcof w t)) /\ forall r, In r (todo (pcof w t)) -> In r (priv (pcof w t)) /\ is_mucv (recs w r) = true) /\
  (forall t, first_native w (pcof w t)) /\
  dead_touch w = 0.

Definition PInv (w : world) : Prop :=
  QInv w /\
  forall t, ((t < length (thr w))%nat -> nat_inv w t (pcof w t)) /\ nw_inv w t (pcof w t) /\ Forall (ret_taker t) (rets (get w t)).

(* ---------- how one step of thread t changes the lists ---------- *)
Lemma priv_after_todo k : priv (after_todo k) = k_wake k.
Proof. unfold after_todo. destruct (k_todo k); reflexivity. Qed.
Lemma priv_enter_wake_loop k : priv (enter_wake_loop k) = k_wake k.
Proof. unfold enter_wake_loop. destruct (k_wake k) eqn:E; simpl; congruence. Qed.
Lemma todo_after_todo k : todo (after_todo k) = k_todo k.
Proof. unfold after_todo. destruct (k_todo k) eqn:E; simpl; congruence. Qed.
Lemma todo_enter_wake_loop k : todo (enter_wake_loop k) = [].
Proof. unfold enter_wake_loop. destruct (k_wake k); reflexivity. Qed.

Ltac fupd_cases :=
  repeat match goal with
         | |- context [fupd ?f ?p ?v ?r] => unfold fupd at 1; destruct (Nat.eqb_spec r p); [subst|]
         end.

(* generic facts about "the list q holds exactly / only records whose location is P" *)
Lemma NoDup_snoc (q : list nat) x : NoDup q -> ~ In x q -> NoDup (q ++ [x]).
Proof.
  induction q as [|y q IH]; simpl; intros Hn Hx; [constructor; [tauto|constructor]|].
  inversion Hn; subst. constructor; [rewrite in_app_iff; simpl; intuition congruence | apply IH; tauto].
Qed.
Lemma NoDup_app2 (a b : list nat) : NoDup a -> NoDup b -> (forall x, In x a -> ~ In x b) -> NoDup (a ++ b).
Proof.
  induction a as [|y a IH]; simpl; intros Ha Hb Hd; [assumption|]. inversion Ha; subst.
  constructor; [rewrite in_app_iff; intros [?|?]; [tauto | eapply Hd; eauto] | apply IH; auto].
Qed.
Lemma holds_enq (f : nat -> rec) q x v P :
  NoDup q -> (forall r, In r q <-> loc (f r) = P) -> loc (f x) <> P -> loc v = P ->
  NoDup (q ++ [x]) /\ forall r, In r (q ++ [x]) <-> loc (fupd f x v r) = P.
Proof.
  intros Hn Hq Hx Hv. split; [apply NoDup_snoc; [assumption | now rewrite Hq]|].
  intros r. rewrite in_app_iff. unfold fupd. destruct (Nat.eqb_spec r x); [subst; simpl; tauto|].
  rewrite Hq. simpl. intuition congruence.
Qed.
Lemma holds_rem (f : nat -> rec) q x v P :
  NoDup q -> (forall r, In r q <-> loc (f r) = P) -> loc v <> P ->
  NoDup (remove_id x q) /\ forall r, In r (remove_id x q) <-> loc (fupd f x v r) = P.
Proof.
  intros Hn Hq Hv. split; [now apply NoDup_remove_id|]. intros r. rewrite In_remove_id. unfold fupd.
  destruct (Nat.eqb_spec r x); [subst; intuition congruence|]. rewrite Hq. tauto.
Qed.
Lemma holds_upd (f : nat -> rec) q x v P :
  (forall r, In r q <-> loc (f r) = P) -> loc (f x) <> P -> loc v <> P -> forall r, In r q <-> loc (fupd f x v r) = P.
Proof.
  intros Hq Hx Hv r. unfold fupd. destruct (Nat.eqb_spec r x); [subst; rewrite Hq; tauto | apply Hq].
Qed.
Lemma loc_map_recs g l f r P : (forall x, g (g x) = g x) -> (forall x, loc (g x) = P) ->
  loc (map_recs g l f r) = if mem_id r l then P else loc (f r).
Proof.
  intros Hi Hg. destruct (mem_id r l) eqn:E.
  - apply mem_id_In in E. rewrite map_recs_in by assumption. apply Hg.
  - apply mem_id_false in E. now rewrite map_recs_notin.
Qed.
Lemma holds_sel (f : nat -> rec) q wk kp g P P' :
  part q wk kp -> NoDup q -> (forall r, In r q <-> loc (f r) = P) -> (forall x, g (g x) = g x) -> (forall x, loc (g x) = P') -> P' <> P ->
  NoDup kp /\ forall r, In r kp <-> loc (map_recs g wk f r) = P.
Proof.
  intros (Hp1 & Hp2) Hn Hq Hi Hg Hne. destruct (Hp2 Hn) as (Hwk & Hkp & Hd). split; [assumption|].
  intros r. rewrite (loc_map_recs g wk f r P') by assumption. destruct (mem_id r wk) eqn:E.
  - apply mem_id_In in E. split; [intros H; elim (Hd r E H) | congruence].
  - apply mem_id_false in E. rewrite <- Hq, Hp1. tauto.
Qed.
Lemma holds_map_other (f : nat -> rec) q l g P P' :
  (forall r, In r q <-> loc (f r) = P) -> (forall x, g (g x) = g x) -> (forall x, loc (g x) = P') -> P' <> P ->
  (forall r, In r l -> loc (f r) <> P) -> forall r, In r q <-> loc (map_recs g l f r) = P.
Proof.
  intros Hq Hi Hg Hne Hl r. rewrite (loc_map_recs g l f r P') by assumption. destruct (mem_id r l) eqn:E.
  - apply mem_id_In in E. rewrite Hq. split; [intros H; elim (Hl r E H) | congruence].
  - apply Hq.
Qed.

Lemma Q1_step_core w t c : PInv w -> AInv w -> SInv w -> (t < length (thr w))%nat ->
  let w' := fst (step_core w t c) in NoDup (cvq w') /\ forall r, In r (cvq w') <-> lc w' r = PCvq.
Proof.
  intros ((Q0 & (Q1n & Q1) & Q2 & Q3 & Q4 & Q5 & Q6 & Q7 & Q9 & Q8) & HT) HA HS Hlt. cbv zeta.
  destruct (HT t) as (Hnat & Hnw & _). specialize (Hnat Hlt). unfold pcof in *.
  destruct (Q2 t) as (Q2n & Q2t).
  step_cases w t; try rewrite Hpc in *; simpl fst; unfold lc; simpl recs; simpl cvq; unfold clear_cv_mu.
  all: try (split; [exact Q1n|]; intros r; frame_field loc; apply Q1).
  all: simpl in Hnat, Hnw, Q2t; unfold lc in *.
  all: try (apply holds_enq; [assumption | assumption | intuition congruence | reflexivity]).
  all: try (apply holds_rem; [assumption | assumption | simpl; congruence]).
  all: try match goal with H : sel_signal _ _ = _ |- _ => simpl in H; pose proof (sel_signal_part (recs w) (cvq w)) as Hp; rewrite H in Hp; simpl in Hp end.
  all: try match goal with H : sel_broadcast _ _ = _ |- _ => simpl in H; pose proof (sel_broadcast_part (recs w) (cvq w)) as Hp; rewrite H in Hp; simpl in Hp end.
  all: try (apply (holds_sel (recs w) (cvq w) _ _ _ PCvq (PPriv t) Hp Q1n Q1); [reflexivity | reflexivity | discriminate]).
  all: unfold nw_inv in Hnw; simpl in Hnw; unfold lc in *.
  all: try (apply holds_enq; [assumption | assumption | intuition congruence | reflexivity]).
  all: try match goal with H : xfer ?rs ?fca ?wk = _ |- _ => pose proof (xfer_part rs fca wk) as Hp; rewrite H in Hp; simpl in Hp end.
  all: try (split; [assumption|]; apply (holds_map_other (recs w) (cvq w) _ _ PCvq PMuq Q1); [reflexivity | reflexivity | discriminate |];
            intros r Hr; rewrite (Q2t r) by (apply (proj1 Hp); auto); discriminate).
  all: try (split; [assumption|]; apply holds_upd; [assumption | rewrite (Q2t _) by (rewrite Heql; left; reflexivity); discriminate | simpl; discriminate]).
Qed.

Lemma loc_map_move o p l f r : loc (map_recs (fun x => r_move x o p) l f r) = if mem_id r l then p else loc (f r).
Proof. now apply loc_map_recs. Qed.
Lemma loc_map_xfer l f r : loc (map_recs (fun x => r_set_loc (r_set_cv_mu x false) PMuq) l f r) = if mem_id r l then PMuq else loc (f r).
Proof. now apply loc_map_recs. Qed.
Ltac sel_part :=
  try match goal with H : sel_signal _ _ = _ |- _ => simpl in H;
        match type of H with sel_signal ?rs ?q = _ => pose proof (sel_signal_part rs q) as Hp; rewrite H in Hp; simpl in Hp end end;
  try match goal with H : sel_broadcast _ _ = _ |- _ => simpl in H;
        match type of H with sel_broadcast ?rs ?q = _ => pose proof (sel_broadcast_part rs q) as Hp; rewrite H in Hp; simpl in Hp end end;
  try match goal with H : xfer ?rs ?fca ?wk = _ |- _ => pose proof (xfer_part rs fca wk) as Hp; rewrite H in Hp; simpl in Hp end.

(* the records thread t owns at the moment: its waiter struct and the record of its pending nsync_wait_n *)
Definition own (w : world) (t r : nat) : Prop := r = t \/ exists n, pc_nl (pcof w t) = Some n /\ r = n_r n.

(* how the location of a record can change in one step of thread t *)
Lemma step_core_loc w t c r : PInv w -> SInv w -> (t < length (thr w))%nat ->
  let w' := fst (step_core w t c) in
  lc w' r = lc w r \/
  (lc w r = PCvq /\ lc w' r = PPriv t) \/
  (lc w r = PNone /\ lc w' r = PCvq /\ own w t r) \/
  (lc w r = PCvq /\ lc w' r = PNone /\ own w t r) \/
  (lc w r = PPriv t /\ (lc w' r = PMuq \/ lc w' r = PNone)).
Proof.
  intros ((Q0 & (Q1n & Q1) & Q2 & Q3 & Q4 & Q5 & Q6 & Q7 & Q9 & Q8) & HT) (S1 & S2 & S3 & S4) Hlt. cbv zeta.
  destruct (HT t) as (Hnat & Hnw & _). specialize (Hnat Hlt). unfold own, pcof in *.
  destruct (Q2 t) as (Q2n & Q2t). pose proof (S4 t) as S4t.
  step_cases w t; try rewrite Hpc in *; simpl fst; unfold lc; simpl recs; unfold clear_cv_mu.
  all: try solve [left; frame_field loc].
  all: simpl in Hnat, Hnw, Q2t, S4t; unfold nw_inv in Hnw; simpl in Hnw; unfold lc in *.
  (* one record changes *)
  all: try match goal with |- context [fupd _ ?p _ ?r0] =>
         unfold fupd; destruct (Nat.eqb_spec r0 p); [subst r0; simpl|left; reflexivity] end.
  all: sel_part.
  all: rewrite ?loc_map_move, ?loc_map_xfer.
  all: try match goal with |- context [mem_id ?r0 ?l] => destruct (mem_id r0 l) eqn:Hm; [apply mem_id_In in Hm|left; reflexivity] end.
  (* own record moves *)
  all: try (right; right; left; repeat split; [tauto | left; reflexivity]).
  all: try (right; right; right; left; repeat split; [apply Q1; apply mem_id_In; assumption | left; reflexivity]).
  (* selected from the cv queue *)
  all: try (right; left; split; [apply Q1; apply (proj1 Hp); auto | reflexivity]).
  (* transferred or woken *)
  all: try (right; right; right; right; split; [apply Q2t; first [apply (proj1 Hp); auto | rewrite Heql; left; reflexivity] | auto]).
  (* the thread's nsync_wait_n record *)
  all: try (right; right; left; repeat split; [tauto | right; eexists; split; reflexivity]).
  all: zbool; right; right; right; left; repeat split; [apply Q1|right; eexists; split; reflexivity];
       match goal with H : cv_dequeue_store1_guard (if mem_id ?x ?q then 1 else 0) = true |- _ =>
         destruct (mem_id x q) eqn:Hm; [now apply mem_id_In | cbv in H; discriminate] end.
Qed.

Lemma rc_head (f : nat -> rec) n l r v : NoDup (n :: l) ->
  (fupd f n (r_set_rcount (f n) v) r = f r /\ (In r l <-> In r (n :: l))) \/
  (r = n /\ fupd f n (r_set_rcount (f n) v) r = r_set_rcount (f r) v /\ ~ In r l).
Proof.
  intros Hn. inversion Hn; subst. unfold fupd. destruct (Nat.eqb_spec r n) as [->|Hne].
  - right. simpl. auto.
  - left. simpl. intuition congruence.
Qed.

(* what one step of thread t does to a record that is not its own *)
Definition same_todo (w w' : world) (t r : nat) : Prop := In r (todo (pcof w' t)) <-> In r (todo (pcof w t)).
Lemma step_core_other_rec w t c r : PInv w -> SInv w -> (t < length (thr w))%nat -> ~ own w t r ->
  let w' := fst (step_core w t c) in let x := recs w r in let x' := recs w' r in
  (x' = x /\ same_todo w w' t r) \/
  (loc x = PCvq /\ x' = r_move x (Some t) (PPriv t) /\ (is_mucv x = true -> In r (todo (pcof w' t))) /\
   pc_spin (pcof w t) = false /\ pc_spin (pcof w' t) = true) \/
  (In r (todo (pcof w t)) /\ x' = r_set_rcount x (inc (rcount x)) /\ ~ In r (todo (pcof w' t))) \/
  (loc x = PPriv t /\ todo (pcof w t) = [] /\ todo (pcof w' t) = [] /\
   ((x' = r_set_loc (r_set_cv_mu x false) PMuq /\ is_mucv x = true) \/ x' = r_set_loc (r_set_waiting x 0) PNone)).
Proof.
  intros ((Q0 & (Q1n & Q1) & Q2 & Q3 & Q4 & Q5 & Q6 & Q7 & Q9 & Q8) & HT) (S1 & S2 & S3 & S4) Hlt Hown. cbv zeta.
  destruct (Q2 t) as (Q2n & Q2t). destruct (Q7 t) as (Q7n & Q7t). pose proof (S2 t Hlt) as (S2t & _).
  assert (Hrt : r <> t) by (intros ->; apply Hown; left; reflexivity).
  assert (S4t : forall n, pc_nl (t_pc (get w t)) = Some n -> r <> n_r n) by (intros n Hn ->; apply Hown; right; eauto).
  unfold same_todo, pcof in *.
  step_cases w t; try rewrite Hpc in *; simpl fst; pc_nf; try rewrite Hpc; simpl recs; unfold clear_cv_mu.
  all: try solve [left; split; [frame_field (fun x : rec => x) | simpl; rewrite ?todo_after_todo, ?todo_enter_wake_loop; simpl; tauto]].
  all: autorewrite with getdb; try rewrite Hpc; simpl todo; rewrite ?todo_after_todo, ?todo_enter_wake_loop; simpl todo.
  all: rewrite ?(fupd_other _ t) by assumption.
  all: try (pose proof (S4t _ eq_refl) as Hnown; rewrite ?(fupd_other _ (n_r _)) by assumption).
  all: try solve [left; split; [frame_field (fun x : rec => x) | simpl; tauto]].
  all: sel_part; simpl k_todo.
  (* selection *)
  all: try match goal with |- context [map_recs (fun x => r_move x ?o ?p) ?l ?f ?r0] =>
         destruct (in_dec Nat.eq_dec r0 l) as [Hin|Hnin];
         [ right; left; rewrite map_recs_in by (try reflexivity; assumption);
           repeat split; [apply Q1; apply (proj1 Hp); auto | intros Hm; apply filter_In; auto | apply (proj2 (pc_old_after_todo _))]
         | left; rewrite map_recs_notin by assumption; split; [reflexivity|];
           split; [intros H; apply filter_In in H; tauto | simpl; tauto] ] end.
  all: simpl in Q7n, Q7t.
  all: try solve [left; rewrite Heql; simpl; tauto].
  (* the remove_count of the head of the todo list *)
  all: try (rewrite Heql in *; simpl tl; zbool;
            rewrite ?(proj1 (proj2 (cas_new_inc _))), ?(proj1 (proj2 (proj2 (cas_new_inc _)))), ?(proj2 (proj2 (proj2 (cas_new_inc _))));
            match goal with |- context [fupd ?f ?n0 (r_set_rcount _ ?v) ?r0] =>
              destruct (rc_head f n0 l r0 v Q7n) as [(E1 & E2)|(E1 & E2 & E3)] end;
            [ left; split; assumption | right; right; left; repeat split; [left; congruence | rewrite E2; f_equal; congruence | assumption] ]).
  (* transfer *)
  1: { destruct (in_dec Nat.eq_dec r l) as [Hin|Hnin].
       - right; right; right. rewrite map_recs_in by (try reflexivity; assumption).
         repeat split; [apply Q2t; apply (proj1 Hp); auto|]. left. split; [reflexivity|].
         pose proof (Q9 t) as H9. unfold pcof in H9. rewrite Hpc in H9. destruct H9 as (f0 & rest0 & Ef & Hf).
         rewrite Ef in Heqp. eapply xfer_native; [exact Hf | rewrite Heqp; exact Hin].
       - left. rewrite map_recs_notin by assumption. split; [reflexivity | simpl; tauto]. }
  (* the store of wake_waiters *)
  unfold fupd. destruct (Nat.eqb_spec r n) as [->|Hne]; [|left; simpl; tauto].
  right; right; right. repeat split; [apply Q2t; simpl; rewrite Heql; left; reflexivity | right; reflexivity].
Qed.

(* ---------- consequences of the two change lemmas ---------- *)
Section StepFacts.
  Variables (w : world) (t : nat) (c : choice).
  Hypothesis HP : PInv w.
  Hypothesis HA : AInv w.
  Hypothesis HS : SInv w.
  Hypothesis Hlt : (t < length (thr w))%nat.
  Local Notation w' := (fst (step_core w t c)).

  Lemma own_bound r : own w t r -> (r < nrec w)%nat.
  Proof.
    destruct HS as (S1 & S2 & S3 & S4). intros [->|(n & Hn & ->)]; [lia|]. destruct (S4 t n Hn) as (A & _). lia.
  Qed.
  Lemma own_owner r : own w t r -> owner (recs w r) = t.
  Proof.
    destruct HS as (S1 & S2 & S3 & S4). intros [->|(n & Hn & ->)]; [now apply S2|]. now destruct (S4 t n Hn) as (_ & A & _).
  Qed.

  Lemma Q0_step r : (nrec w' <= r)%nat -> lc w' r = PNone.
  Proof.
    intros Hr. rewrite (proj1 (proj2 (step_core_misc w t c))) in Hr.
    destruct HP as ((Q0 & _) & _). pose proof (Q0 r Hr) as H0.
    destruct (step_core_loc w t c r HP HS Hlt) as [E|[(E & _)|[(_ & _ & Ho)|[(E & _)|(E & _)]]]]; try congruence.
    apply own_bound in Ho. lia.
  Qed.

  Lemma other_thread t' : t' <> t -> get w' t' = get w t'.
  Proof. intros. apply step_core_other. congruence. Qed.

  Lemma Q2_other t' : t' <> t -> NoDup (priv (pcof w' t')) /\ forall r, In r (priv (pcof w' t')) -> lc w' r = PPriv t'.
  Proof.
    intros Hne. unfold pcof. rewrite other_thread by assumption. destruct HP as ((_ & _ & Q2 & _) & _).
    destruct (Q2 t') as (Hn & Hq). split; [exact Hn|]. intros r Hr. specialize (Hq r Hr).
    destruct (step_core_loc w t c r HP HS Hlt) as [E|[(E & _)|[(E & _)|[(E & _)|(E & _)]]]]; try congruence.
  Qed.

  Lemma Q4_step r : In r (mwake w') -> lc w' r = PMwake /\ is_mucv (recs w' r) = true.
  Proof.
    assert (E : mwake w' = mwake w) by (step_cases w t; reflexivity).
    rewrite E. intros Hr. destruct HP as ((_ & _ & _ & _ & Q4 & _) & _). destruct (Q4 r Hr) as (A & B).
    rewrite (proj2 (step_core_static w t c r)). split; [|assumption].
    destruct (step_core_loc w t c r HP HS Hlt) as [E'|[(E' & _)|[(E' & _)|[(E' & _)|(E' & _)]]]]; congruence.
  Qed.

  Lemma own_dec r : own w t r \/ ~ own w t r.
  Proof.
    unfold own. destruct (Nat.eq_dec r t) as [->|Hn]; [left; left; reflexivity|].
    destruct (pc_nl (pcof w t)) as [n|] eqn:E.
    - destruct (Nat.eq_dec r (n_r n)) as [->|Hn2].
      + left. right. exists n. auto.
      + right. intros [?|(n' & E' & ?)]; [congruence|]. injection E' as <-. congruence.
    - right. intros [?|(n' & E' & ?)]; congruence.
  Qed.

  (* foreign records: the waiting-flag invariant (K), dead records *)
  Lemma foreign_K r : ~ own w t r -> lc w' r <> PNone ->
    waiting (recs w' r) <> 0 \/ exists n, pcof w' (owner (recs w' r)) = NEnqStore n /\ n_r n = r.
  Proof.
    intros Hno Hl. destruct HP as ((_ & _ & _ & _ & _ & Q5 & _) & _). unfold lc in *.
    rewrite (proj1 (step_core_static w t c r)).
    assert (Hk : loc (recs w r) <> PNone -> waiting (recs w r) <> 0 \/ (owner (recs w r) <> t /\ exists n, pcof w (owner (recs w r)) = NEnqStore n /\ n_r n = r)).
    { intros Hl0. destruct (Q5 r Hl0) as [?|(n & Hn & E)]; [now left|]. right. split; [|eauto].
      intros Ho. apply Hno. right. exists n. unfold pcof in *. rewrite Ho in Hn. rewrite Hn. auto. }
    assert (Hfin : loc (recs w r) <> PNone -> waiting (recs w' r) = waiting (recs w r) ->
                   waiting (recs w' r) <> 0 \/ exists n, pcof w' (owner (recs w r)) = NEnqStore n /\ n_r n = r).
    { intros Hl0 Ew. destruct (Hk Hl0) as [?|(Ho & n & Hn & E)]; [left; congruence|]. right. exists n.
      unfold pcof. rewrite step_core_other by congruence. auto. }
    destruct (step_core_other_rec w t c r HP HS Hlt Hno) as [(E & _)|[(El & E & _)|[(Hin & E & _)|(El & _ & _ & [(E & _)|E])]]];
      cbv zeta in E; rewrite E in *; simpl in *.
    - now apply Hfin.
    - apply Hfin; [congruence | reflexivity].
    - apply Hfin; [|reflexivity]. destruct HP as ((_ & _ & Q2 & _ & _ & _ & _ & Q7 & _) & _).
      destruct (Q7 t) as (_ & H7). destruct (H7 r Hin) as (Hp & _). destruct (Q2 t) as (_ & H2). unfold lc in H2. rewrite (H2 r Hp). discriminate.
    - apply Hfin; [congruence | reflexivity].
    - congruence.
  Qed.

  Lemma foreign_live r : ~ own w t r -> live (recs w' r) = live (recs w r).
  Proof.
    intros Hno.
    destruct (step_core_other_rec w t c r HP HS Hlt Hno) as [(E & _)|[(El & E & _)|[(Hin & E & _)|(El & _ & _ & [(E & _)|E])]]];
      cbv zeta in E; rewrite E; reflexivity.
  Qed.

  (* the protocol state of another thread's native record *)
  Lemma foreign_native t' : t' <> t -> (t' < length (thr w))%nat -> ~ own w t t'.
  Proof.
    intros Hne Hl [?|(n & Hn & E)]; [congruence|]. destruct HS as (_ & _ & _ & S4). destruct (S4 t n Hn) as (A & _). lia.
  Qed.
  Lemma Jst_other t' rc : t' <> t -> (t' < length (thr w))%nat -> Jst w t' rc -> Jst w' t' rc.
  Proof.
    intros Hne Hl HJ. pose proof (foreign_native t' Hne Hl) as Hno.
    destruct HP as ((_ & _ & Q2 & _ & _ & _ & _ & Q7 & _) & _). destruct HS as (_ & S2 & _).
    destruct (step_core_other_rec w t c t' HP HS Hlt Hno) as [(E & Ht)|[(El & E & Hin & _)|[(Hin & E & Hnin)|(El & Ht0 & Ht1 & [(E & _)|E])]]];
      cbv zeta in E; unfold Jst in *; rewrite E; simpl.
    - (* unchanged *)
      destruct (loc (recs w t')) as [| |s| |]; auto. destruct HJ as (A & B & C). repeat split; auto.
      destruct (Nat.eq_dec s t) as [->|Hs]; [unfold same_todo in Ht; tauto|].
      unfold pcof in *. rewrite step_core_other by congruence. exact C.
    - rewrite El in HJ. destruct HJ as (A & B). repeat split; auto. left. split; [|assumption]. apply Hin. now apply S2.
    - destruct (Q7 t) as (_ & H7). destruct (H7 t' Hin) as (Hp & _). destruct (Q2 t) as (_ & H2). unfold lc in H2.
      rewrite (H2 t' Hp) in *. destruct HJ as (A & B & [(C & D)|(C & D)]); [|tauto]. repeat split; auto. right. split; [assumption | congruence].
    - rewrite El in HJ. destruct HJ as (A & B & [(C & D)|(C & D)]); [rewrite Ht0 in C; elim C|]. split; [assumption | eauto].
    - rewrite El in HJ. destruct HJ as (A & B & [(C & D)|(C & D)]); [rewrite Ht0 in C; elim C|]. split; [now left | eauto].
  Qed.

  (* a record whose location is PNone or which sits on the queue of a spinlock holder is left alone *)
  Lemma foreign_none r : ~ own w t r -> lc w r = PNone -> recs w' r = recs w r.
  Proof.
    intros Hno Hl. destruct HP as ((_ & _ & Q2 & _ & _ & _ & _ & Q7 & _) & _).
    destruct (step_core_other_rec w t c r HP HS Hlt Hno) as [(E & _)|[(El & _)|[(Hin & _)|(El & _)]]]; unfold lc in *; try congruence.
    destruct (Q7 t) as (_ & H7). destruct (H7 r Hin) as (Hp & _). destruct (Q2 t) as (_ & H2). unfold lc in H2. rewrite (H2 r Hp) in Hl. discriminate.
  Qed.
  Lemma foreign_cvq_spin r t' : ~ own w t r -> lc w r = PCvq -> t' <> t -> pc_spin (pcof w t') = true -> recs w' r = recs w r.
  Proof.
    intros Hno Hl Hne Hsp. destruct HP as ((_ & _ & Q2 & _ & _ & _ & _ & Q7 & _) & _).
    destruct (step_core_other_rec w t c r HP HS Hlt Hno) as [(E & _)|[(El & _ & _ & Hs0 & Hs1)|[(Hin & _)|(El & _)]]]; unfold lc in *; try congruence.
    - pose proof (AInv_step_core w t c HA Hlt) as (A1 & _). exfalso. apply Hne. apply A1; [|exact Hs1].
      unfold pcof in *. rewrite step_core_other by congruence. exact Hsp.
    - destruct (Q7 t) as (_ & H7). destruct (H7 r Hin) as (Hp & _). destruct (Q2 t) as (_ & H2). unfold lc in H2. rewrite (H2 r Hp) in Hl. discriminate.
  Qed.

  Lemma nat_inv_other t' : t' <> t -> (t' < length (thr w))%nat -> nat_inv w' t' (pcof w' t').
  Proof.
    intros Hne Hl. pose proof (foreign_native t' Hne Hl) as Hno.
    destruct HP as (_ & HT). destruct (HT t') as (Hnat & _). specialize (Hnat Hl).
    unfold pcof in *. rewrite step_core_other by congruence.
    assert (HJ : forall rc, Jst w t' rc -> Jst w' t' rc) by (intros; now apply Jst_other).
    assert (HN : lc w t' = PNone -> recs w' t' = recs w t') by (now apply foreign_none).
    assert (HSf : SELF w t' -> SELF w' t' /\ recs w' t' = recs w t').
    { intros (A & B). unfold SELF, lc in *. rewrite (HN A). auto. }
    destruct (t_pc (get w t')) eqn:Hpc; simpl in *; unfold lc in *; try exact I;
      try (rewrite (HN Hnat); exact Hnat);
      try (destruct Hnat as (A & B); rewrite (HN A); auto; fail);
      try (destruct Hnat as (A & B); split; [apply HJ|]; assumption);
      try (destruct Hnat as [(A & B)|(A & B)]; [left; split; [apply HJ|]; assumption | right; destruct (HSf A) as (C & D); rewrite D; auto]);
      try (apply HSf; assumption).
    all: try (destruct k; simpl in *; unfold lc in *;
              try (rewrite (HN Hnat); exact Hnat);
              try (destruct Hnat as (A & B); rewrite (HN A); auto; fail);
              try (destruct Hnat as (A & B); split; [apply HJ|]; assumption)).
    (* WLoadRc: the thread holds the cv spinlock *)
    destruct Hnat as (A & B). rewrite (foreign_cvq_spin t' t' Hno A Hne); [auto|]. unfold pcof. now rewrite Hpc.
  Qed.

  Lemma nw_inv_other t' : t' <> t -> nw_inv w' t' (pcof w' t').
  Proof.
    intros Hne. destruct HP as ((_ & _ & Q2 & _ & _ & _ & _ & Q7 & _) & HT). destruct (HT t') as (_ & Hnw & _).
    unfold pcof in *. rewrite step_core_other by congruence.
    unfold nw_inv, lc in *. destruct (pc_nl (t_pc (get w t'))) as [n|] eqn:Hn; [|trivial].
    destruct HS as (S1 & S2 & S3 & S4). destruct (S4 t' n Hn) as (Hb & Ho & Hm).
    assert (Hno : ~ own w t (n_r n)).
    { intros [E|(n2 & Hn2 & E)]; [lia|]. destruct (S4 t n2 Hn2) as (_ & Ho2 & _). rewrite <- E in Ho2. congruence. }
    destruct (step_core_other_rec w t c (n_r n) HP (conj S1 (conj S2 (conj S3 S4))) Hlt Hno)
      as [(E & _)|[(El & E & _ & Hs0 & Hs1)|[(Hin & _)|(El & _ & _ & [(_ & Hmu)|E])]]]; cbv zeta in *.
    - rewrite E. exact Hnw.
    - (* selected by t: impossible while t' holds the spinlock *)
      assert (Hnsp : pc_spin (t_pc (get w t')) = false).
      { destruct (pc_spin (t_pc (get w t'))) eqn:Esp; [|reflexivity]. exfalso. apply Hne.
        pose proof (AInv_step_core w t c HA Hlt) as (A1 & _). apply A1; [|exact Hs1]. unfold pcof. now rewrite step_core_other by congruence. }
      unfold lc in *. rewrite E. simpl. destruct Hnw as (Hlv & Hnw). split; [exact Hlv|].
      destruct (t_pc (get w t')) eqn:Hpc; simpl in *; try discriminate; try injection Hn as <-;
        try (destruct k; simpl in *; try discriminate; try injection Hn as <-);
        try (destruct Hnw as (A & _); congruence);
        try (destruct Hnw as (A & [(B & C)|(B & _)]); [split; [assumption|]; right; split; [discriminate | exists t; split; [congruence | reflexivity]] | congruence]).
      all: try (destruct (n_wasq n0); [destruct Hnw; congruence | destruct Hnw as (A & _); congruence]).
      all: destruct Hnw as (_ & A & _); congruence.
    - destruct (Q7 t) as (_ & H7). destruct (H7 _ Hin) as (_ & Hmu). congruence.
    - congruence.
    - (* woken by t *)
      unfold lc in *. rewrite E. simpl. destruct Hnw as (Hlv & Hnw). split; [exact Hlv|].
      destruct (t_pc (get w t')) eqn:Hpc; simpl in *; try discriminate; try injection Hn as <-;
        try (destruct k; simpl in *; try discriminate; try injection Hn as <-);
        try (destruct Hnw as (A & _); congruence);
        try (destruct Hnw as (A & [(B & C)|(B & C)]); [congruence | split; [assumption|]; right; split; [discriminate | assumption]]).
      + destruct (n_wasq n0); [destruct Hnw; congruence | destruct Hnw as (A & B); split; [discriminate | assumption]].
      + destruct Hnw as (A & B & C). repeat split; auto. discriminate.
  Qed.

  Lemma log_other t' : t' <> t -> Forall (ret_taker t') (rets (get w' t')).
  Proof. intros Hne. rewrite step_core_other by congruence. destruct HP as (_ & HT). apply HT. Qed.
End StepFacts.

(* ---------- the stepping thread itself ---------- *)
Lemma nat_inv_after_todo w t k : nat_inv w t (after_todo k) = (lc w t = PNone).
Proof. unfold after_todo. destruct (k_todo k); reflexivity. Qed.
Lemma nat_inv_enter_wake_loop w t k : nat_inv w t (enter_wake_loop k) = (lc w t = PNone).
Proof. unfold enter_wake_loop. destruct (k_wake k); reflexivity. Qed.

Lemma Jst_self w w' t rc : (forall s, s <> t -> pcof w' s = pcof w s) -> recs w' t = recs w t -> Jst w t rc -> Jst w' t rc.
Proof.
  intros Ho Er. unfold Jst. rewrite Er. destruct (loc (recs w t)) as [| |s| |]; auto.
  intros (A & B & C). repeat split; auto. now rewrite Ho.
Qed.

Lemma self_nat w t c : PInv w -> AInv w -> SInv w -> (t < length (thr w))%nat ->
  let w' := fst (step_core w t c) in nat_inv w' t (pcof w' t).
Proof.
  intros HP HA HS Hlt. pose proof HP as ((Q0 & (Q1n & Q1) & Q2 & Q3 & Q4 & Q5 & Q6 & Q7 & Q9 & Q8) & HT).
  pose proof HS as (S1 & S2 & S3 & S4). cbv zeta.
  destruct (HT t) as (Hnat & Hnw & _). specialize (Hnat Hlt).
  destruct (Q2 t) as (Q2n & Q2t). destruct (Q7 t) as (Q7n & Q7t). pose proof (S4 t) as S4t.
  remember (fst (step_core w t c)) as w' eqn:Ew.
  assert (Hoth : forall s, s <> t -> pcof w' s = pcof w s) by (intros; subst w'; unfold pcof; now rewrite step_core_other by congruence).
  assert (HJ : forall rc, recs w' t = recs w t -> Jst w t rc -> Jst w' t rc) by (intros; now apply (Jst_self w)).
  assert (HSf : recs w' t = recs w t -> SELF w t -> SELF w' t) by (unfold SELF, lc; intros ->; auto).
  assert (HK : (forall n, t_pc (get w t) <> NEnqStore n) -> waiting (recs w t) = 0 -> lc w t = PNone).
  { intros Hne Hz. destruct (lc w t) eqn:El; try reflexivity;
     (destruct (Q5 t) as [?|(n0 & Hn0 & _)]; [unfold lc in *; congruence | congruence |
      destruct (S2 t Hlt) as (So & _); unfold pcof in Hn0; rewrite So in Hn0; elim (Hne _ Hn0)]). }
  unfold pcof in *. revert Ew.
  step_cases w t; try rewrite Hpc in *; simpl fst; intros Ew; subst w'; pc_nf; try rewrite Hpc; simpl nat_inv;
    rewrite ?nat_inv_after_todo, ?nat_inv_enter_wake_loop; simpl in Hnat.
  all: try exact Hnat.
  (* the record of t is not touched *)
  all: try solve [unfold lc in *; simpl recs; unfold clear_cv_mu; frame_field loc; exact Hnat].
  all: try solve [destruct Hnat as (A & B); split; [apply HJ; [reflexivity|assumption] | assumption]].
  all: autorewrite with getdb; try rewrite Hpc; simpl nat_inv; try exact Hnat.
  all: try match goal with H : _ = SpLoad _ ?k |- _ => destruct k; simpl in Hnat |- * end.
  all: try exact Hnat.
  all: try solve [unfold lc in *; simpl recs; unfold clear_cv_mu; frame_field loc; exact Hnat].
  all: try solve [destruct Hnat as (A & B); split; [apply HJ; [reflexivity|assumption] | assumption]].
  all: zbool.
  all: try (specialize (HK ltac:(intros; discriminate))).
  (* thread t is not on a list it selects from, transfers or wakes *)
  all: try match goal with H : t_pc _ = WLoop _ |- _ =>
         destruct Hnat as [(A & B)|((A1 & A2) & B)];
         [ first [ split; [apply HJ; [reflexivity|assumption] | assumption]
                 | specialize (HK ltac:(assumption)); split; [assumption|]; left; split; [assumption|];
                   unfold Jst, lc in *; rewrite HK in A; tauto ]
         | first [ congruence | split; [assumption | right; assumption] ] ] end.
  (* J-pcs whose successor carries (J \/ SELF) *)
  all: try match goal with |- (Jst _ _ _ /\ _) \/ _ =>
         match type of Hnat with
         | _ /\ _ => left; destruct Hnat as (A & B); split; [apply HJ; [reflexivity|assumption] | assumption]
         | _ \/ _ => destruct Hnat as [(A & B)|(A & B)];
                      [left; split; [apply HJ; [reflexivity|assumption] | assumption] | right; split; [apply HSf; [reflexivity|assumption] | assumption]]
         end end.
  all: unfold lc, SELF in *; simpl recs; unfold clear_cv_mu.
  (* WMuAcq -> Idle, WMuRel crashes *)
  all: try (destruct Hnat as (A & _); exact A).
  all: try exact I.
  (* own record updates *)
  all: rewrite ?fupd_same; simpl loc; simpl taker; simpl waiting.
  all: try solve [intuition congruence].
  (* waker steps: t is on none of the lists handled *)
  all: sel_part.
  all: rewrite ?loc_map_move, ?loc_map_xfer.
  all: try match goal with |- context [mem_id ?x ?l0] => destruct (mem_id x l0) eqn:Hm;
         [ apply mem_id_In in Hm; exfalso | exact Hnat ] end.
  all: try (assert (Hm2 := proj2 (proj1 Hp _) (or_introl Hm)); simpl in Q2t;
            first [ apply Q1 in Hm2; unfold lc in Hm2; congruence | apply Q2t in Hm2; unfold lc in Hm2; congruence ]).
  (* the thread's nsync_wait_n record is not its waiter struct *)
  all: try (destruct (S4t _ eq_refl) as (Hb & _); rewrite fupd_other by lia; exact Hnat).
  all: try match goal with H : _ = SpCas ?k _ |- match ?k with _ => _ end => destruct k; simpl in *; try exact Hnat;
         destruct Hnat as (A & B); split; [apply HJ; [reflexivity|assumption] | assumption] end.
  all: try match goal with |- _ /\ nsync_cv_wait_with_deadline_generic_store1_new <> 0 /\ _ =>
         destruct Hnat as (A & B); repeat split; [exact A | cbv; discriminate | exact B] end.
  (* WLoadRc: the count read under the spinlock *)
  1: { destruct Hnat as (A & B & C). split; [|exact C]. unfold Jst. simpl recs. rewrite A. auto. }
  (* WLoad8, counts equal: the record is still queued (the remove_count protocol) *)
  1: { unfold lc. simpl recs. rewrite fupd_same. simpl. auto. }
  1: { exfalso. destruct Hnat as (HJt & _). apply mem_id_false in Heqb0. unfold Jst in HJt.
       pose proof (inc_neq (w_rc l) ltac:(rewrite Heqb; apply S3)) as (Hi1 & Hi2).
       destruct (loc (recs w t)) as [| |s| |] eqn:El.
       - destruct HJt as ([E|E] & _); congruence.
       - apply Heqb0. apply Q1. exact El.
       - destruct HJt as (Hs & _ & [(Hin & _)|(_ & E)]); [|congruence].
         destruct HA as (A1 & _). apply Hs. symmetry. apply A1; [rewrite Hpc; reflexivity|].
         unfold pcof in Hin. destruct (t_pc (get w s)); simpl in Hin; try contradiction; reflexivity.
       - destruct HJt as (E & _); congruence.
       - destruct HJt as (E & _); congruence. }
  1,2: unfold lc in *; simpl recs; rewrite fupd_same; simpl; exact Hnat.
  1: { right. unfold lc in *. simpl recs. rewrite fupd_same. simpl. destruct Hnat. repeat split; auto. }
  unfold fupd. destruct (Nat.eqb_spec t n) as [->|Hne]; [|exact Hnat].
  exfalso. simpl in Q2t. rewrite Heql in Q2t. specialize (Q2t n (or_introl eq_refl)). unfold lc in Q2t. congruence.
Qed.

Lemma nw_inv_after_todo w t k : nw_inv w t (after_todo k) = True.
Proof. unfold nw_inv. now rewrite pc_nl_after_todo. Qed.
Lemma nw_inv_enter_wake_loop w t k : nw_inv w t (enter_wake_loop k) = True.
Proof. unfold nw_inv. now rewrite pc_nl_enter_wake_loop. Qed.

Lemma self_nw w t c : PInv w -> AInv w -> SInv w -> (t < length (thr w))%nat ->
  let w' := fst (step_core w t c) in nw_inv w' t (pcof w' t).
Proof.
  intros HP HA HS Hlt. pose proof HP as ((Q0 & (Q1n & Q1) & Q2 & Q3 & Q4 & Q5 & Q6 & Q7 & Q9 & Q8) & HT).
  pose proof HS as (S1 & S2 & S3 & S4). cbv zeta.
  destruct (HT t) as (_ & Hnw & _). pose proof (S4 t) as S4t.
  assert (HK : forall n, pc_nl (t_pc (get w t)) = Some n -> (forall n', t_pc (get w t) <> NEnqStore n') ->
               waiting (recs w (n_r n)) = 0 -> lc w (n_r n) = PNone).
  { intros n Hn Hne Hz. destruct (lc w (n_r n)) eqn:El; try reflexivity;
     (destruct (Q5 (n_r n)) as [?|(n0 & Hn0 & _)]; [unfold lc in *; congruence | congruence |
      destruct (S4 t n Hn) as (_ & So & _); unfold pcof in Hn0; rewrite So in Hn0; elim (Hne _ Hn0)]). }
  unfold pcof in *.
  step_cases w t; try rewrite Hpc in *; simpl fst; pc_nf; try rewrite Hpc;
    rewrite ?nw_inv_after_todo, ?nw_inv_enter_wake_loop; try exact I; try exact Hnw.
  all: autorewrite with getdb; try rewrite Hpc; try exact Hnw.
  all: unfold nw_inv in *; simpl pc_nl in *; try exact I.
  all: unfold lc in *; simpl recs in *; simpl n_r in *; simpl n_wasq in *.
  all: rewrite ?fupd_same; simpl live; simpl loc; simpl taker; simpl waiting.
  all: try (specialize (HK _ eq_refl ltac:(intros; discriminate)); simpl in HK).
  all: zbool.
  all: try solve [intuition (auto; congruence)].
  (* cv_dequeue did not find the record on the queue *)
  all: try (destruct Hnw as (Hlv & Hw & Hd); split; [exact Hlv|]; rewrite Hw;
       destruct Hd as [(A & B)|Hd]; [exfalso|exact Hd];
       assert (Hmem : mem_id (n_r n) (cvq w) = true) by (apply mem_id_In, Q1; exact A);
       match goal with Hc : _ && _ = false |- _ =>
         rewrite Hmem in Hc; apply andb_false_iff in Hc; destruct Hc as [Hz|Hg]; [|cbv in Hg; discriminate];
         apply negb_false_iff in Hz; zbool; first [specialize (HK Hz) | congruence]; congruence end).
  all: try (destruct Hnw as (Hlv & A & B & C); split; [exact Hlv|]; rewrite C; repeat split; auto).
  all: destruct (n_wasq n) eqn:Ew; try (cbv in Heqb; discriminate); try solve [intuition (auto; congruence)].
Qed.

Lemma self_log w t c : PInv w -> SInv w -> (t < length (thr w))%nat ->
  let w' := fst (step_core w t c) in Forall (ret_taker t) (rets (get w' t)).
Proof.
  intros HP HS Hlt. pose proof HP as (_ & HT). cbv zeta.
  destruct (HT t) as (Hnat & Hnw & Hlog). specialize (Hnat Hlt). unfold pcof in *.
  step_cases w t; try rewrite Hpc in *; simpl fst; get_nf; try exact Hlog.
  all: constructor; [|exact Hlog]; unfold ret_taker, wait_ret, waitn_ret; simpl; get_nf.
  all: simpl in Hnat; unfold nw_inv in Hnw; simpl in Hnw; unfold lc in *; simpl recs.
  all: try (destruct Hnat as (_ & [(A & s & B & C)|A]);
            [ split; [intros H; elim H; exact A | exists s; exact C] | split; [intros _; exact A | exists t; exact A] ]).
  all: rewrite ?fupd_same; simpl taker.
  all: destruct (n_wasq n) eqn:Ew; try match goal with H : cv_dequeue_load2_guard _ = _ |- _ => cbv in H; discriminate end.
  all: try solve [left; split; [reflexivity | tauto]].
  all: try solve [right; split; [reflexivity | tauto]].
  exfalso. destruct Hnw as (_ & A & _). congruence.
Qed.

Lemma first_native_after_todo w k : first_native w (after_todo k) = True.
Proof. unfold after_todo. destruct (k_todo k); reflexivity. Qed.
Lemma first_native_enter_wake_loop w k : first_native w (enter_wake_loop k) = True.
Proof. unfold enter_wake_loop. destruct (k_wake k); reflexivity. Qed.

Lemma self_lists w t c : PInv w -> SInv w -> (t < length (thr w))%nat ->
  let w' := fst (step_core w t c) in
  (NoDup (priv (pcof w' t)) /\ forall r, In r (priv (pcof w' t)) -> lc w' r = PPriv t) /\
  (NoDup (todo (pcof w' t)) /\ forall r, In r (todo (pcof w' t)) -> In r (priv (pcof w' t)) /\ is_mucv (recs w' r) = true) /\
  first_native w' (pcof w' t).
Proof.
  intros HP HS Hlt. pose proof HP as ((Q0 & (Q1n & Q1) & Q2 & Q3 & Q4 & Q5 & Q6 & Q7 & Q9 & Q8) & HT).
  pose proof HS as (S1 & S2 & S3 & S4). cbv zeta.
  destruct (Q2 t) as (Q2n & Q2t). destruct (Q7 t) as (Q7n & Q7t).
  assert (Hmu : forall r, is_mucv (recs (fst (step_core w t c)) r) = is_mucv (recs w r)) by (intros; apply step_core_static).
  unfold pcof in *. revert Hmu.
  step_cases w t; try rewrite Hpc in *; simpl fst; intros Hmu; pc_nf; try rewrite Hpc;
    rewrite ?priv_after_todo, ?priv_enter_wake_loop, ?todo_after_todo, ?todo_enter_wake_loop; simpl priv; simpl todo;
    rewrite ?first_native_after_todo, ?first_native_enter_wake_loop; simpl first_native.
  all: try solve [repeat split; try constructor; try contradiction; auto].
  all: pose proof (Q9 t) as Q9t; unfold pcof in Q9t; rewrite Hpc in Q9t; simpl in Q7n, Q7t, Q2n, Q2t.
  all: autorewrite with getdb; try rewrite Hpc; simpl priv; simpl todo; simpl first_native.
  all: try solve [repeat split; try constructor; try contradiction; auto].
  all: unfold lc in *; simpl recs; simpl k_wake; simpl k_todo; unfold clear_cv_mu.
  all: sel_part.
  (* selection under the spinlock *)
  all: try match goal with |- context [map_recs (fun x => r_move x _ (PPriv _)) ?wk _] =>
         destruct (proj2 Hp Q1n) as (Hnd & _ & _);
         split; [split; [exact Hnd | intros r Hr; rewrite loc_map_move; apply mem_id_In in Hr; now rewrite Hr]|];
         split; [|exact I];
         split; [apply NoDup_filter; exact Hnd | intros r Hr; apply filter_In in Hr; destruct Hr as (Hr1 & Hr2);
                 split; [exact Hr1 | rewrite (map_recs_field is_mucv) by reflexivity; exact Hr2]] end.
  all: try solve [repeat split; auto; try constructor; try contradiction].
  (* the remove_count loop *)
  all: try match goal with H : t_pc _ = KRcCas _ _ |- _ =>
         rewrite Heql in *; simpl tl; inversion Q7n; subst;
         split; [split; [exact Q2n | intros r Hr; rewrite (fupd_field loc) by (intros; subst; reflexivity); now apply Q2t]|];
         split; [|exact I];
         split; [assumption | intros r Hr; rewrite (fupd_field is_mucv) by (intros; subst; reflexivity); apply Q7t; now right] end.
  (* entry of wake_waiters *)
  all: try match goal with H : wake_waiters_load1_guard (if ?b then 1 else 0) = true |- _ =>
         destruct b eqn:Eb; [|cbv in H; discriminate]; apply andb_true_iff in Eb; destruct Eb as (Eb & _);
         repeat split; auto; try constructor; try contradiction; rewrite Heql; eauto end.
  all: try (split; [split; assumption | split; [split; assumption | exact I]]).
  - destruct (proj2 Hp Q2n) as (_ & Hnd & Hdis).
    split; [split; [exact Hnd|]|split; [split; [constructor | contradiction] | exact I]].
    intros r Hr. rewrite loc_map_xfer. destruct (mem_id r l) eqn:Hm.
    + apply mem_id_In in Hm. elim (Hdis r Hm Hr).
    + apply Q2t. apply (proj1 Hp). now right.
  - rewrite Heql in *. inversion Q2n; subst.
    split; [split; [assumption|]|split; [split; [constructor | contradiction] | exact I]].
    intros r Hr. rewrite fupd_other by (intros ->; contradiction). apply Q2t. now right.
Qed.

(* the thread's own records: waiting flag (K), liveness, touches *)
Lemma own_K w t c r : PInv w -> SInv w -> (t < length (thr w))%nat -> own w t r ->
  let w' := fst (step_core w t c) in
  lc w' r <> PNone -> waiting (recs w' r) <> 0 \/ exists n, pcof w' t = NEnqStore n /\ n_r n = r.
Proof.
  intros HP HS Hlt Ho. pose proof HP as ((Q0 & (Q1n & Q1) & Q2 & Q3 & Q4 & Q5 & Q6 & Q7 & Q9 & Q8) & HT).
  pose proof HS as (S1 & S2 & S3 & S4). cbv zeta.
  destruct (HT t) as (Hnat & Hnw & _). specialize (Hnat Hlt).
  destruct (Q2 t) as (Q2n & Q2t). destruct (Q7 t) as (Q7n & Q7t).
  pose proof (Q5 r) as Q5r. rewrite (own_owner w t HS Hlt r Ho) in Q5r.
  unfold own, pcof in *.
  step_cases w t; try rewrite Hpc in *; simpl fst; pc_nf; try rewrite Hpc; unfold lc in *; simpl recs; unfold clear_cv_mu.
  all: try solve [intros Hl; destruct (Q5r Hl) as [?|(n0 & Hn0 & ?)]; [now left | discriminate]].
  all: simpl in Hnat; unfold nw_inv in Hnw; simpl in Hnw; unfold lc in *; simpl in Ho.
  all: destruct Ho as [->|(n' & Hn' & ->)]; try discriminate; try (injection Hn' as <-).
  all: rewrite ?fupd_same; simpl loc; simpl waiting.
  all: try (pose proof (S4 t _ ltac:(rewrite Hpc; reflexivity)) as (Hb & _); rewrite ?(fupd_other _ _ _ t) by lia;
            rewrite ?(fupd_other _ t) by lia).
  all: try solve [intros Hl; destruct (Q5r Hl) as [?|(n0 & Hn0 & ?)]; [now left | discriminate]].
  all: try solve [intros Hl; congruence].
  all: try solve [intros _; left; tauto].
  all: sel_part; simpl in Q2t.
  all: try (rewrite map_recs_notin by
              (intros Hm; assert (Hm2 := proj2 (proj1 Hp _) (or_introl Hm));
               first [ apply Q1 in Hm2; unfold lc in Hm2; congruence | apply Q2t in Hm2; unfold lc in Hm2; congruence ]);
            intros Hl; congruence).
  all: try solve [intros _; right; eexists; split; reflexivity].
  all: try solve [intros Hl; destruct Hnat as (A & _); unfold lc in A; congruence].
  all: try solve [rewrite !(fupd_field loc) by (intros; subst; reflexivity); intros Hl; congruence].
  - unfold fupd. destruct (Nat.eqb_spec t n) as [->|Hne]; simpl; [congruence|]. intros Hl; congruence.
  - intros _. left. cbv. discriminate.
Qed.

Lemma own_Q6 w t c r : PInv w -> SInv w -> (t < length (thr w))%nat -> own w t r ->
  let w' := fst (step_core w t c) in live (recs w' r) = false -> lc w' r = PNone.
Proof.
  intros HP HS Hlt Ho. pose proof HP as ((Q0 & (Q1n & Q1) & Q2 & Q3 & Q4 & Q5 & Q6 & Q7 & Q9 & Q8) & HT).
  pose proof HS as (S1 & S2 & S3 & S4). cbv zeta.
  destruct (HT t) as (Hnat & Hnw & _). specialize (Hnat Hlt).
  destruct Ho as [->|(n & Hn & ->)].
  - (* the waiter struct of a thread is never dead *)
    pose proof (SInv_step_core w t c HS Hlt) as (_ & S2' & _).
    rewrite (proj1 (proj2 (proj2 (step_core_misc w t c)))) in S2'. destruct (S2' t Hlt) as (_ & _ & Hl). congruence.
  - pose proof (Q5 (n_r n)) as Q5r. destruct (S4 t n Hn) as (Hb & Hown & _). rewrite Hown in Q5r.
    unfold pcof in *. revert Hn.
    step_cases w t; try rewrite Hpc in *; simpl pc_nl; intros Hn; try discriminate Hn;
      try match goal with H : _ = SpLoad _ ?k |- _ => is_var k; destruct k; simpl in Hn; try discriminate Hn end;
      try match goal with H : _ = SpCas ?k _ |- _ => is_var k; destruct k; simpl in Hn; try discriminate Hn end;
      injection Hn as <-;
      simpl fst; unfold lc in *; simpl recs; unfold nw_inv in Hnw; simpl in Hnw.
    all: try solve [destruct Hnw as (Hlv & _); intros; congruence].
    all: rewrite ?fupd_same; simpl live; simpl loc.
    all: try solve [destruct Hnw as (Hlv & _); intros; congruence].
    all: intros _.
    all: try solve [destruct Hnw as (Hlv & Hnw); destruct (n_wasq n0);
                    try match goal with H : cv_dequeue_load2_guard _ = _ |- _ => cbv in H; discriminate end; tauto].
    all: zbool; destruct (loc (recs w (n_r n0))) eqn:El; try reflexivity;
         (destruct Q5r as [?|(n1 & Hn1 & _)]; [discriminate | congruence | unfold pcof in Hn1; try rewrite Hpc in Hn1; discriminate]).
Qed.

Lemma touch_all_live (f : nat -> rec) l : (forall r, In r l -> live (f r) = true) ->
  fold_right (fun r a => (if live (f r) then 0 else 1) + a) 0 l = 0.
Proof.
  induction l as [|x l IH]; simpl; intros H; [reflexivity|]. rewrite (H x) by auto. rewrite IH by auto. reflexivity.
Qed.

Lemma touch_step w t c : PInv w -> SInv w -> (t < length (thr w))%nat -> dead_touch (fst (step_core w t c)) = 0.
Proof.
  intros HP HS Hlt. pose proof HP as ((Q0 & (Q1n & Q1) & Q2 & Q3 & Q4 & Q5 & Q6 & Q7 & Q9 & Q8) & HT).
  pose proof HS as (S1 & S2 & S3 & S4).
  destruct (HT t) as (_ & Hnw & _). destruct (Q2 t) as (_ & Q2t). destruct (Q7 t) as (_ & Q7t).
  assert (Hlive : forall r, lc w r <> PNone -> live (recs w r) = true).
  { intros r Hl. destruct (live (recs w r)) eqn:E; [reflexivity|]. elim Hl. now apply Q6. }
  unfold pcof in *.
  step_cases w t; try rewrite Hpc in *; simpl fst; simpl dead_touch; try exact Q8.
  all: rewrite Q8; simpl in Q2t, Q7t; unfold nw_inv in Hnw; simpl in Hnw.
  (* the records on the cv queue are live *)
  all: assert (Hq : forall r, In r (cvq w) -> live (recs w r) = true) by (intros r Hr; apply Hlive; rewrite (proj1 (Q1 r) Hr); discriminate).
  all: rewrite ?(touch_all_live (recs w) (cvq w) Hq).
  (* the thread's own nsync_wait_n record *)
  all: try (destruct Hnw as (Hlv & _); rewrite Hlv).
  all: try reflexivity.
  (* records on the private list *)
  all: assert (Hp2 : forall r, In r (priv (t_pc (get w t))) -> live (recs w r) = true) by
         (intros r Hr; apply Hlive; rewrite Hpc in Hr; rewrite (Q2t r Hr); discriminate).
  all: rewrite Hpc in Hp2; simpl in Hp2.
  all: try (rewrite touch_all_live by assumption; reflexivity).
  all: try (rewrite Heql in Hp2; rewrite (Hp2 _ (or_introl eq_refl));
            rewrite ?touch_all_live by (intros; apply Hp2; right; assumption); reflexivity).
  all: match goal with |- _ + (if live (recs ?w0 ?x) then 0 else 1) = 0 =>
         rewrite (Hp2 x) by (apply Q7t; simpl; rewrite Heql; left; reflexivity); reflexivity end.
Qed.

Lemma Q3_step w t c r : PInv w -> SInv w -> (t < length (thr w))%nat ->
  let w' := fst (step_core w t c) in In r (muq w') -> lc w' r = PMuq /\ is_mucv (recs w' r) = true.
Proof.
  intros HP HS Hlt. pose proof HP as ((Q0 & (Q1n & Q1) & Q2 & Q3 & Q4 & Q5 & Q6 & Q7 & Q9 & Q8) & HT). cbv zeta.
  assert (Hold : In r (muq w) -> lc (fst (step_core w t c)) r = PMuq /\ is_mucv (recs (fst (step_core w t c)) r) = true).
  { intros Hr. destruct (Q3 r Hr) as (A & B). rewrite (proj2 (step_core_static w t c r)). split; [|exact B].
    destruct (step_core_loc w t c r HP HS Hlt) as [E|[(E & _)|[(E & _)|[(E & _)|(E & _)]]]]; congruence. }
  destruct (Q2 t) as (Q2n & Q2t). pose proof (Q9 t) as Q9t. unfold pcof in *. revert Hold.
  step_cases w t; try rewrite Hpc in *; simpl fst; simpl muq; intros Hold; try exact Hold.
  (* wake_waiters transfers *)
  sel_part. unfold lc; simpl recs; unfold clear_cv_mu. rewrite in_app_iff. intros [Hr|Hr]; [now apply Hold|].
  rewrite loc_map_xfer, (map_recs_field is_mucv) by reflexivity. apply mem_id_In in Hr. rewrite Hr. split; [reflexivity|].
  apply mem_id_In in Hr. simpl in Q9t. destruct Q9t as (f0 & rest0 & Ef & Hf). rewrite Ef in Heqp.
  eapply xfer_native; [exact Hf | rewrite Heqp; exact Hr].
Qed.

Theorem PInv_step_core w t c : PInv w -> AInv w -> SInv w -> (t < length (thr w))%nat -> PInv (fst (step_core w t c)).
Proof.
  intros HP HA HS Hlt.
  pose proof (step_core_misc w t c) as (_ & _ & Hlen & _).
  pose proof HP as ((Q0 & Q1 & Q2 & Q3 & Q4 & Q5 & Q6 & Q7 & Q9 & Q8) & HT).
  assert (Hown' : forall r, own w t r -> owner (recs (fst (step_core w t c)) r) = t).
  { intros r Ho. rewrite (proj1 (step_core_static w t c r)). now apply (own_owner w t HS Hlt). }
  assert (Hstat : forall r, is_mucv (recs (fst (step_core w t c)) r) = is_mucv (recs w r)) by (intros; apply step_core_static).
  split.
  - split; [intros r; apply (Q0_step w t c HP HS Hlt)|].
    split; [apply (Q1_step_core w t c HP HA HS Hlt)|].
    split; [intros t0; destruct (Nat.eq_dec t0 t) as [->|Hne];
              [apply (self_lists w t c HP HS Hlt) | apply (Q2_other w t c HP HS Hlt); assumption]|].
    split; [intros r; apply (Q3_step w t c r HP HS Hlt)|].
    split; [intros r; apply (Q4_step w t c HP HS Hlt)|].
    split.
    { intros r Hl. destruct (own_dec w t r) as [Ho|Hno].
      - destruct (own_K w t c r HP HS Hlt Ho Hl) as [?|(n & Hn & E)]; [now left|]. right. exists n. rewrite (Hown' r Ho). auto.
      - now apply (foreign_K w t c HP HS Hlt). }
    split.
    { intros r Hl. destruct (own_dec w t r) as [Ho|Hno].
      - now apply (own_Q6 w t c r HP HS Hlt Ho).
      - rewrite (foreign_live w t c HP HS Hlt r Hno) in Hl. specialize (Q6 r Hl). unfold lc in *.
        rewrite (foreign_none w t c HP HS Hlt r Hno Q6). exact Q6. }
    split.
    { intros t0. destruct (Nat.eq_dec t0 t) as [->|Hne]; [apply (self_lists w t c HP HS Hlt)|].
      unfold pcof. rewrite step_core_other by congruence. destruct (Q7 t0) as (A & B). split; [exact A|].
      intros r Hr. destruct (B r Hr) as (C & D). split; [exact C|]. now rewrite Hstat. }
    split; [|apply (touch_step w t c HP HS Hlt)].
    intros t0. destruct (Nat.eq_dec t0 t) as [->|Hne]; [apply (self_lists w t c HP HS Hlt)|].
    unfold pcof. rewrite step_core_other by congruence. specialize (Q9 t0). unfold pcof, first_native in *.
    destruct (t_pc (get w t0)); auto; destruct Q9 as (f & rest & A & B); exists f, rest; (split; [exact A|]); now rewrite Hstat.
  - intros t0. destruct (Nat.eq_dec t0 t) as [->|Hne].
    + split; [intros _; apply (self_nat w t c HP HA HS Hlt)|]. split; [apply (self_nw w t c HP HA HS Hlt) | apply (self_log w t c HP HS Hlt)].
    + split; [intros Hl0; apply (nat_inv_other w t c HP HA HS Hlt t0 Hne); rewrite Hlen in Hl0; exact Hl0|].
      split; [apply (nw_inv_other w t c HP HA HS Hlt t0 Hne) | apply (log_other w t c HP t0 Hne)].
Qed.

(* ---------- frames: steps that leave a thread's records alone ---------- *)
Lemma Jst_frame w w' t rc : recs w' t = recs w t -> (forall s, todo (pcof w' s) = todo (pcof w s)) -> Jst w t rc -> Jst w' t rc.
Proof.
  intros Er Ht. unfold Jst. rewrite Er. destruct (loc (recs w t)) as [| |s| |]; auto. now rewrite Ht.
Qed.
Lemma nat_inv_frame w w' t p : recs w' t = recs w t -> (forall s, todo (pcof w' s) = todo (pcof w s)) ->
  nat_inv w t p -> nat_inv w' t p.
Proof.
  intros Er Ht. assert (HJ : forall rc, Jst w t rc -> Jst w' t rc) by (intros; now apply (Jst_frame w)).
  unfold nat_inv, SELF, lc. rewrite Er.
  destruct p; auto; try (intros (A & B); split; auto); try (intros [(A & B)|A]; [left; split; auto | right; exact A]).
  all: destruct k; auto; intros (A & B); split; auto.
Qed.
Lemma nw_inv_frame w w' t p : (forall n, pc_nl p = Some n -> recs w' (n_r n) = recs w (n_r n)) -> nw_inv w t p -> nw_inv w' t p.
Proof.
  intros Er. unfold nw_inv, lc. destruct (pc_nl p) as [n|]; [|trivial]. now rewrite (Er n eq_refl).
Qed.

(* a step that only moves thread t from Idle to a pc that owns nothing, possibly allocating fresh records *)
Lemma PInv_thread_only w w' t p' :
  PInv w -> SInv w ->
  (forall t', t' <> t -> get w' t' = get w t') -> t_pc (get w t) = Idle -> t_pc (get w' t) = p' -> rets (get w' t) = rets (get w t) ->
  (forall r, (r < nrec w)%nat -> recs w' r = recs w r) -> (forall r, (nrec w <= r)%nat -> lc w' r = PNone) -> (nrec w <= nrec w')%nat ->
  cvq w' = cvq w -> muq w' = muq w -> mwake w' = mwake w -> dead_touch w' = dead_touch w -> length (thr w') = length (thr w) ->
  priv p' = [] -> todo p' = [] -> first_native w' p' -> (forall n, p' <> NEnqStore n) ->
  ((t < length (thr w))%nat -> lc w t = PNone -> nat_inv w' t p') -> nw_inv w' t p' ->
  PInv w'.
Proof.
  intros ((Q0 & (Q1n & Q1) & Q2 & Q3 & Q4 & Q5 & Q6 & Q7 & Q9 & Q8) & HT) (S1 & S2 & S3 & S4)
         Hoth Hpc Hpc' Hrets Hrec Hnew Hnr Hcvq Hmuq Hmw Hdt Hlen Hpriv Htodo Hfn Hnenq Hnat Hnw.
  assert (Hbound : forall r, lc w r <> PNone -> (r < nrec w)%nat).
  { intros r Hl. destruct (le_lt_dec (nrec w) r) as [Hge|]; [elim Hl; now apply Q0 | assumption]. }
  assert (Hlc : forall r, lc w' r = lc w r).
  { intros r. destruct (le_lt_dec (nrec w) r) as [Hge|Hl]; [rewrite (Hnew r Hge), (Q0 r Hge); reflexivity | unfold lc; now rewrite Hrec]. }
  assert (Hpcs : forall s, s <> t -> pcof w' s = pcof w s) by (intros; unfold pcof; now rewrite Hoth).
  assert (Hpriv' : forall s, priv (pcof w' s) = priv (pcof w s)).
  { intros s. destruct (Nat.eq_dec s t) as [->|Hne]; [unfold pcof; rewrite Hpc', Hpc, Hpriv; reflexivity | now rewrite Hpcs]. }
  assert (Htodo' : forall s, todo (pcof w' s) = todo (pcof w s)).
  { intros s. destruct (Nat.eq_dec s t) as [->|Hne]; [unfold pcof; rewrite Hpc', Hpc, Htodo; reflexivity | now rewrite Hpcs]. }
  split.
  - split; [intros r Hr; apply Hnew; lia|].
    split; [rewrite Hcvq; split; [exact Q1n | intros r; rewrite Hlc; apply Q1]|].
    split; [intros s; rewrite Hpriv'; destruct (Q2 s) as (A & B); split; [exact A | intros r Hr; rewrite Hlc; now apply B]|].
    split; [intros r; rewrite Hmuq; intros Hr; destruct (Q3 r Hr) as (A & B); rewrite Hlc, Hrec by (apply Hbound; rewrite A; discriminate); auto|].
    split; [intros r; rewrite Hmw; intros Hr; destruct (Q4 r Hr) as (A & B); rewrite Hlc, Hrec by (apply Hbound; rewrite A; discriminate); auto|].
    split.
    { intros r Hl. rewrite Hlc in Hl. rewrite Hrec by now apply Hbound. destruct (Q5 r Hl) as [?|(n & Hn & E)]; [now left|]. right. exists n.
      split; [|exact E]. destruct (Nat.eq_dec (owner (recs w r)) t) as [Eo|Hne]; [unfold pcof in Hn; rewrite Eo, Hpc in Hn; discriminate | now rewrite Hpcs]. }
    split.
    { intros r Hl. rewrite Hlc. destruct (le_lt_dec (nrec w) r) as [Hge|Hlt]; [now apply Q0|]. rewrite Hrec in Hl by assumption. now apply Q6. }
    split.
    { intros s. rewrite Htodo', Hpriv'. destruct (Q7 s) as (A & B). split; [exact A|]. intros r Hr. destruct (B r Hr) as (C & D). split; [exact C|].
      destruct (Q2 s) as (_ & E). rewrite Hrec; [exact D|]. apply Hbound. rewrite (E r C). discriminate. }
    split; [|now rewrite Hdt].
    intros s. destruct (Nat.eq_dec s t) as [->|Hne]; [unfold pcof; rewrite Hpc'; exact Hfn|]. rewrite Hpcs by assumption.
    specialize (Q9 s). destruct (Q2 s) as (_ & E). unfold first_native in *.
    destruct (pcof w s) eqn:Eps; auto; destruct Q9 as (f & rest & A & B); exists f, rest; (split; [exact A|]);
      (rewrite Hrec; [exact B|]); apply Hbound; rewrite (E f) by (simpl; rewrite A; left; reflexivity); discriminate.
  - intros s. destruct (HT s) as (A & B & C). destruct (Nat.eq_dec s t) as [->|Hne].
    + unfold pcof. rewrite Hpc', Hrets. split; [intros Hl; rewrite Hlen in Hl; apply Hnat; [exact Hl|]|split; [exact Hnw | exact C]].
      specialize (A Hl). unfold pcof in A. rewrite Hpc in A. exact A.
    + rewrite Hpcs, Hoth by assumption. split; [|split; [|exact C]].
      * intros Hl. rewrite Hlen in Hl. apply (nat_inv_frame w); [apply Hrec; lia | exact Htodo' | now apply A].
      * apply (nw_inv_frame w); [|exact B]. intros n Hn. apply Hrec. destruct (S4 s n Hn) as (Hb & _). lia.
Qed.

Lemma begin_op_rets w t : rets (get (begin_op w t) t) = rets (get w t).
Proof.
  unfold begin_op. destruct (t_pc (get w t)) eqn:Hpc; try reflexivity. destruct (t_ops (get w t)) as [|o rest] eqn:Hops; [reflexivity|].
  destruct (le_lt_dec (length (thr w)) t) as [Hoob|Hlt]; [rewrite (get_oob w t Hoob) in Hops; discriminate|].
  destruct o; get_nf; reflexivity.
Qed.

Lemma PInv_begin_op w t : PInv w -> SInv w -> PInv (begin_op w t).
Proof.
  intros HP HS. pose proof HP as ((Q0 & Q1 & Q2 & Q3 & Q4 & Q5 & Q6 & Q7 & Q9 & Q8) & HT).
  pose proof (begin_op_misc w t) as (_ & Hnr & Hlen & _ & _ & Hrec & _ & Hcvq & _ & Hmuq & Hmw & _ & _ & Hdt).
  destruct (t_pc (get w t)) eqn:Hpc; try (unfold begin_op; rewrite Hpc; exact HP).
  destruct (t_ops (get w t)) as [|o rest] eqn:Hops; [unfold begin_op; rewrite Hpc, Hops; exact HP|].
  destruct (begin_op_pc w t) as [E|(_ & Hlt & o' & rest' & Hops' & Epc)].
  { exfalso. unfold begin_op in E. rewrite Hpc, Hops in E. destruct (le_lt_dec (length (thr w)) t) as [Hoob|Hlt];
      [rewrite (get_oob w t Hoob) in Hops; discriminate|].
    apply (f_equal t_ops) in E. revert E. destruct o; get_nf; rewrite Hops; intros E; apply (f_equal (@length op)) in E; simpl in E; lia. }
  rewrite Hops in Hops'. injection Hops' as <- <-.
  eapply (PInv_thread_only w (begin_op w t) t); try eassumption.
  - intros t' Hne. apply begin_op_other. congruence.
  - apply begin_op_rets.
  - intros r Hr. apply Hrec. lia.
  - intros r Hr. destruct (begin_op_nrec w t) as [(_ & E)|(dl & rest' & _ & Hops' & _)].
    + unfold lc. rewrite E. now apply Q0.
    + unfold lc. rewrite (begin_op_recs_new w t r dl rest' Hpc Hops'). destruct (Nat.eqb r (nrec w)); [reflexivity | now apply Q0].
  - destruct o; simpl; try destruct (held (get w t)); reflexivity.
  - destruct o; simpl; try destruct (held (get w t)); reflexivity.
  - destruct o; simpl; try destruct (held (get w t)); exact I.
  - intros n. destruct o; simpl; try destruct (held (get w t)); discriminate.
  - intros _ Hl. unfold nat_inv, lc in *. destruct o; simpl; try destruct (held (get w t)); try exact I;
      rewrite Hrec by (pose proof HS as (S1 & _); lia); auto.
  - unfold nw_inv. destruct o; simpl; try destruct (held (get w t)); try exact I.
    all: unfold lc; rewrite (begin_op_recs_new w t _ dl rest Hpc Hops), Nat.eqb_refl; simpl; auto.
Qed.

(* ---------- environment steps ---------- *)
(* an environment step that changes one native record r (and the two mutex lists) *)
Lemma PInv_env_rec w w' r x' :
  PInv w -> SInv w ->
  (forall t, get w' t = get w t) -> recs w' = fupd (recs w) r x' -> cvq w' = cvq w -> nrec w' = nrec w -> dead_touch w' = dead_touch w ->
  length (thr w') = length (thr w) ->
  owner x' = owner (recs w r) -> is_mucv x' = true -> is_mucv (recs w r) = true -> live x' = live (recs w r) -> taker x' = taker (recs w r) ->
  (* the three shapes *)
  ((lc w r = PMuq /\ loc x' = PMwake /\ rcount x' = inc (rcount (recs w r)) /\ waiting x' = waiting (recs w r) /\
    muq w' = remove_id r (muq w) /\ mwake w' = mwake w ++ [r]) \/
   (lc w r = PMwake /\ loc x' = PNone /\ rcount x' = rcount (recs w r) /\ waiting x' = 0 /\
    muq w' = muq w /\ mwake w' = remove_id r (mwake w)) \/
   (lc w r = PNone /\ loc x' = PNone /\ waiting x' = waiting (recs w r) /\ muq w' = muq w /\ mwake w' = mwake w /\
    ((r < length (thr w))%nat -> rc_env_ok (pcof w r) = true))) ->
  PInv w'.
Proof.
  intros ((Q0 & (Q1n & Q1) & Q2 & Q3 & Q4 & Q5 & Q6 & Q7 & Q9 & Q8) & HT) (S1 & S2 & S3 & S4)
         Hget Hrecs Hcvq Hnrec Hdt Hlen Hown Hmu' Hmu Hlive Htaker Hshape.
  assert (Hpc : forall s, pcof w' s = pcof w s) by (intros; unfold pcof; now rewrite Hget).
  assert (Hother : forall q, q <> r -> recs w' q = recs w q) by (intros; rewrite Hrecs; now apply fupd_other).
  assert (Hr : recs w' r = x') by (rewrite Hrecs; apply fupd_same).
  assert (Hnotcvq : lc w r <> PCvq /\ loc x' <> PCvq) by (destruct Hshape as [(A & B & _)|[(A & B & _)|(A & B & _)]]; rewrite A, B; split; discriminate).
  assert (Hnotpriv : forall s, lc w r <> PPriv s /\ loc x' <> PPriv s) by (intros s; destruct Hshape as [(A & B & _)|[(A & B & _)|(A & B & _)]]; rewrite A, B; split; discriminate).
  assert (Hlcq : forall q, q <> r -> lc w' q = lc w q) by (intros; unfold lc; now rewrite Hother).
  assert (Hbound : (r < nrec w)%nat \/ loc x' = PNone).
  { destruct (le_lt_dec (nrec w) r) as [Hge|]; [|now left]. right. pose proof (Q0 r Hge) as E.
    destruct Hshape as [(A & _)|[(A & _)|(_ & B & _)]]; congruence. }
  split.
  - split. { intros q Hq. rewrite Hnrec in Hq. destruct (Nat.eq_dec q r) as [->|Hne]; [unfold lc; rewrite Hr; destruct Hbound; [lia|assumption] | rewrite Hlcq by assumption; now apply Q0]. }
    split. { rewrite Hcvq. split; [exact Q1n|]. intros q. unfold lc. rewrite Hrecs. apply holds_upd; [exact Q1 | apply Hnotcvq | apply Hnotcvq]. }
    split. { intros s. rewrite Hpc. destruct (Q2 s) as (A & B). split; [exact A|]. intros q Hq. specialize (B q Hq).
             destruct (Nat.eq_dec q r) as [->|Hne]; [elim (proj1 (Hnotpriv s) B) | now rewrite Hlcq]. }
    split.
    { intros q Hq. destruct Hshape as [(A & B & _ & _ & Em & _)|[(A & B & _ & _ & Em & _)|(A & B & _ & Em & _)]]; rewrite Em in Hq.
      - apply In_remove_id in Hq. destruct Hq as (Hq & Hne). rewrite Hlcq, Hother by assumption. now apply Q3.
      - destruct (Nat.eq_dec q r) as [->|Hne]; [destruct (Q3 r Hq) as (C & _); congruence | rewrite Hlcq, Hother by assumption; now apply Q3].
      - destruct (Nat.eq_dec q r) as [->|Hne]; [destruct (Q3 r Hq) as (C & _); congruence | rewrite Hlcq, Hother by assumption; now apply Q3]. }
    split.
    { intros q Hq. destruct Hshape as [(A & B & _ & _ & _ & Em)|[(A & B & _ & _ & _ & Em)|(A & B & _ & _ & Em & _)]]; rewrite Em in Hq.
      - apply in_app_iff in Hq. destruct Hq as [Hq|[<-|[]]].
        + destruct (Nat.eq_dec q r) as [->|Hne]; [destruct (Q4 r Hq) as (C & _); congruence | rewrite Hlcq, Hother by assumption; now apply Q4].
        + unfold lc. rewrite Hr. auto.
      - apply In_remove_id in Hq. destruct Hq as (Hq & Hne). rewrite Hlcq, Hother by assumption. now apply Q4.
      - destruct (Nat.eq_dec q r) as [->|Hne]; [destruct (Q4 r Hq) as (C & _); congruence | rewrite Hlcq, Hother by assumption; now apply Q4]. }
    split.
    { intros q Hl. destruct (Nat.eq_dec q r) as [->|Hne].
      - unfold lc in Hl. rewrite Hr in *. rewrite Hown, Hpc.
        destruct Hshape as [(A & B & _ & Ew & _)|[(A & B & _)|(A & B & _)]]; try congruence.
        rewrite Ew. apply Q5. rewrite A. discriminate.
      - rewrite Hlcq in Hl by assumption. rewrite Hother, Hpc by assumption. now apply Q5. }
    split.
    { intros q Hl. destruct (Nat.eq_dec q r) as [->|Hne].
      - rewrite Hr, Hlive in Hl. specialize (Q6 r Hl). unfold lc. rewrite Hr.
        destruct Hshape as [(A & _)|[(A & _)|(_ & B & _)]]; congruence.
      - rewrite Hother in Hl by assumption. rewrite Hlcq by assumption. now apply Q6. }
    split.
    { intros s. rewrite Hpc. destruct (Q7 s) as (A & B). split; [exact A|]. intros q Hq. destruct (B q Hq) as (C & D). split; [exact C|].
      destruct (Nat.eq_dec q r) as [->|Hne]; [now rewrite Hr | now rewrite Hother]. }
    split; [|now rewrite Hdt].
    intros s. rewrite Hpc. specialize (Q9 s). unfold first_native in *.
    destruct (pcof w s); auto; destruct Q9 as (f & rest & A & B); exists f, rest; (split; [exact A|]);
      (destruct (Nat.eq_dec f r) as [->|Hne]; [now rewrite Hr | now rewrite Hother]).
  - intros s. destruct (HT s) as (A & B & C). rewrite Hpc, Hget. split; [|split; [|exact C]].
    + intros Hl. rewrite Hlen in Hl. specialize (A Hl).
      destruct (Nat.eq_dec s r) as [->|Hne].
      * (* the record of thread r itself *)
        revert A. unfold nat_inv, SELF, Jst, lc. rewrite Hr, Htaker.
        destruct Hshape as [(E1 & E2 & E3 & E4 & _)|[(E1 & E2 & E3 & E4 & _)|(E1 & E2 & E4 & _ & _ & Hok)]]; unfold lc in E1; rewrite E1, E2, ?E3, ?E4.
        { destruct (pcof w r); auto; try (intros H; exfalso; intuition congruence);
            try (intros ((X & Y) & Z); split; [split; [congruence | exact Y] | exact Z]);
            try (intros [((X & Y) & Z)|((X & Y) & Z)]; [left; split; [split; [congruence | exact Y] | exact Z] | congruence]).
          all: destruct k; auto; try (intros H; exfalso; intuition congruence);
               intros ((X & Y) & Z); split; [split; [congruence | exact Y] | exact Z]. }
        { destruct (pcof w r); auto; try (intros H; exfalso; intuition congruence);
            try (intros ((X & Y) & Z); split; [split; [right; exact X | exact Y] | exact Z]);
            try (intros [((X & Y) & Z)|((X & Y) & Z)]; [left; split; [split; [right; exact X | exact Y] | exact Z] | congruence]).
          all: destruct k; auto; try (intros H; exfalso; intuition congruence);
               intros ((X & Y) & Z); split; [split; [right; exact X | exact Y] | exact Z]. }
        { specialize (Hok Hl). destruct (pcof w r); simpl in Hok; try discriminate; auto. }
      * apply (nat_inv_frame w); [now apply Hother | intros; now rewrite Hpc | exact A].
    + apply (nw_inv_frame w); [|exact B]. intros n Hn. apply Hother. intros E. destruct (S4 s n Hn) as (_ & _ & F). congruence.
Qed.

Lemma PInv_ext w w' :
  (forall t, get w' t = get w t) -> recs w' = recs w -> cvq w' = cvq w -> muq w' = muq w -> mwake w' = mwake w ->
  nrec w' = nrec w -> dead_touch w' = dead_touch w -> length (thr w') = length (thr w) -> PInv w -> PInv w'.
Proof.
  intros Hget Hrecs Hcvq Hmuq Hmw Hnrec Hdt Hlen ((Q0 & (Q1n & Q1) & Q2 & Q3 & Q4 & Q5 & Q6 & Q7 & Q9 & Q8) & HT).
  assert (Hpc : forall s, pcof w' s = pcof w s) by (intros; unfold pcof; now rewrite Hget).
  assert (Hlc : forall r, lc w' r = lc w r) by (intros; unfold lc; now rewrite Hrecs).
  split.
  - split; [intros r; rewrite Hnrec, Hlc; apply Q0|].
    split; [rewrite Hcvq; split; [exact Q1n | intros r; rewrite Hlc; apply Q1]|].
    split; [intros s; rewrite Hpc; destruct (Q2 s) as (A & B); split; [exact A | intros r; rewrite Hlc; apply B]|].
    split; [intros r; rewrite Hmuq, Hlc, Hrecs; apply Q3|].
    split; [intros r; rewrite Hmw, Hlc, Hrecs; apply Q4|].
    split; [intros r; rewrite Hlc, Hrecs, Hpc; apply Q5|].
    split; [intros r; rewrite Hlc, Hrecs; apply Q6|].
    split; [intros s; rewrite Hpc, Hrecs; apply Q7|].
    split; [|now rewrite Hdt].
    intros s. rewrite Hpc. specialize (Q9 s). unfold first_native in *. now rewrite Hrecs.
  - intros s. destruct (HT s) as (A & B & C). rewrite Hpc, Hget, Hlen. split; [|split; [|exact C]].
    + intros Hl. apply (nat_inv_frame w); [now rewrite Hrecs | intros; now rewrite Hpc | now apply A].
    + apply (nw_inv_frame w); [intros; now rewrite Hrecs | exact B].
Qed.

Lemma PInv_step w a c : PInv w -> AInv w -> SInv w -> PInv (fst (step w a c)).
Proof.
  intros HP HA HS. destruct a as [t| | | | | | | |].
  - simpl. destruct (le_lt_dec (length (thr w)) t) as [Hoob|Hlt]; [now rewrite step_thr_oob|].
    unfold step_thr. apply PInv_step_core; [now apply PInv_begin_op | now apply AInv_begin_op | now apply SInv_begin_op |].
    now rewrite (proj1 (proj2 (proj2 (begin_op_misc w t)))).
  - (* Tick *) simpl. destruct (0 <=? dt); [|exact HP]. now apply (PInv_ext w).
  - (* Notify *) now apply (PInv_ext w).
  - (* MuEnv *) simpl. destruct (match mspin w with Some _ => _ | None => true end); [|exact HP]. now apply (PInv_ext w).
  - (* MuDeq *) simpl. destruct (mspin w) as [?|]; [exact HP|]. destruct (mem_id r (muq w)) eqn:Hm; [|exact HP]. apply mem_id_In in Hm.
    pose proof HP as ((_ & _ & _ & Q3 & _) & _). destruct (Q3 r Hm) as (A & B).
    apply (PInv_env_rec w _ r (r_set_loc (r_set_rcount (recs w r) (wrap_u 32 (rcount (recs w r) + 1))) PMwake) HP HS);
      [intros; reflexivity | reflexivity | reflexivity | reflexivity | reflexivity | reflexivity | reflexivity | exact B | exact B
      | reflexivity | reflexivity | ].
    left. simpl. repeat split; auto.
  - (* MuWakeSt *) simpl. destruct (mem_id r (mwake w)) eqn:Hm; [|exact HP]. apply mem_id_In in Hm.
    pose proof HP as ((_ & _ & _ & _ & Q4 & _) & _). destruct (Q4 r Hm) as (A & B).
    apply (PInv_env_rec w _ r (r_set_loc (r_set_waiting (recs w r) 0) PNone) HP HS);
      [intros; reflexivity | reflexivity | reflexivity | reflexivity | reflexivity | reflexivity | reflexivity | exact B | exact B
      | reflexivity | reflexivity | ].
    right; left. simpl. repeat split; auto.
  - (* EnvV *) simpl. destruct (0 <? owed w t); now apply (PInv_ext w).
  - (* EnvRc *) simpl. destruct ((r <? length (thr w))%nat && is_mucv (recs w r) && rc_env_ok (t_pc (get w (owner (recs w r)))) && negb (mem_id r (cvq w))) eqn:Hg; [|exact HP].
    apply andb_true_iff in Hg. destruct Hg as (Hg & Hc). apply andb_true_iff in Hg. destruct Hg as (Hg & Hok).
    apply andb_true_iff in Hg. destruct Hg as (Hltb & Hmu). apply Nat.ltb_lt in Hltb.
    pose proof HP as ((Q0 & (_ & Q1) & Q2 & Q3 & Q4 & _) & HT). pose proof HS as (S1 & S2 & S3 & S4).
    destruct (le_lt_dec (length (thr w)) r) as [Hge|Hlt]; [lia|].
    destruct (S2 r Hlt) as (So & _). rewrite So in Hok. destruct (HT r) as (Hnat & _). specialize (Hnat Hlt).
      assert (Hl : lc w r = PNone) by (unfold pcof in Hnat; destruct (t_pc (get w r)); simpl in Hok; try discriminate; simpl in Hnat; tauto).
      apply (PInv_env_rec w _ r (r_set_rcount (recs w r) (wrap_u 32 (rcount (recs w r) + 1))) HP HS);
        [intros; reflexivity | reflexivity | reflexivity | reflexivity | reflexivity | reflexivity | reflexivity | exact Hmu | exact Hmu
        | reflexivity | reflexivity | ].
      right; right. simpl. repeat split; auto.
  - (* EnvP *) simpl. destruct (t_pc (get w t)); try exact HP. destruct (0 <? sem w t); [|exact HP]. now apply (PInv_ext w).
Qed.

Lemma PInv_init progs clock0 exp : PInv (init progs clock0 exp).
Proof.
  assert (Hpc : forall t, pcof (init progs clock0 exp) t = Idle) by (intros; apply get_init).
  split.
  - split; [intros; reflexivity|]. split; [split; [constructor | intros r; simpl; unfold lc; simpl; split; [tauto | discriminate]]|].
    split; [intros t; rewrite Hpc; split; [constructor | simpl; tauto]|].
    split; [simpl; tauto|]. split; [simpl; tauto|].
    split; [intros r H; elim H; reflexivity|].
    split; [intros r H; reflexivity|].
    split; [intros t; rewrite Hpc; split; [constructor | simpl; tauto]|].
    split; [intros t; rewrite Hpc; exact I | reflexivity].
  - intros t. rewrite Hpc. split; [intros _; reflexivity|]. split; [exact I|]. rewrite (proj2 (get_init progs clock0 exp t)). constructor.
Qed.

(* all the invariants together, for every reachable world *)
Definition Inv (w : world) : Prop := TInv w /\ AInv w /\ SInv w /\ PInv w.
Lemma Inv_run progs clock0 exp sched : Inv (run (init progs clock0 exp) sched).
Proof.
  induction sched as [|[a c] s IH] using rev_ind.
  - split; [apply TInv_init | split; [apply AInv_init | split; [apply SInv_init | apply PInv_init]]].
  - rewrite run_snoc. destruct IH as (HT & HA & HS & HP).
    split; [now apply TInv_step | split; [now apply AInv_step | split; [now apply SInv_step | now apply PInv_step]]].
Qed.

(* ================================================================== *)
(* Step-local facts: what a waker takes, and what becomes of it        *)
(* ================================================================== *)
(* nsync_cv_broadcast: at the CAS that takes the cv spinlock every queued record moves to the private list *)
Lemma broadcast_covers_step w t old : (t < length (thr w))%nat -> pcof w t = SpCas KBc old -> cvw w = old ->
  let w' := fst (step_core w t CNormal) in
  cvq w' = [] /\ priv (pcof w' t) = cvq w /\ (forall r, In r (cvq w) -> lc w' r = PPriv t /\ taker (recs w' r) = Some t).
Proof.
  intros Hlt Hpc Hcv. unfold pcof in *. cbv zeta. unfold step_core. rewrite Hpc. unfold st_SpCas, spin_done.
  unfold nsync_spin_test_and_set_cas1_old. rewrite Hcv, Z.eqb_refl. simpl sel_broadcast.
  simpl fst. pc_nf. rewrite priv_after_todo. simpl. repeat split; auto; unfold lc; simpl.
  - rewrite loc_map_move. apply mem_id_In in H. now rewrite H.
  - rewrite map_recs_in by (try reflexivity; assumption). reflexivity.
Qed.

(* nsync_cv_signal: the first record; and, if it is a native reader, every native reader and at most one other *)
Lemma signal_covers_step w t old : (t < length (thr w))%nat -> pcof w t = SpCas KSig old -> cvw w = old ->
  let w' := fst (step_core w t CNormal) in
  let sel := fst (fst (sel_signal (recs w) (cvq w))) in
  priv (pcof w' t) = sel /\ cvq w' = snd (fst (sel_signal (recs w) (cvq w))) /\
  (forall r, In r sel -> lc w' r = PPriv t /\ taker (recs w' r) = Some t) /\
  (forall f q, cvq w = f :: q -> In f sel /\
     (is_rdr (recs w f) = true ->
        (forall r, In r (cvq w) -> is_rdr (recs w r) = true -> In r sel) /\ (length (nonreaders (recs w) sel) <= 1)%nat) /\
     (is_rdr (recs w f) = false -> sel = [f])).
Proof.
  intros Hlt Hpc Hcv. unfold pcof in *. cbv zeta. unfold step_core. rewrite Hpc. unfold st_SpCas, spin_done.
  unfold nsync_spin_test_and_set_cas1_old. rewrite Hcv, Z.eqb_refl.
  destruct (sel_signal (recs (set_cvw w _)) (cvq (set_cvw w _))) as [[wk kp] allr] eqn:Es. simpl in Es. rewrite Es.
  simpl fst. pc_nf. rewrite priv_after_todo. simpl. split; [reflexivity|]. split; [reflexivity|]. split.
  - intros r Hr. unfold lc; simpl. rewrite loc_map_move. apply mem_id_In in Hr. rewrite Hr. split; [reflexivity|].
    apply mem_id_In in Hr. rewrite map_recs_in by (try reflexivity; assumption). reflexivity.
  - intros f q Eq. rewrite Eq in Es. split; [pose proof (sel_signal_first (recs w) f q) as H; rewrite Es in H; exact H|].
    simpl in Es. destruct (is_rdr (recs w f)) eqn:Ef.
    + split; [|discriminate]. intros _. destruct (sig_scan (recs w) q false) as [[wk' kp'] ww] eqn:Esc. injection Es as <- <- <-. split.
      * rewrite Eq. intros r [<-|Hr] Hrd; [now left|]. right. pose proof (sig_scan_readers (recs w) q false r Hr Hrd) as H. now rewrite Esc in H.
      * pose proof (sig_scan_writers (recs w) q false) as (H & _). rewrite Esc in H. simpl in H. unfold nonreaders in *. simpl. rewrite Ef. simpl. exact H.
    + split; [discriminate|]. intros _. now injection Es as <- _ _.
Qed.

(* every record on a private list stays there until it is woken (waiting = 0, then a V) or is handed to the mutex *)
Lemma private_fate_step w t c r : PInv w -> (t < length (thr w))%nat -> In r (priv (pcof w t)) ->
  let w' := fst (step_core w t c) in
  In r (priv (pcof w' t)) \/
  (waiting (recs w' r) = 0 /\ lc w' r = PNone /\ exists k, pcof w' t = VV k (owner (recs w r))) \/
  (In r (muq w') /\ cv_mu (recs w' r) = false /\ is_mucv (recs w' r) = true /\ lc w' r = PMuq).
Proof.
  intros HP Hlt. pose proof HP as ((Q0 & Q1 & Q2 & Q3 & Q4 & Q5 & Q6 & Q7 & Q9 & Q8) & HT). cbv zeta.
  destruct (Q2 t) as (Q2n & Q2t). pose proof (Q9 t) as Q9t. unfold pcof in *.
  step_cases w t; try rewrite Hpc in *; simpl priv; try contradiction; simpl fst; pc_nf; try rewrite Hpc;
    rewrite ?priv_after_todo, ?priv_enter_wake_loop; simpl priv; try (intros Hr; left; exact Hr).
  all: try (intros Hr; exfalso; rewrite Heql in Hr; exact Hr).
  - (* wake_waiters: the transfer *)
    intros Hr. sel_part. destruct (proj1 (proj1 Hp r) Hr) as [Hm|Hs]; [right; right | left; exact Hs].
    simpl muq. simpl recs. unfold clear_cv_mu, lc. simpl recs. split; [apply in_app_iff; now right|].
    rewrite map_recs_in by (try reflexivity; assumption). simpl. split; [reflexivity|]. split; [|reflexivity].
    simpl in Q9t. destruct Q9t as (f0 & rest0 & Ef & Hf). rewrite Ef in Heqp. eapply xfer_native; [exact Hf | rewrite Heqp; exact Hm].
  - (* wake_waiters: the store *)
    rewrite Heql. intros [<-|Hr]; [right; left | left; exact Hr]. unfold lc. simpl recs. rewrite fupd_same. simpl. split; [reflexivity | split; [reflexivity | eauto]].
Qed.
Lemma VV_posts w t k o c : (t < length (thr w))%nat -> pcof w t = VV k o ->
  sem (fst (step_core w t c)) o = sem w o + 1.
Proof.
  intros Hlt Hpc. unfold pcof in *. unfold step_core. rewrite Hpc. unfold st_VV, wake_done.
  destruct (k_wake (kl_add_post k o)); simpl; unfold fupd; now rewrite Nat.eqb_refl.
Qed.

(* ================================================================== *)
(* The lemmas used by Props/Properties_C04.v and Properties_C05cv.v    *)
(* ================================================================== *)
Section Reachable.
  Variables (progs : list (list op)) (clock0 : Z) (exp : option Z) (sched : list (actor * choice)).
  Let w := run (init progs clock0 exp) sched.
  Let HI : Inv w := Inv_run progs clock0 exp sched.

  (* C04_outcome, native waits: a non-zero result only if the waiter unlinked its record itself *)
  Lemma outcome_wait_reachable t e : In e (rets (get w t)) -> r_wait e = true ->
    (r_code e <> 0 -> r_taker e = Some t) /\ (forall s, r_taker e = Some s -> s <> t -> r_code e = 0) /\ r_taker e <> None.
  Proof.
    intros He Hw. destruct HI as (_ & _ & _ & (_ & HT)). destruct (HT t) as (_ & _ & Hlog).
    rewrite Forall_forall in Hlog. specialize (Hlog e He). unfold ret_taker in Hlog. rewrite Hw in Hlog. destruct Hlog as (A & s0 & B).
    split; [exact A|]. split; [|congruence]. intros s Hs Hne. destruct (Z.eq_dec (r_code e) 0) as [|Hc]; [assumption|].
    specialize (A Hc). congruence.
  Qed.
  (* C04_outcome, nsync_wait_n: "still queued" is reported exactly when the caller unlinked the record itself *)
  Lemma outcome_waitn_reachable t e : In e (rets (get w t)) -> r_wait e = false ->
    (r_code e = 1 /\ r_taker e = Some t) \/ (r_code e = 0 /\ exists s, s <> t /\ r_taker e = Some s).
  Proof.
    intros He Hw. destruct HI as (_ & _ & _ & (_ & HT)). destruct (HT t) as (_ & _ & Hlog).
    rewrite Forall_forall in Hlog. specialize (Hlog e He). unfold ret_taker in Hlog. now rewrite Hw in Hlog.
  Qed.
  (* C04_no_dead_record *)
  Lemma no_dead_record_reachable : dead_touch w = 0.
  Proof. destruct HI as (_ & _ & _ & ((_ & _ & _ & _ & _ & _ & _ & _ & _ & H) & _)). exact H. Qed.
  Lemma dead_is_nowhere_reachable r : live (recs w r) = false ->
    ~ In r (cvq w) /\ ~ In r (muq w) /\ ~ In r (mwake w) /\ forall t, ~ In r (priv (pcof w t)).
  Proof.
    intros Hl. destruct HI as (_ & _ & _ & ((_ & (_ & Q1) & Q2 & Q3 & Q4 & _ & Q6 & _) & _)). specialize (Q6 r Hl).
    repeat split.
    - intros H. apply Q1 in H. congruence.
    - intros H. destruct (Q3 r H). congruence.
    - intros H. destruct (Q4 r H). congruence.
    - intros t H. destruct (Q2 t) as (_ & B). specialize (B r H). congruence.
  Qed.

  (* C05, cv half *)
  Lemma c05_return_reachable t e : In e (rets (get w t)) -> r_wait e = true ->
    r_held e = r_entry e /\ r_held e <> None /\ r_pafter e = 0 /\
    (r_code e = 0 \/
     (r_code e = ETIMEDOUT /\ exists d c, r_dl e = Some d /\ r_toclk e = Some c /\ d <= c /\ c <= r_clk e) \/
     (r_code e = ECANCELED /\ r_can e = true /\ r_notified e = true)).
  Proof.
    intros He Hw. destruct HI as ((_ & HT) & _). destruct (HT t) as (Hlog & _).
    rewrite Forall_forall in Hlog. destruct (Hlog e He) as (A & B). destruct (B Hw) as (C & D & E). auto.
  Qed.
  Lemma c05_return_waitn_reachable t e : In e (rets (get w t)) -> r_held e = r_entry e.
  Proof.
    intros He. destruct HI as ((_ & HT) & _). destruct (HT t) as (Hlog & _). rewrite Forall_forall in Hlog. apply (Hlog e He).
  Qed.
  Lemma c05_no_more_P_reachable t l : t_pc (get w t) = WSem l -> w_so l = 0.
  Proof.
    intros Hpc. destruct HI as ((_ & HT) & _). destruct (HT t) as (_ & H & _). rewrite Hpc in H. simpl in H. tauto.
  Qed.

  (* C04_atomic_wait: when the waiter is about to release the mutex its record is on the cv queue, unless a waker
     has already taken it; and from then on, as long as nobody took it, it stays queued *)
  Lemma atomic_wait_reachable t l : (t < length (thr w))%nat -> pcof w t = WMuRel l ->
    In t (cvq w) \/ exists s, s <> t /\ taker (recs w t) = Some s.
  Proof.
    intros Hlt Hpc. destruct HI as (_ & _ & _ & ((_ & (_ & Q1) & _) & HT)). destruct (HT t) as (Hnat & _). specialize (Hnat Hlt).
    rewrite Hpc in Hnat. simpl in Hnat. destruct Hnat as (HJ & _). unfold Jst in HJ.
    destruct (loc (recs w t)) as [| |s| |] eqn:El.
    - right. tauto.
    - left. now apply Q1.
    - right. exists s. tauto.
    - right. tauto.
    - right. tauto.
  Qed.
  Lemma queued_until_taken_reachable t : (t < length (thr w))%nat ->
    match pcof w t with
    | WStoreRel l | WMuRel l | WSem l | WLoad6 l | SpLoad _ (KWaitTo l) | SpCas (KWaitTo l) _ | WLoad7 l | WLoad8 l =>
        taker (recs w t) = None -> In t (cvq w)
    | WStoreW l | WLoad13 l | WLoop l => taker (recs w t) = None -> In t (cvq w)
    | _ => True
    end.
  Proof.
    intros Hlt. destruct HI as (_ & _ & _ & ((_ & (_ & Q1) & _) & HT)). destruct (HT t) as (Hnat & _). specialize (Hnat Hlt).
    assert (HJ : forall rc, Jst w t rc -> taker (recs w t) = None -> In t (cvq w)).
    { intros rc HJ Hn. apply Q1. unfold Jst, lc in *. destruct (loc (recs w t)); auto; destruct HJ as (A & B); try (destruct B as (s & _ & B)); try (destruct B as (B & _)); congruence. }
    destruct (pcof w t); simpl in *; auto; try (destruct Hnat as (A & _); intros Hn; eapply HJ; eassumption);
      try (destruct Hnat as [(A & _)|((_ & A) & _)]; intros Hn; [eapply HJ; eassumption | congruence]).
    all: match goal with k : spk |- _ => destruct k; auto; destruct Hnat as (A & _); intros Hn; eapply HJ; eassumption end.
  Qed.
End Reachable.

