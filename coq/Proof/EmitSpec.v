(* C16(b) — definitions used to state that debug.c's output stays inside the
   caller's buffer.  Gen/Emit.v is the translation of emit_init and emit_c,
   the only code in debug.c that stores through the buffer pointer (checked
   syntactically by gen/regen.py on every run).  No proofs in this file. *)
From NsyncBase Require Import CSem.
From NsyncGen Require Import Emit.
Local Open Scope Z_scope.

(* run the real emit_init followed by emit_c on each character *)
Definition emit_all (hb : Z -> emit_buf) (mem : Z -> Z) (b start n : Z) (cs : list Z) :=
  let '(_, hb) := emit_init hb b start n in
  fold_left (fun st c => let '(hb, mem) := st in emit_c hb mem b c) cs (hb, mem).

Definition byte (c : Z) : Z := wrap_s 8 c.   (* what "char x = c" stores on this target *)

(* the text that must be in the buffer afterwards, for a character sequence cs
   followed by the terminating NUL that every debug function emits last *)
Definition dots : list Z := [46; 46; 46; 0].
Definition expected (n : Z) (cs : list Z) : list Z :=
  let L := Z.of_nat (length cs) in
  if n <=? 0 then []
  else if L + 1 <=? n then map byte cs ++ [0]
  else if 4 <=? n then firstn (Z.to_nat (n - 4)) (map byte cs) ++ dots
  else skipn (Z.to_nat (4 - n)) dots.

Definition int_range (n : Z) : Prop := in_s 32 n.
