(* SemWaitProof7: (1) the strengthened ECANCELED clause as a property of an arbitrary `exec` function, proved of the model and refuted
   of a variant of the model that carries the seeded defect "ECANCELED for a deadline at or before the epoch with a note nobody
   notified" (seeded/C15c_semwait_nearer_zero_is_cancel); (2) C05sw_expired_prompt: a wait whose deadline or whose note's expiry has
   been reached, run alone, returns a non-zero result within a bounded number of its own steps. *)
From NsyncBase Require Import CSem.
From NsyncGen Require Import Consts Sites.
From NsyncModel Require Import SemWaitModel.
From NsyncProof Require Import SemWaitProof SemWaitProof2 SemWaitProof3 SemWaitProof4 SemWaitProof5 SemWaitProof6.
From Coq Require Import List ZArith Bool Lia Arith.
Import ListNotations.
Local Open Scope Z_scope.
#[local] Hint Constructors Forall : core.

(* ------------------------------------------------------------------------------------------------ *)
(* the ECANCELED clause over any transition function *)
Definition cancel_sound_of (ex : world -> act -> world) : Prop :=
  forall c0 ns progs sched a e, 0 <= c0 ->
    let w := fold_left ex sched (init c0 ns progs) in
    rets (ex w a) = e :: rets w -> e_res e = ECANCELED -> exists n, e_note e = Some n /\ justified w n.
Lemma sw_cancel_sound_model : cancel_sound_of exec.
Proof.
  intros c0 ns progs sched a e H0 w E C.
  assert (R : reachable w) by (exists c0, ns, progs, sched; split; [exact H0|reflexivity]).
  destruct (sw_cancel_sound w a e R E C) as (n & A & _ & _ & _ & J). exists n. auto.
Qed.

(* the variant: in nsync_sem_wait_with_cancel_ the guard of the enqueue under note_mu (sem_wait.c:50) tests local_abs_deadline -- the
   nearer of abs_deadline and cancel_time -- instead of cancel_time; everything else is the model's step *)
Definition step_var (w : world) (t : nat) (c : bool) : world * ev :=
  match stack (get w t) with
  | AWait l (WLd1 n) :: rest =>
      let v := flag (nt w n) in
      let ct := notified_time w n v in
      let near := tlt (w_dl l) ct in
      let ldl := if near then w_dl l else ct in
      if tpos ct && negb (tpos ldl)
      then (setst w t (AWait (wl_out (wl_enq l ct near ldl) ECANCELED YLocked) (WUnl n) :: rest), EvLoad (s_W 2) n v)
      else step w t c
  | _ => step w t c
  end.
Definition exec_var (w : world) (a : act) : world :=
  match a with AStep t c => fst (step_var w t c) | ATick d => tick w d | AEnvV o => env_v w o | AEnvP t => env_p w t end.

(* one thread, a note that never expires and that nobody notifies, abs_deadline = -1 ns, clock 0 *)
Notation wv0 := (init 0 [(None, false)] [[OWait (Some 0%nat) (Some (-1))]]).
Notation wv8 := (fold_left exec_var (st 0 8) wv0).
Notation wv9 := (exec_var wv8 (AStep 0 false)).
Example ex_variant_run :
  map e_res (rets wv9) = [ECANCELED] /\ map e_note (rets wv9) = [Some 0%nat] /\ map e_flag (rets wv9) = [0] /\ map e_exp (rets wv9) = [None]
  /\ rets wv8 = [] /\ flag (nt wv8 0) = 0 /\ expiry (nt wv8 0) = None /\ hist (get wv9 0) = [(OWait (Some 0%nat) (Some (-1)), RInt ECANCELED)].
Proof. vm_compute. repeat split. Qed.
(* the faithful model on the same input: ETIMEDOUT *)
Example ex_variant_faithful :
  let w := run wv0 (st 0 9 ++ [AStep 0 true] ++ st 0 3) in
  map e_res (rets w) = [ETIMEDOUT] /\ map e_why (rets w) = [YTimeout] /\ hist (get w 0) = [(OWait (Some 0%nat) (Some (-1)), RInt ETIMEDOUT)].
Proof. vm_compute. repeat split. Qed.
Lemma wv8_not_justified : ~ justified wv8 0.
Proof.
  intros [(u & A)|[(u & A)|A]].
  - destruct u as [|[|u]]; vm_compute in A; intuition discriminate.
  - destruct u as [|[|u]]; vm_compute in A; intuition discriminate.
  - vm_compute in A. discriminate.
Qed.
Lemma sw_cancel_sound_variant_refuted : ~ cancel_sound_of exec_var.
Proof.
  intro H.
  assert (E : exists e, rets wv9 = e :: rets wv8 /\ e_res e = ECANCELED /\ e_note e = Some 0%nat).
  { vm_compute. eexists. split; [reflexivity|split; reflexivity]. }
  destruct E as (e & E1 & E2 & E3).
  pose proof (H 0 [(None, false)] [[OWait (Some 0%nat) (Some (-1))]] (st 0 8) (AStep 0 false) e ltac:(lia)) as K.
  cbv zeta in K.
  destruct (K E1 E2) as (n & A & J).
  rewrite E3 in A. injection A as <-. exact (wv8_not_justified J).
Qed.

(* ------------------------------------------------------------------------------------------------ *)
(* a thread run alone: how many of its own steps are left *)
Definition E (w : world) (n : nat) : bool := tle_z (expiry (notes w n)) (clock w).     (* the clock has reached n's expiry *)
Definition NW (w : world) (n : nat) : nat := length (waiters (notes w n)).
Definition NOT (k : nat) : nat := (10 + 2 * k)%nat.          (* notify (n) from its first step, k records queued *)
Definition aft (r : list frame) : nat := match r with AWait _ (WNtf _) :: _ => 3%nat | _ => 0%nat end.
Definition retz (R : list frame) : nat := match R with FNotify _ :: r => aft r | _ => 0%nat end.
Definition rWP (e : bool) (k : nat) : nat := if e then (19 + 2 * k)%nat else 4%nat.
Definition retp (k : nat) (R : list frame) : nat :=
  match R with FNotify _ :: r => (NOT k + aft r)%nat | AWait _ (WChk _) :: _ => 8%nat | _ => 0%nat end.
Definition retN (R : list frame) : nat := match R with FD _ (D6 _) :: R0 => retz R0 | FNotify _ :: r => aft r | _ => 0%nat end.
Definition retC (R : list frame) : nat := match R with FN _ N9 _ _ :: R' => (2 + retN R')%nat | FP _ P2 :: _ => 1%nat | _ => 0%nat end.
Definition stepsD (s : dst) : nat := match s with D1 => 5 | D2 => 4 | D3 => 3 | D4 _ => 2 | D5 _ => 1 | D6 _ => 0 end%nat.
Definition stepsN (k : nat) (s : nst) : nat :=
  match s with N1 => 10 + 2 * k | N2 => 11 + 2 * k | N3 => 10 + 2 * k | N4 => 9 + 2 * k | N5 => 8 + 2 * k | N6 => 7 + 2 * k | N7 => 6 + 2 * k
             | N8 => 5 + 2 * k | N9 => 0 | N10 => 2 | N11 => 1 end%nat.
Definition stepsC (k : nat) (s : cst) : nat := match s with C1 => 2 + 2 * k | C2 => 1 + 2 * k | C3 _ => 2 + 2 * k | C4 _ => 1 + 2 * k end%nat.
Definition stepsP (k : nat) (s : pst) : nat := match s with P1 => 4 + 2 * k | P2 => 0 | P3 _ => 1 end%nat.
Definition stepsW (e : nat -> bool) (k : nat -> nat) (s : wst) : nat :=
  match s with
  | WPlain => 1 | WChk _ => 0 | WNtf _ => 0
  | WSt n => 4 + rWP (e n) (S (k n)) | WLk1 n => 3 + rWP (e n) (S (k n)) | WLd1 n => 2 + rWP (e n) (S (k n))
  | WUn1 n => 1 + rWP (e n) (k n) | WP n => rWP (e n) (k n)
  | WLk2 _ => 3 | WLd2 _ => 2 | WUnl _ => 1
  end%nat.
Definition rankP (e : nat -> bool) (k : nat -> nat) (st : list frame) : nat :=
  match st with
  | [] => 0
  | FD n s :: R => stepsD s + (if e n then NOT (k n) + retz R else retp (k n) R)
  | FN n s _ _ :: R => stepsN (k n) s + retN R
  | FC n _ s :: R => stepsC (k n) s + retC R
  | FP n s :: _ => stepsP (k n) s
  | AWait _ s :: _ => stepsW e k s
  | _ => 0
  end%nat.
Definition rank (w : world) (st : list frame) : nat := rankP (E w) (NW w) st.

Definition tnote (st : list frame) : option nat :=
  match st with
  | FD n _ :: _ | FN n _ _ _ :: _ | FC n _ _ :: _ | FP n _ :: _ | FNotify n :: _ | AIs n :: _ => Some n
  | AWait _ s :: _ => wst_note s
  | [] => None
  end.
(* a wait that will not return 0: no step has taken a post, and its deadline or its note's expiry has been reached *)
Definition due (w : world) (l : wl) : Prop :=
  tle_z (w_dl l) (clock w) = true \/ exists n, w_note l = Some n /\ tle_z (expiry (notes w n)) (clock w) = true.
(* lax: a switch that drops the two requirements (used for a thread that is only run until it has left note_mu) *)
Definition wait_ok (lax : Prop) (w : world) (st : list frame) : Prop := forall l s, In (AWait l s) st -> lax \/ (w_so l <> 0 /\ due w l).
(* thread t is inside a call on note n; no other thread holds n's note_mu or is between the increment and the decrement of
   n's disconnecting *)
Record solo (lax : Prop) (w : world) (t n : nat) : Prop := {
  s_inv : W1 w /\ W2 w /\ W3 w /\ W5 w;
  s_others : forall u, u <> t -> held_by (stack (get w u)) <> Some n /\ incd (stack (get w u)) n = false;
  s_note : tnote (stack (get w t)) = Some n;
  s_wait : wait_ok lax w (stack (get w t))
}.
(* what a step of the thread leaves behind *)
Definition fin_ok (lax : Prop) (w' : world) (t : nat) : Prop :=
  stack (get w' t) = [] -> exists o r, hd_error (hist (get w' t)) = Some (o, r) /\ forall no dl, o = OWait no dl -> exists z, r = RInt z /\ (lax \/ z <> 0).
Definition cont_ok (lax : Prop) (w' : world) (t n : nat) : Prop :=
  stack (get w' t) <> [] -> tnote (stack (get w' t)) = Some n /\ wait_ok lax w' (stack (get w' t)).

Lemma rank_ext w w' st : clock w' = clock w ->
  (forall m, expiry (notes w' m) = expiry (notes w m) /\ waiters (notes w' m) = waiters (notes w m)) -> rank w' st = rank w st.
Proof.
  intros C N. unfold rank.
  assert (EE : forall m, E w' m = E w m) by (intro m; unfold E; rewrite C; destruct (N m) as [-> _]; reflexivity).
  assert (KK : forall m, NW w' m = NW w m) by (intro m; unfold NW; destruct (N m) as [_ ->]; reflexivity).
  destruct st as [|[n s|n s p i|n p s|n s|n|n|l s] R]; simpl; rewrite ?EE, ?KK; try reflexivity.
  destruct s; simpl; rewrite ?EE, ?KK; reflexivity.
Qed.
Lemma due_ext w w' l : ext w w' -> due w l -> due w' l.
Proof.
  intros [C N] [A|(n & A & B)]; [left; eapply tle_z_mono; eauto|right; exists n; split; auto]. destruct (N n) as [-> _]. eapply tle_z_mono; eauto.
Qed.
Lemma wait_ok_ext lax w w' st : ext w w' -> wait_ok lax w st -> wait_ok lax w' st.
Proof. intros X H l s I0. destruct (H l s I0) as [Lx|[A B]]; [left; exact Lx|right]. split; auto. eapply due_ext; eauto. Qed.
Lemma wait_ok_tail lax w f st : wait_ok lax w (f :: st) -> wait_ok lax w st.
Proof. intros H l s I0. apply (H l s). right; auto. Qed.
Lemma wait_ok_push lax w f st : nonAW f -> wait_ok lax w st -> wait_ok lax w (f :: st).
Proof. intros F H l s [I0|I0]; [subst f; contradiction F|apply (H l s); auto]. Qed.
Lemma res_nz : ETIMEDOUT <> 0 /\ ECANCELED <> 0. Proof. unfold ETIMEDOUT, ECANCELED. lia. Qed.

(* the returns *)
Lemma solo_ret_Notify lax w t n r : wf (FNotify n :: r) -> wait_ok lax w r ->
  let w' := ret_Notify w t n r in
  rank w' (stack (get w' t)) = aft r /\ fin_ok lax w' t /\ cont_ok lax w' t n.
Proof.
  intros Hwf Hw. unfold ret_Notify. destruct r as [|g r].
  - cbv zeta. unfold fin_ok, cont_ok. rewrite stack_t_finish. split; [reflexivity|split; [|congruence]].
    intros _. exists (ONotify n), RNone. rewrite hist_finish, Nat.eqb_refl. split; [reflexivity|discriminate].
  - apply wf_cons in Hwf as [Ha Hwf]. destruct g as [| | | | | |l []]; simpl in Ha; try contradiction. rewrite <- Ha in *. clear Ha. apply wf_AWait in Hwf. subst r.
    cbv zeta. unfold fin_ok, cont_ok. rewrite stack_t_setst. split; [reflexivity|split; [discriminate|]]. intros _. split; [reflexivity|].
    intros l0 s0 [[= <- <-]|[]]. apply (Hw l (WNtf n)). left; reflexivity.
Qed.
Lemma solo_ret_D lax w t n s R v k : wf (FD n s :: R) -> wait_ok lax w R ->
  let w' := ret_D w t R v k in
  (tpos v = false -> rank w' (stack (get w' t)) = retz R) /\
  (tpos v = true -> E w n = false -> rank w' (stack (get w' t)) = retp (NW w n) R) /\ fin_ok lax w' t /\ cont_ok lax w' t n.
Proof.
  intros Hwf Hw. unfold ret_D. destruct R as [|g r]; [contradiction Hwf|]. apply wf_cons in Hwf as [Ha Hwf].
  destruct g as [| | | |j|j|l []]; simpl in Ha; try contradiction; subst.
  - destruct (tpos v).
    + cbv zeta. unfold fin_ok, cont_ok. rewrite stack_t_setst. split; [discriminate|split; [|split; [discriminate|]]].
      * intros _ _. unfold rank. simpl. unfold NOT. change (NW (setst w t (FN j N1 false false :: FNotify j :: r)) j) with (NW w j). lia.
      * intros _. split; [reflexivity|]. apply wait_ok_push; [exact I|exact Hw].
    + destruct (solo_ret_Notify lax w t j r Hwf (wait_ok_tail _ _ _ _ Hw)) as (A & B & C). cbv zeta. split; [intros _; exact A|split; [discriminate|split; auto]].
  - apply wf_AIs in Hwf. subst r. cbv zeta. unfold fin_ok, cont_ok. rewrite stack_t_finish. split; [reflexivity|split; [reflexivity|split; [|congruence]]].
    intros _. exists (OIsNotified j), (RBool (negb (tpos v))). rewrite hist_finish, Nat.eqb_refl. split; [reflexivity|discriminate].
  - apply wf_AWait in Hwf. subst r. pose proof (Hw l (WChk n0) (or_introl eq_refl)) as Hq. destruct (tpos v).
    + cbv zeta. unfold fin_ok, cont_ok. rewrite stack_t_setst. split; [discriminate|split; [|split; [discriminate|]]].
      * intros _ Ee. unfold rank. simpl. change (E (setst w t [AWait (wl_chk l k) (WSt n0)]) n0) with (E w n0). rewrite Ee. reflexivity.
      * intros _. split; [reflexivity|]. intros l0 s0 [[= <- <-]|[]]. exact Hq.
    + cbv zeta. unfold fin_ok, cont_ok. rewrite stack_t_finish_wait. split; [reflexivity|split; [discriminate|split; [|congruence]]].
      intros _. eexists. eexists. rewrite hist_finish_wait, Nat.eqb_refl. split; [reflexivity|]. intros no dl _. exists ECANCELED. split; [reflexivity|right; apply res_nz].
Qed.
Lemma solo_ret_N lax w t n s par inc R : wf (FN n s par inc :: R) -> wait_ok lax w R ->
  let w' := ret_N w t R in
  rank w' (stack (get w' t)) = retN R /\ fin_ok lax w' t /\ cont_ok lax w' t n.
Proof.
  intros Hwf Hw. unfold ret_N. destruct R as [|g r]; [contradiction Hwf|]. apply wf_cons in Hwf as [Ha Hwf].
  destruct g as [j []| | | |j|j|]; simpl in Ha; try contradiction; subst.
  - destruct (solo_ret_D lax w t j (D6 now) r tzero (Some now) Hwf (wait_ok_tail _ _ _ _ Hw)) as (A & _ & B & C). cbv zeta. split; [apply A; reflexivity|auto].
  - destruct (solo_ret_Notify lax w t j r Hwf (wait_ok_tail _ _ _ _ Hw)) as (A & B & C). cbv zeta. auto.
Qed.
Lemma solo_ret_C lax w t n par s R : wf (FC n par s :: R) -> wait_ok lax w R ->
  let w' := ret_C w t R in
  (rank w' (stack (get w' t)) <= retC R)%nat /\ fin_ok lax w' t /\ cont_ok lax w' t n.
Proof.
  intros Hwf Hw. unfold ret_C. destruct R as [|g r]; [contradiction Hwf|]. apply wf_cons in Hwf as [Ha Hwf].
  destruct g as [|j [] par' inc| |j []| | |]; simpl in Ha; try contradiction.
  - destruct Ha as [-> ->]. cbv zeta. unfold fin_ok, cont_ok. rewrite stack_t_setst. split; [|split; [destruct par'; discriminate|]].
    + unfold rank. destruct par'; simpl; lia.
    + intros _. split; [destruct par'; reflexivity|]. intros l0 s0 [I0|I0]; [destruct par'; discriminate|]. apply (Hw l0 s0). right; auto.
  - subst. cbv zeta. unfold fin_ok, cont_ok. rewrite stack_t_setst. split; [unfold rank; simpl; lia|split; [discriminate|]].
    intros _. split; [reflexivity|]. intros l0 s0 [I0|I0]; [discriminate|]. apply (Hw l0 s0). right; auto.
Qed.
Lemma wait_ok_same lax w w' st : clock w' = clock w -> (forall m, expiry (notes w' m) = expiry (notes w m)) -> wait_ok lax w st -> wait_ok lax w' st.
Proof.
  intros C N H l s I0. destruct (H l s I0) as [Lx|[A [B|(n & B & D)]]]; [left; exact Lx|right|right]; split; auto.
  - left. rewrite C. exact B.
  - right. exists n. rewrite C, N. auto.
Qed.
Lemma solo_c_wloop lax w t n par s R : wf (FC n par s :: R) -> wait_ok lax w R ->
  let w' := c_wloop w t n par R in
  (rank w' (stack (get w' t)) <= 2 * NW w n + retC R)%nat /\ fin_ok lax w' t /\ cont_ok lax w' t n.
Proof.
  intros Hwf Hw. unfold c_wloop. destruct (waiters (nt w n)) as [|o ws] eqn:Ew.
  - unfold c_tail. set (w1 := if par then set_note w n (set_has_par (nt w n) false) else w).
    assert (Hw1 : wait_ok lax w1 R) by (apply (wait_ok_same lax w); auto; [unfold w1; destruct par; reflexivity|intro m; unfold w1; destruct par; simpl; auto; unfold fupd, nt; destruct (Nat.eqb_spec m n); subst; reflexivity]).
    destruct (solo_ret_C lax w1 t n par s R Hwf Hw1) as (A & B & C). cbv zeta. split; [lia|auto].
  - cbv zeta. unfold fin_ok, cont_ok. rewrite stack_t_setst. split; [|split; [discriminate|]].
    + match goal with |- (rank ?w1 _ <= _)%nat => assert (K : NW w1 n = length ws) by (unfold NW; simpl; unfold fupd, nt; rewrite Nat.eqb_refl; reflexivity) end.
      unfold rank, rankP, stepsC. rewrite K. unfold NW, nt in *. rewrite Ew. simpl length. lia.
    + intros _. split; [reflexivity|]. apply wait_ok_push; [exact I|]. apply (wait_ok_same lax w); auto. intro m. simpl. unfold fupd, nt. destruct (Nat.eqb_spec m n); subst; reflexivity.
Qed.

(* ------------------------------------------------------------------------------------------------ *)
(* one step of a thread that runs alone *)
Definition step_good (lax : Prop) (w : world) (t n : nat) (r : world * ev) : Prop :=
  (lax /\ exists l, stack (get w t) = [AWait l (WP n)]) \/
  (snd r <> EvBlocked /\ (rank (fst r) (stack (get (fst r) t)) < rank w (stack (get w t)))%nat /\ fin_ok lax (fst r) t /\ cont_ok lax (fst r) t n).
Lemma good_setst lax w t n w1 st' ev : ev <> EvBlocked -> (rank (setst w1 t st') st' < rank w (stack (get w t)))%nat -> st' <> [] -> tnote st' = Some n ->
  wait_ok lax (setst w1 t st') st' -> step_good lax w t n (setst w1 t st', ev).
Proof.
  intros A B C D F. right. unfold fin_ok, cont_ok. simpl fst. simpl snd. rewrite stack_t_setst. split; [exact A|split; [exact B|split; [congruence|auto]]].
Qed.
Lemma good_ret lax w t n w' ev : ev <> EvBlocked -> (rank w' (stack (get w' t)) < rank w (stack (get w t)))%nat -> fin_ok lax w' t -> cont_ok lax w' t n ->
  step_good lax w t n (w', ev).
Proof. intros. right. auto. Qed.
Lemma retz_le_retp k R : (retz R <= retp k R)%nat.
Proof. destruct R as [|[| | | | | |l []] r]; simpl; lia. Qed.
Lemma solo_lock_free lax w t n : solo lax w t n -> held_by (stack (get w t)) <> Some n -> lock_free w n = true.
Proof.
  intros [(_ & _ & H3 & _) O _ _] H. unfold lock_free, nt. destruct (lock (notes w n)) as [u|] eqn:L; [exfalso|reflexivity].
  apply H3 in L. destruct (Nat.eq_dec u t) as [->|Hu]; [auto|]. apply (O u Hu). exact L.
Qed.
Lemma solo_disc0 lax w t n : solo lax w t n -> incd (stack (get w t)) n = false -> disc (notes w n) = 0%nat.
Proof.
  intros [(_ & _ & _ & H5) O _ _] H. destruct (Nat.eq_dec (disc (notes w n)) 0) as [E0|E0]; [exact E0|exfalso].
  destruct (d_some w H5 n E0) as [u Hu]. destruct (Nat.eq_dec u t) as [->|Hne]; [congruence|]. destruct (O u Hne) as [_ X]. congruence.
Qed.
Ltac feq2 := let m := fresh "m" in intro m; simpl; unfold fupd, nt; simpl;
  repeat match goal with |- context [Nat.eqb ?a ?b] => destruct (Nat.eqb_spec a b); subst; simpl end; auto.
Ltac rk w := rewrite (rank_ext w); [unfold rank, rankP, stepsD, stepsN, stepsC, stepsP, stepsW, NOT, rWP | reflexivity | feq2].
Ltac wok w Wr := repeat (apply wait_ok_push; [exact I|]); apply (wait_ok_same _ w); [reflexivity | feq2 | exact Wr].

Lemma solo_step_gen lax w t n : W1 w /\ W2 w /\ W3 w /\ W5 w -> tnote (stack (get w t)) = Some n -> wait_ok lax w (stack (get w t)) ->
  (held_by (stack (get w t)) <> Some n -> lock_free w n = true) ->
  (forall s par inc rest, stack (get w t) = FN n s par inc :: rest -> s = N1 \/ s = N3 -> disc (notes w n) = 0%nat) ->
  step_good lax w t n (step_core w t true).
Proof.
  intros (H1 & H2 & H3 & H5) Tn Wk LF DZ.
  pose proof (H1 t) as (Hwf & Htop & Hfr). pose proof (proj1 H2 t) as F2.
  unfold step_core. destruct (stack (get w t)) as [|f rest] eqn:Est; [discriminate Tn|].
  apply Forall_inv2 in F2 as [Ff Fr]. apply Forall_inv2 in Hfr as [Hf Hfr'].
  assert (RE : rank w (stack (get w t)) = rank w (f :: rest)) by (rewrite Est; reflexivity).
  destruct f as [m s|m s par inc|m par s|m s|m|m|l s]; simpl in Tn; try discriminate Htop.
  - (* FD *) injection Tn as ->. pose proof (wait_ok_tail _ _ _ _ Wk) as Wr. destruct s; simpl in Htop; try discriminate Htop; simpl.
    + (* D1 *) destruct (Z.eqb_spec (flag (nt w n)) 0).
      * apply good_setst; [discriminate| |discriminate|reflexivity|wok w Wr]. rewrite RE. rk w. lia.
      * destruct (solo_ret_D lax w t n D1 rest tzero None Hwf Wr) as (A & _ & B & C). apply good_ret; auto; [discriminate|].
        rewrite A, RE by reflexivity. unfold rank, rankP, stepsD. pose proof (retz_le_retp (NW w n) rest). destruct (E w n); lia.
    + (* D2 *) rewrite LF by discriminate. apply good_setst; [discriminate| |discriminate|reflexivity|wok w Wr]. rewrite RE. rk w. lia.
    + (* D3 *) apply good_setst; [discriminate| |discriminate|reflexivity|wok w Wr]. rewrite RE. rk w. lia.
    + (* D4 *) destruct (tpos x) eqn:Ex.
      * apply good_setst; [discriminate| |discriminate|reflexivity|wok w Wr]. rewrite RE. rk w. lia.
      * assert (Wr' : wait_ok lax (release w n) rest) by (apply (wait_ok_same lax w); [reflexivity|feq2|exact Wr]).
        destruct (solo_ret_D lax (release w n) t n (D4 x) rest x None Hwf Wr') as (A & _ & B & C). apply good_ret; auto; [discriminate|].
        rewrite A, RE by exact Ex. unfold rank, rankP, stepsD. pose proof (retz_le_retp (NW w n) rest). destruct (E w n); lia.
    + (* D5 *) simpl in Ff. destruct Ff as [Fa Fb]. subst x. change (tle_z (expiry (notes w n)) (clock w)) with (E w n). destruct (E w n) eqn:Ee.
      * apply good_setst; [discriminate| |discriminate|reflexivity|wok w Wr]. rewrite RE. rk w. rewrite Ee. simpl retN. lia.
      * destruct (solo_ret_D lax w t n (D5 (expiry (notes w n))) rest (expiry (notes w n)) (Some (clock w)) Hwf Wr) as (_ & A & B & C). apply good_ret; auto; [discriminate|].
        rewrite A, RE by auto. unfold rank, rankP, stepsD. rewrite Ee. lia.
  - (* FN *) injection Tn as ->. pose proof (wait_ok_tail _ _ _ _ Wk) as Wr. simpl in Hf.
    assert (NB : incd rest n = false) by (eapply noinc_below_FN; eauto).
    destruct s; simpl in Htop; try discriminate Htop; simpl; subst.
    + (* N1 *) rewrite LF by discriminate.
      assert (Dz : not_disconnecting (acquire w t n) n = true).
      { unfold not_disconnecting, acquire, nt. simpl. unfold fupd. rewrite Nat.eqb_refl. simpl. rewrite (DZ N1 par false rest eq_refl (or_introl eq_refl)). reflexivity. }
      rewrite Dz. apply good_setst; [discriminate| |discriminate|reflexivity|wok w Wr]. rewrite RE. rk w. lia.
    + (* N2 *) apply good_setst; [discriminate| |discriminate|reflexivity|wok w Wr]. rewrite RE. rk w. lia.
    + (* N3 *) rewrite LF by discriminate. assert (Dz : not_disconnecting w n = true) by (unfold not_disconnecting, nt; rewrite (DZ N3 par false rest eq_refl (or_intror eq_refl)); reflexivity).
      rewrite Dz. simpl. apply good_setst; [discriminate| |discriminate|reflexivity|wok w Wr]. rewrite RE. rk w. lia.
    + (* N4 *) destruct (tpos (notified_time w n (flag (nt w n)))); [destruct (has_par (nt w n))|].
      * apply good_setst; [discriminate| |discriminate|reflexivity|wok w Wr]. rewrite RE. rk w. lia.
      * apply good_setst; [discriminate| |discriminate|reflexivity|wok w Wr]. rewrite RE. rk w. simpl retC. lia.
      * apply good_setst; [discriminate| |discriminate|reflexivity|wok w Wr]. rewrite RE. rk w. lia.
    + (* N5 *) apply good_setst; [discriminate| |discriminate|reflexivity|wok w Wr]. rewrite RE. rk w. lia.
    + (* N6 *) apply good_setst; [discriminate| |discriminate|reflexivity|wok w Wr]. rewrite RE. rk w. lia.
    + (* N7 *) apply good_setst; [discriminate| |discriminate|reflexivity|wok w Wr]. rewrite RE. rk w. lia.
    + (* N8 *) rewrite LF by discriminate. apply good_setst; [discriminate| |discriminate|reflexivity|wok w Wr]. rewrite RE. rk w. simpl retC. lia.
    + (* N10 *) apply good_setst; [discriminate| |discriminate|reflexivity|wok w Wr]. rewrite RE. rk w. lia.
    + (* N11 *) set (w1 := if inc then set_note w n (set_disc (nt w n) (Nat.pred (disc (nt w n)))) else w).
      assert (Wr' : wait_ok lax (release w1 n) rest) by (apply (wait_ok_same lax w); [unfold w1; destruct inc; reflexivity|unfold w1; destruct inc; feq2|exact Wr]).
      destruct (solo_ret_N lax (release w1 n) t n N11 par inc rest Hwf Wr') as (A & B & C). apply good_ret; auto; [discriminate|].
      rewrite A, RE. unfold rank, rankP, stepsN. lia.
  - (* FC *) injection Tn as ->. pose proof (wait_ok_tail _ _ _ _ Wk) as Wr. destruct s; simpl.
    + (* C1 *) destruct (tpos (notified_time w n (flag (nt w n)))).
      * apply good_setst; [discriminate| |discriminate|reflexivity|wok w Wr]. rewrite RE. rk w. lia.
      * destruct (solo_ret_C lax w t n par C1 rest Hwf Wr) as (A & B & C). apply good_ret; auto; [discriminate|].
        rewrite RE. unfold rank at 2. unfold rankP, stepsC. lia.
    + (* C2 *) set (w1 := set_note w n (set_flag (nt w n) note_notify_child_store1_new)).
      assert (Wr' : wait_ok lax w1 rest) by (apply (wait_ok_same lax w); [reflexivity|unfold w1; feq2|exact Wr]).
      destruct (solo_c_wloop lax w1 t n par C2 rest Hwf Wr') as (A & B & C). apply good_ret; auto; [discriminate|].
      rewrite RE. unfold rank at 2. unfold rankP, stepsC. replace (NW w1 n) with (NW w n) in A; [lia|].
      unfold NW, w1. simpl. unfold fupd, nt. rewrite Nat.eqb_refl. reflexivity.
    + (* C3 *) apply good_setst; [discriminate| |discriminate|reflexivity|wok w Wr]. rewrite RE. rk w. lia.
    + (* C4 *) match goal with |- step_good _ _ _ _ (c_wloop ?x _ _ _ _, _) => set (w3 := x) end.
      assert (Wr' : wait_ok lax w3 rest) by (apply (wait_ok_same lax w); [reflexivity|unfold w3; feq2|exact Wr]).
      destruct (solo_c_wloop lax w3 t n par (C4 o) rest Hwf Wr') as (A & B & C). apply good_ret; auto; [discriminate|].
      rewrite RE. unfold rank at 2. unfold rankP, stepsC. replace (NW w3 n) with (NW w n) in A; [lia|]. reflexivity.
  - (* FP *) injection Tn as ->. apply wf_FP in Hwf as Hr. subst rest. destruct s; simpl in Htop; try discriminate Htop; simpl.
    + (* P1 *) rewrite LF by discriminate. match goal with |- context [if ?b then _ else _] => destruct b end.
      * apply good_setst; [discriminate| |discriminate|reflexivity|]; [rewrite RE; rk w; simpl retC; lia|].
        intros l s [I0|[I0|[]]]; discriminate.
      * apply good_setst; [discriminate| |discriminate|reflexivity|]; [rewrite RE; rk w; lia|]. intros l s [I0|[]]; discriminate.
    + (* P3 *) set (w1 := if dec then set_note w n (set_disc (nt w n) (Nat.pred (disc (nt w n)))) else w).
      apply good_ret; [discriminate| | |].
      * rewrite stack_t_finish, RE. unfold rank, rankP, stepsP. simpl. lia.
      * intros _. exists (OParentNotify n), RNone. rewrite hist_finish, Nat.eqb_refl. split; [reflexivity|discriminate].
      * unfold cont_ok. rewrite stack_t_finish. congruence.
  - (* AWait *) apply wf_AWait in Hwf as Hr. subst rest. simpl in Hf, Ff.
    pose proof (Wk l s (or_introl eq_refl)) as Hq.
    assert (Hso : lax \/ w_so l <> 0) by (destruct Hq as [Lx|[X _]]; [left; exact Lx|right; exact X]).
    assert (WK1 : forall w1 l' s', clock w1 = clock w -> (forall m, expiry (notes w1 m) = expiry (notes w m)) -> (lax \/ w_so l' <> 0) -> w_dl l' = w_dl l -> w_note l' = w_note l ->
                 wait_ok lax w1 [AWait l' s']).
    { intros w1 l' s' C N A B D l0 s0 [[= <- <-]|[]]. destruct Hq as [Lx|[_ Hdue]]; [left; exact Lx|]. destruct A as [Lx|A]; [left; exact Lx|right]. split; [exact A|].
      destruct Hdue as [X|(k & X & Y)]; [left; rewrite B, C; exact X|right; exists k; rewrite D, C, N; auto]. }
    destruct s; simpl in Htop; try discriminate Htop; simpl in Tn; try discriminate Tn; injection Tn as ->; simpl.
    + (* WSt *) apply good_setst; [discriminate| |discriminate|reflexivity|apply WK1; auto; try (right; simpl; apply res_nz); try feq2]. rewrite RE.
      rewrite (rank_ext w); [unfold rank, rankP, stepsW; lia|reflexivity|feq2].
    + (* WLk1 *) rewrite LF by discriminate. apply good_setst; [discriminate| |discriminate|reflexivity|apply WK1; auto; try (right; simpl; apply res_nz); try feq2]. rewrite RE.
      rewrite (rank_ext w); [unfold rank, rankP, stepsW; lia|reflexivity|feq2].
    + (* WLd1 *) destruct (tpos (notified_time w n (flag (nt w n)))).
      * apply good_setst; [discriminate| |discriminate|reflexivity|apply WK1; auto; try (right; simpl; apply res_nz); try feq2]. rewrite RE.
        match goal with |- (rank ?w1 _ < _)%nat => assert (K : NW w1 n = S (NW w n)) by (unfold NW; simpl; unfold fupd, nt; rewrite Nat.eqb_refl; simpl; rewrite app_length; simpl; lia);
          assert (K2 : E w1 n = E w n) by (unfold E; simpl; unfold fupd, nt; rewrite Nat.eqb_refl; reflexivity) end.
        unfold rank, rankP, stepsW. rewrite K, K2. lia.
      * apply good_setst; [discriminate| |discriminate|reflexivity|apply WK1; auto; try (right; simpl; apply res_nz); try feq2]. rewrite RE. unfold rank, rankP, stepsW. lia.
    + (* WUn1 *) apply good_setst; [discriminate| |discriminate|reflexivity|apply WK1; auto; try (right; simpl; apply res_nz); try feq2]. rewrite RE.
      rewrite (rank_ext w); [unfold rank, rankP, stepsW; lia|reflexivity|feq2].
    + (* WP *) destruct Ff as (_ & Fc & Fp & Fn & Fl).
      destruct Hq as [Lx|[_ Hdue]]; [left; split; [exact Lx|exists l; exact Est]|].
      assert (T : tle_z (w_ldl l) (clock w) = true).
      { rewrite Fl, Fn. destruct Hdue as [X|(k & X & Y)]; [apply tle_min; exact X|]. rewrite Hf in X. injection X as <-. rewrite <- Fc in Y.
        destruct (w_dl l) as [d|], (w_ct l) as [c0|]; simpl in *; try discriminate; auto.
        destruct (d <? c0) eqn:Ed; auto. apply Z.ltb_lt in Ed. apply Z.leb_le in Y. apply Z.leb_le. lia. }
      rewrite T. destruct (w_near l) eqn:En.
      * apply good_setst; [discriminate| |discriminate|reflexivity|apply WK1; auto; try (right; simpl; apply res_nz); try feq2]. rewrite RE. unfold rank, rankP, stepsW, rWP. destruct (E w n); lia.
      * assert (Ee : E w n = true) by (unfold E; rewrite <- Fc; rewrite Fl in T; exact T).
        apply good_setst; [discriminate| |discriminate|reflexivity|]. 
        -- rewrite RE. rewrite (rank_ext w); [|reflexivity|feq2]. unfold rank, rankP, stepsD, stepsW, rWP, NOT. rewrite Ee. simpl retz. lia.
        -- apply wait_ok_push; [exact I|]. apply wait_ok_push; [exact I|]. apply WK1; auto; try (right; simpl; apply res_nz); try feq2.
    + (* WLk2 *) rewrite LF by discriminate. apply good_setst; [discriminate| |discriminate|reflexivity|apply WK1; auto; try (right; simpl; apply res_nz); try feq2]. rewrite RE. unfold rank, rankP, stepsW. lia.
    + (* WLd2 *) destruct (tpos (notified_time w n (flag (nt w n)))).
      * apply good_setst; [discriminate| |discriminate|reflexivity|apply WK1; auto; try (right; simpl; apply res_nz); try feq2]. rewrite RE. unfold rank, rankP, stepsW. lia.
      * apply good_setst; [discriminate| |discriminate|reflexivity|apply WK1; auto; try (right; simpl; apply res_nz); try feq2]. rewrite RE. unfold rank, rankP, stepsW. lia.
    + (* WUnl *) apply good_ret; [discriminate| | |].
      * rewrite stack_t_finish_wait, RE. unfold rank, rankP, stepsW. simpl. lia.
      * intros _. eexists. eexists. rewrite hist_finish_wait, Nat.eqb_refl. split; [reflexivity|]. intros no dl _. exists (w_so l). split; [reflexivity|exact Hso].
      * unfold cont_ok. rewrite stack_t_finish_wait. congruence.
Qed.

(* ------------------------------------------------------------------------------------------------ *)
(* the same for a thread that runs alone in the sense of [solo] *)
Lemma solo_step lax w t n : solo lax w t n -> step_good lax w t n (step_core w t true).
Proof.
  intros So. pose proof So as [Hi O Tn Wk]. apply solo_step_gen; auto.
  - apply (solo_lock_free lax w t n So).
  - intros s par inc rest Est Hs. apply (solo_disc0 lax w t n So). rewrite Est.
    destruct Hi as (H1 & _). pose proof (H1 t) as (Hwf & _ & Hfr). rewrite Est in Hwf, Hfr. apply Forall_inv2 in Hfr as [Hf _]. simpl in Hf.
    assert (inc = false) by (destruct Hs; subst s; exact Hf). subst inc. simpl. eapply noinc_below_FN; eauto.
Qed.
Lemma step_good_F w t n r : step_good False w t n r ->
  snd r <> EvBlocked /\ (rank (fst r) (stack (get (fst r) t)) < rank w (stack (get w t)))%nat /\ fin_ok False (fst r) t /\ cont_ok False (fst r) t n.
Proof. intros [[[] _]|H]; exact H. Qed.

(* the thread run alone until its call returns *)
Lemma inv_step_core w t c : W1 w /\ W2 w /\ W3 w /\ W5 w ->
  W1 (fst (step_core w t c)) /\ W2 (fst (step_core w t c)) /\ W3 (fst (step_core w t c)) /\ W5 (fst (step_core w t c)).
Proof.
  intros (H1 & H2 & H3 & H5). split; [apply step_core_W1; auto|split; [apply step_core_W2; auto|split; [apply step_core_W3; auto|apply step_core_W5; auto]]].
Qed.
Lemma solo_next w t n : solo False w t n -> let w' := fst (step_core w t true) in stack (get w' t) <> [] -> solo False w' t n.
Proof.
  intros So w' Hne. destruct (step_good_F _ _ _ _ (solo_step False w t n So)) as (_ & _ & _ & C). destruct (C Hne) as [A B]. destruct So as [Hi O Tn Wk].
  constructor; auto.
  - apply inv_step_core; auto.
  - intros u Hu. unfold w'. rewrite (step_core_others w t true (proj1 Hi) u Hu). apply O; auto.
Qed.
Definition returned_nz (w : world) (t : nat) : Prop :=
  stack (get w t) = [] /\ exists o r, hd_error (hist (get w t)) = Some (o, r) /\ forall no dl, o = OWait no dl -> exists z, r = RInt z /\ (False \/ z <> 0).
Lemma solo_run t n k : forall w, solo False w t n -> (rank w (stack (get w t)) <= k)%nat ->
  exists j, (1 <= j <= k)%nat /\ let w' := run w (repeat (AStep t true) j) in returned_nz w' t /\ ops w' t = ops w t.
Proof.
  induction k as [|k IH]; intros w So Hr.
  - destruct (step_good_F _ _ _ _ (solo_step False w t n So)) as (_ & A & _). lia.
  - pose proof (step_good_F _ _ _ _ (solo_step False w t n So)) as (_ & A & B & _).
    assert (Hne : stack (get w t) <> []) by (intro X; pose proof (s_note False w t n So) as Y; rewrite X in Y; discriminate).
    assert (Ex : exec w (AStep t true) = fst (step_core w t true)).
    { simpl. destruct (stack (get w t)) as [|f rest] eqn:Est; [congruence|]. rewrite (step_nonempty w t true f rest Est). reflexivity. }
    assert (Op : ops (fst (step_core w t true)) t = ops w t) by (apply step_core_ops_t; apply So).
    destruct (stack (get (fst (step_core w t true)) t)) as [|f' rest'] eqn:Es'.
    + exists 1%nat. split; [lia|]. change (returned_nz (exec w (AStep t true)) t /\ ops (exec w (AStep t true)) t = ops w t).
      rewrite Ex. split; [|exact Op]. split; [exact Es'|apply B; exact Es'].
    + assert (So' : solo False (fst (step_core w t true)) t n) by (apply solo_next; auto; rewrite Es'; discriminate).
      destruct (IH _ So') as (j & Hj & C & D); [rewrite Es' in *; lia|]. exists (S j). split; [lia|].
      change (returned_nz (run (exec w (AStep t true)) (repeat (AStep t true) j)) t /\ ops (run (exec w (AStep t true)) (repeat (AStep t true) j)) t = ops w t).
      rewrite Ex. split; [exact C|]. cbv zeta in D. rewrite D. exact Op.
Qed.

(* C05sw_expired_prompt, general form: nobody else is inside a critical section of the note's note_mu or between the increment and
   the decrement of its `disconnecting`; the bound grows with the records queued on the note (a notify-on-expiry wakes them all) *)
Definition expired (w : world) (no : option nat) (dl : time) : Prop :=
  tle_z dl (clock w) = true \/ exists n, no = Some n /\ tle_z (expiry (nt w n)) (clock w) = true.
Definition nwaiters (w : world) (no : option nat) : nat := match no with Some n => length (waiters (nt w n)) | None => 0%nat end.
Lemma hd_ops_hist (h : list (op * res)) o r o' l : hd_error h = Some (o, r) -> map fst h = o' :: l -> o = o'.
Proof. destruct h as [|[a b] h]; simpl; [discriminate|]. intros [= -> ->] [= -> _]. reflexivity. Qed.
Lemma sw_expired_prompt w t no dl rest : reachable w -> stack (get w t) = [] -> prog (get w t) = OWait no dl :: rest -> expired w no dl ->
  (forall n, no = Some n -> lock (nt w n) = None /\ disc (nt w n) = 0%nat) ->
  exists k, (1 <= k <= 15 + 2 * nwaiters w no)%nat /\
    let w' := run w (repeat (AStep t true) k) in
    stack (get w' t) = [] /\ exists r, hd_error (hist (get w' t)) = Some (OWait no dl, RInt r) /\ r <> 0.
Proof.
  intros R Es Ep Hx Hfree.
  destruct no as [n|].
  - (* with a cancel note *)
    destruct (Hfree n eq_refl) as [Lk Dz]. set (w0 := begin_call w t).
    assert (St0 : stack (get w0 t) = [FD n D1; AWait (wl0 (Some n) dl) (WChk n)]).
    { unfold w0, begin_call. rewrite Es, Ep. rewrite (wait_guard n). unfold set_thr, get. simpl. unfold fupd. rewrite Nat.eqb_refl. reflexivity. }
    assert (Hi : W1 w0 /\ W2 w0 /\ W3 w0 /\ W5 w0).
    { unfold w0. split; [apply begin_call_W1, reachable_W1; auto|split; [apply begin_call_W2, reachable_W2; auto|split; [apply begin_call_W3, reachable_W3; auto|apply begin_call_W5, reachable_W5; auto]]]. }
    assert (So : solo False w0 t n).
    { constructor; auto.
      - intros u Hu. unfold w0. rewrite (begin_call_others w t u Hu). split.
        + intro X. apply (reachable_W3 w R) in X. unfold nt in Lk. congruence.
        + destruct (incd (stack (get w u)) n) eqn:X; auto. pose proof (d_one w (reachable_W5 w R) n u X). unfold nt in Dz. congruence.
      - rewrite St0. reflexivity.
      - rewrite St0. intros l s [I0|[I0|[]]]; [discriminate|]. injection I0 as <- <-. right. split; [apply res_nz|].
        unfold w0. destruct Hx as [X|(k & X & Y)]; [left|right; exists k; split; [exact X|]]; rewrite clock_begin_call; simpl; rewrite ?notes_begin_call; auto. }
    assert (Ex : exec w (AStep t true) = fst (step_core w0 t true)) by (simpl; rewrite step_eq; reflexivity).
    assert (Rk : (rank w0 (stack (get w0 t)) <= 15 + 2 * NW w n)%nat).
    { rewrite St0. unfold rank, rankP, stepsD, NOT. simpl retz. simpl retp. replace (NW w0 n) with (NW w n) by (unfold NW, w0; rewrite notes_begin_call; reflexivity).
      destruct (E w0 n); lia. }
    assert (Op0 : ops w0 t = OWait (Some n) dl :: map fst (hist (get w t))).
    { unfold ops. rewrite St0. unfold ops_of. simpl running. unfold w0, begin_call. rewrite Es, Ep. unfold set_thr, get. simpl. unfold fupd. rewrite Nat.eqb_refl. reflexivity. }
    pose proof (step_good_F _ _ _ _ (solo_step False w0 t n So)) as (_ & A & B & _).
    assert (Op1 : ops (fst (step_core w0 t true)) t = ops w0 t) by (apply step_core_ops_t; apply Hi).
    assert (FIN : forall k w', (1 <= k <= 15 + 2 * NW w n)%nat -> w' = run w (repeat (AStep t true) k) -> returned_nz w' t -> ops w' t = ops w0 t ->
                  exists k, (1 <= k <= 15 + 2 * nwaiters w (Some n))%nat /\
                    let w' := run w (repeat (AStep t true) k) in
                    stack (get w' t) = [] /\ exists r, hd_error (hist (get w' t)) = Some (OWait (Some n) dl, RInt r) /\ r <> 0).
    { intros k w' Hk -> (S0 & o & r & Hh & Hz) Ho. exists k. split; [exact Hk|]. cbv zeta. split; [exact S0|].
      rewrite Op0 in Ho. unfold ops in Ho. rewrite S0 in Ho. unfold ops_of in Ho. simpl running in Ho.
      pose proof (hd_ops_hist _ _ _ _ _ Hh Ho) as ->. destruct (Hz _ _ eq_refl) as (z & -> & [[]|Hnz]). exists z. auto. }
    destruct (stack (get (fst (step_core w0 t true)) t)) as [|f' rest'] eqn:Es'.
    + apply (FIN 1%nat (exec w (AStep t true))); [unfold NW; lia|reflexivity| |rewrite Ex; exact Op1].
      rewrite Ex. split; [exact Es'|apply B; exact Es'].
    + assert (So' : solo False (fst (step_core w0 t true)) t n) by (apply solo_next; auto; rewrite Es'; discriminate).
      destruct (solo_run t n (14 + 2 * NW w n) _ So') as (j & Hj & C & D); [rewrite Es' in *; lia|].
      apply (FIN (S j) (run (exec w (AStep t true)) (repeat (AStep t true) j))); [lia|reflexivity| |].
      * rewrite Ex. exact C.
      * rewrite Ex. cbv zeta in D. rewrite D. exact Op1.
  - (* without note: the P times out at once *)
    destruct Hx as [X|(k & X & _)]; [|discriminate]. exists 1%nat. split; [simpl; lia|]. change (run w (repeat (AStep t true) 1)) with (fst (step w t true)). cbv zeta.
    assert (St0 : stack (get (begin_call w t) t) = [AWait (wl0 None dl) WPlain]).
    { unfold begin_call. rewrite Es, Ep. unfold set_thr, get. simpl. unfold fupd. rewrite Nat.eqb_refl. reflexivity. }
    rewrite step_eq. unfold step_core. rewrite St0. simpl. rewrite clock_begin_call. simpl in X. rewrite X. simpl fst.
    rewrite stack_t_finish_wait, hist_finish_wait, Nat.eqb_refl. split; [reflexivity|]. exists ETIMEDOUT. split; [reflexivity|apply res_nz].
Qed.

(* C05sw_expired_prompt as it was left open in Properties_C05sw.v (C05sw_expired_prompt_stmt): from a world in which no thread is inside
   a call, 15 own steps suffice *)
Lemma sw_expired_prompt_quiet : forall w t no dl rest, reachable w -> (forall u, stack (get w u) = []) -> prog (get w t) = OWait no dl :: rest ->
    (tle_z dl (clock w) = true \/ exists n, no = Some n /\ tle_z (expiry (nt w n)) (clock w) = true) ->
    exists k, (k <= 16)%nat /\
      let w' := run w (repeat (AStep t true) k) in
      stack (get w' t) = [] /\ exists r, hd_error (hist (get w' t)) = Some (OWait no dl, RInt r) /\ r <> 0.
Proof.
  intros w t no dl rest R Q Ep Hx.
  destruct (sw_expired_prompt w t no dl rest R (Q t) Ep Hx) as (k & Hk & A).
  - intros n _. split; [|apply sw_disc_quiet; auto]. destruct (lock (nt w n)) as [u|] eqn:L; [|reflexivity].
    apply (reachable_W3 w R) in L. rewrite Q in L. discriminate.
  - exists k. split; [|exact A]. assert (nwaiters w no = 0%nat) by (destruct no as [n|]; simpl; [rewrite sw_queue_quiet; auto|reflexivity]). lia.
Qed.

(* ------------------------------------------------------------------------------------------------ *)
(* additions asked for by the audit of Properties_C05sw.v *)
(* (b) the time-out of the P is enabled as soon as the NOTE'S EXPIRY is reached *)
Lemma sw_expiry_enabled w t n l rest : reachable w -> stack (get w t) = AWait l (WP n) :: rest ->
  tle_z (expiry (nt w n)) (clock w) = true -> snd (step w t true) = EvP false.
Proof.
  intros R Est Hd. pose proof (proj1 (reachable_W2 w R) t) as F. rewrite Est in F. apply Forall_inv2 in F as [F _]. simpl in F.
  destruct F as (_ & Fc & _ & Fn & Fl). rewrite (step_nonempty w t true _ _ Est). unfold step_core. rewrite Est. simpl.
  assert (T : tle_z (w_ldl l) (clock w) = true).
  { rewrite Fl, Fn. unfold nt in Hd. rewrite <- Fc in Hd. destruct (w_dl l), (w_ct l); simpl in *; try discriminate; auto.
    destruct (z <? z0) eqn:E0; auto. apply Z.ltb_lt in E0. apply Z.leb_le in Hd. apply Z.leb_le. lia. }
  rewrite T. destruct (w_near l); reflexivity.
Qed.

(* (a) no lost cancellation, by the state of the waiter's own record: a thread inside the P of a wait whose note has `notified` <> 0 has
   its record still queued -- and then a notifier is inside the waiter loop of THAT note, holding its note_mu (it unlinks the records
   in list order and is never blocked) --, or taken by a notifier that is at the store / the V for exactly this record, or posted --
   and then the post is in the thread's semaphore *)
Lemma sw_no_lost_cancel_strong w t n l : reachable w -> in_P w t n l -> flag (nt w n) <> 0 ->
  let r := w_rec l in
  owner (recs w r) = t /\ live (recs w r) = true /\ rnote (recs w r) = n /\
  ((rs (recs w r) = RQueued /\ In r (waiters (nt w n)) /\ exists u, draining w u n /\ lock (nt w n) = Some u) \/
   (rs (recs w r) = RTaken /\ exists u, taking w u n r /\ lock (nt w n) = Some u) \/
   (rs (recs w r) = RPosted /\ (1 <= sem (get w t))%nat)).
Proof.
  intros R (rest & Est) Hf. pose proof (reachable_W4 w R) as H. pose proof (reachable_W3 w R) as H3. cbv zeta.
  destruct (r2 _ w H t l (WP n)) as (A1 & A2 & A3 & A4 & A5); [rewrite Est; left; auto|reflexivity|]. simpl in A4, A5. injection A4 as A4.
  split; [exact A2|split; [exact A3|split; [exact A4|]]].
  destruct A5 as [Q|[Q|Q]].
  - left. pose proof (q3 _ w H _ Q) as I0. rewrite A4 in I0. split; [exact Q|split; [exact I0|]].
    destruct (dr _ w H n I Hf) as [B|(u & o & B)]; [unfold nt in B; rewrite B in I0; destruct I0|].
    exists u. split; [destruct B as (p & r & B); exists p, o, r; exact B|]. apply H3. destruct B as (p & r & [B|B]); rewrite B; reflexivity.
  - right; left. split; [exact Q|]. destruct (t3 _ w H _ Q) as [u B]. rewrite A4 in B. exists u. split; [apply taking_c34; exact B|].
    apply H3. destruct B as (p & r & [B|B]); rewrite B; reflexivity.
  - right; right. split; [exact Q|]. apply (sm _ w H t l); auto. exists n, rest. right. exact Est.
Qed.

(* (d) the usual course of a cancellation: the notifier's V ends the wait with 0, and the cancellation is reported by the caller's NEXT
   wait on that note -- at once, by the first nsync_note_notified_deadline_ (one step), without creating a record *)
Lemma sw_log_flag w e n : reachable w -> In e (rets w) -> e_note e = Some n -> e_flag e <> 0 -> flag (nt w n) <> 0.
Proof.
  intros (c0 & ns & progs & sched & H0 & ->). revert e n. unfold run.
  assert (G : forall sched w, (forall e n, In e (rets w) -> e_note e = Some n -> e_flag e <> 0 -> flag (nt w n) <> 0) ->
              forall e n, In e (rets (fold_left exec sched w)) -> e_note e = Some n -> e_flag e <> 0 -> flag (nt (fold_left exec sched w) n) <> 0).
  { induction sched0 as [|a s IH]; intros w H; simpl; [exact H|]. apply IH.
    intros e n I0 En Ef. destruct (exec_ext w a) as [_ N]. apply N.
    destruct (exec_retrel w a) as [A|(e' & A & B & D & F)]; rewrite A in I0; [apply (H e n); auto|].
    destruct I0 as [<-|I0]; [|apply (H e n); auto]. rewrite En in D. simpl in D. unfold nt. congruence. }
  apply G. intros e n [].
Qed.
Lemma sw_next_call_cancelled w t n dl rest c : reachable w -> flag (nt w n) <> 0 -> stack (get w t) = [] -> prog (get w t) = OWait (Some n) dl :: rest ->
  let w' := exec w (AStep t c) in
  stack (get w' t) = [] /\ prog (get w' t) = rest /\ hd_error (hist (get w' t)) = Some (OWait (Some n) dl, RInt ECANCELED) /\ nrec w' = nrec w /\
  exists e, rets w' = e :: rets w /\ e_thr e = t /\ e_res e = ECANCELED /\ e_why e = YEarly /\ e_rec e = None /\ e_note e = Some n /\ e_flag e = flag (nt w n).
Proof.
  intros R Hf Es Ep. cbv zeta. simpl exec. rewrite step_eq. set (w0 := begin_call w t).
  assert (St0 : stack (get w0 t) = [FD n D1; AWait (wl0 (Some n) dl) (WChk n)]).
  { unfold w0, begin_call. rewrite Es, Ep. rewrite (wait_guard n). unfold set_thr, get. simpl. unfold fupd. rewrite Nat.eqb_refl. reflexivity. }
  assert (Pr0 : prog (get w0 t) = rest) by (unfold w0, begin_call; rewrite Es, Ep; unfold set_thr, get; simpl; unfold fupd; rewrite Nat.eqb_refl; reflexivity).
  assert (Hh0 : hist (get w0 t) = hist (get w t)) by (unfold w0, begin_call; rewrite Es, Ep; unfold set_thr, get; simpl; unfold fupd; rewrite Nat.eqb_refl; reflexivity).
  assert (Fl0 : flag (nt w0 n) = flag (nt w n)) by (unfold w0, nt; rewrite notes_begin_call; reflexivity).
  assert (X : fst (step_core w0 t c) = finish_wait w0 t (wl_out (wl_chk (wl0 (Some n) dl) None) ECANCELED YEarly) false).
  { unfold step_core. rewrite St0. unfold step_D. destruct (Z.eqb_spec (flag (nt w0 n)) 0) as [Z0|Z0]; [rewrite Fl0 in Z0; contradiction|]. reflexivity. }
  rewrite X. rewrite stack_t_finish_wait, hist_finish_wait, Nat.eqb_refl. split; [reflexivity|split; [|split; [rewrite Hh0; reflexivity|split]]].
  - unfold finish_wait, finish, set_thr, get. simpl. unfold fupd. rewrite Nat.eqb_refl. simpl. exact Pr0.
  - unfold w0, begin_call. rewrite Es, Ep. reflexivity.
  - eexists. split; [unfold finish_wait; simpl; unfold w0, begin_call; rewrite Es, Ep; reflexivity|]. simpl. repeat split. 
Qed.
Lemma sw_cancel_after_zero w e t n dl rest c : reachable w -> In e (rets w) -> e_res e = 0 -> e_note e = Some n -> e_flag e <> 0 ->
  stack (get w t) = [] -> prog (get w t) = OWait (Some n) dl :: rest ->
  let w' := exec w (AStep t c) in
  stack (get w' t) = [] /\ hd_error (hist (get w' t)) = Some (OWait (Some n) dl, RInt ECANCELED) /\ nrec w' = nrec w /\
  exists e', rets w' = e' :: rets w /\ e_res e' = ECANCELED /\ e_why e' = YEarly /\ e_rec e' = None.
Proof.
  intros R I0 _ En Ef Es Ep. pose proof (sw_log_flag w e n R I0 En Ef) as Hf.
  destruct (sw_next_call_cancelled w t n dl rest c R Hf Es Ep) as (A & _ & B & C & e' & D1 & _ & D2 & D3 & D4 & _). cbv zeta. repeat split; auto. exists e'. auto.
Qed.

(* (c) Layer 8: a wait that has got past its first nsync_note_notified_deadline_ has a note whose expiry is after the epoch *)
Definition past (s : wst) : bool := match s with WPlain | WChk _ => false | _ => true end.
Definition W8 (w : world) : Prop :=
  forall u l s n, In (AWait l s) (stack (get w u)) -> past s = true -> wst_note s = Some n -> tpos (expiry (notes w n)) = true.
Definition aw_from (w : world) (st st' : list frame) : Prop :=
  forall l s, In (AWait l s) st' -> past s = true ->
    (exists l0 s0, In (AWait l0 s0) st /\ past s0 = true /\ wst_note s0 = wst_note s) \/
    (exists n, wst_note s = Some n /\ tpos (expiry (notes w n)) = true).
Lemma W8_frame t w w' : (forall m, expiry (notes w' m) = expiry (notes w m)) -> others_same t w w' ->
  aw_from w (stack (get w t)) (stack (get w' t)) -> W8 w -> W8 w'.
Proof.
  intros N O A H u l s n I0 Hp Hn. rewrite N. destruct (Nat.eq_dec u t) as [->|Hu]; [|rewrite O in I0 by auto; eapply H; eauto].
  destruct (A l s I0 Hp) as [(l0 & s0 & B & C & D)|(k & B & C)]; [eapply H; eauto; congruence|]. congruence.
Qed.
Lemma aw_gen w pre pre' rest : Forall nonAW pre' -> aw_from w (pre ++ rest) (pre' ++ rest).
Proof.
  intros F l s I0 Hp. apply in_app_or in I0 as [I0|I0]; [exfalso; exact (in_nonAW _ _ _ F I0)|]. left. exists l, s. repeat split; auto. apply in_or_app; auto.
Qed.
Lemma aw_none w st st' : (forall l s, In (AWait l s) st' -> past s = false) -> aw_from w st st'.
Proof. intros A l s I0 Hp. rewrite (A l s I0) in Hp. discriminate. Qed.
Lemma aw_1 w pre pre' l s l' s' : Forall nonAW pre' -> past s = true -> wst_note s = wst_note s' -> aw_from w (pre ++ [AWait l s]) (pre' ++ [AWait l' s']).
Proof.
  intros F P N l0 s0 I0 Hp. apply in_app_or in I0 as [I0|I0]; [exfalso; exact (in_nonAW _ _ _ F I0)|]. destruct I0 as [[= <- <-]|[]].
  left. exists l, s. repeat split; auto. apply in_or_app; right; left; reflexivity.
Qed.
Lemma b_ret_Notify w0 w t n pre rest : wf (FNotify n :: rest) -> aw_from w0 (pre ++ FNotify n :: rest) (stack (get (ret_Notify w t n rest) t)).
Proof.
  intros Hwf. unfold ret_Notify. destruct rest as [|g r].
  - rewrite stack_t_finish. apply aw_none. intros l s [].
  - apply wf_cons in Hwf as [Ha Hwf]. destruct g as [| | | | | |l []]; simpl in Ha; try contradiction. apply wf_AWait in Hwf. subst r.
    rewrite stack_t_setst. change (pre ++ FNotify n :: [AWait l (WNtf n0)]) with (pre ++ [FNotify n] ++ [AWait l (WNtf n0)]). rewrite app_assoc.
    apply (aw_1 w0 (pre ++ [FNotify n]) [] l (WNtf n0) l (WLk2 n0)); auto.
Qed.
Lemma b_ret_D w0 w t n s pre rest v k : wf (FD n s :: rest) -> (tpos v = true -> tpos (expiry (notes w0 n)) = true) ->
  aw_from w0 (pre ++ FD n s :: rest) (stack (get (ret_D w t rest v k) t)).
Proof.
  intros Hwf Hv. unfold ret_D. destruct rest as [|g r]; [contradiction Hwf|]. apply wf_cons in Hwf as [Ha Hwf].
  destruct g as [| | | |m|m|l []]; simpl in Ha; try contradiction; subst.
  - destruct (tpos v).
    + rewrite stack_t_setst. change (FN m N1 false false :: FNotify m :: r) with ([FN m N1 false false] ++ FNotify m :: r).
      replace (pre ++ FD m s :: FNotify m :: r) with ((pre ++ [FD m s]) ++ FNotify m :: r) by (rewrite <- app_assoc; reflexivity).
      apply aw_gen. repeat constructor.
    + change (pre ++ FD m s :: FNotify m :: r) with (pre ++ [FD m s] ++ FNotify m :: r). rewrite app_assoc. apply b_ret_Notify; auto.
  - rewrite stack_t_finish. apply aw_none. intros l s0 [].
  - apply wf_AWait in Hwf. subst r. destruct (tpos v).
    + rewrite stack_t_setst. intros l0 s0 [[= <- <-]|[]] _. right. exists n0. split; [reflexivity|auto].
    + rewrite stack_t_finish_wait. apply aw_none. intros l0 s0 [].
Qed.
Lemma b_ret_N w0 w t n s par inc rest : wf (FN n s par inc :: rest) -> aw_from w0 (FN n s par inc :: rest) (stack (get (ret_N w t rest) t)).
Proof.
  intros Hwf. unfold ret_N. destruct rest as [|g r]; [contradiction Hwf|]. apply wf_cons in Hwf as [Ha Hwf].
  destruct g as [m []| | | |m|m|]; simpl in Ha; try contradiction; subst.
  - apply (b_ret_D w0 w t m (D6 now) [FN m s par inc]); auto. discriminate.
  - apply (b_ret_Notify w0 w t m [FN m s par inc]); auto.
Qed.
Lemma b_ret_C w0 w t n par s rest : wf (FC n par s :: rest) -> aw_from w0 (FC n par s :: rest) (stack (get (ret_C w t rest) t)).
Proof.
  intros Hwf. unfold ret_C. destruct rest as [|g r]; [contradiction Hwf|]. apply wf_cons in Hwf as [Ha Hwf].
  destruct g as [|m [] par' inc| |m []| | |]; simpl in Ha; try contradiction.
  - destruct Ha as [-> ->]. rewrite stack_t_setst.
    apply (aw_gen w0 [FC m par' s; FN m N9 par' inc] [FN m (if par' then N10 else N11) par' inc] r). repeat constructor.
  - subst. rewrite stack_t_setst. apply (aw_gen w0 [FC m par s; FP m P2] [FP m (P3 true)] r). repeat constructor.
Qed.
Lemma b_c_wloop w0 w t n par s rest : wf (FC n par s :: rest) -> aw_from w0 (FC n par s :: rest) (stack (get (c_wloop w t n par rest) t)).
Proof.
  intro Hwf. unfold c_wloop, c_tail. dmatch; try (apply b_ret_C; auto). rewrite stack_t_setst.
  apply (aw_gen w0 [FC n par s] [FC n par (C3 n0)] rest). repeat constructor.
Qed.
Ltac expprj := let m := fresh "m" in intro m; rewrite ?notes_ret_D, ?notes_ret_N, ?notes_ret_C, ?notes_ret_Notify;
  try match goal with |- context [notes (c_wloop ?a ?b ?c ?d ?e) m] => destruct (step_core_ext a b true) as [_ X]; clear X end;
  simpl; unfold fupd, nt; simpl; repeat match goal with |- context [Nat.eqb ?a ?b] => destruct (Nat.eqb_spec a b); subst; simpl end; auto.
Lemma expiry_step_core w t c m : expiry (notes (fst (step_core w t c)) m) = expiry (notes w m).
Proof. destruct (step_core_ext w t c) as [_ N]. apply N. Qed.
Ltac bgen Est pre pre' rest := rewrite ?stack_t_setst, ?stack_t_finish, ?stack_t_finish_wait;
  first [apply (aw_gen _ pre pre' rest); repeat constructor | apply aw_none; intros ? ? []].
Lemma step_core_aw w t c : W1 w -> W2 w -> aw_from w (stack (get w t)) (stack (get (fst (step_core w t c)) t)).
Proof.
  intros H1 H2. pose proof (H1 t) as (Hwf & Htop & Hfr). pose proof (proj1 H2 t) as F2.
  unfold step_core. destruct (stack (get w t)) as [|f rest] eqn:Est; [simpl; rewrite Est; apply aw_none; intros l s []|].
  apply Forall_inv2 in F2 as [Ff Fr].
  destruct f as [n s|n s par inc|n par s|n s|n|n|l s]; try ((cbn [fst]; rewrite ?Est; apply (aw_gen w [] [] _); constructor)).
  - (* FD *) destruct s; cbn [step_D step_N step_C step_P step_W fst]; try ((cbn [fst]; rewrite ?Est; apply (aw_gen w [] [] _); constructor)).
    + dif; cbn [step_D step_N step_C step_P step_W fst]; [bgen Est [FD n D1] [FD n D2] rest|apply (b_ret_D w w t n D1 []); auto; discriminate].
    + dif; cbn [step_D step_N step_C step_P step_W fst]; [|(cbn [fst]; rewrite ?Est; apply (aw_gen w [] [] _); constructor)]. bgen Est [FD n D2] [FD n D3] rest.
    + bgen Est [FD n D3] [FD n (D4 (notified_time w n (flag (nt w n))))] rest.
    + destruct (tpos x) eqn:Ex; cbn [step_D step_N step_C step_P step_W fst]; [bgen Est [FD n (D4 x)] [FD n (D5 x)] rest|apply (b_ret_D w (release w n) t n (D4 x) []); auto; congruence].
    + simpl in Ff. destruct Ff as [Fa Fb]. dif; cbn [step_D step_N step_C step_P step_W fst]; [bgen Est [FD n (D5 x)] [FN n N1 false false; FD n (D6 (clock w))] rest|].
      apply (b_ret_D w w t n (D5 x) []); auto. intros _. rewrite <- Fb. exact Fa.
  - (* FN *) destruct s; cbn [step_D step_N step_C step_P step_W fst]; try ((cbn [fst]; rewrite ?Est; apply (aw_gen w [] [] _); constructor)).
    + dif; cbn [step_D step_N step_C step_P step_W fst]; [|(cbn [fst]; rewrite ?Est; apply (aw_gen w [] [] _); constructor)]. dif; cbn [step_D step_N step_C step_P step_W fst]; [bgen Est [FN n N1 par inc] [FN n N4 par inc] rest|bgen Est [FN n N1 par inc] [FN n N2 par inc] rest].
    + bgen Est [FN n N2 par inc] [FN n N3 par inc] rest.
    + dif; cbn [step_D step_N step_C step_P step_W fst]; [|(cbn [fst]; rewrite ?Est; apply (aw_gen w [] [] _); constructor)]. bgen Est [FN n N3 par inc] [FN n N4 par inc] rest.
    + dif; cbn [step_D step_N step_C step_P step_W fst]; [dif; cbn [step_D step_N step_C step_P step_W fst]|].
      * bgen Est [FN n N4 par inc] [FN n N5 true true] rest.
      * bgen Est [FN n N4 par inc] [FC n false C1; FN n N9 false true] rest.
      * bgen Est [FN n N4 par inc] [FN n N11 par false] rest.
    + destruct c; cbn [step_D step_N step_C step_P step_W fst]; [bgen Est [FN n N5 par inc] [FN n N6 par inc] rest|bgen Est [FN n N5 par inc] [FC n par C1; FN n N9 par inc] rest].
    + bgen Est [FN n N6 par inc] [FN n N7 par inc] rest.
    + bgen Est [FN n N7 par inc] [FN n N8 par inc] rest.
    + dif; cbn [step_D step_N step_C step_P step_W fst]; [|(cbn [fst]; rewrite ?Est; apply (aw_gen w [] [] _); constructor)]. bgen Est [FN n N8 par inc] [FC n par C1; FN n N9 par inc] rest.
    + bgen Est [FN n N10 par inc] [FN n N11 par inc] rest.
    + destruct inc; apply b_ret_N; auto.
  - (* FC *) destruct s; cbn [step_D step_N step_C step_P step_W fst].
    + dif; cbn [step_D step_N step_C step_P step_W fst]; [bgen Est [FC n par C1] [FC n par C2] rest|apply b_ret_C; auto].
    + apply b_c_wloop; auto.
    + bgen Est [FC n par (C3 o)] [FC n par (C4 o)] rest.
    + apply b_c_wloop; auto.
  - (* FP *) destruct s; cbn [step_D step_N step_C step_P step_W fst]; try ((cbn [fst]; rewrite ?Est; apply (aw_gen w [] [] _); constructor)).
    + dif; cbn [step_D step_N step_C step_P step_W fst]; [|(cbn [fst]; rewrite ?Est; apply (aw_gen w [] [] _); constructor)]. dif; cbn [step_D step_N step_C step_P step_W fst]; [bgen Est [FP n P1] [FC n true C1; FP n P2] rest|bgen Est [FP n P1] [FP n (P3 false)] rest].
    + destruct dec; rewrite stack_t_finish; apply aw_none; intros ? ? [].
  - (* AWait *) apply wf_AWait in Hwf as Hr. subst rest.
    destruct s; cbn [step_D step_N step_C step_P step_W fst]; try ((cbn [fst]; rewrite ?Est; apply (aw_gen w [] [] _); constructor)).
    + destruct c; cbn [step_D step_N step_C step_P step_W fst]; [dif; cbn [step_D step_N step_C step_P step_W fst]; [|(cbn [fst]; rewrite ?Est; apply (aw_gen w [] [] _); constructor)]|destruct (sem (get w t)); cbn [step_D step_N step_C step_P step_W fst]; [(cbn [fst]; rewrite ?Est; apply (aw_gen w [] [] _); constructor)|]];
        rewrite stack_t_finish_wait; apply aw_none; intros ? ? [].
    + rewrite stack_t_setst. apply (aw_1 w [] []); auto.
    + dif; cbn [step_D step_N step_C step_P step_W fst]; [|(cbn [fst]; rewrite ?Est; apply (aw_gen w [] [] _); constructor)]. rewrite stack_t_setst. apply (aw_1 w [] []); auto.
    + dif; cbn [step_D step_N step_C step_P step_W fst]; rewrite stack_t_setst; apply (aw_1 w [] []); auto.
    + rewrite stack_t_setst. apply (aw_1 w [] []); auto.
    + destruct c; cbn [step_D step_N step_C step_P step_W fst]; [dif; cbn [step_D step_N step_C step_P step_W fst]; [dif; cbn [step_D step_N step_C step_P step_W fst]|(cbn [fst]; rewrite ?Est; apply (aw_gen w [] [] _); constructor)]|destruct (sem (get w t)); cbn [step_D step_N step_C step_P step_W fst]; [(cbn [fst]; rewrite ?Est; apply (aw_gen w [] [] _); constructor)|]];
        rewrite stack_t_setst.
      * apply (aw_1 w [] []); auto.
      * apply (aw_1 w [] [FD n D1; FNotify n]); auto; repeat constructor.
      * apply (aw_1 w [] []); auto.
    + dif; cbn [step_D step_N step_C step_P step_W fst]; [|(cbn [fst]; rewrite ?Est; apply (aw_gen w [] [] _); constructor)]. rewrite stack_t_setst. apply (aw_1 w [] []); auto.
    + dif; cbn [step_D step_N step_C step_P step_W fst]; rewrite stack_t_setst; apply (aw_1 w [] []); auto.
    + rewrite stack_t_finish_wait. apply aw_none. intros ? ? [].
Qed.
Lemma step_core_W8 w t c : W1 w -> W2 w -> W8 w -> W8 (fst (step_core w t c)).
Proof. intros H1 H2 H. apply (W8_frame t w); [apply expiry_step_core|apply step_core_others; auto|apply step_core_aw; auto|exact H]. Qed.
Lemma begin_call_W8 w t : W8 w -> W8 (begin_call w t).
Proof.
  intro H. apply (W8_frame t w); [rewrite notes_begin_call; auto|apply begin_call_others| |exact H].
  unfold begin_call. destruct (stack (get w t)) eqn:Es; [|rewrite Es; apply (aw_gen w [] [] _); constructor].
  destruct (prog (get w t)) as [|o rest]; [rewrite Es; apply aw_none; intros ? ? []|].
  unfold set_thr, get; simpl; unfold fupd. rewrite Nat.eqb_refl. simpl. apply aw_none.
  destruct o as [[k|] dl|k|k|k]; simpl; repeat dif; intros l s I0; repeat (destruct I0 as [I0|I0]; [try discriminate; injection I0; intros; subst; reflexivity|]); destruct I0.
Qed.
Lemma W8_stacks w w' : (forall m, expiry (notes w' m) = expiry (notes w m)) -> (forall u, stack (get w' u) = stack (get w u)) -> W8 w -> W8 w'.
Proof. intros N S H u l s n. rewrite S, N. apply H. Qed.
Lemma exec_W8 w a : W1 w -> W2 w -> W8 w -> W8 (exec w a).
Proof.
  intros H1 H2 H. destruct a as [t c|d|o|t]; simpl.
  - rewrite step_eq. apply step_core_W8; [apply begin_call_W1, H1|apply begin_call_W2, H2|apply begin_call_W8, H].
  - apply (W8_stacks w); auto.
  - apply (W8_stacks w); auto. intro u. unfold env_v. stk. reflexivity.
  - unfold env_p. destruct (stack (get w t)); [|exact H]. destruct (sem (get w t)); [exact H|]. apply (W8_stacks w); auto. intro u. stk. reflexivity.
Qed.
Lemma init_W8 c0 ns progs : W8 (init c0 ns progs).
Proof. intros u l s n. rewrite init_stack. intros []. Qed.
Lemma run_W128 sched : forall w, W1 w -> W2 w -> W8 w -> W8 (run w sched).
Proof. unfold run. induction sched as [|a s IH]; intros w H1 H2 H8; simpl; [auto|]. apply IH; [apply exec_W1|apply exec_W2|apply exec_W8]; auto. Qed.
Lemma reachable_W8 w : reachable w -> W8 w.
Proof. intros (c0 & ns & progs & sched & _ & ->). apply run_W128; [apply init_W1|apply init_W2|apply init_W8]. Qed.

(* where a log entry comes from: a call that created a record returns from the unlock at sem_wait.c:75 with the locals it has there; a
   call without record returns from the first nsync_note_notified_deadline_ (YEarly) or has no note *)
Definition origin (w : world) (e : rentry) : Prop :=
  match e_rec e with
  | Some r => exists l n, stack (get w (e_thr e)) = [AWait l (WUnl n)] /\ e_note e = Some n /\ e_why e = w_why l /\ e_res e = w_so l /\ r = w_rec l
  | None => e_why e = YEarly \/ e_note e = None
  end.
Definition orel (w w' : world) : Prop := rets w' = rets w \/ exists e, rets w' = e :: rets w /\ origin w e.
Definition orel0 (w w' : world) : Prop := rets w' = rets w \/ exists e, rets w' = e :: rets w /\ e_rec e = None /\ e_why e = YEarly.
Lemma orel0_ret_D w t r v k : orel0 w (ret_D w t r v k).
Proof. unfold ret_D. dmatch; try (left; rewrite ?rets_ret_Notify; reflexivity). right. eexists. split; [unfold finish_wait; reflexivity|]. split; reflexivity. Qed.
Lemma orel0_ret_N w t r : orel0 w (ret_N w t r).
Proof. unfold ret_N. dmatch; try (left; rewrite ?rets_ret_Notify; reflexivity); apply orel0_ret_D. Qed.
Lemma orel0_orel w w1 w' : rets w1 = rets w -> orel0 w1 w' -> orel w w'.
Proof. intros E0 [A|(e & A & B & C)]; [left; congruence|right]. exists e. split; [congruence|]. unfold origin. rewrite B. left; exact C. Qed.
Ltac orelR := first [ (eapply orel0_orel; [|apply orel0_ret_D]; reflexivity) | (eapply orel0_orel; [|apply orel0_ret_N]; reflexivity) ].
Ltac oretsL := left; rewrite ?rets_c_wloop, ?rets_c_tail, ?rets_ret_C, ?rets_ret_Notify; reflexivity.
Lemma step_core_orel w t c : W1 w -> orel w (fst (step_core w t c)).
Proof.
  intro H1. pose proof (H1 t) as (Hwf & Htop & Hfr).
  unfold step_core. destruct (stack (get w t)) as [|f rest] eqn:Est; [left; reflexivity|].
  destruct f as [n s|n s par inc|n par s|n s|n|n|l s]; try (left; reflexivity).
  - destruct s; simpl; repeat (dif; simpl); try (left; reflexivity); first [oretsL | orelR].
  - destruct s; simpl; repeat (dif; simpl); try (left; reflexivity); first [oretsL | orelR].
  - destruct s; simpl; repeat (dif; simpl); try (left; reflexivity); oretsL.
  - destruct s; simpl; repeat (dif; simpl); try (left; reflexivity); oretsL.
  - apply wf_AWait in Hwf as Hr. subst rest. apply Forall_inv2 in Hfr as [Hf _]. simpl in Hf.
    destruct s; simpl; repeat (dif; simpl); try (left; reflexivity); try oretsL.
    + right. eexists. split; [unfold finish_wait; reflexivity|]. unfold origin. simpl. right. exact Hf.
    + destruct (sem (get w t)); simpl; [left; reflexivity|]. right. eexists. split; [unfold finish_wait; reflexivity|]. unfold origin. simpl. right. exact Hf.
    + destruct (sem (get w t)); simpl; [left; reflexivity|oretsL].
    + right. eexists. split; [unfold finish_wait; reflexivity|]. unfold origin. simpl. exists l, n. rewrite Est. repeat split; auto.
Qed.
Lemma exec_orel w a : W1 w -> orel w (exec w a).
Proof.
  intro H1. destruct a as [t c|d|o|t]; simpl; try (left; reflexivity).
  - rewrite step_eq. destruct (step_core_orel (begin_call w t) t c (begin_call_W1 w t H1)) as [A|(e & A & B)].
    + left. rewrite A. unfold begin_call. dmatch; reflexivity.
    + assert (Rb : rets (begin_call w t) = rets w) by (unfold begin_call; dmatch; reflexivity). right. exists e. split; [congruence|].
      unfold origin in *. destruct (e_rec e) as [r0|]; [|exact B]. destruct B as (l & m & B1 & B2). exists l, m. split; [|exact B2].
      destruct (Nat.eq_dec (e_thr e) t) as [Et|Et]; [|rewrite (begin_call_others w t _ Et) in B1; exact B1]. rewrite Et in *.
      unfold begin_call in B1. destruct (stack (get w t)) eqn:Es; [|rewrite <- Es; exact B1]. destruct (prog (get w t)) as [|o rest]; [rewrite Es in B1; discriminate|].
      exfalso. revert B1. unfold set_thr, get; simpl; unfold fupd. rewrite Nat.eqb_refl. simpl. destruct o as [[k|] dl|k|k|k]; simpl; repeat dif; discriminate.
  - left. unfold env_p. dmatch; reflexivity.
Qed.

(* the reason theorem, strengthened: ECANCELED with the `notified` word still 0 at the return happens only in the first
   nsync_note_notified_deadline_, for a note whose expiry is not after the epoch, and no record was created; a call that reports YExpiry
   (its P timed out at the note's expiry) or YLocked created a record and returns with the note notified -- in the YExpiry case by the
   nsync_note_notify it has itself called and completed before the second lock of note_mu *)
Definition reason_strong (e : rentry) : Prop :=
  (e_res e = ECANCELED -> e_flag e = 0 -> e_why e = YEarly /\ tpos (e_exp e) = false /\ e_rec e = None) /\
  (e_why e = YExpiry -> e_flag e <> 0 /\ e_rec e <> None) /\
  (e_why e = YLocked -> e_flag e <> 0 /\ e_rec e <> None) /\
  (e_why e = YEarly -> e_rec e = None) /\
  (e_rec e <> None -> tpos (e_exp e) = true).
Lemma new_entry_strong w a e : reachable w -> rets (exec w a) = e :: rets w -> reason_strong e.
Proof.
  intros R E0. pose proof (reachable_W1 w R) as H1. pose proof (reachable_W2 w R) as H2. pose proof (reachable_W8 w R) as H8.
  destruct (exec_retrel w a) as [A|(e1 & A & _ & Dfl & Dex)]; [rewrite A in E0; exfalso; eapply cons_neq; eauto|]. rewrite E0 in A. injection A as <-.
  destruct (exec_orel w a H1) as [A|(e1 & A & Or)]; [rewrite A in E0; exfalso; eapply cons_neq; eauto|]. rewrite E0 in A. injection A as <-.
  assert (I0 : In e (rets (exec w a))) by (rewrite E0; left; reflexivity).
  pose proof (sw_ret_ok _ e (reachable_exec w a R) I0) as K. destruct res_distinct as (D1 & D2 & D3). destruct res_nz as (Z1 & Z2).
  unfold origin in Or. destruct (e_rec e) as [r|] eqn:Er.
  - (* the call created a record *)
    destruct Or as (l & n & St & En & Ey & Es & _).
    pose proof (proj1 H2 (e_thr e)) as F. rewrite St in F. apply Forall_inv2 in F as [F _]. simpl in F.
    assert (Tp : tpos (expiry (notes w n)) = true) by (apply (H8 (e_thr e) l (WUnl n) n); [rewrite St; left; reflexivity|reflexivity|reflexivity]).
    rewrite En in Dfl, Dex. simpl in Dfl, Dex.
    assert (NF : notifiedish w n -> e_flag e <> 0) by (intros [X|X]; [congruence|congruence]).
    assert (Q : (e_why e = YExpiry \/ e_why e = YLocked -> e_flag e <> 0) /\ e_why e <> YEarly /\ (e_res e = ECANCELED -> e_flag e <> 0)).
    { destruct F as [[Fe Fo]|(Fa & Fb & Fc)].
      - unfold out_ok in Fo. rewrite <- Ey in Fo. destruct (e_why e); try contradiction.
        + destruct Fo as [X _]. split; [intros [?|?]; discriminate|split; [discriminate|]]. rewrite Es, X. intro; congruence.
        + destruct Fo as [X _]. split; [intros [?|?]; discriminate|split; [discriminate|]]. rewrite Es, X. intro; congruence.
        + destruct Fo as (_ & _ & _ & X). split; [intros _; apply NF; exact X|split; [discriminate|intros _; apply NF; exact X]].
      - rewrite Ey, Fa. split; [intros _; apply NF; exact Fc|split; [discriminate|intros _; apply NF; exact Fc]]. }
    destruct Q as (Q1 & Q2 & Q3). unfold reason_strong.
    split; [intros C Z0; exfalso; exact (Q3 C Z0)|split; [intro Y; split; [apply Q1; auto|congruence]|split; [intro Y; split; [apply Q1; auto|congruence]|split; [intro Y; contradiction|]]]].
    intros _. rewrite Dex. exact Tp.
  - (* no record *)
    unfold reason_strong. unfold ret_ok, e_notifiedish in K.
    assert (YE : e_res e = ECANCELED -> e_why e = YEarly).
    { intro C. destruct Or as [Y|Y]; [exact Y|]. destruct (e_why e); try reflexivity; exfalso.
      - destruct K as [X _]. congruence. - destruct K as [X _]. congruence. - destruct K as (_ & X & _). congruence. - destruct K as (_ & X & _). congruence. }
    split; [|split; [|split; [|split; [intros _; exact Er|intro X; congruence]]]].
    + intros C Z0. pose proof (YE C) as Y. rewrite Y in K. destruct K as (_ & _ & [X|X] & _); [contradiction|]. auto.
    + intro Y. rewrite Y in K. destruct K as (C & _). rewrite (YE C) in Y. discriminate.
    + intro Y. rewrite Y in K. destruct K as (C & _). rewrite (YE C) in Y. discriminate.
Qed.
Lemma sw_reason_strong w e : reachable w -> In e (rets w) -> reason_strong e.
Proof.
  intros (c0 & ns & progs & sched & H0 & ->). revert e. unfold run.
  assert (G : forall sched w, reachable w -> (forall e, In e (rets w) -> reason_strong e) -> forall e, In e (rets (fold_left exec sched w)) -> reason_strong e).
  { induction sched0 as [|a s IH]; intros w R H; simpl; [exact H|]. apply IH; [apply reachable_exec; auto|].
    intros e I0. destruct (exec_retrel w a) as [A|(e' & A & _)]; rewrite A in I0; [auto|]. destruct I0 as [<-|I0]; [|auto].
    eapply new_entry_strong; eauto. }
  apply G; [exists c0, ns, progs, []; split; auto|intros e []].
Qed.
