(* MuWaitWorld1: the list/ring part of the world invariant of Model/MuWaitModel.v, on an abstraction of the world
   (queue, same_condition rings, waiter conditions, waiting flags, remove_counts, and per thread an [info] record
   computed from its pc), and its preservation by the kinds of transitions the model's steps perform.
   No model stepping in this file: see MuWaitWorld2.v. *)
From NsyncBase Require Import CSem.
From NsyncGen Require Import Consts Sites.
From NsyncModel Require Import MuWaitModel MuWaitSpec.
From NsyncProof Require Import MuWaitRings.
From Coq Require Import List ZArith Bool Lia PeanoNat.
Import ListNotations.

(* ================= per-thread information ================= *)
(* which pc of the scan of nsync_mu_unlock_slow_ *)
Inductive skind := SRel | SSpin | SEval | SRm.
Record info := mk_info {
  i_sk : option (skind * uscan);   (* inside the scan: the private lists waiters / new_waiters / wake and the cursor *)
  i_wk : list nat;                 (* after the scan: the waiters still to be woken *)
  i_mq : bool;                     (* the thread's waiter may be on a list *)
  i_pe : option Z;                 (* inside nsync_mu_wait_with_deadline after queueing: the remove_count read before *)
  i_pq : option (option Z);        (* about to queue itself in nsync_mu_wait_with_deadline: waiting is set; remove_count read *)
  i_kt : bool }.                   (* inside nsync_remove_from_mu_queue_ called after a timeout *)

Definition irl (i : info) : list nat := match i_sk i with Some (_, u) => u_done u ++ u_new u | None => [] end.
Definition iwk (i : info) : list nat := match i_sk i with Some (_, u) => u_wake u | None => i_wk i end.
Definition ipl (i : info) : list nat := irl i ++ iwk i.

Definition inring (q : list nat) (I : nat -> info) (p : nat) : Prop := In p q \/ exists t, In p (irl (I t)).
Definition member (q : list nat) (I : nat -> info) (p : nat) : Prop := In p q \/ exists t, In p (ipl (I t)).

Definition kind_ok (q : list nat) (wc : nat -> cond) (k : skind) (u : uscan) : Prop :=
  match k with
  | SRel => q = []
  | SSpin => True
  | SEval => exists p tl, u_rest u = p :: tl /\ wc p <> None
  | SRm => u_rest u <> [] /\ (u_test u = false -> q = [])
  end.

Record L1a (q : list nat) (rg : rings) (wc : nat -> cond) (cl : nat -> nat) (wa : nat -> bool) (rc : nat -> Z)
           (I : nat -> info) : Prop := mk_L1a {
  a_p1 : forall t, NoDup (ipl (I t));
  a_p2 : forall t1 t2 p, In p (ipl (I t1)) -> In p (ipl (I t2)) -> t1 = t2;
  a_p3 : forall t p, In p (ipl (I t)) -> ~ In p q;
  a_m : forall p, member q I p -> wa p = true /\ i_mq (I p) = true;
  a_i3 : forall t v, i_pe (I t) = Some v -> (inring q I t <-> rc t = v);
  a_pq : forall t o, i_pq (I t) = Some o -> wa t = true /\ i_mq (I t) = false /\ forall v, o = Some v -> rc t = v;
  a_kt : forall t, i_kt (I t) = true -> In t q;
  a_r1 : RingInv wc cl rg q;
  a_r2 : forall t k u, i_sk (I t) = Some (k, u) ->
           RingInv wc cl rg (u_done u) /\ RingInv wc cl rg (u_new u) /\ (exists pre, u_new u = pre ++ u_rest u) /\
           kind_ok q wc k u;
  a_r3 : forall p, ~ inring q I p -> single rg p }.

(* ================= small facts ================= *)
Lemma RingInv_nil wc cl r : RingInv wc cl r [].
Proof. split; [constructor|]. exists []. split; [reflexivity | constructor]. Qed.

Lemma sc_equiv_ext wc wc' cl a b : wc' a = wc a -> wc' b = wc b -> sc_equiv wc cl a b -> sc_equiv wc' cl a b.
Proof. unfold sc_equiv. intros -> ->. auto. Qed.

Lemma block_ok_wc wc wc' cl r b : (forall x, In x b -> wc' x = wc x) -> block_ok wc cl r b -> block_ok wc' cl r b.
Proof.
  destruct b as [|x l]; [auto|]. intros H (A & B & C & D). split; [exact A|]. split; [exact B|]. split; [exact C|].
  intros y Hy. apply (sc_equiv_ext wc); [apply H; left; reflexivity | apply H; right; exact Hy | apply D; exact Hy].
Qed.

Lemma RingInv_wc wc wc' cl r q : (forall x, In x q -> wc' x = wc x) -> RingInv wc cl r q -> RingInv wc' cl r q.
Proof.
  intros H (Hnd & bl & Hc & HF). split; [exact Hnd|]. exists bl. split; [exact Hc|].
  rewrite Forall_forall in *. intros b Hb. apply (block_ok_wc wc); [| apply HF; exact Hb].
  intros x Hx. apply H. rewrite <- Hc. apply in_concat. exists b. auto.
Qed.

Lemma RingInv_NoDup wc cl r q : RingInv wc cl r q -> NoDup q.
Proof. intros [H _]; exact H. Qed.

Lemma single_frame r r' l p : frame r r' l -> ~ In p l -> single r p -> single r' p.
Proof. intros F N [A B]. destruct (F p N) as [C D]. unfold single. rewrite C, D. auto. Qed.

Lemma RingInv_frame' wc cl r r' l q : RingInv wc cl r q -> frame r r' l -> (forall x, In x q -> ~ In x l) -> RingInv wc cl r' q.
Proof. intros H F D. eapply RingInv_frame; [exact H|]. intros x Hx. apply F. apply D. exact Hx. Qed.

Lemma remove1_in e q x : In x (remove1 e q) -> In x q.
Proof.
  induction q as [|y r IH]; simpl; [auto|]. destruct (Nat.eqb_spec y e); [auto|]. intros [->|H]; auto.
Qed.
Lemma remove1_in_neq e q x : x <> e -> In x q -> In x (remove1 e q).
Proof.
  intros N. induction q as [|y r IH]; simpl; [auto|]. destruct (Nat.eqb_spec y e) as [->|Ne].
  - intros [E|H]; [congruence | exact H].
  - intros [->|H]; [left; reflexivity | right; auto].
Qed.
Lemma remove1_notin e q : NoDup q -> ~ In e (remove1 e q).
Proof.
  induction q as [|y r IH]; simpl; intros Hnd; [auto|]. apply NoDup_cons_iff in Hnd. destruct Hnd as [Hy Hr].
  destruct (Nat.eqb_spec y e) as [->|Ne]; [exact Hy|]. intros [E|H]; [congruence | exact (IH Hr H)].
Qed.
Lemma remove1_split e pre tl : ~ In e pre -> remove1 e (pre ++ e :: tl) = pre ++ tl.
Proof. apply remove1_app. Qed.

Lemma fupd_same' (A : Type) (f : nat -> A) t v x : x = t -> fupd f t v x = v.
Proof. intros ->. apply fupd_eq. Qed.

Lemma member_of_inring q I p : inring q I p -> member q I p.
Proof. intros [H|[t H]]; [left; exact H | right; exists t; unfold ipl; apply in_or_app; left; exact H]. Qed.

Lemma NoDup_app_l (A : Type) (l1 l2 : list A) : NoDup (l1 ++ l2) -> NoDup l1.
Proof. intros H. apply NoDup_app_inv in H. tauto. Qed.
Lemma NoDup_app_r (A : Type) (l1 l2 : list A) : NoDup (l1 ++ l2) -> NoDup l2.
Proof. intros H. apply NoDup_app_inv in H. tauto. Qed.

(* ================= extensionality in the info map ================= *)
Lemma L1a_ext q rg wc cl wa rc I I' : (forall t, I' t = I t) -> L1a q rg wc cl wa rc I -> L1a q rg wc cl wa rc I'.
Proof.
  intros E H.
  assert (Em : forall p, member q I' p -> member q I p).
  { intros p [A|[t A]]; [left; exact A | right; exists t; rewrite <- E; exact A]. }
  assert (Er : forall p, inring q I' p <-> inring q I p).
  { intros p. split; (intros [A|[t A]]; [left; exact A | right; exists t]); [rewrite <- E | rewrite E]; exact A. }
  destruct H as [P1 P2 P3 M I3 PQ KT R1 R2 R3]. constructor.
  - intros t. rewrite E. apply P1.
  - intros t1 t2 p. rewrite !E. apply P2.
  - intros t p. rewrite E. apply P3.
  - intros p Hp. rewrite E. apply M. apply Em. exact Hp.
  - intros t v. rewrite E, Er. apply I3.
  - intros t o. rewrite E. apply PQ.
  - intros t. rewrite E. apply KT.
  - exact R1.
  - intros t k u. rewrite E. apply R2.
  - intros p Hp. apply R3. rewrite <- Er. exact Hp.
Qed.

(* ================= (A) thread-local steps, including: writing one's own waiter fields while it is on no list,
   moving the scan cursor, leaving the "may be queued" pcs after seeing waiting == 0 ================= *)
Definition lists_rel (q : list nat) (wc : nat -> cond) (o o' : option (skind * uscan)) : Prop :=
  match o, o' with
  | None, None => True
  | Some (_, u), Some (k', u') =>
      u_done u' = u_done u /\ u_new u' = u_new u /\ u_wake u' = u_wake u /\
      (exists pre, u_new u' = pre ++ u_rest u') /\ kind_ok q wc k' u'
  | _, _ => False
  end.

Lemma L1a_local q rg wc wc' cl wa wa' rc I t i' :
  L1a q rg wc cl wa rc I ->
  lists_rel q wc' (i_sk (I t)) (i_sk i') -> iwk i' = iwk (I t) ->
  (forall p, p <> t -> wc' p = wc p) -> (i_mq (I t) = true -> wa t = true -> wc' t = wc t) ->
  (forall p, p <> t -> wa' p = wa p) -> (i_mq (I t) = true -> wa t = true -> wa' t = wa t) ->
  (i_mq i' = false -> i_mq (I t) = true -> wa t = false) ->
  (forall v, i_pe i' = Some v -> i_pe (I t) = Some v) ->
  (forall o, i_pq i' = Some o -> wa' t = true /\ i_mq i' = false /\ forall v, o = Some v -> rc t = v) ->
  (i_kt i' = true -> In t q) ->
  L1a q rg wc' cl wa' rc (fupd I t i').
Proof.
  intros H HL Hwk Hwc Hwct Hwa Hwat Hleave Hpe Hpq Hkt.
  set (I' := fupd I t i').
  assert (Erl : forall x, irl (I' x) = irl (I x)).
  { intros x. unfold I'. destruct (Nat.eq_dec x t) as [->|N]; [| rewrite fupd_neq by exact N; reflexivity].
    rewrite fupd_eq. unfold irl. unfold lists_rel in HL.
    destruct (i_sk (I t)) as [[k u]|], (i_sk i') as [[k' u']|]; try contradiction; [| reflexivity].
    destruct HL as (A & B & _). rewrite A, B. reflexivity. }
  assert (Ewk : forall x, iwk (I' x) = iwk (I x)).
  { intros x. unfold I'. destruct (Nat.eq_dec x t) as [->|N]; [rewrite fupd_eq; exact Hwk | rewrite fupd_neq by exact N; reflexivity]. }
  assert (Epl : forall x, ipl (I' x) = ipl (I x)) by (intros x; unfold ipl; rewrite Erl, Ewk; reflexivity).
  assert (Em : forall p, member q I' p <-> member q I p).
  { intros p. split; (intros [A|[x A]]; [left; exact A | right; exists x]); [rewrite <- Epl | rewrite Epl]; exact A. }
  assert (Er : forall p, inring q I' p <-> inring q I p).
  { intros p. split; (intros [A|[x A]]; [left; exact A | right; exists x]); [rewrite <- Erl | rewrite Erl]; exact A. }
  assert (Hmt : member q I t -> wc' t = wc t /\ wa' t = wa t /\ i_mq i' = true).
  { intros Hm. destruct (a_m _ _ _ _ _ _ _ H t Hm) as [W1 W2]. split; [auto|]. split; [auto|].
    destruct (i_mq i') eqn:E; [reflexivity|]. rewrite (Hleave eq_refl W2) in W1. discriminate W1. }
  assert (Hwcm : forall p, member q I p -> wc' p = wc p).
  { intros p Hm. destruct (Nat.eq_dec p t) as [->|N]; [apply Hmt; exact Hm | apply Hwc; exact N]. }
  destruct H as [P1 P2 P3 M I3 PQ KT R1 R2 R3]. constructor.
  - intros x. rewrite Epl. apply P1.
  - intros t1 t2 p. rewrite !Epl. apply P2.
  - intros x p. rewrite Epl. apply P3.
  - intros p Hp. apply Em in Hp. destruct (M p Hp) as [W1 W2]. destruct (Nat.eq_dec p t) as [->|N].
    + destruct (Hmt Hp) as (_ & E2 & E3). unfold I'. rewrite fupd_eq, E2. auto.
    + unfold I'. rewrite fupd_neq, Hwa by exact N. auto.
  - intros x v. rewrite Er. unfold I'. destruct (Nat.eq_dec x t) as [->|N].
    + rewrite fupd_eq. intros E. apply I3. apply Hpe. exact E.
    + rewrite fupd_neq by exact N. apply I3.
  - intros x o. unfold I'. destruct (Nat.eq_dec x t) as [->|N].
    + rewrite fupd_eq. apply Hpq.
    + rewrite fupd_neq, Hwa by exact N. apply PQ.
  - intros x. unfold I'. destruct (Nat.eq_dec x t) as [->|N]; [rewrite fupd_eq; exact Hkt | rewrite fupd_neq by exact N; apply KT].
  - apply (RingInv_wc wc); [| exact R1]. intros x Hx. apply Hwcm. left; exact Hx.
  - intros x k u. unfold I'. destruct (Nat.eq_dec x t) as [->|N].
    + rewrite fupd_eq. intros E. unfold lists_rel in HL. rewrite E in HL.
      destruct (i_sk (I t)) as [[k0 u0]|] eqn:E0; [| contradiction].
      destruct HL as (A & B & C & D & K). destruct (R2 t k0 u0 E0) as (Q1 & Q2 & _ & _).
      assert (M0 : forall y, In y (u_done u0 ++ u_new u0) -> member q I y).
      { intros y Hy. right. exists t. unfold ipl, irl. rewrite E0. apply in_or_app. left; exact Hy. }
      rewrite A. split; [|split; [rewrite B|split; [exact D | exact K]]].
      * apply (RingInv_wc wc); [| exact Q1]. intros y Hy. apply Hwcm, M0. apply in_or_app; left; exact Hy.
      * apply (RingInv_wc wc); [| exact Q2]. intros y Hy. apply Hwcm, M0. apply in_or_app; right; exact Hy.
    + rewrite fupd_neq by exact N. intros E. destruct (R2 x k u E) as (Q1 & Q2 & Q3 & Q4).
      assert (M0 : forall y, In y (u_done u ++ u_new u) -> member q I y).
      { intros y Hy. right. exists x. unfold ipl, irl. rewrite E. apply in_or_app. left; exact Hy. }
      split; [|split; [|split; [exact Q3|]]].
      * apply (RingInv_wc wc); [| exact Q1]. intros y Hy. apply Hwcm, M0. apply in_or_app; left; exact Hy.
      * apply (RingInv_wc wc); [| exact Q2]. intros y Hy. apply Hwcm, M0. apply in_or_app; right; exact Hy.
      * destruct k; cbn [kind_ok] in *; auto.
        destruct Q4 as (p & tl & Ep & Hp). exists p, tl. split; [exact Ep|].
        rewrite Hwcm; [exact Hp|]. apply M0. destruct Q3 as [pre Epre]. apply in_or_app. right.
        rewrite Epre, Ep. apply in_elt.
  - intros p Hp. apply R3. rewrite <- Er. exact Hp.
Qed.

(* ================= (C) a thread queues its own waiter (nsync_mu_lock_slow_, nsync_mu_wait_with_deadline) ================= *)
Definition wants_empty (k : skind) (u : uscan) : Prop := k = SRel \/ (k = SRm /\ u_test u = false).

Lemma kind_ok_nonempty q wc k u : kind_ok q wc k u -> ~ wants_empty k u -> forall q', kind_ok q' wc k u.
Proof.
  intros H N q'. destruct k; cbn [kind_ok] in *; auto.
  - exfalso. apply N. left; reflexivity.
  - destruct H as [A B]. split; [exact A|]. intros T. exfalso. apply N. right; auto.
Qed.
Lemma kind_ok_empty q wc k u : kind_ok q wc k u -> kind_ok [] wc k u.
Proof. destruct k; cbn [kind_ok]; auto. intros [A B]. auto. Qed.

Lemma L1a_enq q q' rg rg' wc cl wa wa' rc I t i' :
  L1a q rg wc cl wa rc I ->
  i_mq (I t) = false -> i_sk (I t) = None -> i_wk (I t) = [] ->
  i_sk i' = None -> i_wk i' = [] ->
  (q' = q ++ [t] \/ q' = t :: q) ->
  (~ In t q -> single rg t -> RingInv wc cl rg' q' /\ frame rg rg' (t :: q)) ->
  wa' t = true -> (forall p, p <> t -> wa' p = wa p) ->
  i_mq i' = true -> (forall v, i_pe i' = Some v -> rc t = v) -> i_pq i' = None -> i_kt i' = false ->
  (forall x k u, i_sk (I x) = Some (k, u) -> ~ wants_empty k u) ->
  L1a q' rg' wc cl wa' rc (fupd I t i').
Proof.
  intros H Hmq Hsk Hwk Hsk' Hwk' Hq' Hring Hwat Hwa Hmq' Hpe' Hpq' Hkt' Hne.
  set (I' := fupd I t i').
  assert (Nm : ~ member q I t).
  { intros Hm. destruct (a_m _ _ _ _ _ _ _ H t Hm) as [_ E]. congruence. }
  assert (Ntq : ~ In t q) by (intro A; apply Nm; left; exact A).
  assert (Nti : forall x, ~ In t (ipl (I x))) by (intros x A; apply Nm; right; exists x; exact A).
  assert (Hs : single rg t).
  { apply (a_r3 _ _ _ _ _ _ _ H). intros Hr. apply Nm, member_of_inring, Hr. }
  destruct (Hring Ntq Hs) as [HR HF].
  assert (Ept : ipl (I' t) = []) by (unfold I', ipl, irl, iwk; rewrite fupd_eq, Hsk', Hwk'; reflexivity).
  assert (Ert : irl (I' t) = []) by (unfold I', irl; rewrite fupd_eq, Hsk'; reflexivity).
  assert (Ept0 : ipl (I t) = []) by (unfold ipl, irl, iwk; rewrite Hsk, Hwk; reflexivity).
  assert (Ert0 : irl (I t) = []) by (unfold irl; rewrite Hsk; reflexivity).
  assert (Eo : forall x, x <> t -> I' x = I x) by (intros x N; unfold I'; apply fupd_neq; exact N).
  assert (Epl : forall x, ipl (I' x) = ipl (I x)).
  { intros x. destruct (Nat.eq_dec x t) as [->|N]; [rewrite Ept, Ept0; reflexivity | rewrite Eo by exact N; reflexivity]. }
  assert (Erl : forall x, irl (I' x) = irl (I x)).
  { intros x. destruct (Nat.eq_dec x t) as [->|N]; [rewrite Ert, Ert0; reflexivity | rewrite Eo by exact N; reflexivity]. }
  assert (Hq'in : forall x, In x q' <-> x = t \/ In x q).
  { intros x. destruct Hq' as [-> | ->].
    - rewrite in_app_iff. simpl. intuition.
    - simpl. intuition. }
  destruct H as [P1 P2 P3 M I3 PQ KT R1 R2 R3]. constructor.
  - intros x. rewrite Epl. apply P1.
  - intros t1 t2 p. rewrite !Epl. apply P2.
  - intros x p. rewrite Epl. intros A B. apply Hq'in in B. destruct B as [->|B]; [exact (Nti x A) | exact (P3 x p A B)].
  - intros p [A|[x A]].
    + apply Hq'in in A. destruct A as [->|A].
      * unfold I'. rewrite fupd_eq. auto.
      * assert (p <> t) as N by (intro; subst; contradiction).
        rewrite Eo, Hwa by exact N. apply M. left; exact A.
    + rewrite Epl in A. assert (p <> t) as N by (intro; subst; exact (Nti x A)).
      rewrite Eo, Hwa by exact N. apply M. right; exists x; exact A.
  - intros x v. destruct (Nat.eq_dec x t) as [->|N].
    + unfold I' at 1. rewrite fupd_eq. intros E. split; [intros _; apply Hpe'; exact E|].
      intros _. left. apply Hq'in. left; reflexivity.
    + rewrite Eo by exact N. intros E. rewrite <- (I3 x v E). unfold inring.
      split; (intros [A|[y A]]; [left | right; exists y]).
      * apply Hq'in in A. destruct A as [A|A]; [congruence | exact A].
      * rewrite <- Erl; exact A.
      * apply Hq'in. right; exact A.
      * rewrite Erl; exact A.
  - intros x o. destruct (Nat.eq_dec x t) as [->|N].
    + unfold I'. rewrite fupd_eq, Hpq'. discriminate.
    + rewrite Eo, Hwa by exact N. apply PQ.
  - intros x. destruct (Nat.eq_dec x t) as [->|N].
    + unfold I'. rewrite fupd_eq, Hkt'. discriminate.
    + rewrite Eo by exact N. intros E. apply Hq'in. right. apply KT; exact E.
  - exact HR.
  - intros x k u. destruct (Nat.eq_dec x t) as [->|N]; [unfold I'; rewrite fupd_eq, Hsk'; discriminate|].
    rewrite Eo by exact N. intros E. destruct (R2 x k u E) as (Q1 & Q2 & Q3 & Q4).
    assert (D : forall y, In y (u_done u ++ u_new u) -> ~ In y (t :: q)).
    { intros y Hy [<-|B].
      - apply (Nti x). unfold ipl, irl. rewrite E. apply in_or_app; left; exact Hy.
      - apply (P3 x y); [| exact B]. unfold ipl, irl. rewrite E. apply in_or_app; left; exact Hy. }
    split; [|split; [|split; [exact Q3|]]].
    + apply (RingInv_frame' _ _ _ _ _ _ Q1 HF). intros y Hy. apply D. apply in_or_app; left; exact Hy.
    + apply (RingInv_frame' _ _ _ _ _ _ Q2 HF). intros y Hy. apply D. apply in_or_app; right; exact Hy.
    + apply (kind_ok_nonempty q); [exact Q4 | apply (Hne x); exact E].
  - intros p Hp. assert (Np : ~ inring q I p).
    { intros [A|[y A]]; apply Hp; [left; apply Hq'in; right; exact A | right; exists y; rewrite Erl; exact A]. }
    apply (single_frame rg rg' (t :: q)); [exact HF | | apply R3; exact Np].
    intros [<-|A]; [apply Hp; left; apply Hq'in; left; reflexivity | apply Np; left; exact A].
Qed.

(* ================= (E) the waker clears waiting of the first waiter of its wake list ================= *)
Lemma L1a_wake q rg wc cl wa rc I t p rest i' :
  L1a q rg wc cl wa rc I ->
  i_sk (I t) = None -> i_wk (I t) = p :: rest ->
  i_sk i' = None -> i_wk i' = rest -> i_mq i' = i_mq (I t) -> i_pe i' = i_pe (I t) -> i_pq i' = None -> i_kt i' = false ->
  L1a q rg wc cl (fupd wa p false) rc (fupd I t i').
Proof.
  intros H Hsk Hwk Hsk' Hwk' Hmq' Hpe' Hpq' Hkt'.
  set (I' := fupd I t i').
  assert (Ept0 : ipl (I t) = p :: rest) by (unfold ipl, irl, iwk; rewrite Hsk, Hwk; reflexivity).
  assert (Ept : ipl (I' t) = rest) by (unfold I', ipl, irl, iwk; rewrite fupd_eq, Hsk', Hwk'; reflexivity).
  assert (Eo : forall x, x <> t -> I' x = I x) by (intros x N; unfold I'; apply fupd_neq; exact N).
  assert (Erl : forall x, irl (I' x) = irl (I x)).
  { intros x. destruct (Nat.eq_dec x t) as [->|N]; [| rewrite Eo by exact N; reflexivity].
    unfold I', irl. rewrite fupd_eq, Hsk', Hsk. reflexivity. }
  assert (Sub : forall x y, In y (ipl (I' x)) -> In y (ipl (I x))).
  { intros x y. destruct (Nat.eq_dec x t) as [->|N]; [rewrite Ept, Ept0; intros A; right; exact A | rewrite Eo by exact N; auto]. }
  assert (Er : forall y, inring q I' y <-> inring q I y).
  { intros y. unfold inring. split; (intros [A|[x A]]; [left; exact A | right; exists x]); [rewrite <- Erl | rewrite Erl]; exact A. }
  destruct H as [P1 P2 P3 M I3 PQ KT R1 R2 R3].
  assert (Pm : In p (ipl (I t))) by (rewrite Ept0; left; reflexivity).
  assert (Np : forall y, member q I' y -> y <> p).
  { intros y [A|[x A]] ->.
    - exact (P3 t p Pm A).
    - destruct (Nat.eq_dec x t) as [->|N].
      + rewrite Ept in A. specialize (P1 t). rewrite Ept0 in P1. apply NoDup_cons_iff in P1. tauto.
      + rewrite Eo in A by exact N. apply N. exact (P2 x t p A Pm). }
  assert (Mm : forall y, member q I' y -> member q I y).
  { intros y [A|[x A]]; [left; exact A | right; exists x; apply Sub; exact A]. }
  constructor.
  - intros x. destruct (Nat.eq_dec x t) as [->|N]; [| rewrite Eo by exact N; apply P1].
    rewrite Ept. specialize (P1 t). rewrite Ept0 in P1. apply NoDup_cons_iff in P1. tauto.
  - intros t1 t2 y A B. apply (P2 t1 t2 y); apply Sub; assumption.
  - intros x y A. apply (P3 x y). apply Sub; exact A.
  - intros y Hy. rewrite fupd_neq by (apply Np; exact Hy). destruct (M y (Mm y Hy)) as [W1 W2]. split; [exact W1|].
    destruct (Nat.eq_dec y t) as [->|N]; [unfold I'; rewrite fupd_eq, Hmq'; exact W2 | rewrite Eo by exact N; exact W2].
  - intros x v. rewrite Er. destruct (Nat.eq_dec x t) as [->|N].
    + unfold I'. rewrite fupd_eq, Hpe'. apply I3.
    + rewrite Eo by exact N. apply I3.
  - intros x o. destruct (Nat.eq_dec x t) as [->|N]; [unfold I'; rewrite fupd_eq, Hpq'; discriminate|].
    rewrite Eo by exact N. intros E. destruct (PQ x o E) as (A & B & C).
    rewrite fupd_neq; [auto|]. intros ->. destruct (M p) as [_ W2]; [right; exists t; exact Pm | congruence].
  - intros x. destruct (Nat.eq_dec x t) as [->|N]; [unfold I'; rewrite fupd_eq, Hkt'; discriminate | rewrite Eo by exact N; apply KT].
  - exact R1.
  - intros x k u. destruct (Nat.eq_dec x t) as [->|N]; [unfold I'; rewrite fupd_eq, Hsk'; discriminate | rewrite Eo by exact N; apply R2].
  - intros y Hy. apply R3. rewrite <- Er. exact Hy.
Qed.

(* ================= (F) a timed-out waiter removes itself from mu->waiters ================= *)
Lemma L1a_self_remove q rg wc we cl wa rc I t v' i' :
  L1a q rg wc cl wa rc I -> In t q ->
  i_sk (I t) = None -> i_wk (I t) = [] -> i_sk i' = None -> i_wk i' = [] ->
  v' <> rc t -> i_pe i' = i_pe (I t) -> i_pq i' = None -> i_kt i' = false ->
  L1a (fst (remove_from wc we cl rg q t)) (snd (remove_from wc we cl rg q t)) wc cl wa (fupd rc t v') (fupd I t i').
Proof.
  intros H Htq Hsk Hwk Hsk' Hwk' Hv' Hpe' Hpq' Hkt'.
  destruct (ring_remove_aux wc we cl rg q t (a_r1 _ _ _ _ _ _ _ H) Htq) as (Eq' & HR & Hs & HF).
  set (q' := fst (remove_from wc we cl rg q t)) in *. set (rg' := snd (remove_from wc we cl rg q t)) in *.
  clearbody q' rg'. subst q'.
  set (I' := fupd I t i').
  assert (Eo : forall x, x <> t -> I' x = I x) by (intros x N; unfold I'; apply fupd_neq; exact N).
  assert (Epl : forall x, ipl (I' x) = ipl (I x)).
  { intros x. destruct (Nat.eq_dec x t) as [->|N]; [| rewrite Eo by exact N; reflexivity].
    unfold I', ipl, irl, iwk. rewrite fupd_eq, Hsk', Hwk', Hsk, Hwk. reflexivity. }
  assert (Erl : forall x, irl (I' x) = irl (I x)).
  { intros x. destruct (Nat.eq_dec x t) as [->|N]; [| rewrite Eo by exact N; reflexivity].
    unfold I', irl. rewrite fupd_eq, Hsk', Hsk. reflexivity. }
  destruct H as [P1 P2 P3 M I3 PQ KT R1 R2 R3].
  pose proof (RingInv_NoDup _ _ _ _ R1) as Hnd.
  assert (Nt : ~ In t (remove1 t q)) by (apply remove1_notin; exact Hnd).
  assert (Nti : forall x, ~ In t (ipl (I x))) by (intros x A; exact (P3 x t A Htq)).
  constructor.
  - intros x. rewrite Epl. apply P1.
  - intros t1 t2 p. rewrite !Epl. apply P2.
  - intros x p. rewrite Epl. intros A B. apply (P3 x p A). eapply remove1_in; exact B.
  - intros p Hp. assert (Hm : member q I p).
    { destruct Hp as [A|[x A]]; [left; eapply remove1_in; exact A | right; exists x; rewrite <- Epl; exact A]. }
    assert (N : p <> t).
    { intros ->. destruct Hp as [A|[x A]]; [exact (Nt A) | rewrite Epl in A; exact (Nti x A)]. }
    rewrite Eo by exact N. apply M; exact Hm.
  - intros x v. destruct (Nat.eq_dec x t) as [->|N].
    + unfold I' at 1. rewrite fupd_eq, Hpe', fupd_eq. intros E.
      assert (rc t = v) as Ev by (apply (I3 t v E); left; exact Htq).
      split; [| intros; congruence].
      intros [A|[y A]]; [exfalso; exact (Nt A) | exfalso; rewrite Erl in A].
      apply (Nti y). unfold ipl. apply in_or_app; left; exact A.
    + rewrite Eo, fupd_neq by exact N. intros E. rewrite <- (I3 x v E). unfold inring.
      split; (intros [A|[y A]]; [left | right; exists y]).
      * eapply remove1_in; exact A.
      * rewrite <- Erl; exact A.
      * apply remove1_in_neq; assumption.
      * rewrite Erl; exact A.
  - intros x o. destruct (Nat.eq_dec x t) as [->|N]; [unfold I'; rewrite fupd_eq, Hpq'; discriminate|].
    rewrite Eo, fupd_neq by exact N. apply PQ.
  - intros x. destruct (Nat.eq_dec x t) as [->|N]; [unfold I'; rewrite fupd_eq, Hkt'; discriminate|].
    rewrite Eo by exact N. intros E. apply remove1_in_neq; [exact N | apply KT; exact E].
  - exact HR.
  - intros x k u. destruct (Nat.eq_dec x t) as [->|N]; [unfold I'; rewrite fupd_eq, Hsk'; discriminate|].
    rewrite Eo by exact N. intros E. destruct (R2 x k u E) as (Q1 & Q2 & Q3 & Q4).
    assert (D : forall y, In y (u_done u ++ u_new u) -> ~ In y q).
    { intros y Hy. apply (P3 x y). unfold ipl, irl. rewrite E. apply in_or_app; left; exact Hy. }
    split; [|split; [|split; [exact Q3|]]].
    + apply (RingInv_frame' _ _ _ _ _ _ Q1 HF). intros y Hy. apply D. apply in_or_app; left; exact Hy.
    + apply (RingInv_frame' _ _ _ _ _ _ Q2 HF). intros y Hy. apply D. apply in_or_app; right; exact Hy.
    + destruct k; cbn [kind_ok] in *; auto.
      * subst q. destruct Htq.
      * destruct Q4 as [A B]. split; [exact A|]. intros T. rewrite (B T) in Htq. destruct Htq.
  - intros p Hp. destruct (Nat.eq_dec p t) as [->|N]; [exact Hs|].
    assert (Np : ~ inring q I p).
    { intros [A|[y A]]; apply Hp; [left; apply remove1_in_neq; assumption | right; exists y; rewrite Erl; exact A]. }
    apply (single_frame rg rg' q); [exact HF | | apply R3; exact Np]. intros A. apply Np. left; exact A.
Qed.

(* ================= (G) the scan of nsync_mu_unlock_slow_ ================= *)
(* G1: take mu->waiters as new_waiters *)
Lemma L1a_scan_start q rg wc cl wa rc I t i' u :
  L1a q rg wc cl wa rc I -> i_sk (I t) = None -> i_wk (I t) = [] ->
  i_sk i' = Some (SSpin, u) -> u_done u = [] -> u_new u = q -> u_wake u = [] -> (exists pre, q = pre ++ u_rest u) ->
  i_mq i' = i_mq (I t) -> i_pe i' = i_pe (I t) -> i_pq i' = None -> i_kt i' = false ->
  (forall x, i_kt (I x) = false) ->
  L1a [] rg wc cl wa rc (fupd I t i').
Proof.
  intros H Hsk Hwk Hsk' Hd Hn Hw Hsuf Hmq' Hpe' Hpq' Hkt' Hnokt.
  set (I' := fupd I t i').
  assert (Eo : forall x, x <> t -> I' x = I x) by (intros x N; unfold I'; apply fupd_neq; exact N).
  assert (Ept0 : ipl (I t) = []) by (unfold ipl, irl, iwk; rewrite Hsk, Hwk; reflexivity).
  assert (Ert0 : irl (I t) = []) by (unfold irl; rewrite Hsk; reflexivity).
  assert (Ept : ipl (I' t) = q) by (unfold I', ipl, irl, iwk; rewrite fupd_eq, Hsk', Hd, Hn, Hw; simpl; apply app_nil_r).
  assert (Ert : irl (I' t) = q) by (unfold I', irl; rewrite fupd_eq, Hsk', Hd, Hn; reflexivity).
  assert (Em : forall p, member [] I' p <-> member q I p).
  { intros p. split.
    - intros [[]|[x A]]. destruct (Nat.eq_dec x t) as [->|N]; [rewrite Ept in A; left; exact A | rewrite Eo in A by exact N; right; exists x; exact A].
    - intros [A|[x A]]; right; [exists t; rewrite Ept; exact A|].
      destruct (Nat.eq_dec x t) as [->|N]; [rewrite Ept0 in A; destruct A | exists x; rewrite Eo by exact N; exact A]. }
  assert (Er : forall p, inring [] I' p <-> inring q I p).
  { intros p. split.
    - intros [[]|[x A]]. destruct (Nat.eq_dec x t) as [->|N]; [rewrite Ert in A; left; exact A | rewrite Eo in A by exact N; right; exists x; exact A].
    - intros [A|[x A]]; right; [exists t; rewrite Ert; exact A|].
      destruct (Nat.eq_dec x t) as [->|N]; [rewrite Ert0 in A; destruct A | exists x; rewrite Eo by exact N; exact A]. }
  destruct H as [P1 P2 P3 M I3 PQ KT R1 R2 R3]. constructor.
  - intros x. destruct (Nat.eq_dec x t) as [->|N]; [rewrite Ept; exact (RingInv_NoDup _ _ _ _ R1) | rewrite Eo by exact N; apply P1].
  - intros t1 t2 p. destruct (Nat.eq_dec t1 t) as [->|N1], (Nat.eq_dec t2 t) as [->|N2]; auto.
    + rewrite Ept, Eo by exact N2. intros A B. exfalso. exact (P3 t2 p B A).
    + rewrite Ept, Eo by exact N1. intros B A. exfalso. exact (P3 t1 p B A).
    + rewrite !Eo by assumption. apply P2.
  - intros x p _ [].
  - intros p Hp. apply Em in Hp. destruct (M p Hp) as [W1 W2]. split; [exact W1|].
    destruct (Nat.eq_dec p t) as [->|N]; [unfold I'; rewrite fupd_eq, Hmq'; exact W2 | rewrite Eo by exact N; exact W2].
  - intros x v. rewrite Er. destruct (Nat.eq_dec x t) as [->|N]; [unfold I'; rewrite fupd_eq, Hpe' | rewrite Eo by exact N]; apply I3.
  - intros x o. destruct (Nat.eq_dec x t) as [->|N]; [unfold I'; rewrite fupd_eq, Hpq'; discriminate | rewrite Eo by exact N; apply PQ].
  - intros x. destruct (Nat.eq_dec x t) as [->|N]; [unfold I'; rewrite fupd_eq, Hkt'; discriminate | rewrite Eo, Hnokt by exact N; discriminate].
  - apply RingInv_nil.
  - intros x k u0. destruct (Nat.eq_dec x t) as [->|N].
    + unfold I'. rewrite fupd_eq, Hsk'. intros E. injection E as <- <-.
      rewrite Hd, Hn. split; [apply RingInv_nil|]. split; [exact R1|]. split; [exact Hsuf | exact Logic.I].
    + rewrite Eo by exact N. intros E. destruct (R2 x k u0 E) as (Q1 & Q2 & Q3 & Q4).
      split; [exact Q1|]. split; [exact Q2|]. split; [exact Q3|]. eapply kind_ok_empty; exact Q4.
  - intros p Hp. apply R3. rewrite <- Er. exact Hp.
Qed.

(* G3: the end of a round: merge across the boundary, append, pick up the waiters that arrived meanwhile *)
Lemma L1a_round_end q rg wc we cl wa rc I t k u i' u' :
  L1a q rg wc cl wa rc I -> i_sk (I t) = Some (k, u) ->
  i_sk i' = Some (SRel, u') -> u_done u' = u_done u ++ u_new u -> u_new u' = q -> u_rest u' = [] -> u_wake u' = u_wake u ->
  i_mq i' = i_mq (I t) -> i_pe i' = i_pe (I t) -> i_pq i' = None -> i_kt i' = false ->
  (forall x, i_kt (I x) = false) ->
  L1a [] (maybe_merge wc we cl rg (last_opt (u_done u)) (first_opt (u_new u))) wc cl wa rc (fupd I t i').
Proof.
  intros H Hsk Hsk' Hd Hn Hr Hw Hmq' Hpe' Hpq' Hkt' Hnokt.
  set (I' := fupd I t i'). set (rg' := maybe_merge wc we cl rg (last_opt (u_done u)) (first_opt (u_new u))).
  assert (Eo : forall x, x <> t -> I' x = I x) by (intros x N; unfold I'; apply fupd_neq; exact N).
  assert (Ert0 : irl (I t) = u_done u ++ u_new u) by (unfold irl; rewrite Hsk; reflexivity).
  assert (Ept0 : ipl (I t) = (u_done u ++ u_new u) ++ u_wake u) by (unfold ipl, iwk; rewrite Ert0, Hsk; reflexivity).
  assert (Ert : irl (I' t) = (u_done u ++ u_new u) ++ q) by (unfold I', irl; rewrite fupd_eq, Hsk', Hd, Hn; reflexivity).
  assert (Ept : ipl (I' t) = ((u_done u ++ u_new u) ++ q) ++ u_wake u) by (unfold ipl, iwk; rewrite Ert; unfold I'; rewrite fupd_eq, Hsk', Hw; reflexivity).
  destruct H as [P1 P2 P3 M I3 PQ KT R1 R2 R3].
  destruct (R2 t k u Hsk) as (Q1 & Q2 & Q3 & Q4).
  pose proof (P1 t) as Hnd. rewrite Ept0 in Hnd.
  assert (Hdis : forall x, In x (u_done u) -> ~ In x (u_new u)).
  { intros x A B. apply NoDup_app_l in Hnd. apply NoDup_app_inv in Hnd. destruct Hnd as (_ & _ & D). exact (D x A B). }
  destruct (ring_append wc we cl rg (u_done u) (u_new u) Q1 Q2 Hdis) as [HR HF]. fold rg' in HR, HF.
  assert (Em : forall p, member [] I' p <-> member q I p).
  { intros p. split.
    - intros [[]|[x A]]. destruct (Nat.eq_dec x t) as [->|N]; [| rewrite Eo in A by exact N; right; exists x; exact A].
      rewrite Ept in A. apply in_app_or in A. destruct A as [A|A].
      + apply in_app_or in A. destruct A as [A|A]; [right; exists t; rewrite Ept0; apply in_or_app; left; exact A | left; exact A].
      + right. exists t. rewrite Ept0. apply in_or_app; right; exact A.
    - intros [A|[x A]]; right.
      + exists t. rewrite Ept. apply in_or_app; left. apply in_or_app; right; exact A.
      + destruct (Nat.eq_dec x t) as [->|N]; [| exists x; rewrite Eo by exact N; exact A].
        exists t. rewrite Ept. rewrite Ept0 in A. apply in_app_or in A. destruct A as [A|A]; apply in_or_app; [left | right; exact A].
        apply in_or_app; left; exact A. }
  assert (Er : forall p, inring [] I' p <-> inring q I p).
  { intros p. split.
    - intros [[]|[x A]]. destruct (Nat.eq_dec x t) as [->|N]; [| rewrite Eo in A by exact N; right; exists x; exact A].
      rewrite Ert in A. apply in_app_or in A. destruct A as [A|A]; [right; exists t; rewrite Ert0; exact A | left; exact A].
    - intros [A|[x A]]; right.
      + exists t. rewrite Ert. apply in_or_app; right; exact A.
      + destruct (Nat.eq_dec x t) as [->|N]; [| exists x; rewrite Eo by exact N; exact A].
        exists t. rewrite Ert. rewrite Ert0 in A. apply in_or_app; left; exact A. }
  assert (Dq : forall x, In x q -> ~ In x (u_done u ++ u_new u)).
  { intros x A B. apply (P3 t x); [| exact A]. rewrite Ept0. apply in_or_app; left; exact B. }
  constructor.
  - intros x. destruct (Nat.eq_dec x t) as [->|N]; [| rewrite Eo by exact N; apply P1].
    rewrite Ept. apply NoDup_app_inv in Hnd. destruct Hnd as (N1 & N2 & N3).
    apply NoDup_app_intro; [| exact N2 |].
    + apply NoDup_app_intro; [exact N1 | exact (RingInv_NoDup _ _ _ _ R1) |]. intros x A B. exact (Dq x B A).
    + intros x A B. apply in_app_or in A. destruct A as [A|A]; [exact (N3 x A B)|].
      apply (P3 t x); [rewrite Ept0; apply in_or_app; right; exact B | exact A].
  - intros t1 t2 p A B.
    assert (K : forall y z, y <> t -> In z (ipl (I' t)) -> In z (ipl (I y)) -> False).
    { intros y z Ny C D. rewrite Ept in C. apply in_app_or in C. destruct C as [C|C].
      - apply in_app_or in C. destruct C as [C|C].
        + apply Ny. apply (P2 y t z D). rewrite Ept0. apply in_or_app; left; exact C.
        + exact (P3 y z D C).
      - apply Ny. apply (P2 y t z D). rewrite Ept0. apply in_or_app; right; exact C. }
    destruct (Nat.eq_dec t1 t) as [->|N1], (Nat.eq_dec t2 t) as [->|N2]; auto.
    + exfalso. rewrite Eo in B by exact N2. exact (K t2 p N2 A B).
    + exfalso. rewrite Eo in A by exact N1. exact (K t1 p N1 B A).
    + rewrite Eo in A, B by assumption. exact (P2 t1 t2 p A B).
  - intros x p _ [].
  - intros p Hp. apply Em in Hp. destruct (M p Hp) as [W1 W2]. split; [exact W1|].
    destruct (Nat.eq_dec p t) as [->|N]; [unfold I'; rewrite fupd_eq, Hmq'; exact W2 | rewrite Eo by exact N; exact W2].
  - intros x v. rewrite Er. destruct (Nat.eq_dec x t) as [->|N]; [unfold I'; rewrite fupd_eq, Hpe' | rewrite Eo by exact N]; apply I3.
  - intros x o. destruct (Nat.eq_dec x t) as [->|N]; [unfold I'; rewrite fupd_eq, Hpq'; discriminate | rewrite Eo by exact N; apply PQ].
  - intros x. destruct (Nat.eq_dec x t) as [->|N]; [unfold I'; rewrite fupd_eq, Hkt'; discriminate | rewrite Eo, Hnokt by exact N; discriminate].
  - apply RingInv_nil.
  - intros x k0 u0. destruct (Nat.eq_dec x t) as [->|N].
    + unfold I'. rewrite fupd_eq, Hsk'. intros E. injection E as <- <-.
      rewrite Hd, Hn, Hr. split; [exact HR|]. split; [| split; [exists q; symmetry; apply app_nil_r | reflexivity]].
      apply (RingInv_frame' _ _ _ _ _ _ R1 HF). exact Dq.
    + rewrite Eo by exact N. intros E. destruct (R2 x k0 u0 E) as (S1 & S2 & S3 & S4).
      assert (D : forall y, In y (u_done u0 ++ u_new u0) -> ~ In y (u_done u ++ u_new u)).
      { intros y A B. apply N. apply (P2 x t y).
        - unfold ipl, irl. rewrite E. apply in_or_app; left; exact A.
        - rewrite Ept0. apply in_or_app; left; exact B. }
      split; [|split; [|split; [exact S3 | eapply kind_ok_empty; exact S4]]].
      * apply (RingInv_frame' _ _ _ _ _ _ S1 HF). intros y Hy. apply D. apply in_or_app; left; exact Hy.
      * apply (RingInv_frame' _ _ _ _ _ _ S2 HF). intros y Hy. apply D. apply in_or_app; right; exact Hy.
  - intros p Hp. assert (Np : ~ inring q I p) by (rewrite <- Er; exact Hp).
    apply (single_frame rg rg' (u_done u ++ u_new u)); [exact HF | | apply R3; exact Np].
    intros A. apply Np. right. exists t. rewrite Ert0. exact A.
Qed.

(* G4: mu->waiters = waiters *)
Lemma L1a_finalize rg wc cl wa rc I t k u i' :
  L1a [] rg wc cl wa rc I -> i_sk (I t) = Some (k, u) -> u_new u = [] ->
  i_sk i' = None -> i_wk i' = u_wake u ->
  i_mq i' = i_mq (I t) -> i_pe i' = i_pe (I t) -> i_pq i' = None -> i_kt i' = false ->
  (forall x k' u', x <> t -> i_sk (I x) = Some (k', u') -> ~ wants_empty k' u') ->
  L1a (u_done u) rg wc cl wa rc (fupd I t i').
Proof.
  intros H Hsk Hn Hsk' Hwk' Hmq' Hpe' Hpq' Hkt' Hne.
  set (I' := fupd I t i').
  assert (Eo : forall x, x <> t -> I' x = I x) by (intros x N; unfold I'; apply fupd_neq; exact N).
  assert (Ert0 : irl (I t) = u_done u) by (unfold irl; rewrite Hsk, Hn; apply app_nil_r).
  assert (Ept0 : ipl (I t) = u_done u ++ u_wake u) by (unfold ipl, iwk; rewrite Ert0, Hsk; reflexivity).
  assert (Ert : irl (I' t) = []) by (unfold I', irl; rewrite fupd_eq, Hsk'; reflexivity).
  assert (Ept : ipl (I' t) = u_wake u) by (unfold ipl, iwk; rewrite Ert; unfold I'; rewrite fupd_eq, Hsk', Hwk'; reflexivity).
  destruct H as [P1 P2 P3 M I3 PQ KT R1 R2 R3].
  destruct (R2 t k u Hsk) as (Q1 & Q2 & Q3 & Q4).
  pose proof (P1 t) as Hnd. rewrite Ept0 in Hnd. apply NoDup_app_inv in Hnd. destruct Hnd as (N1 & N2 & N3).
  assert (Em : forall p, member (u_done u) I' p <-> member [] I p).
  { intros p. split.
    - intros [A|[x A]]; right; [exists t; rewrite Ept0; apply in_or_app; left; exact A|].
      destruct (Nat.eq_dec x t) as [->|N]; [exists t; rewrite Ept0; rewrite Ept in A; apply in_or_app; right; exact A | exists x; rewrite <- Eo by exact N; exact A].
    - intros [[]|[x A]]. destruct (Nat.eq_dec x t) as [->|N]; [| right; exists x; rewrite Eo by exact N; exact A].
      rewrite Ept0 in A. apply in_app_or in A. destruct A as [A|A]; [left; exact A | right; exists t; rewrite Ept; exact A]. }
  assert (Er : forall p, inring (u_done u) I' p <-> inring [] I p).
  { intros p. split.
    - intros [A|[x A]]; right; [exists t; rewrite Ert0; exact A|].
      destruct (Nat.eq_dec x t) as [->|N]; [rewrite Ert in A; destruct A | exists x; rewrite <- Eo by exact N; exact A].
    - intros [[]|[x A]]. destruct (Nat.eq_dec x t) as [->|N]; [left; rewrite <- Ert0; exact A | right; exists x; rewrite Eo by exact N; exact A]. }
  constructor.
  - intros x. destruct (Nat.eq_dec x t) as [->|N]; [rewrite Ept; exact N2 | rewrite Eo by exact N; apply P1].
  - intros t1 t2 p A B.
    assert (S : forall y z, In z (ipl (I' y)) -> In z (ipl (I y))).
    { intros y z. destruct (Nat.eq_dec y t) as [->|N]; [rewrite Ept, Ept0; intros C; apply in_or_app; right; exact C | rewrite Eo by exact N; auto]. }
    apply (P2 t1 t2 p); apply S; assumption.
  - intros x p A B. destruct (Nat.eq_dec x t) as [->|N].
    + rewrite Ept in A. exact (N3 p B A).
    + rewrite Eo in A by exact N. apply N. apply (P2 x t p A). rewrite Ept0. apply in_or_app; left; exact B.
  - intros p Hp. apply Em in Hp. destruct (M p Hp) as [W1 W2]. split; [exact W1|].
    destruct (Nat.eq_dec p t) as [->|N]; [unfold I'; rewrite fupd_eq, Hmq'; exact W2 | rewrite Eo by exact N; exact W2].
  - intros x v. rewrite Er. destruct (Nat.eq_dec x t) as [->|N]; [unfold I'; rewrite fupd_eq, Hpe' | rewrite Eo by exact N]; apply I3.
  - intros x o. destruct (Nat.eq_dec x t) as [->|N]; [unfold I'; rewrite fupd_eq, Hpq'; discriminate | rewrite Eo by exact N; apply PQ].
  - intros x. destruct (Nat.eq_dec x t) as [->|N]; [unfold I'; rewrite fupd_eq, Hkt'; discriminate|].
    rewrite Eo by exact N. intros E. destruct (KT x E).
  - exact Q1.
  - intros x k0 u0. destruct (Nat.eq_dec x t) as [->|N]; [unfold I'; rewrite fupd_eq, Hsk'; discriminate|].
    rewrite Eo by exact N. intros E. destruct (R2 x k0 u0 E) as (S1 & S2 & S3 & S4).
    split; [exact S1|]. split; [exact S2|]. split; [exact S3|].
    apply (kind_ok_nonempty []); [exact S4 | apply (Hne x); assumption].
  - intros p Hp. apply R3. rewrite <- Er. exact Hp.
Qed.

(* G5: the scan removes waiter e (the cursor) from new_waiters and appends it to wake *)
From Coq Require Import Permutation.

Lemma perm_move (A : Type) (d pre tl wk : list A) e :
  Permutation ((d ++ pre ++ e :: tl) ++ wk) ((d ++ pre ++ tl) ++ wk ++ [e]).
Proof.
  rewrite <- !app_assoc. apply Permutation_app_head. apply Permutation_app_head.
  change (e :: tl ++ wk) with ((e :: tl) ++ wk).
  transitivity (e :: tl ++ wk); [reflexivity|].
  rewrite (app_assoc tl wk [e]). apply Permutation_cons_append.
Qed.

Lemma L1a_scan_remove q rg wc we cl wa rc I t k u e tl v' i' u' :
  L1a q rg wc cl wa rc I -> i_sk (I t) = Some (k, u) -> u_rest u = e :: tl ->
  v' <> rc e ->
  i_sk i' = Some (SSpin, u') -> u_done u' = u_done u -> u_new u' = fst (remove_from wc we cl rg (u_new u) e) ->
  u_wake u' = u_wake u ++ [e] -> u_rest u' = tl ->
  i_mq i' = i_mq (I t) -> i_pe i' = i_pe (I t) -> i_pq i' = None -> i_kt i' = false -> i_kt (I t) = false ->
  L1a q (snd (remove_from wc we cl rg (u_new u) e)) wc cl wa (fupd rc e v') (fupd I t i').
Proof.
  intros H Hsk Hrest Hv' Hsk' Hd Hn Hw Hr Hmq' Hpe' Hpq' Hkt' Hkt0.
  destruct H as [P1 P2 P3 M I3 PQ KT R1 R2 R3].
  destruct (R2 t k u Hsk) as (Q1 & Q2 & [pre Q3] & Q4). rewrite Hrest in Q3.
  assert (Hein : In e (u_new u)) by (rewrite Q3; apply in_elt).
  destruct (ring_remove_aux wc we cl rg (u_new u) e Q2 Hein) as (Eq' & HR & Hs & HF).
  set (rg' := snd (remove_from wc we cl rg (u_new u) e)) in *. clearbody rg'.
  rewrite Eq' in Hn. clear Eq'.
  pose proof (RingInv_NoDup _ _ _ _ Q2) as Hndn. rewrite Q3 in Hndn.
  assert (Nep : ~ In e pre).
  { intros A. apply NoDup_remove_2 in Hndn. apply Hndn. apply in_or_app; left; exact A. }
  assert (Hn' : u_new u' = pre ++ tl) by (rewrite Hn, Q3; apply remove1_app; exact Nep).
  set (I' := fupd I t i').
  assert (Eo : forall x, x <> t -> I' x = I x) by (intros x N; unfold I'; apply fupd_neq; exact N).
  assert (Ert0 : irl (I t) = u_done u ++ pre ++ e :: tl) by (unfold irl; rewrite Hsk, Q3; reflexivity).
  assert (Ept0 : ipl (I t) = (u_done u ++ pre ++ e :: tl) ++ u_wake u) by (unfold ipl, iwk; rewrite Ert0, Hsk; reflexivity).
  assert (Ert : irl (I' t) = u_done u ++ pre ++ tl) by (unfold I', irl; rewrite fupd_eq, Hsk', Hd, Hn'; reflexivity).
  assert (Ept : ipl (I' t) = (u_done u ++ pre ++ tl) ++ u_wake u ++ [e]) by (unfold ipl, iwk; rewrite Ert; unfold I'; rewrite fupd_eq, Hsk', Hw; reflexivity).
  pose proof (perm_move _ (u_done u) pre tl (u_wake u) e) as Perm. rewrite <- Ept0, <- Ept in Perm.
  assert (Ein : forall x y, In y (ipl (I' x)) <-> In y (ipl (I x))).
  { intros x y. destruct (Nat.eq_dec x t) as [->|N]; [| rewrite Eo by exact N; tauto].
    split; intros A; [eapply Permutation_in; [symmetry; exact Perm | exact A] | eapply Permutation_in; [exact Perm | exact A]]. }
  assert (Hnd' : NoDup (ipl (I' t))) by (eapply Permutation_NoDup; [exact Perm | apply P1]).
  assert (Em : forall p, member q I' p <-> member q I p).
  { intros p. split; (intros [A|[x A]]; [left; exact A | right; exists x; apply Ein; exact A]). }
  assert (Ne_ring : ~ inring q I' e).
  { intros [A|[x A]].
    - apply (P3 t e); [rewrite Ept0; apply in_or_app; left; rewrite <- Ert0, Ert0; apply in_or_app; right; apply in_elt | exact A].
    - destruct (Nat.eq_dec x t) as [->|N].
      + rewrite Ert in A. rewrite Ept in Hnd'. apply NoDup_app_inv in Hnd'. destruct Hnd' as (_ & _ & D).
        apply (D e A). apply in_or_app; right; left; reflexivity.
      + rewrite Eo in A by exact N. apply N. apply (P2 x t e); [unfold ipl; apply in_or_app; left; exact A|].
        rewrite Ept0. apply in_or_app; left. apply in_or_app; right; apply in_elt. }
  assert (Er : forall p, p <> e -> (inring q I' p <-> inring q I p)).
  { intros p Np. split; (intros [A|[x A]]; [left; exact A | right; exists x]).
    - destruct (Nat.eq_dec x t) as [->|N]; [| rewrite <- Eo by exact N; exact A].
      rewrite Ert in A. rewrite Ert0. apply in_app_or in A. destruct A as [A|A]; apply in_or_app; [left; exact A | right].
      apply in_app_or in A. destruct A as [A|A]; apply in_or_app; [left; exact A | right; right; exact A].
    - destruct (Nat.eq_dec x t) as [->|N]; [| rewrite Eo by exact N; exact A].
      rewrite Ert. rewrite Ert0 in A. apply in_app_or in A. destruct A as [A|A]; apply in_or_app; [left; exact A | right].
      apply in_app_or in A. destruct A as [A|[A|A]]; apply in_or_app; [left; exact A | congruence | right; exact A]. }
  assert (Ering0 : inring q I e) by (right; exists t; rewrite Ert0; apply in_or_app; right; apply in_elt).
  assert (Dnew : forall x l, (forall y, In y l -> In y (ipl (I x))) -> (x <> t \/ (forall y, In y l -> In y (u_done u))) ->
                 forall y, In y l -> ~ In y (u_new u)).
  { intros x l Hl Hx y Hy B. destruct Hx as [N | Hdn].
    - apply N. apply (P2 x t y); [apply Hl; exact Hy|]. rewrite Ept0, <- Q3. apply in_or_app; left. apply in_or_app; right; exact B.
    - pose proof (P1 t) as Hnd. rewrite Ept0, <- Q3 in Hnd. apply NoDup_app_l in Hnd. apply NoDup_app_inv in Hnd.
      destruct Hnd as (_ & _ & D). exact (D y (Hdn y Hy) B). }
  constructor.
  - intros x. destruct (Nat.eq_dec x t) as [->|N]; [exact Hnd' | rewrite Eo by exact N; apply P1].
  - intros t1 t2 p A B. apply (P2 t1 t2 p); apply Ein; assumption.
  - intros x p A. apply (P3 x p). apply Ein; exact A.
  - intros p Hp. apply Em in Hp. destruct (M p Hp) as [W1 W2]. split; [exact W1|].
    destruct (Nat.eq_dec p t) as [->|N]; [unfold I'; rewrite fupd_eq, Hmq'; exact W2 | rewrite Eo by exact N; exact W2].
  - intros x v E.
    assert (E0 : i_pe (I x) = Some v).
    { destruct (Nat.eq_dec x t) as [->|N]; [unfold I' in E; rewrite fupd_eq, Hpe' in E; exact E | rewrite Eo in E by exact N; exact E]. }
    destruct (Nat.eq_dec x e) as [->|Nx].
    + rewrite fupd_eq. assert (rc e = v) as Ev by (apply (I3 e v E0); exact Ering0).
      split; [intros A; destruct (Ne_ring A) | intros; congruence].
    + rewrite fupd_neq, (Er x Nx) by exact Nx. apply I3; exact E0.
  - intros x o. destruct (Nat.eq_dec x t) as [->|N]; [unfold I'; rewrite fupd_eq, Hpq'; discriminate|].
    rewrite Eo by exact N. intros E. destruct (PQ x o E) as (A & B & C). rewrite fupd_neq; [auto|].
    intros ->. destruct (M e (member_of_inring _ _ _ Ering0)) as [_ W2]. congruence.
  - intros x. destruct (Nat.eq_dec x t) as [->|N]; [unfold I'; rewrite fupd_eq, Hkt'; discriminate | rewrite Eo by exact N; apply KT].
  - apply (RingInv_frame' _ _ _ _ _ _ R1 HF). intros y A B. apply (P3 t y); [| exact A].
    rewrite Ept0, <- Q3. apply in_or_app; left. apply in_or_app; right; exact B.
  - intros x k0 u0. destruct (Nat.eq_dec x t) as [->|N].
    + unfold I'. rewrite fupd_eq, Hsk'. intros E. injection E as <- <-.
      rewrite Hd, Hn, Hr. split; [|split; [exact HR | split; [exists pre; rewrite Q3; apply remove1_app; exact Nep | exact Logic.I]]].
      apply (RingInv_frame' _ _ _ _ _ _ Q1 HF).
      apply (Dnew t (u_done u)); [| right; auto].
      intros y Hy. rewrite Ept0. apply in_or_app; left. apply in_or_app; left; exact Hy.
    + rewrite Eo by exact N. intros E. destruct (R2 x k0 u0 E) as (S1 & S2 & S3 & S4).
      split; [|split; [|split; [exact S3 | exact S4]]].
      * apply (RingInv_frame' _ _ _ _ _ _ S1 HF). apply (Dnew x (u_done u0)); [| left; exact N].
        intros y Hy. unfold ipl, irl. rewrite E. apply in_or_app; left. apply in_or_app; left; exact Hy.
      * apply (RingInv_frame' _ _ _ _ _ _ S2 HF). apply (Dnew x (u_new u0)); [| left; exact N].
        intros y Hy. unfold ipl, irl. rewrite E. apply in_or_app; left. apply in_or_app; right; exact Hy.
  - intros p Hp. destruct (Nat.eq_dec p e) as [->|Np]; [exact Hs|].
    assert (Np' : ~ inring q I p) by (rewrite <- (Er p Np); exact Hp).
    apply (single_frame rg rg' (u_new u)); [exact HF | | apply R3; exact Np'].
    intros A. apply Np'. right. exists t. rewrite Ert0, <- Q3. apply in_or_app; right; exact A.
Qed.
