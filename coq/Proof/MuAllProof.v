(* MuAllProof: proofs about Model/MuAllModel.v (MuWaitModel + the part of cv.c that works on the mutex).

   Part 1  facts about MuWaitModel.step needed by the wrapper: a step of thread t leaves the other threads' states alone;
           an unlock call (entered at UlFast) that has returned to Idle has given up the lock bits.
   Part 2  per-site lemmas for wake_waiters' two CASes on the mutex word (the GENERATED wake_waiters_cas1_new and the
           3-argument wake_waiters_cas2_new of Gen/Sites.v): they preserve the lock bits (SL) and take / give back the
           spinlock bit; their effect on MU_ALL_FALSE.
   Part 3  the invariant AInv = MuWaitProof's FInv of the mutex component (reused VERBATIM: every mu.c / mu_wait.c step is
           MuWaitModel.step, so Proof/MuWaitProof.v's step_finv applies) + the coupling between a thread's wrapper pc and
           its MuWaitModel state; preserved by every step of the wrapper.
   Part 4  C06a: word_agrees, exclusion, evaluation under the lock, in every reachable world of MuAllModel. *)
From NsyncBase Require Import CSem.
From NsyncGen Require Import Consts Sites.
From NsyncModel Require Import MuWaitModel MuWaitSpec MuAllModel.
From NsyncProof Require Import WordView MuWaitProof.
From Coq Require Import List ZArith Bool Lia PeanoNat.
Import ListNotations.
Local Open Scope Z_scope.

Ltac Zify.zify_post_hook ::= Z.div_mod_to_equations.

(* ================================================================== *)
(* Part 1: MuWaitModel.step, seen from outside                          *)
(* ================================================================== *)
Lemma length_set_t w t s : length (thr (set_t w t s)) = length (thr w).
Proof. unfold set_t, set_thr; cbn [thr]. apply length_lupd. Qed.
Lemma get_set_t w t s : (t < length (thr w))%nat -> get (set_t w t s) t = s.
Proof. intros H. unfold get, set_t, set_thr; cbn [thr]. now apply nth_lupd_same. Qed.
Lemma get_set_t_other w t t' s : t' <> t -> get (set_t w t s) t' = get w t'.
Proof. intros H. unfold get, set_t, set_thr; cbn [thr]. now apply nth_lupd_other. Qed.

(* a step of thread t does not touch the state of another thread *)
Lemma step_thr_other n (Hn : Z.of_nat n < 16777215) w t c t' :
  Inv n w -> t' <> t -> get (fst (step_thr w t c)) t' = get w t'.
Proof.
  intros HI N. destruct (step_thr_ok n Hn w t c HI) as (_ & _ & _ & E).
  rewrite (E t' N). now apply begin_op_get_other.
Qed.
Lemma step_other n (Hn : Z.of_nat n < 16777215) w a t' :
  Inv n w -> (forall c, a <> Thr t' c) -> get (fst (step w a)) t' = get w t'.
Proof.
  intros HI N. destruct a as [t c|dt| |p]; cbn [step].
  - apply (step_thr_other n Hn); [exact HI | intros ->; exact (N c eq_refl)].
  - destruct (0 <=? dt); reflexivity.
  - reflexivity.
  - destruct (note w); reflexivity.
Qed.

(* the pcs of an unlock call: nsync_mu_unlock / nsync_mu_runlock, nsync_mu_unlock_slow_ with its scan, the wake-ups *)
Definition ufam (p : pc) : bool :=
  match p with
  | UlFast _ | UlLoad _ | UlCas2 _ _ | UsLoad _ | UsCasRel _ _ | UsCasSpin _ _
  | RelLoad (KScan _ _) _ | RelCas (KScan _ _) _ | SpinLoad (KScan _ _) _ | SpinCas (KScan _ _) _
  | RmLoad (KScan _ _) | RmCas (KScan _ _) _ | UsEval _ _ | UsRelLoad _ _ _ | UsRelCas _ _ _
  | UsWakeStore _ _ | UsWakeV _ _ _ | Crash _ => true
  | _ => false
  end.

Lemma inner_ufam w m : forall rest u, match inner w m u rest with InPc p => ufam p = true | InEnd _ => True end.
Proof.
  induction rest as [|p tl IH]; intros u; cbn [inner]; [exact I|].
  destruct (u_wty u) as [[|]|]; try exact I;
    (destruct (wcond w p); [destruct (u_test u); reflexivity | destruct (wakeable w u p); [reflexivity | apply IH]]).
Qed.
Lemma scan_from_ufam m : forall fuel w u, ufam (snd (scan_from fuel w m u)) = true.
Proof.
  induction fuel as [|f IH]; intros w u; cbn [scan_from]; [reflexivity|].
  destruct (u_new u) as [|p rest] eqn:En; [reflexivity|].
  destruct (adjust_test w u p); [reflexivity|].
  match goal with |- context [inner w m ?u1 ?r] => pose proof (inner_ufam w m r u1) as K; destruct (inner w m u1 r) as [p0|u2] end.
  - exact K.
  - destruct (round_end w (end_inner_set u2)) as [w2 u3]. apply IH.
Qed.
Lemma after_inner_ufam w m r :
  match r with InPc p => ufam p = true | InEnd _ => True end -> ufam (snd (after_inner w m r)) = true.
Proof.
  destruct r as [p|u]; cbn [after_inner]; [intros H; exact H | intros _].
  destruct (u_test (end_inner_set u)); [reflexivity|].
  destruct (round_end w (end_inner_set u)) as [w2 u3]. apply scan_from_ufam.
Qed.

(* state of thread t after the usual update chains *)
Lemma get_set_pc w t p : (t < length (thr w))%nat ->
  get (set_pc w t p) t = mk_t p (t_ops (get w t)) (held (get w t)) (conv (get w t)) (spin (get w t)) (mw (get w t)) (last_ret (get w t)).
Proof. intros H. unfold set_pc. now apply get_set_t. Qed.
Lemma get_set_own w t h c sp : (t < length (thr w))%nat ->
  get (set_own w t h c sp) t = mk_t (t_pc (get w t)) (t_ops (get w t)) h c sp (mw (get w t)) (last_ret (get w t)).
Proof. intros H. unfold set_own. now apply get_set_t. Qed.
Lemma length_set_pc w t p : length (thr (set_pc w t p)) = length (thr w).
Proof. unfold set_pc. apply length_set_t. Qed.
Lemma length_set_own w t h c sp : length (thr (set_own w t h c sp)) = length (thr w).
Proof. unfold set_own. apply length_set_t. Qed.

(* what matters of a thread state for the lemma below *)
Definition ustate (s : tstate) : Prop :=
  (ufam (t_pc s) = true /\ mw s = None) \/ (t_pc s = Idle /\ held s = None /\ mw s = None).

Lemma ustate_set_pc w t p : (t < length (thr w))%nat -> mw (get w t) = None -> ufam p = true -> ustate (get (set_pc w t p) t).
Proof. intros H M U. rewrite get_set_pc by exact H. left. cbn [t_pc mw]. auto. Qed.

Lemma ret_unlock_ustate w t : (t < length (thr w))%nat -> mw (get w t) = None -> held (get w t) = None ->
  ustate (get (ret_unlock w t) t).
Proof.
  intros H M Hh. unfold ret_unlock. rewrite M. rewrite get_set_pc by exact H. right. cbn [t_pc held mw]. auto.
Qed.

Lemma cas_thr w a b : thr (fst (cas w a b)) = thr w.
Proof. unfold cas. destruct (word w =? a); reflexivity. Qed.
Lemma cas_get w a b t : get (fst (cas w a b)) t = get w t.
Proof. unfold get. now rewrite cas_thr. Qed.

(* An unlock call stays inside the unlock pcs until it returns, and when it has returned (pc Idle) the thread owns no lock
   bits.  (The wrapper needs the second half to re-enter the mutex after a cv wait: nsync_mu_lock / lock_slow start from
   "owns nothing".) *)
Lemma unlock_progress w t c :
  ufam (t_pc (get w t)) = true -> mw (get w t) = None ->
  (forall m u, t_pc (get w t) = UsWakeStore m u \/ (exists p, t_pc (get w t) = UsWakeV m p u) -> held (get w t) = None) ->
  ustate (get (fst (step_thr w t c)) t).
Proof.
  intros U M HW.
  assert (t < length (thr w))%nat as Ht.
  { destruct (Nat.lt_ge_cases t (length (thr w))) as [|G]; [assumption|]. rewrite (get_oob w t G) in U. discriminate U. }
  assert (begin_op w t = w) as Eb.
  { unfold begin_op. destruct (t_pc (get w t)); try reflexivity. discriminate U. }
  unfold step_thr. rewrite Eb. cbv zeta.
  assert (forall (P : world -> Prop), P w -> P w) as _ by auto.
  destruct (t_pc (get w t)) eqn:Ep; try discriminate U.
  - (* RelLoad *) destruct k; try discriminate U. cbn [fst]. now apply ustate_set_pc.
  - (* RelCas *) destruct k; try discriminate U.
    destruct (cas w old (mu_release_spinlock_cas1_new old)) as [w1 ok] eqn:Ec.
    assert (thr w1 = thr w) as T1 by (change w1 with (fst (w1, ok)); rewrite <- Ec; apply cas_thr).
    destruct ok.
    + match goal with |- context [after_inner ?w2 m ?r] =>
        pose proof (after_inner_ufam w2 m r) as K; pose proof (after_inner_wt w2 m r) as [_ T3];
        destruct (after_inner w2 m r) as [w3 p] end.
      cbn [fst snd] in *.
      assert (length (thr w3) = length (thr w)) as L3 by (rewrite T3; unfold set_spin; rewrite length_set_own, T1; reflexivity).
      assert (mw (get w3 t) = None) as M3.
      { unfold get. rewrite T3. fold (get (set_spin w1 t false) t). unfold set_spin. rewrite get_set_own by (rewrite T1; exact Ht).
        cbn [mw]. unfold get. rewrite T1. exact M. }
      apply ustate_set_pc; [rewrite L3; exact Ht | exact M3 | apply K, inner_ufam].
    + cbn [fst]. apply ustate_set_pc; [rewrite T1; exact Ht | unfold get; rewrite T1; exact M | reflexivity].
  - (* SpinLoad *) destruct k; try discriminate U.
    destruct (nsync_spin_test_and_set_cas1_guard (word w) MU_SPINLOCK); cbn [fst]; now apply ustate_set_pc.
  - (* SpinCas *) destruct k; try discriminate U. cbn [spin_set].
    destruct (cas w old (nsync_spin_test_and_set_cas1_new old MU_SPINLOCK 0)) as [w1 ok] eqn:Ec.
    assert (thr w1 = thr w) as T1 by (change w1 with (fst (w1, ok)); rewrite <- Ec; apply cas_thr).
    destruct ok.
    + destruct (round_end (set_spin w1 t true) u) as [w3 u3] eqn:Er.
      assert (thr w3 = thr (set_spin w1 t true)) as T3 by (change w3 with (fst (w3, u3)); rewrite <- Er; reflexivity).
      pose proof (scan_from_ufam m 3 w3 u3) as K. pose proof (scan_from_wt m 3 w3 u3) as [_ T4].
      destruct (scan_from 3 w3 m u3) as [w4 p]. cbn [fst snd] in *.
      assert (length (thr w4) = length (thr w)) as L4 by (rewrite T4, T3; unfold set_spin; rewrite length_set_own, T1; reflexivity).
      apply ustate_set_pc; [rewrite L4; exact Ht | | exact K].
      unfold get. rewrite T4, T3. fold (get (set_spin w1 t true) t). unfold set_spin. rewrite get_set_own by (rewrite T1; exact Ht).
      cbn [mw]. unfold get. rewrite T1. exact M.
    + cbn [fst]. apply ustate_set_pc; [rewrite T1; exact Ht | unfold get; rewrite T1; exact M | reflexivity].
  - (* RmLoad *) destruct k; try discriminate U. cbn [fst]. now apply ustate_set_pc.
  - (* RmCas *) destruct k; try discriminate U.
    destruct (rcount w (hd t (u_rest u)) =? oldv).
    + match goal with |- context [remove_from ?a ?b ?c0 ?d ?e ?f] => destruct (remove_from a b c0 d e f) as [nl rg] end.
      match goal with |- context [after_inner ?w2 m ?r] =>
        pose proof (after_inner_ufam w2 m r) as K; pose proof (after_inner_wt w2 m r) as [_ T3];
        destruct (after_inner w2 m r) as [w3 p] end.
      cbn [fst snd] in *. cbn [thr set_rings set_rcount] in T3.
      apply ustate_set_pc; [rewrite T3; exact Ht | unfold get; rewrite T3; exact M | apply K, inner_ufam].
    + cbn [fst]. now apply ustate_set_pc.
  - (* UlFast *)
    destruct (cas w (ufast_old m) (ufast_new m)) as [w1 ok] eqn:Ec.
    assert (thr w1 = thr w) as T1 by (change w1 with (fst (w1, ok)); rewrite <- Ec; apply cas_thr).
    destruct ok; cbn [fst].
    + unfold released, set_held. rewrite get_set_own by (rewrite length_set_pc, T1; exact Ht). right. cbn [t_pc held mw].
      rewrite get_set_pc by (rewrite T1; exact Ht). cbn [t_pc mw]. unfold get. rewrite T1. auto.
    + apply ustate_set_pc; [rewrite T1; exact Ht | unfold get; rewrite T1; exact M | reflexivity].
  - (* UlLoad *)
    destruct (unlock_try_cas2 m (word w)); [| destruct (unlock_bad m (word w))]; cbn [fst]; now apply ustate_set_pc.
  - (* UlCas2 *)
    destruct (cas w old (unlock_new2 m old)) as [w1 ok] eqn:Ec.
    assert (thr w1 = thr w) as T1 by (change w1 with (fst (w1, ok)); rewrite <- Ec; apply cas_thr).
    destruct ok; cbn [fst].
    + unfold released, set_held. rewrite get_set_own by (rewrite length_set_pc, T1; exact Ht). right. cbn [t_pc held mw].
      rewrite get_set_pc by (rewrite T1; exact Ht). cbn [t_pc mw]. unfold get. rewrite T1. auto.
    + apply ustate_set_pc; [rewrite T1; exact Ht | unfold get; rewrite T1; exact M | reflexivity].
  - (* UsLoad *)
    destruct (nsync_mu_unlock_slow_cas1_guard (word w)); [| destruct (nsync_mu_unlock_slow_cas2_guard (word w))]; cbn [fst];
      try (now apply ustate_set_pc). left. rewrite Ep. auto.
  - (* UsCasRel *)
    destruct (cas w old (nsync_mu_unlock_slow_cas1_new old (lt_of m))) as [w1 ok] eqn:Ec.
    assert (thr w1 = thr w) as T1 by (change w1 with (fst (w1, ok)); rewrite <- Ec; apply cas_thr).
    destruct ok; cbn [fst].
    + unfold released, set_held.
      apply ret_unlock_ustate; [rewrite length_set_own, T1; exact Ht | |];
        rewrite get_set_own by (rewrite T1; exact Ht); cbn [mw held]; [unfold get; rewrite T1; exact M | reflexivity].
    + apply ustate_set_pc; [rewrite T1; exact Ht | unfold get; rewrite T1; exact M | reflexivity].
  - (* UsCasSpin *)
    match goal with |- context [cas w old ?nw] => destruct (cas w old nw) as [w1 ok] eqn:Ec end.
    assert (thr w1 = thr w) as T1 by (change w1 with (fst (w1, ok)); rewrite <- Ec; apply cas_thr).
    destruct ok.
    + match goal with |- context [scan_from 3 ?w2 m ?u2] =>
        pose proof (scan_from_ufam m 3 w2 u2) as K; pose proof (scan_from_wt m 3 w2 u2) as [_ T3];
        destruct (scan_from 3 w2 m u2) as [w3 p] end.
      cbn [fst snd] in *. cbn [thr set_queue] in T3.
      assert (length (thr w3) = length (thr w) /\ mw (get w3 t) = None) as [L3 M3].
      { unfold get. rewrite T3. destruct (has old MU_CONDITION);
          (split; [rewrite length_set_own, T1; reflexivity |]);
          match goal with |- mw (nth t (thr (set_own ?a t ?b ?c0 ?d)) dflt_t) = None => fold (get (set_own a t b c0 d) t) end;
          rewrite get_set_own by (rewrite T1; exact Ht); cbn [mw]; unfold get; rewrite T1; exact M. }
      apply ustate_set_pc; [rewrite L3; exact Ht | exact M3 | exact K].
    + cbn [fst]. apply ustate_set_pc; [rewrite T1; exact Ht | unfold get; rewrite T1; exact M | reflexivity].
  - (* UsEval *)
    destruct (u_rest u) as [|p tl]; [cbn [fst]; now apply ustate_set_pc|].
    destruct (wcond w p) as [[f a]|]; [| cbn [fst]; now apply ustate_set_pc].
    match goal with |- context [after_inner ?w2 m ?r] =>
      pose proof (after_inner_ufam w2 m r) as K; pose proof (after_inner_wt w2 m r) as [_ T3];
      destruct (after_inner w2 m r) as [w3 p'] end.
    cbn [fst snd] in *. cbn [thr log_eval add_ev] in T3.
    apply ustate_set_pc; [rewrite T3; exact Ht | unfold get; rewrite T3; exact M |].
    apply K. destruct (pst w f a); [destruct (wakeable _ u p); [reflexivity | apply inner_ufam] | apply inner_ufam].
  - (* UsRelLoad *) cbn [fst]. now apply ustate_set_pc.
  - (* UsRelCas *)
    match goal with |- context [cas w old ?nw] => destruct (cas w old nw) as [w1 ok] eqn:Ec end.
    assert (thr w1 = thr w) as T1 by (change w1 with (fst (w1, ok)); rewrite <- Ec; apply cas_thr).
    destruct ok; cbn [fst].
    + destruct (wake u).
      * apply ret_unlock_ustate; [rewrite length_set_own, T1; exact Ht | |];
          rewrite get_set_own by (rewrite T1; exact Ht); cbn [mw held]; [unfold get; rewrite T1; exact M | reflexivity].
      * apply ustate_set_pc; [rewrite length_set_own, T1; exact Ht | | reflexivity].
        rewrite get_set_own by (rewrite T1; exact Ht). cbn [mw]. unfold get; rewrite T1; exact M.
    + apply ustate_set_pc; [rewrite T1; exact Ht | unfold get; rewrite T1; exact M | reflexivity].
  - (* UsWakeStore *)
    assert (held (get w t) = None) as Hh by (apply (HW m u); left; reflexivity).
    destruct (wake u); cbn [fst]; [now apply ret_unlock_ustate | now apply ustate_set_pc].
  - (* UsWakeV *)
    assert (held (get w t) = None) as Hh by (apply (HW m u); right; exists p; reflexivity).
    destruct (wake u); cbn [fst]; [now apply ret_unlock_ustate | now apply ustate_set_pc].
  - (* Crash *) cbn [fst]. left. rewrite Ep. auto.
Qed.

(* ================================================================== *)
(* Part 2: wake_waiters' sites on the mutex word                        *)
(* ================================================================== *)
Lemma wake_cas1_eq old :
  wake_waiters_cas1_new old = wrap_u 32 (Z.land (wrap_u 32 (Z.lor (wrap_u 32 (Z.lor old 2)) 4)) (4294967295 - 128)).
Proof. reflexivity. Qed.
Lemma wake_cas2_eq old s c :
  wake_waiters_cas2_new old s c = wrap_u 32 (Z.land (wrap_u 32 (Z.lor old s)) (4294967295 - c)).
Proof. reflexivity. Qed.

Lemma has_spin_b1 old : has old MU_SPINLOCK = false -> b1 old = 0.
Proof.
  unfold has, band. change MU_SPINLOCK with 2. intros H. apply negb_false_iff, Z.eqb_eq in H.
  rewrite b1_testbit. assert (Z.testbit (Z.land old 2) 1 = false) as T by (rewrite H; reflexivity).
  rewrite Z.land_spec in T. change (Z.testbit 2 1) with true in T. rewrite andb_true_r in T. now rewrite T.
Qed.

(* the acquiring CAS: (old | MU_SPINLOCK | MU_WAITING) & ~MU_ALL_FALSE keeps the lock bits and takes the spinlock *)
Lemma wake_cas1_Vset old : rng old -> Vset old (wake_waiters_cas1_new old).
Proof.
  intros R. rewrite wake_cas1_eq.
  pose proof (Vset_wlor old old 2 (SL_refl old R) smallS_2) as A.
  eapply Vset_V; [exact A|]. apply V_wland; [| exact small3_128]. apply V_wlor; [| exact small3_4].
  apply V_refl. destruct A as [(Ry & _) _]. exact Ry.
Qed.
Lemma wake_cas1_trans old h : rng old -> b1 old = 0 -> trans old h false (wake_waiters_cas1_new old) h true.
Proof. intros R B. apply trans_Vset; [exact B | now apply wake_cas1_Vset]. Qed.
Lemma wake_cas1_SL old : rng old -> SL old (wake_waiters_cas1_new old).
Proof. intros R. exact (proj1 (wake_cas1_Vset old R)). Qed.

(* the releasing CAS of the F15 repair: (old | set_on_release) & ~clear_on_release, for the values wake_waiters computes *)
Lemma wake_cas2_Vclr old s c : rng old -> small3 s -> smallS c -> Vclr old (wake_waiters_cas2_new old s c).
Proof.
  intros R S C. rewrite wake_cas2_eq. apply Vclr_wland; [| exact C]. apply V_SL, V_wlor; [now apply V_refl | exact S].
Qed.
Lemma wake_cas2_trans old s c h : rng old -> small3 s -> smallS c -> trans old h true (wake_waiters_cas2_new old s c) h false.
Proof. intros. now apply trans_Vclr, wake_cas2_Vclr. Qed.
Lemma wake_cas2_SL old s c : rng old -> small3 s -> smallS c -> SL old (wake_waiters_cas2_new old s c).
Proof. intros R S C. exact (proj1 (wake_cas2_Vclr old s c R S C)). Qed.

Lemma small3_ww : small3 MU_WRITER_WAITING. Proof. exact small3_32. Qed.
Lemma smallS_spin : smallS MU_SPINLOCK. Proof. exact smallS_2. Qed.
Lemma smallS_spin_waiting : smallS (bor MU_SPINLOCK MU_WAITING). Proof. sm3. Qed.

(* what xfer computes for set_on_release *)
Lemma xfer_set_small ty nm fca wk : small3 (snd (xfer ty nm fca wk)).
Proof.
  unfold xfer. destruct wk as [|first rest]; [exact small3_0|].
  destruct (xfer_rest ty nm fca (mode_eqb (ty first) W) rest (if fca then mode_eqb (ty first) W else false)
              (if fca then false else negb (mode_eqb (ty first) W))) as [[[m s] a] b].
  cbn [snd]. destruct (a && negb b); [exact small3_ww | exact small3_0].
Qed.

(* MU_ALL_FALSE: the acquiring CAS clears it (a transferred waiter has no condition), the releasing CAS keeps it *)
Lemma af_wake_cas1 old : has (wake_waiters_cas1_new old) MU_ALL_FALSE = false.
Proof.
  rewrite has_af, wake_cas1_eq, af_wrap, af_land.
  replace (af (4294967295 - 128)) with false by (symmetry; now vm_compute). apply andb_false_r.
Qed.
Lemma af_wake_cas2 old s c : (s = 0 \/ s = MU_WRITER_WAITING) -> (c = MU_SPINLOCK \/ c = bor MU_SPINLOCK MU_WAITING) ->
  has (wake_waiters_cas2_new old s c) MU_ALL_FALSE = has old MU_ALL_FALSE.
Proof.
  intros Hs Hc. rewrite !has_af, wake_cas2_eq, af_wrap, af_land, af_wrap, af_lor.
  assert (af s = false) as -> by (destruct Hs as [->| ->]; now vm_compute).
  assert (af (4294967295 - c) = true) as -> by (destruct Hc as [->| ->]; now vm_compute).
  now rewrite orb_false_r, andb_true_r.
Qed.
(* ... and MU_WAITING: set by the acquiring CAS; the releasing CAS takes it back exactly when told to (F15) *)
Lemma waiting_wake_cas1 old : has (wake_waiters_cas1_new old) MU_WAITING = true.
Proof.
  unfold has, band. rewrite wake_cas1_eq. change MU_WAITING with 4. apply negb_true_iff, Z.eqb_neq. intros E.
  assert (Z.testbit (Z.land (wrap_u 32 (Z.land (wrap_u 32 (Z.lor (wrap_u 32 (Z.lor old 2)) 4)) (4294967295 - 128))) 4) 2 = false) as T
    by (rewrite E; reflexivity).
  rewrite Z.land_spec in T. change (Z.testbit 4 2) with true in T. rewrite andb_true_r in T.
  unfold wrap_u in T. change (2 ^ 32) with (2 ^ 32) in T.
  rewrite Z.mod_pow2_bits_low in T by lia. rewrite Z.land_spec in T.
  rewrite Z.mod_pow2_bits_low in T by lia. rewrite Z.lor_spec in T.
  change (Z.testbit 4 2) with true in T. rewrite orb_true_r in T.
  change (Z.testbit (4294967295 - 128) 2) with true in T. discriminate T.
Qed.

(* ================================================================== *)
(* Part 3: the invariant of the wrapper                                 *)
(* ================================================================== *)
Definition wk_ok (k : kl) : Prop := small3 (k_set k) /\ smallS (k_clr k).

(* coupling between the wrapper pc of a thread and its MuWaitModel state *)
Definition cplP (p : apc) (s : tstate) : Prop :=
  match p with
  | AIdle | ACrash _ | AwReacq _ => True
  | AwUnlock _ => ufam (t_pc s) = true /\ mw s = None
  | AwStore m | AwLoadMu m => t_pc s = Idle /\ held s = Some m
  | AwEnq l => t_pc s = Idle /\ held s = Some (w_lm l)
  | AwLoop _ | AwSem _ | AwLoad6 _ | AwConfirm _ | AwLoad13 _ => t_pc s = Idle /\ held s = None
  | AvLoad1 k => t_pc s = Idle /\ k_wake k <> []
  | AvCas1 k old => t_pc s = Idle /\ has old MU_SPINLOCK = false /\ k_wake k <> []
  | AvLoad3 k | AvCas2 k _ | AvLoad5 k => t_pc s = parked /\ spin s = true /\ conv s = false /\ mw s = None /\ wk_ok k
  | AkLoad _ | AkSelect _ | AvStore _ | AvV _ _ | AnEnq | AnLoop | AnSem | AnDeq | AnSpin => t_pc s = Idle
  end.
Definition cpl (aw : aworld) (t : nat) : Prop := cplP (a_pc (aget aw t)) (get (mu aw) t).

Definition AInv (n : nat) (aw : aworld) : Prop :=
  FInv n (mu aw) /\ length (athr aw) = n /\ forall t, cpl aw t.

Lemma AInv_ext n aw aw' : mu aw' = mu aw -> athr aw' = athr aw -> AInv n aw -> AInv n aw'.
Proof.
  intros E1 E2 (A & B & C). unfold AInv, cpl, aget. rewrite E1, E2. auto.
Qed.

Lemma aget_active aw t : a_pc (aget aw t) <> AIdle -> (t < length (athr aw))%nat.
Proof.
  intros H. destruct (Nat.lt_ge_cases t (length (athr aw))) as [|G]; [assumption|].
  exfalso. apply H. unfold aget. now rewrite nth_overflow.
Qed.
Lemma aget_set_apc aw t p : (t < length (athr aw))%nat -> a_pc (aget (set_apc aw t p) t) = p.
Proof. intros H. unfold set_apc, set_at, aget at 1; cbn [athr]. now rewrite nth_lupd_same. Qed.
Lemma aget_set_apc_other aw t p t' : t' <> t -> aget (set_apc aw t p) t' = aget aw t'.
Proof. intros H. unfold set_apc, set_at, aget at 1; cbn [athr]. now rewrite nth_lupd_other. Qed.

Lemma FInv_wt n w w' : wt_eq w w' -> FInv n w -> FInv n w'.
Proof.
  intros [E1 E2] [HI HF]. split.
  - unfold Inv. rewrite E1, E2. exact HI.
  - intros t old H. unfold get in H. rewrite E2 in H. rewrite E1. exact (HF t old H).
Qed.
Lemma wt_get w w' t : wt_eq w w' -> get w' t = get w t.
Proof. intros [_ E]. unfold get. now rewrite E. Qed.

(* thread t's slot and possibly the word change *)
Lemma FInv_upd n w w' t s' :
  FInv n w -> (t < n)%nat -> thr w' = lupd (thr w) t s' -> pc_ok s' ->
  trans (word w) (held (get w t)) (spin (get w t)) (word w') (held s') (spin s') ->
  frozen_old (t_pc s') = None ->
  (word w' = word w \/ forall t' old, t' <> t -> frozen_old (t_pc (get w t')) <> Some old) ->
  FInv n w'.
Proof.
  intros [HI HF] Ht Et Hpc Htr Hfo Hw. split.
  - unfold Inv. rewrite Et. apply (InvL_upd n (word w)); assumption.
  - intros t' old H. unfold get in H. rewrite Et in H.
    destruct (Nat.eq_dec t' t) as [->|N].
    + rewrite nth_lupd_same in H by (destruct HI as (L & _); lia). congruence.
    + rewrite nth_lupd_other in H by exact N. destruct Hw as [E|E].
      * rewrite E. exact (HF t' old H).
      * exfalso. exact (E t' old N H).
Qed.

Lemma AInv_close n aw aw' t :
  AInv n aw -> FInv n (mu aw') -> length (athr aw') = length (athr aw) ->
  (forall t', t' <> t -> aget aw' t' = aget aw t' /\ get (mu aw') t' = get (mu aw) t') ->
  cpl aw' t -> AInv n aw'.
Proof.
  intros (A & B & C) F L Fr Ct. split; [exact F|]. split; [congruence|].
  intros t'. destruct (Nat.eq_dec t' t) as [->|N]; [exact Ct|].
  destruct (Fr t' N) as [E1 E2]. unfold cpl. rewrite E1, E2. apply C.
Qed.

(* the common shape of a wrapper step: new mutex component X, new wrapper pc p for thread t *)
Lemma close_apc n aw t p X :
  AInv n aw -> (t < length (athr aw))%nat -> FInv n X -> (forall t', t' <> t -> get X t' = get (mu aw) t') ->
  cplP p (get X t) -> AInv n (set_apc (set_mu aw X) t p).
Proof.
  intros H Ht F Fr C. apply (AInv_close n aw _ t H).
  - exact F.
  - unfold set_apc, set_at; cbn [athr set_mu]. apply length_lupd.
  - intros t' N. split; [now rewrite aget_set_apc_other | apply Fr, N].
  - unfold cpl. rewrite aget_set_apc by exact Ht. exact C.
Qed.
(* ... when only fields other than the word and the thread states change *)
Lemma close_wt n aw t p X :
  AInv n aw -> (t < length (athr aw))%nat -> wt_eq (mu aw) X -> cplP p (get (mu aw) t) -> AInv n (set_apc (set_mu aw X) t p).
Proof.
  intros H Ht E C. apply close_apc; [exact H | exact Ht | | |].
  - apply (FInv_wt n (mu aw)); [exact E | apply H].
  - intros t' _. now apply wt_get.
  - rewrite (wt_get _ _ t E). exact C.
Qed.

Lemma bump_all_wt nm inc : forall l w, wt_eq w (bump_all nm inc w l).
Proof.
  induction l as [|p r IH]; intros w; cbn [bump_all]; [split; reflexivity|].
  destruct (nm p); [apply IH|]. destruct (IH (set_rcount w p (inc (rcount w p)))) as [A B]. split; [exact A | exact B].
Qed.

Lemma lupd_oob {A} (l : list A) k v : (length l <= k)%nat -> lupd l k v = l.
Proof.
  revert k. induction l as [|x l IH]; intros k G; [destruct k; reflexivity|].
  destruct k; [cbn in G; lia|]. cbn [lupd]. f_equal. apply IH. cbn in G. lia.
Qed.
Lemma push_op_finv n w t o : t_pc (get w t) = Idle -> FInv n w -> FInv n (push_op w t o).
Proof.
  intros Ei H. destruct (Nat.lt_ge_cases t (length (thr w))) as [L|G].
  - destruct H as [HI HF]. pose proof HI as (Ln & _ & Hpc).
    apply (FInv_upd n w _ t (mk_t (t_pc (get w t)) [o] (held (get w t)) (conv (get w t)) (spin (get w t)) (mw (get w t)) (last_ret (get w t))));
      [split; assumption | lia | reflexivity | | | |].
    + specialize (Hpc t). fold (get w t) in Hpc. unfold pc_ok in *. cbn [t_pc held conv spin mw]. exact Hpc.
    + cbn [held spin]. unfold push_op, set_t, set_thr; cbn [word]. apply trans_refl, (Inv_rng n), HI.
    + cbn [t_pc]. rewrite Ei. reflexivity.
    + left. reflexivity.
  - apply (FInv_wt n w); [| exact H]. split; [reflexivity|].
    unfold push_op, set_t, set_thr; cbn [thr]. now apply lupd_oob.
Qed.

(* ----- reading the lock mode off the word (nsync_cv_wait_with_deadline_generic's is_writer / is_reader) ----- *)
Lemma has_wheld x : has x MU_WHELD_IF_NON_ZERO = (x mod 2 =? 1).
Proof.
  unfold has, band. change MU_WHELD_IF_NON_ZERO with (Z.ones 1). rewrite Z.land_ones by lia. change (2 ^ 1) with 2.
  destruct (Z.eqb_spec (x mod 2) 0), (Z.eqb_spec (x mod 2) 1); cbn; try reflexivity; lia.
Qed.
Lemma has_rheld x : rng x -> has x MU_RHELD_IF_NON_ZERO = (1 <=? x / 256).
Proof.
  intros R. unfold has, band. change MU_RHELD_IF_NON_ZERO with 4294967040. rewrite land_high by exact R.
  unfold rng in R. destruct (Z.eqb_spec (256 * (x / 256)) 0), (Z.leb_spec 1 (x / 256)); cbn; try reflexivity; lia.
Qed.

Lemma mu_idle_pc w t : mu_idle w t = true -> t_pc (get w t) = Idle.
Proof. unfold mu_idle. destruct (t_pc (get w t)); try discriminate. reflexivity. Qed.
Lemma mu_pc_idle_pc w t : mu_pc_idle w t = true <-> t_pc (get w t) = Idle.
Proof. unfold mu_pc_idle. destruct (t_pc (get w t)); split; try discriminate; reflexivity. Qed.

Lemma FInv_pc n w t : FInv n w -> pc_ok (get w t).
Proof. intros [(_ & _ & H) _]. apply H. Qed.
Lemma idle_owns n w t : FInv n w -> t_pc (get w t) = Idle -> spin (get w t) = false /\ conv (get w t) = false /\ mw (get w t) = None.
Proof. intros H E. pose proof (FInv_pc n w t H) as P. unfold pc_ok in P. rewrite E in P. exact P. Qed.

Lemma cplP_wake_loop k s : t_pc s = Idle -> cplP (wake_loop k) s.
Proof. intros H. unfold wake_loop. destruct (k_wake k); [exact I | exact H]. Qed.
Lemma cplP_wake_entry nm k s : t_pc s = Idle -> cplP (wake_entry nm k) s.
Proof.
  intros H. unfold wake_entry. destruct (k_wake k) as [|f r] eqn:E; [exact I|].
  destruct (nm f); [| cbn [cplP]; rewrite E; split; [exact H | discriminate]]. unfold wake_loop. rewrite E. exact H.
Qed.

(* the thread list after parking / un-parking thread t *)
Lemma thr_spin_pc w t b p : (t < length (thr w))%nat ->
  thr (set_pc (set_spin w t b) t p) =
  lupd (thr w) t (mk_t p (t_ops (get w t)) (held (get w t)) (conv (get w t)) b (mw (get w t)) (last_ret (get w t))).
Proof.
  intros H.
  assert (get (set_spin w t b) t = mk_t (t_pc (get w t)) (t_ops (get w t)) (held (get w t)) (conv (get w t)) b (mw (get w t)) (last_ret (get w t))) as E
    by (unfold set_spin; now rewrite get_set_own).
  unfold set_pc, set_t, set_thr; cbn [thr]. rewrite E. cbn [t_ops held conv spin mw last_ret].
  unfold set_spin, set_own, set_t, set_thr; cbn [thr]. apply lupd_lupd.
Qed.
Lemma thr_pc w t p : thr (set_pc w t p) =
  lupd (thr w) t (mk_t p (t_ops (get w t)) (held (get w t)) (conv (get w t)) (spin (get w t)) (mw (get w t)) (last_ret (get w t))).
Proof. reflexivity. Qed.

Lemma abegin_close n aw t rest rets p :
  AInv n aw -> (t < length (athr aw))%nat -> cplP p (get (mu aw) t) -> AInv n (set_apc (set_at aw t (mk_at AIdle rest rets)) t p).
Proof.
  intros H Ht C. apply (AInv_close n aw _ t H).
  - apply H.
  - unfold set_apc, set_at; cbn [athr]. now rewrite !length_lupd.
  - intros t' N. split; [| reflexivity]. rewrite aget_set_apc_other by exact N.
    unfold set_at, aget; cbn [athr]. now rewrite nth_lupd_other.
  - unfold cpl. rewrite aget_set_apc by (unfold set_at; cbn [athr]; now rewrite length_lupd). exact C.
Qed.

Lemma abegin_inv n aw t : AInv n aw -> AInv n (abegin aw t).
Proof.
  intros H. unfold abegin. destruct (a_pc (aget aw t)) eqn:Ep; try exact H.
  destruct (a_ops (aget aw t)) as [|o rest] eqn:Eo; [exact H|].
  destruct (mu_idle (mu aw) t) eqn:Ei; [| exact H].
  pose proof (mu_idle_pc _ _ Ei) as Epc.
  assert (t < length (athr aw))%nat as Ht.
  { destruct (Nat.lt_ge_cases t (length (athr aw))) as [|G]; [assumption|]. unfold aget in Eo. rewrite nth_overflow in Eo by exact G. discriminate Eo. }
  destruct o.
  - (* AOp *)
    apply (AInv_close n aw _ t H).
    + cbn [mu set_mu set_at]. apply push_op_finv; [exact Epc | apply H].
    + cbn [athr set_mu set_at]. apply length_lupd.
    + intros t' N. split.
      * unfold aget; cbn [athr set_mu set_at]. now rewrite nth_lupd_other.
      * cbn [mu set_mu set_at]. unfold push_op. now apply get_set_t_other.
    + unfold cpl, aget; cbn [athr set_mu set_at]. rewrite nth_lupd_same by exact Ht. exact I.
  - (* AWait *)
    apply abegin_close; [exact H | exact Ht |].
    destruct (held (get (mu aw) t)) as [m'|] eqn:Eh; [| exact I].
    destruct (mode_eqb m m') eqn:Em; [| exact I]. cbn [cplP]. split; [exact Epc|].
    destruct m, m'; try discriminate Em; exact Eh.
  - apply abegin_close; [exact H | exact Ht | exact Epc].
  - apply abegin_close; [exact H | exact Ht | exact Epc].
  - apply abegin_close; [exact H | exact Ht | exact Epc].
Qed.

(* a mutex step of thread t inside the wrapper *)
Lemma mu_step_close n (Hn : Z.of_nat n < 16777215) aw t c :
  AInv n aw -> cpl (set_mu aw (fst (step_thr (mu aw) t c))) t -> AInv n (set_mu aw (fst (step_thr (mu aw) t c))).
Proof.
  intros H C. apply (AInv_close n aw _ t H).
  - cbn [mu set_mu]. apply step_thr_finv; [exact Hn | apply H].
  - reflexivity.
  - intros t' N. split; [reflexivity|]. cbn [mu set_mu]. apply (step_thr_other n Hn); [apply H | exact N].
  - exact C.
Qed.

Ltac reshape a X p := match goal with |- AInv ?n (set_apc _ ?t _) =>
  apply (AInv_ext n (set_apc (set_mu a X) t p)); [reflexivity | reflexivity |] end.

Lemma astep_thr_inv n (Hn : Z.of_nat n < 16777215) aw0 t c : AInv n aw0 -> AInv n (fst (astep_thr aw0 t c)).
Proof.
  intros H0. pose proof (abegin_inv n aw0 t H0) as H. unfold astep_thr.
  set (aw := abegin aw0 t) in *. clearbody aw. clear H0 aw0. cbv zeta.
  pose proof H as (HF & HL & HC). pose proof (HC t) as Ct. unfold cpl in Ct.
  pose proof (FInv_pc n _ t HF) as Hpc.
  pose proof HF as [HI HFz]. pose proof HI as (HLn & _ & _).
  destruct (a_pc (aget aw t)) eqn:Ep; cbn [cplP] in Ct;
    try (assert (t < length (athr aw))%nat as Ht by (apply aget_active; rewrite Ep; discriminate));
    try (assert (t < length (thr (mu aw)))%nat as Htm by lia).
  - (* AIdle *)
    unfold mu_step. cbn [step]. destruct (step_thr (mu aw) t c) as [m' e] eqn:Es. cbn [fst].
    change m' with (fst (m', e)). rewrite <- Es. apply (mu_step_close n Hn); [exact H|].
    unfold cpl. change (aget (set_mu aw (fst (step_thr (mu aw) t c))) t) with (aget aw t). rewrite Ep. exact I.
  - (* ACrash *) exact H.
  - (* AwStore *)
    cbn [fst]. reshape aw (set_waiting (mu aw) t (negb (nsync_cv_wait_with_deadline_generic_store1_new =? 0))) (AwLoadMu m).
    apply close_wt; [exact H | exact Ht | split; reflexivity | exact Ct].
  - (* AwLoadMu *)
    destruct Ct as [Ci Ch]. pose proof (Inv_held n _ t m HI Ch) as Hw. pose proof (Inv_rng n _ HI) as Rw.
    rewrite has_wheld, (has_rheld _ Rw).
    destruct (Z.eqb_spec (word (mu aw) mod 2) 1) as [E1|E1].
    + destruct (Z.leb_spec 1 (word (mu aw) / 256)) as [E2|E2]; cbn [fst].
      * reshape aw (mu aw) (ACrash 6). apply close_wt; [exact H | exact Ht | split; reflexivity | exact I].
      * reshape aw (set_winfo (mu aw) t W None false) (AwEnq (mk_awl m W false false)).
        apply close_wt; [exact H | exact Ht | split; reflexivity |]. cbn [cplP w_lm]. split; [exact Ci|].
        destruct m; [exact Ch | lia].
    + destruct (Z.leb_spec 1 (word (mu aw) / 256)) as [E2|E2]; cbn [fst].
      * reshape aw (set_winfo (mu aw) t R None false) (AwEnq (mk_awl m R false false)).
        apply close_wt; [exact H | exact Ht | split; reflexivity |]. cbn [cplP w_lm]. split; [exact Ci|].
        destruct m; [lia | exact Ch].
      * reshape aw (mu aw) (ACrash 7). apply close_wt; [exact H | exact Ht | split; reflexivity | exact I].
  - (* AwEnq *)
    cbn [fst]. destruct Ct as [Ci Ch]. destruct (idle_owns n _ t HF Ci) as (Is & Ic & Im).
    reshape aw (set_pc (mu aw) t (UlFast (w_lm l))) (AwUnlock l).
    apply close_apc; [exact H | exact Ht | | |].
    + eapply (FInv_upd n (mu aw) _ t); [exact HF | lia | apply thr_pc | | | reflexivity | left; reflexivity].
      * unfold pc_ok; cbn [t_pc]. unfold own; cbn [held spin conv mw]. auto.
      * cbn [held spin]. refine (trans_refl (word (mu aw)) _ _ (Inv_rng n _ HI)).
    + intros t' N. unfold set_pc. now apply get_set_t_other.
    + rewrite get_set_pc by exact Htm. cbn [cplP t_pc mw ufam]. auto.
  - (* AwUnlock *)
    destruct Ct as [Cu Cm].
    assert (ustate (get (fst (step_thr (mu aw) t CNormal)) t)) as U.
    { apply unlock_progress; [exact Cu | exact Cm |]. intros m u K. unfold pc_ok in Hpc.
      destruct K as [K|[p K]]; rewrite K in Hpc; destruct Hpc as ((A & _) & _); exact A. }
    unfold mu_step. cbn [step]. destruct (step_thr (mu aw) t CNormal) as [m' e] eqn:Es. cbn [fst] in *.
    assert (AInv n (set_mu aw m') -> AInv n (set_mu aw m')) as _ by auto.
    cbn [mu set_mu]. destruct (mu_pc_idle m' t) eqn:Ei; cbn [fst].
    + apply close_apc; [exact H | exact Ht | | |].
      * change m' with (fst (m', e)). rewrite <- Es. apply step_thr_finv; [exact Hn | exact HF].
      * intros t' N. change m' with (fst (m', e)). rewrite <- Es. apply (step_thr_other n Hn); [exact HI | exact N].
      * apply mu_pc_idle_pc in Ei. cbn [cplP]. destruct U as [[U1 _] | (U1 & U2 & _)]; [rewrite Ei in U1; discriminate U1 | auto].
    + change m' with (fst (m', e)). rewrite <- Es. apply (mu_step_close n Hn); [exact H|].
      unfold cpl. change (aget (set_mu aw (fst (step_thr (mu aw) t CNormal))) t) with (aget aw t). rewrite Ep. cbn [cplP mu set_mu].
      rewrite Es. cbn [fst]. destruct U as [[U1 U2] | (U1 & _)]; [auto|].
      apply mu_pc_idle_pc in U1. rewrite U1 in Ei. discriminate Ei.
  - (* AwLoop *)
    destruct Ct as [Ci Ch]. destruct (idle_owns n _ t HF Ci) as (Is & Ic & Im).
    destruct (waiting (mu aw) t); cbn [fst].
    + reshape aw (mu aw) (if w_so l then AwLoad6 l else AwSem l).
      apply close_wt; [exact H | exact Ht | split; reflexivity |]. destruct (w_so l); cbn [cplP]; auto.
    + apply close_apc; [exact H | exact Ht | | |].
      * eapply (FInv_upd n (mu aw) _ t); [exact HF | lia | refine (thr_pc (set_winfo (mu aw) t (w_lm l) None false) t _) | | | | left; reflexivity].
        -- unfold pc_ok. cbn [t_pc]. destruct (xferred aw t); cbn [t_pc]; unfold own, mw_m; cbn [held spin conv mw].
           ++ change (get (set_winfo (mu aw) t (w_lm l) None false) t) with (get (mu aw) t).
              rewrite Ch, Is, Ic, Im. repeat split; try reflexivity; try discriminate; apply lsl_ok_init_desig.
           ++ change (get (set_winfo (mu aw) t (w_lm l) None false) t) with (get (mu aw) t).
              rewrite Ch, Is, Ic, Im. repeat split; reflexivity.
        -- cbn [held spin]. change (get (set_winfo (mu aw) t (w_lm l) None false) t) with (get (mu aw) t).
           refine (trans_refl (word (mu aw)) _ _ (Inv_rng n _ HI)).
        -- cbn [t_pc]. destruct (xferred aw t); reflexivity.
      * intros t' N. unfold set_pc. rewrite get_set_t_other by exact N. reflexivity.
      * exact I.
  - (* AwSem *)
    destruct c.
    + destruct (0 <? sem (mu aw) t); cbn [fst]; [| exact H].
      apply close_wt; [exact H | exact Ht | split; reflexivity | exact Ct].
    + cbn [fst]. reshape aw (mu aw) (AwLoad6 (wl_set_so l true)). apply close_wt; [exact H | exact Ht | split; reflexivity | exact Ct].
    + cbn [fst]. reshape aw (mu aw) (AwLoad6 (wl_set_so l true)). apply close_wt; [exact H | exact Ht | split; reflexivity | exact Ct].
  - (* AwLoad6 *)
    destruct (waiting (mu aw) t); cbn [fst].
    + reshape aw (mu aw) (AwConfirm l). apply close_wt; [exact H | exact Ht | split; reflexivity | exact Ct].
    + reshape aw (mu aw) (AwLoad13 l). apply close_wt; [exact H | exact Ht | split; reflexivity | exact Ct].
  - (* AwConfirm *)
    destruct (mem_id t (cvq aw)); cbn [fst].
    + reshape aw (set_waiting (set_rcount (mu aw) t (nsync_cv_wait_with_deadline_generic_cas1_new (rcount (mu aw) t))) t
                 (negb (nsync_cv_wait_with_deadline_generic_store3_new =? 0))) (AwLoad13 (wl_set_out l (w_so l))).
      apply close_wt; [exact H | exact Ht | split; reflexivity | exact Ct].
    + reshape aw (mu aw) (AwLoad13 l). apply close_wt; [exact H | exact Ht | split; reflexivity | exact Ct].
  - (* AwLoad13 *)
    cbn [fst]. reshape aw (mu aw) (AwLoop l). apply close_wt; [exact H | exact Ht | split; reflexivity | exact Ct].
  - (* AwReacq *)
    unfold mu_step. cbn [step]. destruct (step_thr (mu aw) t CNormal) as [m' e] eqn:Es.
    assert (AInv n (set_mu aw m')) as H1.
    { change m' with (fst (m', e)). rewrite <- Es. apply (mu_step_close n Hn); [exact H|].
      unfold cpl. change (aget (set_mu aw (fst (step_thr (mu aw) t CNormal))) t) with (aget aw t). rewrite Ep. exact I. }
    cbn [mu set_mu]. destruct (mu_pc_idle m' t); cbn [fst]; [| exact H1].
    apply (AInv_close n _ _ t H1).
    + apply H1.
    + unfold set_apc, add_aret, set_at; cbn [athr set_mu]. now rewrite !length_lupd.
    + intros t' N. split; [| reflexivity]. rewrite aget_set_apc_other by exact N.
      unfold add_aret, set_at, aget; cbn [athr set_mu]. now rewrite nth_lupd_other.
    + unfold cpl. rewrite aget_set_apc by (unfold add_aret, set_at; cbn [athr set_mu]; now rewrite length_lupd). exact I.
  - (* AkLoad *)
    destruct c.
    + cbn [fst]. reshape aw (mu aw) (AkSelect bc). apply close_wt; [exact H | exact Ht | split; reflexivity | exact Ct].
    + destruct (cvq aw); cbn [fst]; [| exact H]. reshape aw (mu aw) AIdle. apply close_wt; [exact H | exact Ht | split; reflexivity | exact I].
    + destruct (cvq aw); cbn [fst]; [| exact H]. reshape aw (mu aw) AIdle. apply close_wt; [exact H | exact Ht | split; reflexivity | exact I].
  - (* AkSelect *)
    destruct (if bc then sel_broadcast (wtype (mu aw)) (nonmu aw) (cvq aw) else sel_signal (wtype (mu aw)) (nonmu aw) (cvq aw)) as [[wk kp] allr].
    cbn [fst].
    reshape aw (bump_all (nonmu aw) (if bc then nsync_cv_broadcast_cas1_new else nsync_cv_signal_cas1_new) (mu aw) wk)
            (wake_entry (nonmu aw) (mk_kl wk allr 0 0)).
    apply close_wt; [exact H | exact Ht | apply bump_all_wt | now apply cplP_wake_entry].
  - (* AvLoad1 *)
    destruct (xfer_wanted (wtype (mu aw)) (word (mu aw)) k) eqn:Ex; cbn [fst].
    + reshape aw (mu aw) (AvCas1 k (word (mu aw))). apply close_wt; [exact H | exact Ht | split; reflexivity |].
      cbn [cplP]. destruct Ct as [Ct Cn]. split; [exact Ct|]. split; [| exact Cn].
      unfold xfer_wanted in Ex. apply andb_true_iff in Ex. destruct Ex as [Ex _].
      apply andb_true_iff in Ex. destruct Ex as [_ Ex]. now apply negb_true_iff in Ex.
    + reshape aw (mu aw) (wake_loop k). apply close_wt; [exact H | exact Ht | split; reflexivity | apply cplP_wake_loop, Ct].
  - (* AvCas1 *)
    destruct Ct as (Ci & Cs & Cn). destruct (idle_owns n _ t HF Ci) as (Is & Ic & Im).
    unfold cas, wake_waiters_cas1_old. destruct (Z.eqb_spec (word (mu aw)) old) as [Ew|Ew].
    + destruct (xfer (wtype (mu aw)) (nonmu aw) (first_cant_acquire (wtype (mu aw)) old (k_wake k)) (k_wake k)) as [[moved stay] set_on] eqn:Ex.
      cbn [fst].
      match goal with |- AInv n (set_apc (set_xferred (set_mu aw ?X) _) t ?p) => reshape aw X p end.
      pose proof (Inv_rng n _ HI) as Rw. pose proof (has_spin_b1 old Cs) as B0.
      apply close_apc; [exact H | exact Ht | | |].
      * eapply (FInv_upd n (mu aw) _ t); [exact HF | lia | | | | |].
        -- match goal with |- thr (set_pc (set_spin ?w0 t true) t parked) = _ =>
             rewrite (thr_spin_pc w0 t true parked) by exact Htm end. reflexivity.
        -- exact I.
        -- cbn [held spin word set_pc set_spin set_own set_t set_thr set_queue set_word].
           change (get (set_queue (set_word (mu aw) (wake_waiters_cas1_new old)) (queue (set_word (mu aw) (wake_waiters_cas1_new old)) ++ moved)) t)
             with (get (mu aw) t).
           rewrite Is, Ew. apply wake_cas1_trans; [rewrite <- Ew; exact Rw | exact B0].
        -- reflexivity.
        -- right. intros t' o' N Hfo. destruct (frozen_pc_owner n _ t' o' HI Hfo) as [_ S1].
           pose proof (Inv_spin n _ t' HI S1) as B1. rewrite Ew in B1. lia.
      * intros t' N. unfold set_pc. rewrite get_set_t_other by exact N. unfold set_spin, set_own. rewrite get_set_t_other by exact N. reflexivity.
      * unfold set_pc at 1. rewrite get_set_t by (unfold set_spin; rewrite length_set_own; exact Htm).
        unfold set_spin. rewrite get_set_own by exact Htm. cbn [cplP t_pc spin conv mw k_set k_clr].
        change (get (set_queue (set_word (mu aw) (wake_waiters_cas1_new old)) (queue (set_word (mu aw) (wake_waiters_cas1_new old)) ++ moved)) t)
          with (get (mu aw) t).
        split; [reflexivity|]. split; [reflexivity|]. split; [exact Ic|]. split; [exact Im|]. unfold wk_ok; cbn [k_set k_clr]. split.
        -- change set_on with (snd (moved, stay, set_on)). rewrite <- Ex. apply xfer_set_small.
        -- destruct (queue (set_word (mu aw) (wake_waiters_cas1_new old)) ++ moved); [apply smallS_spin_waiting | apply smallS_spin].
    + cbn [fst]. reshape aw (mu aw) (wake_loop k). apply close_wt; [exact H | exact Ht | split; reflexivity | now apply cplP_wake_loop].
  - (* AvLoad3 *)
    cbn [fst]. reshape aw (mu aw) (AvCas2 k (word (mu aw))). apply close_wt; [exact H | exact Ht | split; reflexivity | exact Ct].
  - (* AvCas2 *)
    destruct Ct as (Cp & Cs & Cc & Cm & Ck1 & Ck2).
    unfold cas, wake_waiters_cas2_old. destruct (Z.eqb_spec (word (mu aw)) old) as [Ew|Ew]; cbn [fst].
    + pose proof (Inv_rng n _ HI) as Rw.
      apply close_apc; [exact H | exact Ht | | |].
      * eapply (FInv_upd n (mu aw) _ t); [exact HF | lia | | | | |].
        -- match goal with |- thr (set_pc (set_spin ?w0 t false) t Idle) = _ =>
             rewrite (thr_spin_pc w0 t false Idle) by exact Htm end. reflexivity.
        -- unfold pc_ok; cbn [t_pc spin conv mw].
           change (get (set_word (mu aw) (wake_waiters_cas2_new old (k_set k) (k_clr k))) t) with (get (mu aw) t). auto.
        -- cbn [held spin word set_pc set_spin set_own set_t set_thr set_word].
           change (get (set_word (mu aw) (wake_waiters_cas2_new old (k_set k) (k_clr k))) t) with (get (mu aw) t).
           rewrite Cs, Ew. apply wake_cas2_trans; [rewrite <- Ew; exact Rw | exact Ck1 | exact Ck2].
        -- reflexivity.
        -- right. intros t' o' N Hfo. destruct (frozen_pc_owner n _ t' o' HI Hfo) as [S0 S1].
           destruct (Inv_sole n _ t' t HI S0 S1 ltac:(auto)) as [_ S2]. congruence.
      * intros t' N. unfold set_pc. rewrite get_set_t_other by exact N. unfold set_spin, set_own. rewrite get_set_t_other by exact N. reflexivity.
      * apply cplP_wake_loop. unfold set_pc. rewrite get_set_t by (unfold set_spin; rewrite length_set_own; exact Htm). reflexivity.
    + reshape aw (mu aw) (AvLoad5 k). apply close_wt; [exact H | exact Ht | split; reflexivity |]. exact (conj Cp (conj Cs (conj Cc (conj Cm (conj Ck1 Ck2))))).
  - (* AvLoad5 *)
    cbn [fst]. reshape aw (mu aw) (AvCas2 k (word (mu aw))). apply close_wt; [exact H | exact Ht | split; reflexivity | exact Ct].
  - (* AvStore *)
    destruct (k_wake k) as [|p rest]; cbn [fst].
    + reshape aw (mu aw) AIdle. apply close_wt; [exact H | exact Ht | split; reflexivity | exact I].
    + apply close_wt; [exact H | exact Ht | split; reflexivity | exact Ct].
  - (* AvV *)
    cbn [fst]. apply close_wt; [exact H | exact Ht | split; reflexivity | now apply cplP_wake_loop].
  - (* AnEnq *)
    cbn [fst]. reshape aw (set_waiting (mu aw) t (negb (cv_enqueue_store1_new =? 0))) AnLoop.
    apply close_wt; [exact H | exact Ht | split; reflexivity | exact Ct].
  - (* AnLoop *)
    destruct (waiting (mu aw) t); cbn [fst].
    + reshape aw (mu aw) AnSem. apply close_wt; [exact H | exact Ht | split; reflexivity | exact Ct].
    + reshape aw (mu aw) AnDeq. apply close_wt; [exact H | exact Ht | split; reflexivity | exact Ct].
  - (* AnSem *)
    destruct c.
    + destruct (0 <? sem (mu aw) t); cbn [fst]; [| exact H].
      apply close_wt; [exact H | exact Ht | split; reflexivity | exact Ct].
    + cbn [fst]. reshape aw (mu aw) AnDeq. apply close_wt; [exact H | exact Ht | split; reflexivity | exact Ct].
    + cbn [fst]. reshape aw (mu aw) AnDeq. apply close_wt; [exact H | exact Ht | split; reflexivity | exact Ct].
  - (* AnDeq *)
    destruct (waiting (mu aw) t && mem_id t (cvq aw)); cbn [fst].
    + reshape aw (set_waiting (mu aw) t (negb (cv_dequeue_store1_new =? 0))) AIdle.
      apply close_wt; [exact H | exact Ht | split; reflexivity | exact I].
    + reshape aw (mu aw) AnSpin. apply close_wt; [exact H | exact Ht | split; reflexivity | exact Ct].
  - (* AnSpin *)
    destruct (waiting (mu aw) t); cbn [fst]; [exact H|].
    reshape aw (mu aw) AIdle. apply close_wt; [exact H | exact Ht | split; reflexivity | exact I].
Qed.

Lemma env_step_inv n (Hn : Z.of_nat n < 16777215) aw a :
  (forall t c, a <> Thr t c) -> AInv n aw -> AInv n (set_mu aw (fst (step (mu aw) a))).
Proof.
  intros Na (HF & HL & HC). split; [cbn [mu set_mu]; apply step_finv; assumption|]. split; [exact HL|].
  intros t'. unfold cpl. cbn [mu set_mu]. change (aget (set_mu aw (fst (step (mu aw) a))) t') with (aget aw t').
  rewrite (step_other n Hn) by (first [apply HF | intros c0; apply Na]). apply HC.
Qed.
Lemma astep_fst_env aw a : (forall t c, a <> Thr t c) -> fst (astep aw a) = set_mu aw (fst (step (mu aw) a)).
Proof.
  intros Na. destruct a as [t c|dt| |p]; [exfalso; exact (Na t c eq_refl) | | |]; cbn [astep];
    match goal with |- context [step ?w ?x] => destruct (step w x) as [m' e] end; reflexivity.
Qed.
Lemma astep_inv n (Hn : Z.of_nat n < 16777215) aw a : AInv n aw -> AInv n (fst (astep aw a)).
Proof.
  intros H. destruct a as [t c|dt| |p]; [cbn [astep]; now apply astep_thr_inv | | |];
    (rewrite astep_fst_env by (intros; discriminate)); (apply env_step_inv; [exact Hn | intros; discriminate | exact H]).
Qed.
Lemma arun_inv n (Hn : Z.of_nat n < 16777215) sched : forall aw, AInv n aw -> AInv n (arun aw sched).
Proof.
  unfold arun. induction sched as [|a rest IH]; intros aw H; cbn [fold_left]; [exact H|]. apply IH, astep_inv; assumption.
Qed.
Lemma ainit_inv progs cl c0 : AInv (length progs) (ainit progs cl c0).
Proof.
  unfold ainit. split; [| split].
  - cbn [mu]. pose proof (init_finv (map (fun _ : list aop => @nil op) progs) cl c0) as H. now rewrite map_length in H.
  - cbn [athr]. apply map_length.
  - intros t. unfold cpl, aget; cbn [athr mu].
    change dflt_at with ((fun p => mk_at AIdle p []) []). rewrite map_nth. exact I.
Qed.
Lemma reachable_ainv progs cl c0 sched :
  Z.of_nat (length progs) < 2 ^ 24 - 1 -> AInv (length progs) (arun (ainit progs cl c0) sched).
Proof. intros H. apply arun_inv; [exact H | apply ainit_inv]. Qed.

(* ================================================================== *)
(* Part 4: C06a                                                        *)
(* ================================================================== *)
Lemma a_word_agrees_reachable progs cl c0 sched :
  Z.of_nat (length progs) < 2 ^ 24 - 1 -> word_agrees (mu (arun (ainit progs cl c0) sched)).
Proof. intros H. apply agrees_word_agrees. apply (reachable_ainv progs cl c0 sched H). Qed.
Lemma a_excl_reachable progs cl c0 sched :
  Z.of_nat (length progs) < 2 ^ 24 - 1 -> excl (mu (arun (ainit progs cl c0) sched)).
Proof. intros H. apply (excl_of_inv (length progs)). apply (reachable_ainv progs cl c0 sched H). Qed.

(* the wrapper's step evaluated a condition *)
Definition a_is_eval (e : aev) : bool := match e with AMu e' => is_eval e' | _ => false end.
(* ... then the evaluating thread owns lock bits of the mutex word and no OTHER thread owns the write lock; the world
   looked at is the one in which the step runs: after the wrapper has handed the thread's next operation to the mutex *)
Definition a_eval_under_lock (aw : aworld) (t : nat) (c : choice) : Prop :=
  a_is_eval (snd (astep aw (Thr t c))) = true ->
  let w := mu (abegin aw t) in
  held (get (begin_op w t) t) <> None /\ forall t', t' <> t -> ~ holds w t' W.

Lemma a_eval_under_lock_inv n (Hn : Z.of_nat n < 16777215) aw t c : AInv n aw -> a_eval_under_lock aw t c.
Proof.
  intros H0 He. cbv zeta. pose proof (abegin_inv n aw t H0) as H. cbn [astep] in He. unfold astep_thr in He.
  set (aw1 := abegin aw t) in *. clearbody aw1. cbv zeta in He.
  assert (forall c', is_eval (snd (step (mu aw1) (Thr t c'))) = true ->
          held (get (begin_op (mu aw1) t) t) <> None /\ forall t', t' <> t -> ~ holds (mu aw1) t' W) as K.
  { intros c' E. apply (eval_under_lock_inv n Hn (mu aw1) t c'); [apply H | exact E]. }
  unfold mu_step in He.
  destruct (a_pc (aget aw1 t));
    repeat match type of He with
           | a_is_eval (snd (let '(_, _) := ?x in _)) = true => destruct x eqn:?
           | a_is_eval (snd (if ?b then _ else _)) = true => destruct b
           | a_is_eval (snd (match ?x with _ => _ end)) = true => destruct x
           end; cbn [snd a_is_eval] in He; try discriminate He.
  all: match goal with Hq : (let '(m', e0) := ?X in _) = (_, _) |- _ =>
         match X with step _ (Thr _ ?c') =>
           apply (K c'); destruct X as [m'' e'']; injection Hq as E1 E2; subst; exact He end end.
Qed.
Lemma a_eval_under_lock_reachable progs cl c0 sched t c :
  Z.of_nat (length progs) < 2 ^ 24 - 1 -> a_eval_under_lock (arun (ainit progs cl c0) sched) t c.
Proof. intros H. apply (a_eval_under_lock_inv (length progs) H). apply (reachable_ainv progs cl c0 sched H). Qed.

(* ----- readable corollaries of the coupling ----- *)
Definition cv_parked (p : apc) : bool :=
  match p with AwLoop _ | AwSem _ | AwLoad6 _ | AwConfirm _ | AwLoad13 _ => true | _ => false end.
Definition in_wake_section (p : apc) : bool :=
  match p with AvLoad3 _ | AvCas2 _ _ | AvLoad5 _ => true | _ => false end.

Lemma a_parked_owns_nothing progs cl c0 sched t :
  Z.of_nat (length progs) < 2 ^ 24 - 1 ->
  let aw := arun (ainit progs cl c0) sched in
  cv_parked (a_pc (aget aw t)) = true -> held (get (mu aw) t) = None /\ t_pc (get (mu aw) t) = Idle.
Proof.
  intros H aw P. destruct (reachable_ainv progs cl c0 sched H) as (_ & _ & HC). specialize (HC t). fold aw in HC.
  unfold cpl in HC. destruct (a_pc (aget aw t)); try discriminate P; cbn [cplP] in HC; tauto.
Qed.
Lemma a_wake_section_owns_spinlock progs cl c0 sched t :
  Z.of_nat (length progs) < 2 ^ 24 - 1 ->
  let aw := arun (ainit progs cl c0) sched in
  in_wake_section (a_pc (aget aw t)) = true ->
  spin (get (mu aw) t) = true /\ Z.testbit (word (mu aw)) 1 = true /\ t_pc (get (mu aw) t) = parked /\
  forall t', t' <> t -> spin (get (mu aw) t') = false.
Proof.
  intros H aw P. destruct (reachable_ainv progs cl c0 sched H) as ([HI _] & _ & HC). pose proof (HC t) as Ct. fold aw in Ct, HI.
  unfold cpl in Ct.
  assert (spin (get (mu aw) t) = true /\ t_pc (get (mu aw) t) = parked) as [S Pk]
    by (destruct (a_pc (aget aw t)); try discriminate P; cbn [cplP] in Ct; tauto).
  split; [exact S|]. pose proof (Inv_spin _ _ t HI S) as B. rewrite b1_testbit in B.
  split; [destruct (Z.testbit (word (mu aw)) 1); [reflexivity | discriminate B]|]. split; [exact Pk|].
  intros t' N. destruct (spin (get (mu aw) t')) eqn:S'; [exfalso | reflexivity].
  destruct HI as (L & (_ & _ & _ & _ & HS) & _).
  assert (forall u, spin (get (mu aw) u) = true -> (u < length (thr (mu aw)))%nat) as LT.
  { intros u Hu. unfold get in Hu. destruct (Nat.lt_ge_cases u (length (thr (mu aw)))); [assumption|].
    rewrite nth_overflow in Hu by assumption. discriminate Hu. }
  pose proof (cntp_two spin (thr (mu aw)) t t' eq_refl (LT _ S) (LT _ S') ltac:(auto) S S') as C2.
  pose proof (b1_range (word (mu aw))). unfold cntS in HS. lia.
Qed.

(* ================================================================== *)
(* Part 5: wake_waiters meets the scanner                               *)
(* ================================================================== *)
(* a thread inside the scan of nsync_mu_unlock_slow_ that does NOT own the spinlock (it released it to evaluate a condition) *)
Definition scan_window_pc (p : pc) : bool :=
  match p with
  | SpinLoad (KScan _ _) _ | SpinCas (KScan _ _) _ | UsEval _ _ | RmLoad (KScan _ _) | RmCas (KScan _ _) _ => true
  | _ => false
  end.
(* ... owns the write lock (it converted itself to a writer, or was one) *)
Lemma scan_window_holds_W n w u : Inv n w -> scan_window_pc (t_pc (get w u)) = true -> spin (get w u) = false -> held (get w u) = Some W.
Proof.
  intros (_ & _ & Hpc) P S. specialize (Hpc u). fold (get w u) in Hpc. unfold pc_ok in Hpc.
  destruct (t_pc (get w u)) eqn:Ep; try discriminate P; try (destruct k; try discriminate P);
    destruct Hpc as (_ & lt & Hown & Hsc); rewrite Ep in Hsc; cbn [scan_pc_ok] in Hsc.
  all: assert (lt = MU_WLOCK) as El by
         (first [ destruct Hsc as (_ & Hte & (_ & _ & C & _) & _); exact (C Hte)
                | destruct Hsc as (_ & Hte & (_ & _ & C & _)); exact (C Hte)
                | destruct Hsc as (Hsp & (_ & _ & C & _)); apply C; rewrite S in Hsp; destruct (u_test u0); [reflexivity | discriminate Hsp] ]).
  all: destruct Hown as [(_ & E & _) | (E & _)]; [exact E | rewrite El in E; discriminate E].
Qed.

Lemma has_bit0 x m : x mod 2 = 1 -> m mod 2 = 1 -> has x m = true.
Proof.
  intros Hx Hm. unfold has, band. apply negb_true_iff, Z.eqb_neq. intros E.
  assert (Z.testbit (Z.land x m) 0 = false) as T by (rewrite E; reflexivity).
  rewrite Z.land_spec, !bit0_mod2, Hx, Hm in T. discriminate T.
Qed.
Lemma first_cant_acquire_under_writer ty old first rest : old mod 2 = 1 -> first_cant_acquire ty old (first :: rest) = true.
Proof. intros H. unfold first_cant_acquire. apply has_bit0; [exact H|]. destruct (ty first); reflexivity. Qed.

Lemma abegin_active aw t : a_pc (aget aw t) <> AIdle -> abegin aw t = aw.
Proof. intros H. unfold abegin. destruct (a_pc (aget aw t)); try reflexivity. congruence. Qed.

(* If wake_waiters' acquiring CAS succeeds while ANY thread owns the write lock -- in particular a scanner that has swapped
   mu->waiters out and released the spinlock --, its first waiter is transferred: mu->waiters is non-empty at its release, so
   F15's "queue empty => clear MU_WAITING" does not fire (clear_on_release = MU_SPINLOCK) although the list it tests is not
   the whole queue. *)
Lemma set_all_keeps l : forall g (x : nat), g x = true -> set_all g l true x = true.
Proof.
  induction l as [|p l IH]; intros g x Hg; cbn [set_all]; [exact Hg|]. apply IH. unfold fupd. destruct (Nat.eqb x p); [reflexivity | exact Hg].
Qed.
Lemma set_all_head l g (x : nat) : set_all g (x :: l) true x = true.
Proof. cbn [set_all]. apply set_all_keeps. unfold fupd. now rewrite Nat.eqb_refl. Qed.

Lemma transfer_under_writer n aw t c k old u :
  AInv n aw -> a_pc (aget aw t) = AvCas1 k old -> word (mu aw) = old -> held (get (mu aw) u) = Some W ->
  let aw' := fst (astep_thr aw t c) in
  queue (mu aw') <> [] /\ (exists first, hd_error (k_wake k) = Some first /\ In first (queue (mu aw')) /\ xferred aw' first = true) /\
  exists k', a_pc (aget aw' t) = AvLoad3 k' /\ k_clr k' = MU_SPINLOCK.
Proof.
  intros H Ep Ew Hu. pose proof H as ([HI _] & HL & HC). pose proof (HC t) as Ct. unfold cpl in Ct. rewrite Ep in Ct.
  cbn [cplP] in Ct. destruct Ct as (Ci & Cs & Cn).
  assert (t < length (athr aw))%nat as Ht by (apply aget_active; rewrite Ep; discriminate).
  pose proof (Inv_held n _ u W HI Hu) as [Hm _]. rewrite Ew in Hm.
  destruct (k_wake k) as [|first rest] eqn:Ek; [congruence|].
  cbv zeta. unfold astep_thr. rewrite abegin_active by (rewrite Ep; discriminate). cbv zeta. rewrite Ep.
  unfold cas, wake_waiters_cas1_old. rewrite Ew, Z.eqb_refl. rewrite Ek.
  rewrite (first_cant_acquire_under_writer _ old first rest Hm).
  unfold xfer.
  destruct (xfer_rest (wtype (mu aw)) (nonmu aw) true (mode_eqb (wtype (mu aw) first) W) rest (mode_eqb (wtype (mu aw) first) W) false) as [[[m s] a] b].
  cbn [fst].
  match goal with |- queue (mu ?A) <> [] /\ _ =>
    assert (queue (mu A) = queue (mu aw) ++ first :: m) as Eq by reflexivity;
    assert (xferred A = set_all (xferred aw) (first :: m) true) as Ex by reflexivity;
    assert (athr A = lupd (athr aw) t (mk_at (AvLoad3 (mk_kl s (k_allr k) (if a && negb b then MU_WRITER_WAITING else 0)
              (match queue (mu aw) ++ first :: m with [] => bor MU_SPINLOCK MU_WAITING | _ => MU_SPINLOCK end)))
              (a_ops (aget aw t)) (a_rets (aget aw t)))) as Ea by reflexivity;
    set (aw' := A) in * end.
  rewrite Eq, Ex. split; [destruct (queue (mu aw)); discriminate|]. split.
  - exists first. split; [reflexivity|]. split; [apply in_or_app; right; left; reflexivity | apply set_all_head].
  - eexists. split.
    + unfold aget. rewrite Ea. rewrite nth_lupd_same by exact Ht. reflexivity.
    + cbn [k_clr]. destruct (queue (mu aw)); reflexivity.
Qed.

Lemma scan_window_transfer progs cl c0 sched t c k old u :
  Z.of_nat (length progs) < 2 ^ 24 - 1 ->
  let aw := arun (ainit progs cl c0) sched in
  a_pc (aget aw t) = AvCas1 k old -> word (mu aw) = old ->
  scan_window_pc (t_pc (get (mu aw) u)) = true -> spin (get (mu aw) u) = false ->
  let aw' := fst (astep aw (Thr t c)) in
  holds (mu aw) u W /\
  queue (mu aw') <> [] /\ (exists first, hd_error (k_wake k) = Some first /\ In first (queue (mu aw')) /\ xferred aw' first = true) /\
  exists k', a_pc (aget aw' t) = AvLoad3 k' /\ k_clr k' = MU_SPINLOCK.
Proof.
  intros H aw Ep Ew P S. pose proof (reachable_ainv progs cl c0 sched H) as HA. fold aw in HA.
  assert (held (get (mu aw) u) = Some W) as Hu by (apply (scan_window_holds_W (length progs)); [apply HA | exact P | exact S]).
  split; [exact Hu|]. cbn [astep]. exact (transfer_under_writer _ aw t c k old u HA Ep Ew Hu).
Qed.
