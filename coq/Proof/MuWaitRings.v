(* MuWaitRings: the pure pointer functions of MuWaitModel (cond_eq, splice_after, maybe_merge, remove_from,
   skip_past) preserve the same_condition ring invariant RingInv of MuWaitSpec (C06 (a)). *)
From NsyncBase Require Import CSem.
From NsyncGen Require Import Consts Sites.
From NsyncModel Require Import MuWaitModel MuWaitSpec.
From Coq Require Import List ZArith Bool Lia PeanoNat.
Import ListNotations.

(* ================= 1. cond_eq / sc_equiv ================= *)
Lemma cond_eq_sc_equiv wc we cl a b : cond_eq wc we cl a b = true -> sc_equiv wc cl a b.
Proof.
  unfold cond_eq, sc_equiv. destruct (wc a) as [[fa va]|]; [|discriminate].
  destruct (wc b) as [[fb vb]|]; [|discriminate].
  rewrite andb_true_iff, orb_true_iff, andb_true_iff, !Nat.eqb_eq.
  intros [-> [->|[_ H]]]; auto.
Qed.

Lemma sc_equiv_sym wc cl a b : sc_equiv wc cl a b -> sc_equiv wc cl b a.
Proof.
  unfold sc_equiv. destruct (wc a) as [[fa va]|], (wc b) as [[fb vb]|]; intuition congruence.
Qed.

Lemma sc_equiv_trans wc cl a b c : sc_equiv wc cl a b -> sc_equiv wc cl b c -> sc_equiv wc cl a c.
Proof.
  unfold sc_equiv. destruct (wc a) as [[fa va]|], (wc b) as [[fb vb]|], (wc c) as [[fc vc]|]; intuition congruence.
Qed.

(* ================= lists ================= *)
Lemma last_cons_default (A : Type) (r : list A) : forall x y, last (y :: r) x = last r y.
Proof.
  induction r as [|z r IH]; intros x y; [reflexivity|].
  change (last (y :: z :: r) x) with (last (z :: r) x). rewrite (IH x z), (IH y z). reflexivity.
Qed.

Lemma last_in (A : Type) (l : list A) : forall x, In (last l x) (x :: l).
Proof.
  induction l as [|a l IH]; intros x; [left; reflexivity|].
  rewrite last_cons_default. right. apply IH.
Qed.

Lemma last_cases (A : Type) (l : list A) x : l = [] \/ In (last l x) l.
Proof. destruct l as [|a l]; [left; reflexivity|right]. rewrite last_cons_default. apply last_in. Qed.

Lemma last_app_cons (A : Type) (l1 : list A) : forall x y l2, last (l1 ++ y :: l2) x = last l2 y.
Proof.
  induction l1 as [|a l1 IH]; intros x y l2.
  - apply last_cons_default.
  - change ((a :: l1) ++ y :: l2) with (a :: (l1 ++ y :: l2)). rewrite last_cons_default. apply IH.
Qed.

Lemma last_indep (A : Type) (l : list A) d d' : l <> [] -> last l d = last l d'.
Proof. destruct l as [|a l]; [congruence|]. intros _. rewrite !last_cons_default. reflexivity. Qed.

Lemma removelast_cons2 (A : Type) (x y : A) r : removelast (x :: y :: r) = x :: removelast (y :: r).
Proof. reflexivity. Qed.

Lemma removelast_incl (A : Type) (l : list A) : forall z, In z (removelast l) -> In z l.
Proof.
  induction l as [|a l IH]; intros z Hz; [exact Hz|].
  destruct l as [|b l]; [destruct Hz|].
  rewrite removelast_cons2 in Hz. destruct Hz as [->|Hz]; [left; reflexivity|right; apply IH; exact Hz].
Qed.

Lemma NoDup_app_inv (A : Type) (l1 l2 : list A) :
  NoDup (l1 ++ l2) -> NoDup l1 /\ NoDup l2 /\ (forall x, In x l1 -> In x l2 -> False).
Proof.
  induction l1 as [|a l1 IH]; simpl; intros H.
  - split; [constructor|split; [exact H|intros x []]].
  - apply NoDup_cons_iff in H. destruct H as [Ha H]. destruct (IH H) as (H1 & H2 & H3).
    split; [|split; [exact H2|]].
    + constructor; [|exact H1]. intro Hi. apply Ha. apply in_or_app. left; exact Hi.
    + intros x [->|Hx] Hx2; [apply Ha; apply in_or_app; right; exact Hx2|eapply H3; eauto].
Qed.

Lemma NoDup_app_intro (A : Type) (l1 l2 : list A) :
  NoDup l1 -> NoDup l2 -> (forall x, In x l1 -> In x l2 -> False) -> NoDup (l1 ++ l2).
Proof.
  induction l1 as [|a l1 IH]; simpl; intros H1 H2 H3; [exact H2|].
  apply NoDup_cons_iff in H1. destruct H1 as [Ha H1]. constructor.
  - intro Hi. apply in_app_or in Hi. destruct Hi as [Hi|Hi]; [exact (Ha Hi)|exact (H3 a (or_introl eq_refl) Hi)].
  - apply IH; auto. intros x Hx. apply H3. right; exact Hx.
Qed.

Lemma NoDup_last_removelast (x : nat) l : NoDup (x :: l) -> ~ In (last l x) (removelast (x :: l)).
Proof.
  intros H Hi.
  assert (E : x :: l = removelast (x :: l) ++ [last l x]).
  { rewrite <- (last_cons_default _ l x x). apply app_removelast_last. discriminate. }
  rewrite E in H. apply NoDup_remove_2 in H. apply H. rewrite app_nil_r. exact Hi.
Qed.

Lemma NoDup_mid_disj (A : Type) (X M Y : list A) :
  NoDup (X ++ M ++ Y) -> (forall x, In x X -> ~ In x M) /\ (forall x, In x Y -> ~ In x M).
Proof.
  intros H. apply NoDup_app_inv in H. destruct H as (_ & H2 & H3).
  apply NoDup_app_inv in H2. destruct H2 as (_ & _ & H4). split.
  - intros x Hx Hm. apply (H3 x Hx). apply in_or_app. left; exact Hm.
  - intros x Hx Hm. exact (H4 x Hm Hx).
Qed.

Lemma NoDup_split_unique (X : list nat) : forall a Y X' Y',
  NoDup (X ++ a :: Y) -> X ++ a :: Y = X' ++ a :: Y' -> X = X' /\ Y = Y'.
Proof.
  induction X as [|x X IH]; intros a Y X' Y' Hnd E.
  - destruct X' as [|x' X']; simpl in E.
    + injection E as E. auto.
    + injection E as E1 E2. exfalso. simpl in Hnd. apply NoDup_cons_iff in Hnd. apply (proj1 Hnd).
      rewrite E2. apply in_or_app. right; left; reflexivity.
  - destruct X' as [|x' X']; simpl in E.
    + injection E as E1 E2. exfalso. simpl in Hnd. apply NoDup_cons_iff in Hnd. apply (proj1 Hnd).
      subst x. apply in_or_app. right; left; reflexivity.
    + injection E as E1 E2. simpl in Hnd. apply NoDup_cons_iff in Hnd.
      destruct (IH _ _ _ _ (proj2 Hnd) E2) as [-> ->]. subst; auto.
Qed.

Lemma last_opt_cons x l : last_opt (x :: l) = Some (last l x).
Proof.
  revert x; induction l as [|y r IH]; intros x; [reflexivity|].
  change (last_opt (x :: y :: r)) with (last_opt (y :: r)). rewrite IH, last_cons_default. reflexivity.
Qed.

Lemma last_opt_app l1 l2 : l2 <> [] -> last_opt (l1 ++ l2) = last_opt l2.
Proof.
  intros H. induction l1 as [|a l1 IH]; [reflexivity|].
  change ((a :: l1) ++ l2) with (a :: (l1 ++ l2)).
  destruct (l1 ++ l2) as [|b m] eqn:E.
  - destruct l1; simpl in E; [congruence|discriminate].
  - exact IH.
Qed.

Lemma prev_of_app (X : list nat) : forall d e Y, ~ In e X -> prev_of d (X ++ e :: Y) e = last X d.
Proof.
  induction X as [|a X IH]; intros d e Y H; simpl.
  - rewrite Nat.eqb_refl. reflexivity.
  - destruct (Nat.eqb_spec a e) as [->|Hn]; [exfalso; apply H; left; reflexivity|].
    rewrite IH; [|intro Hi; apply H; right; exact Hi].
    symmetry. apply (last_cons_default _ X d a).
Qed.

Lemma next_of_app (X : list nat) : forall e Y f, ~ In e X -> next_of (X ++ e :: Y) e f = hd f Y.
Proof.
  induction X as [|a X IH]; intros e Y f H; simpl.
  - rewrite Nat.eqb_refl. destruct Y; reflexivity.
  - destruct (Nat.eqb_spec a e) as [->|Hn]; [exfalso; apply H; left; reflexivity|].
    apply IH. intro Hi; apply H; right; exact Hi.
Qed.

Lemma remove1_app (X : list nat) : forall e Y, ~ In e X -> remove1 e (X ++ e :: Y) = X ++ Y.
Proof.
  induction X as [|a X IH]; intros e Y H; simpl.
  - rewrite Nat.eqb_refl. reflexivity.
  - destruct (Nat.eqb_spec a e) as [->|Hn]; [exfalso; apply H; left; reflexivity|].
    rewrite IH; [reflexivity|intro Hi; apply H; right; exact Hi].
Qed.

Lemma after_app (X : list nat) : forall z Y, ~ In z X -> after z (X ++ z :: Y) = Y.
Proof.
  induction X as [|a X IH]; intros z Y H; simpl.
  - rewrite Nat.eqb_refl. reflexivity.
  - destruct (Nat.eqb_spec a z) as [->|Hn]; [exfalso; apply H; left; reflexivity|].
    apply IH. intro Hi; apply H; right; exact Hi.
Qed.

Lemma concat_mid (A : Type) (B1 : list (list A)) b B2 : concat (B1 ++ b :: B2) = concat B1 ++ b ++ concat B2.
Proof. rewrite concat_app. reflexivity. Qed.

Lemma concat_mid2 (A : Type) (B1 : list (list A)) a b B2 :
  concat (B1 ++ a :: b :: B2) = concat B1 ++ (a ++ b) ++ concat B2.
Proof. rewrite concat_app. simpl. rewrite (app_assoc a b). reflexivity. Qed.

Lemma snoc_case (A : Type) (l : list A) : l = [] \/ exists l' a, l = l' ++ [a].
Proof.
  destruct l as [|x l]; [left; reflexivity|right].
  destruct (exists_last (l := x :: l)) as (l' & a & E); [discriminate|]. eauto.
Qed.

Lemma fupd_eq (A : Type) (f : nat -> A) k v : fupd f k v k = v.
Proof. unfold fupd. rewrite Nat.eqb_refl. reflexivity. Qed.
Lemma fupd_neq (A : Type) (f : nat -> A) k v x : x <> k -> fupd f k v x = f x.
Proof. unfold fupd. destruct (Nat.eqb_spec x k); congruence. Qed.

(* ================= chain / block_ok ================= *)
Lemma chain_app sp sn l1 : forall x y l2,
  chain sp sn x (l1 ++ y :: l2) <->
  chain sp sn x l1 /\ sn (last l1 x) = y /\ sp y = last l1 x /\ chain sp sn y l2.
Proof.
  induction l1 as [|a l1 IH]; intros x y l2.
  - simpl. tauto.
  - change ((a :: l1) ++ y :: l2) with (a :: (l1 ++ y :: l2)).
    rewrite last_cons_default. simpl. rewrite IH. tauto.
Qed.

Lemma chain_mid sp sn L1 : forall x l a b L2,
  chain sp sn x l -> x :: l = L1 ++ a :: b :: L2 -> sn a = b /\ sp b = a.
Proof.
  induction L1 as [|c L1 IH]; intros x l a b L2 H E; simpl in E.
  - injection E as -> ->. simpl in H. tauto.
  - injection E as -> ->. destruct L1 as [|c' L1].
    + destruct H as (_ & _ & H). eapply IH; [exact H|reflexivity].
    + destruct H as (_ & _ & H). eapply IH; [exact H|reflexivity].
Qed.

Lemma chain_ext sp sn sp' sn' l : forall x,
  (forall z, In z (removelast (x :: l)) -> sn' z = sn z) ->
  (forall z, In z l -> sp' z = sp z) ->
  chain sp sn x l -> chain sp' sn' x l.
Proof.
  induction l as [|y r IH]; intros x Hn Hp H; [exact I|].
  destruct H as (H1 & H2 & H3). split; [|split].
  - rewrite Hn; [exact H1|]. rewrite removelast_cons2. left; reflexivity.
  - rewrite Hp; [exact H2|]. left; reflexivity.
  - apply IH; [| |exact H3].
    + intros z Hz. apply Hn. rewrite removelast_cons2. right; exact Hz.
    + intros z Hz. apply Hp. right; exact Hz.
Qed.

Lemma block_ok_ext wc cl r r' b : block_ok wc cl r b ->
  (forall x, In x b -> fst r' x = fst r x /\ snd r' x = snd r x) -> block_ok wc cl r' b.
Proof.
  destruct b as [|x l]; unfold block_ok; [tauto|]. intros (Hc & Hn & Hp & He) H.
  assert (Hl : In (last l x) (x :: l)) by apply last_in.
  split; [|split; [|split]].
  - eapply chain_ext; [| |exact Hc].
    + intros z Hz. apply H. apply removelast_incl. exact Hz.
    + intros z Hz. apply H. right; exact Hz.
  - rewrite (proj2 (H _ Hl)). exact Hn.
  - rewrite (proj1 (H x (or_introl eq_refl))). exact Hp.
  - exact He.
Qed.

Lemma blocks_ext wc cl r r' Bs : Forall (block_ok wc cl r) Bs ->
  (forall x, In x (concat Bs) -> fst r' x = fst r x /\ snd r' x = snd r x) ->
  Forall (block_ok wc cl r') Bs.
Proof.
  intros HF H. rewrite Forall_forall in *. intros b Hb.
  eapply block_ok_ext; [apply HF; exact Hb|].
  intros x Hx. apply H. apply in_concat. exists b. auto.
Qed.

Lemma blocks_frame wc cl r r' Bs l : Forall (block_ok wc cl r) Bs -> frame r r' l ->
  (forall x, In x (concat Bs) -> ~ In x l) -> Forall (block_ok wc cl r') Bs.
Proof. intros HF Hf Hd. eapply blocks_ext; [exact HF|]. intros x Hx. apply Hf. apply Hd. exact Hx. Qed.

Lemma block_single wc cl r t : single r t -> block_ok wc cl r [t].
Proof. intros [H1 H2]. unfold block_ok. simpl. repeat split; auto. intros y []. Qed.

Lemma block_nonempty wc cl r b : block_ok wc cl r b -> b <> [].
Proof. destruct b; [intros []|discriminate]. Qed.

(* ================= 6. framing ================= *)
Lemma RingInv_frame wc cl r r' q : RingInv wc cl r q ->
  (forall x, In x q -> fst r' x = fst r x /\ snd r' x = snd r x) -> RingInv wc cl r' q.
Proof.
  intros (Hnd & blocks & Hc & HF) H. split; [exact Hnd|]. exists blocks. split; [exact Hc|].
  eapply blocks_ext; [exact HF|]. rewrite Hc. exact H.
Qed.

(* ================= splice_after joins two adjacent rings ================= *)
Lemma splice_block wc cl sp sn a1 la n lb :
  NoDup ((a1 :: la) ++ n :: lb) ->
  block_ok wc cl (sp, sn) (a1 :: la) -> block_ok wc cl (sp, sn) (n :: lb) ->
  sc_equiv wc cl (last la a1) n ->
  block_ok wc cl (splice_after (sp, sn) (last la a1) n) ((a1 :: la) ++ n :: lb) /\
  frame (sp, sn) (splice_after (sp, sn) (last la a1) n) ((a1 :: la) ++ n :: lb).
Proof.
  intros Hnd (Hc1 & Hn1 & Hp1 & He1) (Hc2 & Hn2 & Hp2 & He2) Hpn.
  simpl fst in *. simpl snd in *.
  unfold splice_after. rewrite Hn1, Hp2.
  set (p := last la a1) in *. set (bk := last lb n) in *.
  apply NoDup_app_inv in Hnd. destruct Hnd as (HA & HB & HAB).
  assert (Hp : In p (a1 :: la)) by apply last_in.
  assert (Hbk : In bk (n :: lb)) by apply last_in.
  assert (HpA : ~ In p (removelast (a1 :: la))) by (apply NoDup_last_removelast; exact HA).
  assert (HbkB : ~ In bk (removelast (n :: lb))) by (apply NoDup_last_removelast; exact HB).
  assert (HA' := proj1 (NoDup_cons_iff _ _) HA). assert (HB' := proj1 (NoDup_cons_iff _ _) HB).
  assert (Ha1n : sc_equiv wc cl a1 n).
  { destruct (last_cases _ la a1) as [->|Hi]; [exact Hpn|].
    eapply sc_equiv_trans; [apply He1; exact Hi|exact Hpn]. }
  split.
  - unfold block_ok. simpl fst. simpl snd.
    change ((a1 :: la) ++ n :: lb) with (a1 :: (la ++ n :: lb)). cbv iota.
    rewrite last_app_cons. fold bk.
    split; [|split; [|split]].
    + apply chain_app. fold p. split; [|split; [|split]].
      * eapply chain_ext; [| |exact Hc1].
        -- intros z Hz. assert (Hz' := removelast_incl _ _ _ Hz).
           rewrite !fupd_neq; [reflexivity| |].
           ++ intro; subst z. contradiction.
           ++ intro; subst z. exact (HAB _ Hz' Hbk).
        -- intros z Hz. rewrite !fupd_neq; [reflexivity| |].
           ++ intro; subst z. apply (HAB n); [right; exact Hz|left; reflexivity].
           ++ intro; subst z. exact (proj1 HA' Hz).
      * rewrite fupd_neq; [apply fupd_eq|]. intro E. rewrite E in Hp. exact (HAB _ Hp Hbk).
      * rewrite fupd_neq; [apply fupd_eq|]. intro E. apply (HAB a1); [left; reflexivity|]. rewrite <- E. left; reflexivity.
      * eapply chain_ext; [| |exact Hc2].
        -- intros z Hz. assert (Hz' := removelast_incl _ _ _ Hz).
           rewrite !fupd_neq; [reflexivity| |].
           ++ intro; subst z. exact (HAB _ Hp Hz').
           ++ intro; subst z. contradiction.
        -- intros z Hz. rewrite !fupd_neq; [reflexivity| |].
           ++ intro; subst z. exact (proj1 HB' Hz).
           ++ intro; subst z. apply (HAB a1); [left; reflexivity|right; exact Hz].
    + apply fupd_eq.
    + apply fupd_eq.
    + intros y Hy. apply in_app_or in Hy. destruct Hy as [Hy|[<-|Hy]].
      * apply He1; exact Hy.
      * exact Ha1n.
      * eapply sc_equiv_trans; [exact Ha1n|apply He2; exact Hy].
  - intros x Hx. simpl fst. simpl snd.
    assert (Hxa : ~ In x (a1 :: la)) by (intro Hi; apply Hx; apply in_or_app; left; exact Hi).
    assert (Hxb : ~ In x (n :: lb)) by (intro Hi; apply Hx; apply in_or_app; right; exact Hi).
    split; rewrite !fupd_neq; try reflexivity; intro; subst x; try contradiction.
    + apply Hxb. left; reflexivity.
    + apply Hxa. left; reflexivity.
Qed.

(* maybe_merge on the last element of block A and the first of the following block B *)
Lemma mm_join wc we cl r B1 A B B2 :
  NoDup (concat (B1 ++ A :: B :: B2)) ->
  Forall (block_ok wc cl r) (B1 ++ A :: B :: B2) ->
  let r' := maybe_merge wc we cl r (last_opt A) (first_opt B) in
  (exists blocks, concat blocks = concat (B1 ++ A :: B :: B2) /\ Forall (block_ok wc cl r') blocks) /\
  frame r r' (A ++ B).
Proof.
  intros Hnd HF r'. subst r'.
  apply Forall_app in HF. destruct HF as [HF1 HF2].
  inversion HF2 as [|? ? HA HF3]; subst. inversion HF3 as [|? ? HB HF4]; subst.
  destruct A as [|a1 la]; [destruct HA|]. destruct B as [|n lb]; [destruct HB|].
  rewrite last_opt_cons. unfold first_opt, maybe_merge.
  destruct (cond_eq wc we cl (last la a1) n) eqn:Ec.
  - destruct r as [sp sn]. rewrite concat_mid2 in Hnd.
    destruct (NoDup_mid_disj _ _ _ _ Hnd) as [Hd1 Hd2].
    assert (HndAB : NoDup ((a1 :: la) ++ n :: lb)).
    { apply NoDup_app_inv in Hnd. destruct Hnd as (_ & H2 & _).
      apply NoDup_app_inv in H2. tauto. }
    destruct (splice_block wc cl sp sn a1 la n lb HndAB HA HB (cond_eq_sc_equiv _ _ _ _ _ Ec)) as [Hb Hf].
    split; [|exact Hf].
    exists (B1 ++ ((a1 :: la) ++ n :: lb) :: B2). split.
    + rewrite concat_mid, concat_mid2. reflexivity.
    + apply Forall_app. split; [|constructor; [exact Hb|]].
      * eapply blocks_frame; [exact HF1|exact Hf|exact Hd1].
      * eapply blocks_frame; [exact HF4|exact Hf|exact Hd2].
  - split.
    + exists (B1 ++ (a1 :: la) :: (n :: lb) :: B2). split; [reflexivity|].
      apply Forall_app. split; [exact HF1|]. constructor; [exact HA|]. constructor; [exact HB|exact HF4].
    + intros x _. tauto.
Qed.

(* ================= 2./3. enqueue ================= *)
Lemma ring_enqueue_last wc we cl r q t : RingInv wc cl r q -> ~ In t q -> single r t ->
  let r' := maybe_merge wc we cl r (last_opt q) (Some t) in
  RingInv wc cl r' (q ++ [t]) /\ frame r r' (t :: q).
Proof.
  intros (Hnd & blocks & Hc & HF) Hnt Hs r'. subst r'.
  assert (Hnd' : NoDup (q ++ [t])).
  { apply NoDup_app_intro; [exact Hnd|constructor; [intros []|constructor]|].
    intros x Hx [<-|[]]. exact (Hnt Hx). }
  destruct (snoc_case _ blocks) as [->|(B1 & A & ->)].
  - simpl in Hc. subst q. simpl. split; [|intros x _; tauto].
    split; [exact Hnd'|]. exists [[t]]. split; [reflexivity|].
    constructor; [apply block_single; exact Hs|constructor].
  - assert (HA : block_ok wc cl r A).
    { apply Forall_app in HF. destruct HF as [_ HF]. inversion HF; assumption. }
    assert (Eq : q = concat B1 ++ A).
    { rewrite <- Hc, concat_app. simpl. rewrite app_nil_r. reflexivity. }
    assert (El : last_opt q = last_opt A).
    { rewrite Eq. apply last_opt_app. eapply block_nonempty; exact HA. }
    assert (Ec : concat (B1 ++ A :: [t] :: []) = q ++ [t]).
    { rewrite concat_app. simpl. rewrite Eq, <- app_assoc. reflexivity. }
    rewrite El. change (Some t) with (first_opt [t]).
    destruct (mm_join wc we cl r B1 A [t] []) as [(bl & Hbc & HbF) Hf].
    + rewrite Ec. exact Hnd'.
    + apply Forall_app in HF. destruct HF as [HF1 HF2]. apply Forall_app. split; [exact HF1|].
      constructor; [exact HA|]. constructor; [apply block_single; exact Hs|constructor].
    + split.
      * split; [exact Hnd'|]. exists bl. split; [rewrite Hbc; exact Ec|exact HbF].
      * intros x Hx. apply Hf. intro Hi. apply Hx. apply in_app_or in Hi.
        destruct Hi as [Hi|[<-|[]]]; [right; rewrite Eq; apply in_or_app; right; exact Hi|left; reflexivity].
Qed.

Lemma ring_enqueue_first wc we cl r q t : RingInv wc cl r q -> ~ In t q -> single r t ->
  let r' := maybe_merge wc we cl r (Some t) (first_opt q) in
  RingInv wc cl r' (t :: q) /\ frame r r' (t :: q).
Proof.
  intros (Hnd & blocks & Hc & HF) Hnt Hs r'. subst r'.
  assert (Hnd' : NoDup (t :: q)) by (constructor; assumption).
  destruct blocks as [|B B2].
  - simpl in Hc. subst q. simpl. split; [|intros x _; tauto].
    split; [exact Hnd'|]. exists [[t]]. split; [reflexivity|].
    constructor; [apply block_single; exact Hs|constructor].
  - assert (HB : block_ok wc cl r B) by (inversion HF; assumption).
    assert (El : first_opt q = first_opt B).
    { rewrite <- Hc. simpl. destruct B; [destruct HB|reflexivity]. }
    rewrite El. change (Some t) with (last_opt [t]).
    destruct (mm_join wc we cl r [] [t] B B2) as [(bl & Hbc & HbF) Hf].
    + simpl. simpl in Hc. rewrite Hc. exact Hnd'.
    + simpl. constructor; [apply block_single; exact Hs|exact HF].
    + split.
      * split; [exact Hnd'|]. exists bl. split; [|exact HbF].
        rewrite Hbc. simpl. simpl in Hc. rewrite Hc. reflexivity.
      * intros x Hx. apply Hf. intro Hi. apply Hx. destruct Hi as [<-|Hi]; [left; reflexivity|].
        right. rewrite <- Hc. simpl. apply in_or_app. left; exact Hi.
Qed.

Lemma ring_enqueue_plain_last wc cl r q t : RingInv wc cl r q -> ~ In t q -> single r t ->
  RingInv wc cl r (q ++ [t]).
Proof.
  intros (Hnd & blocks & Hc & HF) Hnt Hs. split.
  - apply NoDup_app_intro; [exact Hnd|constructor; [intros []|constructor]|].
    intros x Hx [<-|[]]. exact (Hnt Hx).
  - exists (blocks ++ [[t]]). split.
    + rewrite concat_app, Hc. reflexivity.
    + apply Forall_app. split; [exact HF|]. constructor; [apply block_single; exact Hs|constructor].
Qed.

Lemma ring_enqueue_plain_first wc cl r q t : RingInv wc cl r q -> ~ In t q -> single r t ->
  RingInv wc cl r (t :: q).
Proof.
  intros (Hnd & blocks & Hc & HF) Hnt Hs. split; [constructor; assumption|].
  exists ([t] :: blocks). split; [simpl; rewrite Hc; reflexivity|].
  constructor; [apply block_single; exact Hs|exact HF].
Qed.

(* ================= 5. joining two lists ================= *)
Lemma ring_append wc we cl r d n : RingInv wc cl r d -> RingInv wc cl r n -> (forall x, In x d -> ~ In x n) ->
  let r' := maybe_merge wc we cl r (last_opt d) (first_opt n) in
  RingInv wc cl r' (d ++ n) /\ frame r r' (d ++ n).
Proof.
  intros (Hndd & bd & Hcd & HFd) (Hndn & bn & Hcn & HFn) Hdis r'. subst r'.
  assert (Hnd : NoDup (d ++ n)) by (apply NoDup_app_intro; auto; intros x H1 H2; exact (Hdis x H1 H2)).
  assert (Hplain : RingInv wc cl r (d ++ n)).
  { split; [exact Hnd|]. exists (bd ++ bn). split; [rewrite concat_app, Hcd, Hcn; reflexivity|].
    apply Forall_app. split; assumption. }
  destruct (snoc_case _ bd) as [->|(D1 & A & ->)].
  - simpl in Hcd. subst d. simpl. split; [exact Hplain|intros x _; tauto].
  - destruct bn as [|B N2].
    + simpl in Hcn. subst n. simpl first_opt.
      replace (maybe_merge wc we cl r (last_opt d) None) with r by (unfold maybe_merge; destruct (last_opt d); reflexivity).
      split; [exact Hplain|intros x _; tauto].
    + assert (HA : block_ok wc cl r A).
      { apply Forall_app in HFd. destruct HFd as [_ HF]. inversion HF; assumption. }
      assert (HB : block_ok wc cl r B) by (inversion HFn; assumption).
      assert (Eq : d = concat D1 ++ A).
      { rewrite <- Hcd, concat_app. simpl. rewrite app_nil_r. reflexivity. }
      assert (El : last_opt d = last_opt A).
      { rewrite Eq. apply last_opt_app. eapply block_nonempty; exact HA. }
      assert (Ef : first_opt n = first_opt B).
      { rewrite <- Hcn. simpl. destruct B; [destruct HB|reflexivity]. }
      assert (Ec : concat (D1 ++ A :: B :: N2) = d ++ n).
      { rewrite concat_app. simpl. rewrite Eq, <- Hcn. simpl. rewrite <- app_assoc. reflexivity. }
      rewrite El, Ef.
      destruct (mm_join wc we cl r D1 A B N2) as [(bl & Hbc & HbF) Hf].
      * rewrite Ec. exact Hnd.
      * apply Forall_app in HFd. destruct HFd as [HF1 _]. apply Forall_app. split; [exact HF1|].
        constructor; [exact HA|exact HFn].
      * split.
        -- split; [exact Hnd|]. exists bl. split; [rewrite Hbc; exact Ec|exact HbF].
        -- intros x Hx. apply Hf. intro Hi. apply Hx. apply in_app_or in Hi. apply in_or_app.
           destruct Hi as [Hi|Hi].
           ++ left. rewrite Eq. apply in_or_app. right; exact Hi.
           ++ right. rewrite <- Hcn. simpl. apply in_or_app. left; exact Hi.
Qed.

(* ================= 4. removal with ring repair ================= *)
Lemma neq_in_notin (z k : nat) l : In z l -> ~ In k l -> z <> k.
Proof. intros H1 H2 E; subst; contradiction. Qed.
Lemma neq_notin_in (z k : nat) l : ~ In z l -> In k l -> z <> k.
Proof. intros H1 H2 E; subst; contradiction. Qed.
Lemma neq_disj (z k : nat) l1 l2 : (forall x, In x l1 -> In x l2 -> False) -> In z l1 -> In k l2 -> z <> k.
Proof. intros H H1 H2 E; subst; eauto. Qed.
Lemma neq_disj' (z k : nat) l1 l2 : (forall x, In x l1 -> In x l2 -> False) -> In z l2 -> In k l1 -> z <> k.
Proof. intros H H1 H2 E; subst; eauto. Qed.

Lemma fupd2_neq (A : Type) (f : nat -> A) k1 v1 k2 v2 z : z <> k1 -> z <> k2 -> fupd (fupd f k1 v1) k2 v2 z = f z.
Proof. intros. rewrite !fupd_neq; auto. Qed.
Lemma fupd2_eq (A : Type) (f : nat -> A) k1 v1 k2 v2 : k1 <> k2 -> fupd (fupd f k1 v1) k2 v2 k1 = v1.
Proof. intros. rewrite fupd_neq; auto. apply fupd_eq. Qed.

Ltac nq := solve [ eauto 7 using neq_in_notin, neq_notin_in, neq_disj, neq_disj', removelast_incl, last_in, in_eq, in_cons ].

Lemma remove_block wc cl sp sn b1 e b2 :
  NoDup (b1 ++ e :: b2) -> b1 ++ b2 <> [] ->
  block_ok wc cl (sp, sn) (b1 ++ e :: b2) ->
  sn e <> e /\
  block_ok wc cl (fupd (fupd sp (sn e) (sp e)) e e, fupd (fupd sn (sp e) (sn e)) e e) (b1 ++ b2) /\
  In (sn e) (b1 ++ b2) /\ In (sp e) (b1 ++ b2).
Proof.
  intros Hnd Hne Hb. destruct b1 as [|x b1].
  - (* e is the first of its block *)
    destruct b2 as [|v l]; [exfalso; apply Hne; reflexivity|]. clear Hne. simpl app in *.
    destruct Hb as (Hc & Hn & Hp & He). cbn [fst snd] in *.
    destruct Hc as (Hsne & Hspv & Hc). rewrite last_cons_default in Hn, Hp.
    rewrite Hsne, Hp. unfold block_ok. cbn [fst snd].
    apply NoDup_cons_iff in Hnd. destruct Hnd as [Hev Hnd].
    assert (Hu : In (last l v) (v :: l)) by apply last_in.
    assert (Hur := NoDup_last_removelast _ _ Hnd).
    assert (Hvl := proj1 (proj1 (NoDup_cons_iff _ _) Hnd)).
    set (u := last l v) in *. clearbody u.
    split; [nq|]. split; [|split; [left; reflexivity|exact Hu]].
    split; [|split; [|split]].
    + eapply chain_ext; [| |exact Hc].
      * intros z Hz. apply fupd2_neq; nq.
      * intros z Hz. apply fupd2_neq; nq.
    + apply fupd2_eq; nq.
    + apply fupd2_eq; nq.
    + intros y Hy. eapply sc_equiv_trans; [apply sc_equiv_sym; apply He; left; reflexivity|].
      apply He. right; exact Hy.
  - change ((x :: b1) ++ e :: b2) with (x :: (b1 ++ e :: b2)) in *.
    destruct Hb as (Hc & Hn & Hp & He). cbn [fst snd] in *.
    apply chain_app in Hc. destruct Hc as (Hc1 & Hsnu & Hspe & Hc2).
    rewrite last_app_cons in Hn, Hp.
    apply (NoDup_app_inv _ (x :: b1) (e :: b2)) in Hnd. destruct Hnd as (Hnd1 & Hnd2 & Hdis).
    assert (Hex : ~ In e (x :: b1)) by (intro Hi; apply (Hdis e Hi); left; reflexivity).
    assert (Hu : In (last b1 x) (x :: b1)) by apply last_in.
    assert (Hur := NoDup_last_removelast _ _ Hnd1).
    assert (Hxb := proj1 (proj1 (NoDup_cons_iff _ _) Hnd1)).
    apply NoDup_cons_iff in Hnd2. destruct Hnd2 as [Heb Hnd2].
    assert (Hdis' : forall z, In z (x :: b1) -> In z b2 -> False) by (intros z H1 H2; apply (Hdis z H1); right; exact H2).
    rewrite Hspe.
    destruct b2 as [|v l].
    + (* e is the last of its block *)
      simpl in Hn. rewrite Hn. rewrite app_nil_r. unfold block_ok. cbn [fst snd].
      set (u := last b1 x) in *. clearbody u.
      split; [nq|]. split; [|split; [left; reflexivity|exact Hu]].
      split; [|split; [|split]].
      * eapply chain_ext; [| |exact Hc1].
        -- intros z Hz. apply fupd2_neq; nq.
        -- intros z Hz. apply fupd2_neq; nq.
      * apply fupd2_eq; nq.
      * apply fupd2_eq; nq.
      * intros y Hy. apply He. apply in_or_app. left; exact Hy.
    + (* e is in the middle of its block *)
      destruct Hc2 as (Hsne & Hspv & Hc2). rewrite last_cons_default in Hn, Hp. rewrite Hsne.
      assert (Hi1 : In v ((x :: b1) ++ v :: l)) by (apply in_or_app; right; left; reflexivity).
      assert (Hi2 : In (last b1 x) ((x :: b1) ++ v :: l)) by (apply in_or_app; left; exact Hu).
      change ((x :: b1) ++ v :: l) with (x :: (b1 ++ v :: l)).
      unfold block_ok. cbn [fst snd]. rewrite last_app_cons.
      assert (Hw : In (last l v) (v :: l)) by apply last_in.
      assert (Hwr := NoDup_last_removelast _ _ Hnd2).
      assert (Hvl := proj1 (proj1 (NoDup_cons_iff _ _) Hnd2)).
      set (u := last b1 x) in *. set (w := last l v) in *.
      split; [nq|]. split; [|split; [exact Hi1|exact Hi2]].
      split; [|split; [|split]].
      * apply chain_app. split; [|split; [|split]].
        -- eapply chain_ext; [| |exact Hc1].
           ++ intros z Hz. apply fupd2_neq; nq.
           ++ intros z Hz. apply fupd2_neq; nq.
        -- apply fupd2_eq; nq.
        -- apply fupd2_eq; nq.
        -- eapply chain_ext; [| |exact Hc2].
           ++ intros z Hz. apply fupd2_neq; nq.
           ++ intros z Hz. apply fupd2_neq; nq.
      * rewrite fupd2_neq; [exact Hn|nq|nq].
      * rewrite fupd2_neq; [exact Hp|nq|nq].
      * intros y Hy. apply He. apply in_app_or in Hy. apply in_or_app.
        destruct Hy as [Hy|Hy]; [left; exact Hy|right; right; exact Hy].
Qed.

Lemma fupd_same (A : Type) (f : nat -> A) k x : fupd f k (f x) x = f x.
Proof. unfold fupd. destruct (Nat.eqb x k); reflexivity. Qed.

Lemma last_opt_last l d : l <> [] -> last_opt l = Some (last l d).
Proof. destruct l as [|x l]; [congruence|]. intros _. rewrite last_opt_cons, last_cons_default. reflexivity. Qed.

Lemma merge_mid wc we cl r B1 B2 e :
  NoDup (concat (B1 ++ [e] :: B2)) -> Forall (block_ok wc cl r) (B1 ++ [e] :: B2) ->
  B1 <> [] -> B2 <> [] ->
  let r' := maybe_merge wc we cl r (last_opt (concat B1)) (first_opt (concat B2)) in
  RingInv wc cl r' (concat (B1 ++ B2)) /\ single r' e /\ frame r r' (concat (B1 ++ B2)).
Proof.
  intros Hnd HF H1 H2 r'. subst r'.
  destruct (snoc_case _ B1) as [->|(B1' & A & ->)]; [congruence|].
  destruct B2 as [|B B2']; [congruence|]. clear H1 H2.
  apply Forall_app in HF. destruct HF as [HF1 HF2]. inversion HF2 as [|? ? He HF3]; subst.
  apply Forall_app in HF1. destruct HF1 as [HF1 HFA]. inversion HFA as [|? ? HA _]; subst.
  inversion HF3 as [|? ? HB HF4]; subst.
  assert (E1 : last_opt (concat (B1' ++ [A])) = last_opt A).
  { rewrite concat_app. simpl. rewrite app_nil_r. apply last_opt_app. eapply block_nonempty; exact HA. }
  assert (E2 : first_opt (concat (B :: B2')) = first_opt B).
  { simpl. destruct B; [destruct HB|reflexivity]. }
  rewrite E1, E2.
  assert (Ec : concat ((B1' ++ [A]) ++ B :: B2') = concat (B1' ++ A :: B :: B2')).
  { rewrite <- app_assoc. reflexivity. }
  rewrite concat_mid in Hnd. change (NoDup (concat (B1' ++ [A]) ++ e :: concat (B :: B2'))) in Hnd.
  assert (Hne := NoDup_remove_2 _ _ _ Hnd). apply NoDup_remove_1 in Hnd.
  rewrite <- concat_app, Ec in Hnd, Hne.
  destruct (mm_join wc we cl r B1' A B B2' Hnd) as [(bl & Hbc & HbF) Hf].
  { apply Forall_app; split; [exact HF1|]. constructor; [exact HA|exact HF3]. }
  assert (HeAB : ~ In e (A ++ B)).
  { intro Hi. apply Hne. rewrite concat_mid2. apply in_or_app. right. apply in_or_app. left; exact Hi. }
  rewrite Ec.
  split; [|split].
  - split; [exact Hnd|]. exists bl. split; [exact Hbc|exact HbF].
  - destruct (Hf e HeAB) as [Ha Hb]. destruct He as (_ & Hn & Hp & _). simpl in Hn, Hp.
    unfold single. rewrite Ha, Hb. split; assumption.
  - intros x Hx. apply Hf. intro Hi. apply Hx. rewrite concat_mid2.
    apply in_or_app. right. apply in_or_app. left; exact Hi.
Qed.

Lemma ring_remove_aux wc we cl r q e : RingInv wc cl r q -> In e q ->
  fst (remove_from wc we cl r q e) = remove1 e q /\
  RingInv wc cl (snd (remove_from wc we cl r q e)) (remove1 e q) /\
  single (snd (remove_from wc we cl r q e)) e /\
  frame r (snd (remove_from wc we cl r q e)) q.
Proof.
  intros (Hnd & blocks & Hc & HF) He.
  rewrite <- Hc in He. apply in_concat in He. destruct He as (b & Hb & Heb).
  apply in_split in Hb. destruct Hb as (B1 & B2 & ->).
  apply in_split in Heb. destruct Heb as (b1 & b2 & ->).
  assert (HF' := HF). apply Forall_app in HF'. destruct HF' as [HF1 HF2].
  inversion HF2 as [|? ? Hblk HF3]; subst.
  assert (Hdec : b1 ++ b2 = [] \/ b1 ++ b2 <> []) by (destruct (b1 ++ b2); [left|right]; congruence).
  destruct Hdec as [Hnil|Hne].
  - (* e is alone in its ring *)
    apply app_eq_nil in Hnil. destruct Hnil as [-> ->]. simpl app in *.
    assert (Hs : single r e).
    { destruct Hblk as (_ & Hn & Hp & _). simpl in Hn, Hp. split; assumption. }
    remember (concat B1) as X eqn:EX. remember (concat B2) as Y eqn:EY.
    assert (Eq : concat (B1 ++ [e] :: B2) = X ++ e :: Y) by (rewrite concat_mid, <- EX, <- EY; reflexivity).
    assert (Hnd0 := Hnd). rewrite Eq in Hnd.
    assert (HeXY := NoDup_remove_2 _ _ _ Hnd).
    assert (HeX : ~ In e X) by (intro Hi; apply HeXY; apply in_or_app; left; exact Hi).
    assert (Er : remove1 e (X ++ e :: Y) = X ++ Y) by (apply remove1_app; exact HeX).
    assert (Hplain : RingInv wc cl r (X ++ Y)).
    { split; [eapply NoDup_remove_1; exact Hnd|]. exists (B1 ++ B2). split.
      - rewrite concat_app, <- EX, <- EY. reflexivity.
      - apply Forall_app. split; assumption. }
    rewrite Eq. unfold remove_from. rewrite Er.
    destruct (X ++ Y) as [|n0 l0] eqn:EXY.
    + simpl. split; [reflexivity|]. split; [exact Hplain|]. split; [exact Hs|intros x _; tauto].
    + rewrite <- EXY in Hplain |- *. destruct r as [sp sn]. cbv beta iota zeta.
      destruct (Nat.eqb_spec (sn e) e) as [_|Hc']; [|exfalso; apply Hc'; apply Hs]. cbn [negb].
      destruct (Nat.eqb_spec (circ_prev (X ++ e :: Y) e) (last (X ++ Y) e)) as [_|Hpl]; cbn [negb fst snd].
      * split; [reflexivity|]. split; [exact Hplain|]. split; [exact Hs|intros x _; tauto].
      * unfold circ_prev in Hpl. rewrite prev_of_app in Hpl by exact HeX.
        destruct X as [|x0 X'].
        { exfalso. apply Hpl. change (last (e :: Y) e = last Y e). apply last_cons_default. }
        destruct Y as [|y0 Y'].
        { exfalso. apply Hpl. rewrite app_nil_r. apply last_indep. discriminate. }
        assert (HB1 : B1 <> []) by (intro; subst B1; discriminate).
        assert (HB2 : B2 <> []) by (intro; subst B2; discriminate).
        assert (Ep : Some (circ_prev ((x0 :: X') ++ e :: y0 :: Y') e) = last_opt (x0 :: X')).
        { unfold circ_prev. rewrite prev_of_app by exact HeX. symmetry. apply last_opt_last. discriminate. }
        assert (En : Some (circ_next ((x0 :: X') ++ e :: y0 :: Y') e) = first_opt (y0 :: Y')).
        { unfold circ_next. rewrite next_of_app by exact HeX. reflexivity. }
        rewrite Ep, En.
        destruct (merge_mid wc we cl (sp, sn) B1 B2 e Hnd0 HF HB1 HB2) as (Hr & Hsi & Hfr).
        rewrite concat_app in Hr, Hfr. rewrite <- EX, <- EY in Hr, Hfr, Hsi.
        split; [reflexivity|]. split; [exact Hr|]. split; [exact Hsi|].
        intros x Hx. apply Hfr. intro Hi. apply Hx. apply in_app_or in Hi. apply in_or_app.
        destruct Hi as [Hi|Hi]; [left; exact Hi|right; right; exact Hi].
  - (* e has a same_condition neighbour *)
    destruct r as [sp sn].
    rewrite concat_mid in Hnd |- *.
    destruct (NoDup_mid_disj _ _ _ _ Hnd) as [Hd1 Hd2].
    assert (Hndb : NoDup (b1 ++ e :: b2)).
    { apply NoDup_app_inv in Hnd. destruct Hnd as (_ & H2 & _). apply NoDup_app_inv in H2. tauto. }
    destruct (remove_block wc cl sp sn b1 e b2 Hndb Hne Hblk) as (Hsn & Hblk' & Hi1 & Hi2).
    assert (Hsub : forall z, In z (b1 ++ b2) -> In z (b1 ++ e :: b2)).
    { intros z Hz. apply in_app_or in Hz. apply in_or_app. destruct Hz; [left|right; right]; assumption. }
    assert (Hfr : frame (sp, sn) (fupd (fupd sp (sn e) (sp e)) e e, fupd (fupd sn (sp e) (sn e)) e e) (b1 ++ e :: b2)).
    { intros x Hx. cbn [fst snd]. split; apply fupd2_neq; intro; subst x; apply Hx; auto; apply in_elt. }
    assert (Eq : concat B1 ++ (b1 ++ e :: b2) ++ concat B2 = (concat B1 ++ b1) ++ e :: (b2 ++ concat B2)).
    { rewrite <- !app_assoc. reflexivity. }
    rewrite Eq in Hnd |- *.
    assert (HeXY := NoDup_remove_2 _ _ _ Hnd).
    assert (HeX : ~ In e (concat B1 ++ b1)) by (intro Hi; apply HeXY; apply in_or_app; left; exact Hi).
    assert (Er := remove1_app _ e (b2 ++ concat B2) HeX).
    assert (Hnd' := NoDup_remove_1 _ _ _ Hnd).
    unfold remove_from. rewrite Er.
    destruct ((concat B1 ++ b1) ++ b2 ++ concat B2) as [|n0 l0] eqn:EXY.
    + exfalso. apply Hne. apply app_eq_nil in EXY. destruct EXY as [E1 E2].
      apply app_eq_nil in E1. apply app_eq_nil in E2. destruct E1 as [_ ->]. destruct E2 as [-> _]. reflexivity.
    + rewrite <- EXY in Hnd' |- *. cbv beta iota zeta.
      destruct (Nat.eqb_spec (sn e) e) as [E|_]; [contradiction|]. cbn [negb fst snd].
      rewrite fupd_same.
      split; [reflexivity|]. split; [|split].
      * split; [exact Hnd'|]. exists (B1 ++ (b1 ++ b2) :: B2). split.
        -- rewrite concat_mid, <- !app_assoc. reflexivity.
        -- apply Forall_app. split; [eapply blocks_frame; [exact HF1|exact Hfr|exact Hd1]|].
           constructor; [exact Hblk'|eapply blocks_frame; [exact HF3|exact Hfr|exact Hd2]].
      * split; apply fupd_eq.
      * intros x Hx. apply Hfr. intro Hi. apply Hx. rewrite <- Eq.
        apply in_or_app. right. apply in_or_app. left; exact Hi.
Qed.

Lemma ring_remove wc we cl r q e : RingInv wc cl r q -> In e q ->
  let '(q', r') := remove_from wc we cl r q e in
  q' = remove1 e q /\ RingInv wc cl r' q' /\ single r' e /\ frame r r' q.
Proof.
  intros H He. destruct (ring_remove_aux wc we cl r q e H He) as (H1 & H2 & H3 & H4).
  destruct (remove_from wc we cl r q e) as [q' r']. cbn [fst snd] in *. subst q'. auto.
Qed.

(* ================= 7. skip_past_same_condition ================= *)
Lemma skip_sound wc cl r pre p tl : RingInv wc cl r (pre ++ p :: tl) ->
  exists skipped, tl = skipped ++ skip_past (fst r) (pre ++ p :: tl) (p :: tl) p /\
                  Forall (fun x => sc_equiv wc cl p x) skipped.
Proof.
  intros (Hnd & blocks & Hc & HF).
  assert (Hp : In p (concat blocks)) by (rewrite Hc; apply in_elt).
  apply in_concat in Hp. destruct Hp as (b & Hb & Hpb).
  apply in_split in Hb. destruct Hb as (B1 & B2 & ->).
  apply in_split in Hpb. destruct Hpb as (b1 & b2 & ->).
  apply Forall_app in HF. destruct HF as [_ HF]. inversion HF as [|? ? Hblk _]; subst. clear HF.
  rewrite concat_mid in Hc.
  assert (Eq : concat B1 ++ (b1 ++ p :: b2) ++ concat B2 = (concat B1 ++ b1) ++ p :: (b2 ++ concat B2)).
  { rewrite <- !app_assoc. reflexivity. }
  rewrite Eq in Hc. symmetry in Hc.
  destruct (NoDup_split_unique _ _ _ _ _ Hnd Hc) as [-> ->].
  unfold skip_past.
  destruct (negb (fst r p =? p) && negb (fst r p =? circ_prev ((concat B1 ++ b1) ++ p :: b2 ++ concat B2) p)) eqn:T.
  - apply andb_true_iff in T. destruct T as [T1 T2].
    apply negb_true_iff in T1, T2. apply Nat.eqb_neq in T1, T2.
    assert (HpX : ~ In p (concat B1 ++ b1)).
    { intro Hi. apply (NoDup_remove_2 _ _ _ Hnd). apply in_or_app. left; exact Hi. }
    destruct (snoc_case _ b1) as [->|(b1' & u & ->)].
    + (* p is the first of its ring *)
      destruct Hblk as (_ & _ & Hsp & He). simpl app in *.
      destruct (snoc_case _ b2) as [->|(b2' & z & ->)]; [exfalso; apply T1; exact Hsp|].
      rewrite last_last in Hsp. rewrite Hsp.
      exists (b2' ++ [z]). split; [|apply Forall_forall; exact He].
      rewrite app_nil_r in *.
      assert (E2 : concat B1 ++ p :: (b2' ++ [z]) ++ concat B2 = (concat B1 ++ p :: b2') ++ z :: concat B2).
      { rewrite <- !app_assoc. reflexivity. }
      rewrite E2. rewrite after_app; [reflexivity|].
      rewrite E2 in Hnd. intro Hi. apply (NoDup_remove_2 _ _ _ Hnd). apply in_or_app. left; exact Hi.
    + (* p has a ring predecessor, which is its queue predecessor *)
      exfalso. apply T2.
      assert (Hu : fst r p = u).
      { destruct ((b1' ++ [u]) ++ p :: b2) as [|x l] eqn:Eb; [destruct Hblk|].
        destruct Hblk as (Hch & _). rewrite <- app_assoc in Eb. simpl in Eb. symmetry in Eb.
        exact (proj2 (chain_mid _ _ _ _ _ _ _ _ Hch Eb)). }
      unfold circ_prev. rewrite prev_of_app by exact HpX.
      rewrite Hu, app_assoc, last_last. reflexivity.
  - exists []. split; [reflexivity|constructor].
Qed.

Lemma sc_equiv_wtrue wc cl ps p x : eq_truth_preserving cl ps -> sc_equiv wc cl p x -> wtrue wc ps x = wtrue wc ps p.
Proof.
  unfold sc_equiv, wtrue. intros H. destruct (wc p) as [[f a]|]; [|intros []].
  destruct (wc x) as [[g b]|]; [|intros []]. intros [-> E]. symmetry. apply H. exact E.
Qed.

Lemma skip_false wc cl ps r pre p tl : eq_truth_preserving cl ps -> RingInv wc cl r (pre ++ p :: tl) ->
  wtrue wc ps p = false ->
  exists skipped, tl = skipped ++ skip_past (fst r) (pre ++ p :: tl) (p :: tl) p /\
                  Forall (fun x => wtrue wc ps x = false) skipped.
Proof.
  intros Het Hinv Hf. destruct (skip_sound wc cl r pre p tl Hinv) as (sk & E & Hsk).
  exists sk. split; [exact E|]. eapply Forall_impl; [|exact Hsk].
  intros x Hx. simpl in Hx. rewrite (sc_equiv_wtrue _ _ _ _ _ Het Hx). exact Hf.
Qed.

(* ================= assumptions ================= *)
Print Assumptions cond_eq_sc_equiv.
Print Assumptions sc_equiv_sym.
Print Assumptions sc_equiv_trans.
Print Assumptions ring_enqueue_last.
Print Assumptions ring_enqueue_first.
Print Assumptions ring_enqueue_plain_last.
Print Assumptions ring_enqueue_plain_first.
Print Assumptions ring_remove.
Print Assumptions ring_append.
Print Assumptions RingInv_frame.
Print Assumptions skip_sound.
Print Assumptions skip_false.
