(* The control structure of counter.c between its atomic sites, regenerated from /repo on this run, is the pinned one. *)
From Coq Require Import String List.
From NsyncGen Require Import Flow.
From NsyncModel Require Import FlowExpected.

Lemma flow_current_counter_c : flow_counter_c = expected_flow_counter_c.
Proof. vm_compute. reflexivity. Qed.
