(* SemWaitProof4: non-vacuity witnesses for Properties_C05sw.v -- concrete schedules of SemWaitModel, by vm_compute. *)
From NsyncBase Require Import CSem.
From NsyncGen Require Import Consts Sites.
From NsyncModel Require Import SemWaitModel.
From Coq Require Import List ZArith Bool.
Import ListNotations.
Local Open Scope Z_scope.

(* ---------- projections used by the statements (all computable) ---------- *)
Definition whys (w : world) := map e_why (rets w).
Definition ress (w : world) := map e_res (rets w).
Definition ethrs (w : world) := map e_thr (rets w).
Definition eflags (w : world) := map e_flag (rets w).
Definition eexps (w : world) := map e_exp (rets w).
Definition etoclks (w : world) := map e_toclk (rets w).
Definition etooks (w : world) := map e_took (rets w).
Definition enears (w : world) := map e_near (rets w).
Definition echks (w : world) := map e_chk (rets w).
Definition erecs (w : world) := map e_rec (rets w).
Definition is_some {A} (o : option A) : bool := match o with Some _ => true | None => false end.
Definition took_some (w : world) := map (fun e => is_some (e_took e)) (rets w).
Definition idle (w : world) (t : nat) : bool := match stack (get w t) with [] => true | _ => false end.
Definition all_idle (w : world) (ts : list nat) : bool := forallb (idle w) ts.
Definition sems (w : world) (ts : list nat) := map (fun t => sem (get w t)) ts.
Definition lives (w : world) (rs : list nat) := map (fun r => live (recs w r)) rs.
Definition top_is (w : world) (t : nat) (p : frame -> bool) : bool := match stack (get w t) with f :: _ => p f | [] => false end.
Definition is_WP (n : nat) (f : frame) : bool := match f with AWait _ (WP m) => Nat.eqb m n | _ => false end.
Definition is_WLk2 (n : nat) (f : frame) : bool := match f with AWait _ (WLk2 m) => Nat.eqb m n | _ => false end.
Definition is_WSt (n : nat) (f : frame) : bool := match f with AWait _ (WSt m) => Nat.eqb m n | _ => false end.
Definition is_C3 (n r : nat) (f : frame) : bool := match f with FC m _ (C3 o) => Nat.eqb m n && Nat.eqb o r | _ => false end.
Definition is_C4 (n r : nat) (f : frame) : bool := match f with FC m _ (C4 o) => Nat.eqb m n && Nat.eqb o r | _ => false end.
(* the event of the next step of thread t after the schedule *)
Definition ev_after (w : world) (sched : list act) (t : nat) (c : bool) : ev := snd (step (run w sched) t c).
(* k steps of thread t with choice false *)
Definition st (t : nat) (k : nat) : list act := repeat (AStep t false) k.

(* a wait passes the first nsync_note_notified_deadline_ in 5 steps (load, lock, load, unlock, clock) and reaches the P in 4 more
   (store nw.waiting, lock, load + enqueue, unlock); a notification of a note without waiters takes 10 steps *)
Definition to_WSt (t : nat) := st t 5.
Definition to_WP (t : nat) := st t 9.
Definition tail3 (t : nat) := st t 3.            (* WLk2, WLd2, WUnl *)

(* ================= 1. the five outcomes ================= *)

(* --- YOk: a post of the waiter's semaphore ends the wait with 0 --- *)
Definition w_ok := init 0 [(None, false)] [[OWait (Some 0%nat) None]].
Definition s_ok := to_WP 0 ++ [AEnvV 0%nat; AStep 0 false] ++ tail3 0.
Example ex_ok_at_P : top_is (run w_ok (to_WP 0)) 0 (is_WP 0) = true /\ ev_after w_ok (to_WP 0) 0 false = EvBlocked
                     /\ ev_after w_ok (to_WP 0) 0 true = EvBlocked.
Proof. vm_compute. repeat split. Qed.
Example ex_ok :
  let w := run w_ok s_ok in
  whys w = [YOk] /\ ress w = [0] /\ dead_touch w = 0 /\ idle w 0 = true /\ took_some w = [true] /\ etooks w = [Some 1%nat]
  /\ etoclks w = [None] /\ eflags w = [0] /\ erecs w = [Some 0%nat] /\ lives w [0%nat] = [false] /\ sems w [0%nat] = [0%nat]
  /\ waiters (nt w 0) = [] /\ lock (nt w 0) = None.
Proof. vm_compute. repeat split. Qed.

(* --- YTimeout: the caller's deadline (50) passes while the thread is in the P; the note never expires --- *)
Definition w_to := init 0 [(None, false)] [[OWait (Some 0%nat) (Some 50)]].
Definition s_to := to_WP 0 ++ [ATick 60; AStep 0 true] ++ tail3 0.
Example ex_timeout_not_before : ev_after w_to (to_WP 0 ++ [ATick 49]) 0 true = EvBlocked.
Proof. vm_compute. reflexivity. Qed.
Example ex_timeout :
  let w := run w_to s_to in
  whys w = [YTimeout] /\ ress w = [ETIMEDOUT] /\ ress w = [110] /\ dead_touch w = 0 /\ idle w 0 = true
  /\ etoclks w = [Some 60] /\ enears w = [true] /\ etooks w = [None] /\ eflags w = [0] /\ lives w [0%nat] = [false]
  /\ waiters (nt w 0) = [] /\ lock (nt w 0) = None.
Proof. vm_compute. repeat split. Qed.

(* --- YEarly (a): the note was notified before the call --- *)
Definition w_early := init 0 [(None, false)] [[OWait (Some 0%nat) None]; [ONotify 0]].
Definition s_early := st 1 10 ++ st 0 1.
Example ex_early_notified :
  let w := run w_early s_early in
  whys w = [YEarly] /\ ress w = [ECANCELED] /\ ress w = [125] /\ dead_touch w = 0 /\ all_idle w [0; 1]%nat = true
  /\ eflags w = [1] /\ erecs w = [None] /\ nrec w = 0%nat /\ hist (get w 1) = [(ONotify 0, RNone)].
Proof. vm_compute. repeat split. Qed.
(* --- YEarly (b): the note's (positive) expiry has passed: the first nsync_note_notified_deadline_ itself notifies the note --- *)
Definition w_early2 := init 7 [(Some 5, false)] [[OWait (Some 0%nat) (Some 1000)]].
Example ex_early_expired :
  let w := run w_early2 (st 0 10) in
  whys w = [YEarly] /\ ress w = [ECANCELED] /\ dead_touch w = 0 /\ idle w 0 = true
  /\ eflags w = [1] /\ echks w = [Some 7] /\ erecs w = [None] /\ lock (nt w 0) = None /\ disc (nt w 0) = 0%nat.
Proof. vm_compute. repeat split. Qed.

(* --- YLocked: the note is notified between the first check and the load under note_mu --- *)
Definition w_locked := init 0 [(None, false)] [[OWait (Some 0%nat) None]; [ONotify 0]].
Definition s_locked := to_WSt 0 ++ st 1 10 ++ st 0 4.
Example ex_locked_passed_check : top_is (run w_locked (to_WSt 0)) 0 (is_WSt 0) = true /\ flag (nt (run w_locked (to_WSt 0)) 0) = 0.
Proof. vm_compute. repeat split. Qed.
Example ex_locked :
  let w := run w_locked s_locked in
  whys w = [YLocked] /\ ress w = [ECANCELED] /\ ress w = [125] /\ dead_touch w = 0 /\ all_idle w [0; 1]%nat = true
  /\ eflags w = [1] /\ echks w = [Some 0] /\ erecs w = [Some 0%nat] /\ lives w [0%nat] = [false] /\ rs (recs w 0) = RNew
  /\ waiters (nt w 0) = [] /\ lock (nt w 0) = None /\ sems w [0%nat] = [0%nat].
Proof. vm_compute. repeat split. Qed.

(* --- YExpiry: the P times out at the note's expiry; the wait notifies the note itself (and posts its own semaphore) --- *)
Definition w_exp := init 0 [(Some 100, false)] [[OWait (Some 0%nat) None]].
Definition s_exp := to_WP 0 ++ [ATick 100; AStep 0 true] ++ st 0 15.
Example ex_expiry_self_take :
  (* in the middle the thread is the notifier that has taken its own record *)
  let w := run w_exp (to_WP 0 ++ [ATick 100; AStep 0 true] ++ st 0 9) in
  top_is w 0 (is_C3 0 0) = true /\ rs (recs w 0) = RTaken /\ lock (nt w 0) = Some 0%nat.
Proof. vm_compute. repeat split. Qed.
Example ex_expiry :
  let w := run w_exp s_exp in
  whys w = [YExpiry] /\ ress w = [ECANCELED] /\ ress w = [125] /\ dead_touch w = 0 /\ idle w 0 = true
  /\ eflags w = [1] /\ etoclks w = [Some 100] /\ enears w = [false] /\ eexps w = [Some 100] /\ lives w [0%nat] = [false]
  /\ rs (recs w 0) = RPosted /\ rwaiting (recs w 0) = 0 /\ sems w [0%nat] = [1%nat]
  /\ waiters (nt w 0) = [] /\ lock (nt w 0) = None /\ disc (nt w 0) = 0%nat.
Proof. vm_compute. repeat split. Qed.
(* the same with a caller's deadline (200) beyond the expiry *)
Definition w_exp2 := init 0 [(Some 100, false)] [[OWait (Some 0%nat) (Some 200)]].
Example ex_expiry_dl200 :
  let w := run w_exp2 (to_WP 0 ++ [ATick 150; AStep 0 true] ++ st 0 15) in
  whys w = [YExpiry] /\ ress w = [ECANCELED] /\ dead_touch w = 0 /\ idle w 0 = true /\ eflags w = [1] /\ etoclks w = [Some 150]
  /\ enears w = [false].
Proof. vm_compute. repeat split. Qed.

(* ================= 2. a notification races the time-out ================= *)
Definition w_race := init 0 [(None, false)] [[OWait (Some 0%nat) (Some 50)]; [ONotify 0]].
(* waiter in the P; notifier has stored notified = 1 and unlinked record 0 (at C3 0); the clock reaches 50; the P times out *)
Definition s_race1 := to_WP 0 ++ st 1 9 ++ [ATick 50; AStep 0 true].
Definition s_race2 := s_race1 ++ [AStep 1 false].          (* store waiting = 0: notifier at C4 0 *)
Definition s_race3 := s_race2 ++ [AStep 1 false].          (* V: semaphore posted, notifier at N11, still holding note_mu *)
Definition s_race4 := s_race3 ++ [AStep 1 false].          (* unlock note_mu, nsync_note_notify returns *)
Definition s_race := s_race4 ++ tail3 0.
Example ex_race_taking :
  taking (run w_race s_race1) 1 0 0 /\ taking (run w_race s_race2) 1 0 0.
Proof.
  split; exists false, [FN 0%nat N9 false true; FNotify 0%nat]; [left | right]; vm_compute; reflexivity.
Qed.
Example ex_race_notify_timeout :
  let w1 := run w_race s_race1 in let w2 := run w_race s_race2 in let w3 := run w_race s_race3 in
  let w4 := run w_race s_race4 in let w := run w_race s_race in
  (* the P timed out while the notifier had taken the record *)
  ev_after w_race (to_WP 0 ++ st 1 9 ++ [ATick 50]) 0 true = EvP false
  /\ top_is w1 1 (is_C3 0 0) = true /\ top_is w1 0 (is_WLk2 0) = true /\ rs (recs w1 0) = RTaken /\ live (recs w1 0) = true
  (* the waiter is blocked at WLk2 (whatever the choice) until the notifier has released note_mu *)
  /\ ev_after w_race s_race1 0 false = EvBlocked /\ ev_after w_race s_race1 0 true = EvBlocked
  /\ top_is w2 1 (is_C4 0 0) = true /\ ev_after w_race s_race2 0 false = EvBlocked /\ ev_after w_race s_race2 0 true = EvBlocked
  /\ sems w3 [0%nat] = [1%nat] /\ rs (recs w3 0) = RPosted /\ lock (nt w3 0) = Some 1%nat
  /\ ev_after w_race s_race3 0 false = EvBlocked /\ ev_after w_race s_race3 0 true = EvBlocked
  /\ idle w4 1 = true /\ ev_after w_race s_race4 0 false = EvLock 0
  (* the wait returns ETIMEDOUT; the record was alive at every access; the post is left in the semaphore *)
  /\ whys w = [YTimeout] /\ ress w = [ETIMEDOUT] /\ ress w = [110] /\ dead_touch w = 0 /\ all_idle w [0; 1]%nat = true
  /\ sems w [0%nat] = [1%nat] /\ eflags w = [1] /\ etoclks w = [Some 50] /\ enears w = [true] /\ etooks w = [None]
  /\ lives w [0%nat] = [false] /\ rs (recs w 0) = RPosted /\ waiters (nt w 0) = [] /\ lock (nt w 0) = None.
Proof. vm_compute. repeat split. Qed.

(* ================= 3. two waiters; a note with a parent ================= *)
Definition w_two := init 0 [(None, false)] [[OWait (Some 0%nat) None]; [OWait (Some 0%nat) None]; [ONotify 0]].
(* both queued (records 0, 1); the notifier runs to completion (5 + N1 N4 + C1 C2 + (C3 C4) x 2 + N11); both P's take the post *)
Definition s_two := to_WP 0 ++ to_WP 1 ++ st 2 14 ++ st 0 4 ++ st 1 4.
Example ex_two_waiters_queued : waiters (nt (run w_two (to_WP 0 ++ to_WP 1)) 0) = [0; 1]%nat.
Proof. vm_compute. reflexivity. Qed.
Example ex_two_waiters :
  let w := run w_two s_two in
  ethrs w = [1; 0]%nat /\ whys w = [YOk; YOk] /\ ress w = [0; 0] /\ dead_touch w = 0 /\ all_idle w [0; 1; 2]%nat = true
  /\ eflags w = [1; 1] /\ etooks w = [Some 1%nat; Some 1%nat] /\ erecs w = [Some 1%nat; Some 0%nat]
  /\ lives w [0; 1]%nat = [false; false] /\ sems w [0; 1]%nat = [0; 0]%nat
  /\ waiters (nt w 0) = [] /\ lock (nt w 0) = None /\ disc (nt w 0) = 0%nat.
Proof. vm_compute. repeat split. Qed.
(* interleaved: the first waiter is woken and returns while the notifier still works on the second record *)
Definition s_two_i := to_WP 0 ++ to_WP 1 ++ st 2 11 ++ [AStep 0 false].
Example ex_two_waiters_interleaved :
  let w1 := run w_two s_two_i in
  let w := run w_two (s_two_i ++ st 2 3 ++ tail3 0 ++ st 1 4) in
  top_is w1 2 (is_C3 0 1) = true /\ top_is w1 0 (is_WLk2 0) = true /\ ev_after w_two s_two_i 0 false = EvBlocked
  /\ ev_after w_two s_two_i 1 false = EvBlocked
  /\ ethrs w = [1; 0]%nat /\ whys w = [YOk; YOk] /\ ress w = [0; 0] /\ dead_touch w = 0 /\ all_idle w [0; 1; 2]%nat = true
  /\ sems w [0; 1]%nat = [0; 0]%nat /\ waiters (nt w 0) = [] /\ lock (nt w 0) = None.
Proof. vm_compute. repeat split. Qed.

(* a note with a parent, notified from the parent's side (note_notify_child (n, parent) under the parent's loop) *)
Definition w_par := init 0 [(None, true)] [[OWait (Some 0%nat) None]; [OParentNotify 0]].
Definition s_par := to_WP 0 ++ st 1 6 ++ st 0 4.
Example ex_parent_notify :
  let w0 := run w_par (to_WP 0) in
  let w := run w_par s_par in
  has_par (nt w0 0) = true /\ waiters (nt w0 0) = [0%nat]
  /\ whys w = [YOk] /\ ress w = [0] /\ dead_touch w = 0 /\ all_idle w [0; 1]%nat = true /\ eflags w = [1]
  /\ etooks w = [Some 1%nat] /\ lives w [0%nat] = [false] /\ sems w [0%nat] = [0%nat]
  /\ has_par (nt w 0) = false /\ waiters (nt w 0) = [] /\ lock (nt w 0) = None /\ disc (nt w 0) = 0%nat
  /\ hist (get w 1) = [(OParentNotify 0, RNone)].
Proof. vm_compute. repeat split. Qed.
(* nsync_note_notify of a note with a parent whose trylock fails: unlock n, lock parent, lock n again (N5 N6 N7 N8), waiter queued *)
Definition w_par2 := init 0 [(None, true)] [[OWait (Some 0%nat) None]; [ONotify 0]].
Definition s_par2 := to_WP 0 ++ st 1 7 ++ [AStep 1 true] ++ st 1 9 ++ st 0 4.
Example ex_parent_trylock_fails :
  let w := run w_par2 s_par2 in
  ev_after w_par2 (to_WP 0 ++ st 1 7) 1 true = EvTryPar false
  /\ whys w = [YOk] /\ ress w = [0] /\ dead_touch w = 0 /\ all_idle w [0; 1]%nat = true /\ eflags w = [1]
  /\ has_par (nt w 0) = false /\ waiters (nt w 0) = [] /\ lock (nt w 0) = None /\ disc (nt w 0) = 0%nat.
Proof. vm_compute. repeat split. Qed.

(* ================= 4. a note whose expiry is not after the epoch ================= *)
(* NOTIFIED_TIME = expiry_time when notified == 0; nsync_note_notified_deadline_ returns it as it is when it is <= 0 (no clock read,
   no notify): the wait is cancelled although the `notified` word is never set *)
Definition w_pre := init 0 [(Some (-5), false)] [[OWait (Some 0%nat) None]].
Example ex_preepoch_expiry :
  let w := run w_pre (st 0 4) in
  ress w = [ECANCELED] /\ ress w = [125] /\ whys w = [YEarly] /\ eflags w = [0] /\ eexps w = [Some (-5)]
  /\ echks w = [None] /\ flag (nt w 0) = 0 /\ dead_touch w = 0 /\ idle w 0 = true /\ nrec w = 0%nat /\ lock (nt w 0) = None.
Proof. vm_compute. repeat split. Qed.
Definition w_pre0 := init 0 [(Some 0, false)] [[OWait (Some 0%nat) None]; [OIsNotified 0]].
Example ex_zero_expiry :
  let w := run w_pre0 (st 0 4 ++ st 1 4) in
  ress w = [ECANCELED] /\ whys w = [YEarly] /\ eflags w = [0] /\ eexps w = [Some 0] /\ flag (nt w 0) = 0 /\ dead_touch w = 0
  /\ all_idle w [0; 1]%nat = true /\ hist (get w 1) = [(OIsNotified 0, RBool true)].
Proof. vm_compute. repeat split. Qed.
