(* MuXferProof9: three more facts about Model/MuXferModel.v, used by the reference-count theorem over the combined model
   (Proof/MuXRefProof.v):
   Part 1  frame: a step of thread t leaves the wrapper record and the MuModel record of every other thread alone
   Part 2  KNat: a thread inside wake_waiters that owns the mutex spinlock and will clear MU_WAITING at its release (it
           transferred nobody onto an empty queue) still has a NATIVE waiter on its to_wake_list -- the first one, which
           it has not yet woken
   Part 3  all the invariants are insensitive to the remaining program (x_ops) of a thread. *)
From NsyncBase Require Import CSem.
From NsyncGen Require Import Consts Sites.
From NsyncModel Require Import MuModel MuSpec.
From NsyncProof Require Import WordView MuProof MuProof2 MuProof3.
From NsyncModel Require Import MuXferModel.
From NsyncProof Require Import MuXferProof MuXferProof2 MuXferProof3 MuXferProof4 MuXferProof5 MuXferProof6.
From Coq Require Import List ZArith Bool Lia PeanoNat Permutation.
Import ListNotations.
Local Open Scope Z_scope.

Ltac xnorm :=
  unfold set_xpc, add_xret, set_xt, set_mw, set_cvq, set_xferred, xget; cbn [mw cvq xferred xthr];
  rewrite ?lupd_lupd.
Ltac xn Hx := xnorm; rewrite ?Hx; cbn [x_pc x_ops x_rets].

(* ================================================================== *)
(* Part 1: frame                                                       *)
(* ================================================================== *)
Ltac fr N :=
  split; [ unfold xget; cbn [xthr]; rewrite ?nth_lupd_other by exact N; reflexivity
         | cbn [mw]; rewrite ?get_set_pc_other by exact N; try reflexivity ].

Lemma xbegin_frame xw t u : u <> t -> xget (xbegin xw t) u = xget xw u /\ get (mw (xbegin xw t)) u = get (mw xw) u.
Proof.
  intros N. unfold xbegin. cbv zeta.
  destruct (xget xw t) as [xp xo xr] eqn:Hx. cbn [x_pc x_ops x_rets].
  destruct xp; try (split; reflexivity). destruct xo as [|o rest]; try (split; reflexivity).
  destruct (mu_idle (mw xw) t); try (split; reflexivity).
  unfold xget in Hx.
  destruct o as [o'|m| | |[m|]|m]; xn Hx; fr N.
  unfold push_op. now rewrite get_set_t_other.
Qed.

Lemma xstep_thr_frame xw0 t c u : u <> t ->
  xget (fst (xstep_thr xw0 t c)) u = xget xw0 u /\ get (mw (fst (xstep_thr xw0 t c))) u = get (mw xw0) u.
Proof.
  intros N. destruct (xbegin_frame xw0 t u N) as [B1 B2]. rewrite <- B1, <- B2. clear B1 B2.
  unfold xstep_thr. set (xw := xbegin xw0 t). clearbody xw. clear xw0. cbv zeta.
  destruct (xget xw t) as [xp xo xr] eqn:Hx. cbn [x_pc x_ops x_rets] in *.
  unfold xget in Hx.
  pose proof (step_frame (mw xw) u t N) as SF.
  destruct xp.
  - unfold mu_step. destruct (step (mw xw) t) as [m' e]. cbn [fst] in SF. xnorm. cbn [mw fst]. split; [reflexivity | exact SF].
  - split; reflexivity.
  - cbn [fst]. xn Hx. fr N.
  - destruct (has (word (mw xw)) MU_WHELD_IF_NON_ZERO), (has (word (mw xw)) MU_RHELD_IF_NON_ZERO); cbn [fst]; xn Hx; fr N.
  - cbn [fst]. xn Hx. fr N.
  - unfold mu_step. destruct (step (mw xw) t) as [m' e]. cbn [fst] in SF. xnorm. cbn [mw]. destruct (mu_pc_idle m' t); cbn [fst]; xn Hx; fr N; exact SF.
  - destruct (waiting (mw xw) t); cbn [fst]; xn Hx; [destruct (w_so l)|]; fr N.
  - destruct c; [destruct (0 <? sem (mw xw) t)|]; cbn [fst]; xn Hx; fr N.
  - destruct (waiting (mw xw) t); cbn [fst]; xn Hx; fr N.
  - destruct (mem_id t (cvq xw)); cbn [fst]; xn Hx; fr N.
  - cbn [fst]. xn Hx. fr N.
  - unfold mu_step. destruct (step (mw xw) t) as [m' e]. cbn [fst] in SF. xnorm. cbn [mw]. destruct (mu_pc_idle m' t); cbn [fst]; xn Hx; rewrite ?lupd_lupd; fr N; exact SF.
  - destruct c; [|destruct (cvq xw)]; cbn [fst]; xn Hx; fr N.
  - destruct (if bc then sel_broadcast (xrd xw) (cvq xw) else sel_signal (xrd xw) (cvq xw)) as [[wk kp] allr].
    destruct wk as [|f wk']; [|destruct (nrec xw f)]; cbn [fst]; xn Hx; fr N.
  - destruct (xfer_wanted (wtype (mw xw)) (word (mw xw)) k); cbn [fst]; xn Hx; [|unfold wake_loop; destruct (k_wake k)]; fr N.
  - unfold cas. destruct (word (mw xw) =? wake_waiters_cas1_old old); cbv beta iota.
    + destruct (xfer (nrec xw) (wtype (mw xw)) (first_cant_acquire (wtype (mw xw)) old (k_wake k)) (k_wake k)) as [[moved stay] set_on].
      cbn [fst]. xn Hx. fr N.
    + cbn [fst]. xn Hx. unfold wake_loop; destruct (k_wake k); fr N.
  - cbn [fst]. xn Hx. fr N.
  - unfold cas. destruct (word (mw xw) =? wake_waiters_cas2_old old); cbv beta iota; cbn [fst]; xn Hx;
      [unfold wake_loop; destruct (k_wake k)|]; fr N.
  - cbn [fst]. xn Hx. fr N.
  - destruct (k_wake k) as [|p rest]; cbn [fst]; xn Hx; fr N.
  - cbn [fst]; xn Hx; unfold wake_loop; destruct (k_wake k); fr N.
  - cbn [fst]. xn Hx. fr N.
  - destruct om as [m|]; cbn [fst]; xn Hx; fr N.
  - unfold mu_step. destruct (step (mw xw) t) as [m' e]. cbn [fst] in SF. xnorm. cbn [mw]. destruct (mu_pc_idle m' t); cbn [fst]; xn Hx; fr N; exact SF.
  - destruct (cv_ready_time_load1_guard (b2z (waiting (mw xw) t))); cbn [fst]; xn Hx; fr N.
  - destruct c; [destruct (0 <? sem (mw xw) t)|]; cbn [fst]; xn Hx; fr N.
  - destruct (waiting (mw xw) t && cv_dequeue_store1_guard (b2z (mem_id t (cvq xw)))); [destruct om as [m|]|]; cbn [fst]; xn Hx; fr N.
  - destruct (waiting (mw xw) t); [|destruct om as [m|]]; cbn [fst]; xn Hx; fr N.
  - unfold mu_step. destruct (step (mw xw) t) as [m' e]. cbn [fst] in SF. xnorm. cbn [mw]. destruct (mu_pc_idle m' t); cbn [fst]; xn Hx; rewrite ?lupd_lupd; fr N; exact SF.
  - cbn [fst]. xn Hx. fr N.
Qed.

(* ================================================================== *)
(* Part 2: a spinlock owner inside wake_waiters that will clear MU_WAITING still has a native waiter to wake *)
(* ================================================================== *)
Definition kst (xp : xpc) : option kl := match xp with XvLoad3 k | XvCas2 k _ | XvLoad5 k => Some k | _ => None end.
Definition KNat (xw : xworld) : Prop :=
  forall t k, kst (x_pc (xget xw t)) = Some k -> tb2 (k_clr k) = true ->
    exists f, In f (k_wake k) /\ xn_rec (x_pc (xget xw f)) = false.

Lemma kst_kwl xp k : kst xp = Some k -> kwl xp = k_wake k /\ xn_rec xp = false /\ wph2 xp = false.
Proof. destruct xp; try discriminate; cbn [kst kwl xn_rec wph2]; intros E; inversion E; auto. Qed.

Lemma KNat_upd xw m' q' f' t xs' : KNat xw -> PInv3 xw -> (t < length (xthr xw))%nat ->
  (forall k, kst (x_pc xs') = Some k -> tb2 (k_clr k) = true ->
     exists f, In f (k_wake k) /\ f <> t /\ xn_rec (x_pc (xget xw f)) = false) ->
  xn_rec (x_pc xs') = false \/ xn_rec (x_pc (xget xw t)) = true \/ cvs xw t = false ->
  KNat (mk_xw m' q' f' (lupd (xthr xw) t xs')).
Proof.
  intros HK (_ & HC & _) Ht Hnew Hself u k Hk Hb.
  destruct (Nat.eq_dec u t) as [->|Nu].
  - rewrite xget_lupd_same in Hk by exact Ht. destruct (Hnew k Hk Hb) as (f & Hin & Nf & NR).
    exists f. split; [exact Hin|]. now rewrite xget_lupd_other.
  - rewrite xget_lupd_other in Hk by exact Nu. destruct (HK u k Hk Hb) as (f & Hin & NR).
    exists f. split; [exact Hin|].
    destruct (Nat.eq_dec f t) as [->|Nf]; [|now rewrite xget_lupd_other].
    rewrite xget_lupd_same by exact Ht.
    destruct Hself as [E | [E | E]]; [exact E | congruence|].
    destruct HC as (_ & _ & _ & Hw & _). destruct (kst_kwl _ _ Hk) as [Ek _].
    destruct (Hw u t ltac:(unfold kws; rewrite Ek; exact Hin)) as (_ & b & _). congruence.
Qed.

Lemma KNat_xthr xw xw' : xthr xw' = xthr xw -> KNat xw -> KNat xw'.
Proof. intros E HK u k. unfold xget. rewrite E. apply HK. Qed.

Lemma xbegin_knat xw t : KNat xw -> KNat (xbegin xw t).
Proof.
  intros H0. unfold xbegin. cbv zeta.
  destruct (xget xw t) as [xp xo xr] eqn:Hx. cbn [x_pc x_ops x_rets].
  destruct xp; try exact H0. destruct xo as [|o rest]; try exact H0.
  destruct (mu_idle (mw xw) t) eqn:MI; try exact H0.
  assert (t < length (xthr xw))%nat as Ht by (apply xget_inb; rewrite Hx; discriminate).
  assert (forall m' q' f' p, kst p = None -> xn_rec p = false ->
            KNat (mk_xw m' q' f' (lupd (xthr xw) t (mk_xt p rest xr)))) as GEN.
  { intros m' q' f' p Hv Hn u k Hu Hb. destruct (Nat.eq_dec u t) as [->|Nu].
    - rewrite xget_lupd_same in Hu by exact Ht. cbn [x_pc] in Hu. congruence.
    - rewrite xget_lupd_other in Hu by exact Nu. destruct (H0 u k Hu Hb) as (f & Hin & NR). exists f. split; [exact Hin|].
      destruct (Nat.eq_dec f t) as [->|Nf]; [rewrite xget_lupd_same by exact Ht; exact Hn | now rewrite xget_lupd_other]. }
  unfold xget in Hx.
  destruct o as [o'|m| | |[m|]|m]; xnorm; rewrite ?Hx; cbn [x_pc x_ops x_rets]; rewrite ?nth_lupd_same by exact Ht; cbn [x_pc x_ops x_rets];
    try (apply GEN; reflexivity).
  all: destruct (held (get (mw xw) t)) as [m'|]; [destruct (mode_eqb m m')|]; apply GEN; reflexivity.
Qed.

Section KNatInvariant.
Variable n : nat.
Hypothesis Hn : Z.of_nat n < 16777215.

Lemma xstep_thr_knat xw0 t c : XInv n xw0 -> PInv xw0 -> (forall t', xpcH (x_pc (xget xw0 t'))) -> KNat xw0 ->
  KNat (fst (xstep_thr xw0 t c)).
Proof.
  intros HI0 HP0 HX0 HK0. pose proof (xbegin_knat _ t HK0) as HK1. apply (xbegin_pinv _ t) in HP0.
  pose proof (xbegin_xpch _ t HX0) as HX1. clear HX0.
  apply (xbegin_inv n Hn _ t) in HI0. clear HK0.
  apply PInv_split in HP0. destruct HP0 as [H1 HN1].
  unfold xstep_thr. set (xw := xbegin xw0 t) in *. clearbody xw. clear xw0. cbv zeta.
  destruct (xget xw t) as [xp xo xr] eqn:Hx. cbn [x_pc x_ops x_rets] in *.
  assert (xp <> XIdle -> (t < length (xthr xw))%nat) as HtN.
  { intros NE. apply xget_inb. rewrite Hx. intros E. inversion E. contradiction. }
  pose proof Hx as Hx'. unfold xget in Hx.
  (* the witness of t's own list is somebody else: t is not parked on the cv *)
  assert (forall k f, kwl xp = k_wake k -> wph2 xp = false -> xn_rec xp = false -> In f (k_wake k) -> f <> t) as NotMe.
  { intros k f Ek W2 NR Hin ->. destruct H1 as (_ & HC & _). destruct HC as (_ & _ & _ & Hw & _).
    destruct (Hw t t ltac:(unfold kws; rewrite Hx'; cbn [x_pc]; rewrite Ek; exact Hin)) as (_ & b & _).
    unfold cvs in b. rewrite Hx' in b. cbn [x_pc] in b. rewrite W2, NR in b. discriminate b. }
  Local Ltac kn HK1 H1 Ht Hx' :=
    first [ exact HK1
          | apply (KNat_xthr _ _ eq_refl HK1)
          | apply KNat_upd;
            [ exact HK1 | exact H1 | exact Ht
            | let k0 := fresh "k0" in let Hv := fresh "Hv" in let Hb := fresh "Hb" in
              intros k0 Hv Hb; cbn [x_pc kst] in Hv; try discriminate Hv
            | cbn [x_pc xn_rec]; first [ left; reflexivity | right; left; rewrite Hx'; reflexivity | idtac ] ] ].
  destruct xp.
  - unfold mu_step. destruct (step (mw xw) t) as [m' e]. cbn [fst]. xnorm. kn HK1 H1 Ht Hx'.
  - exact HK1.
  - assert (t < length (xthr xw))%nat as Ht by (apply HtN; discriminate). cbn [fst]. xn Hx. kn HK1 H1 Ht Hx'.
  - assert (t < length (xthr xw))%nat as Ht by (apply HtN; discriminate).
    destruct (has (word (mw xw)) MU_WHELD_IF_NON_ZERO), (has (word (mw xw)) MU_RHELD_IF_NON_ZERO); cbn [fst]; xn Hx; kn HK1 H1 Ht Hx'.
  - assert (t < length (xthr xw))%nat as Ht by (apply HtN; discriminate). cbn [fst]. xn Hx. kn HK1 H1 Ht Hx'.
  - assert (t < length (xthr xw))%nat as Ht by (apply HtN; discriminate).
    unfold mu_step. destruct (step (mw xw) t) as [m' e]. xnorm. cbn [mw].
    destruct (mu_pc_idle m' t); cbn [fst]; xn Hx; kn HK1 H1 Ht Hx'.
  - assert (t < length (xthr xw))%nat as Ht by (apply HtN; discriminate).
    destruct (waiting (mw xw) t); cbn [fst]; xn Hx; [destruct (w_so l)|]; kn HK1 H1 Ht Hx'.
  - assert (t < length (xthr xw))%nat as Ht by (apply HtN; discriminate).
    destruct c; [destruct (0 <? sem (mw xw) t)|]; cbn [fst]; xn Hx; kn HK1 H1 Ht Hx'.
  - assert (t < length (xthr xw))%nat as Ht by (apply HtN; discriminate).
    destruct (waiting (mw xw) t); cbn [fst]; xn Hx; kn HK1 H1 Ht Hx'.
  - assert (t < length (xthr xw))%nat as Ht by (apply HtN; discriminate).
    destruct (mem_id t (cvq xw)); cbn [fst]; xn Hx; kn HK1 H1 Ht Hx'.
  - assert (t < length (xthr xw))%nat as Ht by (apply HtN; discriminate). cbn [fst]. xn Hx. kn HK1 H1 Ht Hx'.
  - assert (t < length (xthr xw))%nat as Ht by (apply HtN; discriminate).
    unfold mu_step. destruct (step (mw xw) t) as [m' e]. xnorm. cbn [mw].
    destruct (mu_pc_idle m' t); cbn [fst]; xn Hx; rewrite ?lupd_lupd; kn HK1 H1 Ht Hx'.
  - assert (t < length (xthr xw))%nat as Ht by (apply HtN; discriminate).
    destruct c; [|destruct (cvq xw)]; cbn [fst]; xn Hx; kn HK1 H1 Ht Hx'.
  - assert (t < length (xthr xw))%nat as Ht by (apply HtN; discriminate).
    destruct (if bc then sel_broadcast (xrd xw) (cvq xw) else sel_signal (xrd xw) (cvq xw)) as [[wk kp] allr].
    destruct wk as [|f wk']; [|destruct (nrec xw f)]; cbn [fst]; xn Hx; kn HK1 H1 Ht Hx'.
  - assert (t < length (xthr xw))%nat as Ht by (apply HtN; discriminate).
    destruct (xfer_wanted (wtype (mw xw)) (word (mw xw)) k); cbn [fst]; xn Hx;
      [|unfold wake_loop; destruct (k_wake k)]; kn HK1 H1 Ht Hx'.
  - (* XvCas1: the transfer *) assert (t < length (xthr xw))%nat as Ht by (apply HtN; discriminate).
    unfold cas. destruct (word (mw xw) =? wake_waiters_cas1_old old); cbv beta iota.
    + pose proof (xfer_perm (nrec xw) (wtype (mw xw)) (first_cant_acquire (wtype (mw xw)) old (k_wake k)) (k_wake k)) as Pm.
      destruct (xfer (nrec xw) (wtype (mw xw)) (first_cant_acquire (wtype (mw xw)) old (k_wake k)) (k_wake k)) as [[moved stay] set_on].
      cbn [fst snd] in Pm. cbn [fst]. xn Hx. kn HK1 H1 Ht Hx'.
      injection Hv as <-. cbn [k_clr k_wake queue set_word] in *.
      destruct (queue (mw xw) ++ moved) eqn:Eq; [|vm_compute in Hb; discriminate Hb].
      apply app_eq_nil in Eq. destruct Eq as [_ ->]. cbn [app] in Pm.
      destruct (k_wake k) as [|f rest] eqn:Ek; [pose proof (HX1 t) as X; rewrite Hx' in X; cbn [x_pc xpcH] in X; destruct X as [_ X]; now elim X|].
      exists f. assert (In f stay) as Hin by (apply (Permutation_in _ (Permutation_sym Pm)); now left).
      split; [exact Hin|]. split.
      * apply (NotMe k f); [reflexivity | reflexivity | reflexivity | rewrite Ek; now left].
      * apply (HN1 t f). rewrite Hx'. cbn [x_pc vhd]. rewrite Ek. reflexivity.
    + cbn [fst]. xn Hx. unfold wake_loop; destruct (k_wake k); kn HK1 H1 Ht Hx'.
  - (* XvLoad3 *) assert (t < length (xthr xw))%nat as Ht by (apply HtN; discriminate). cbn [fst]. xn Hx. kn HK1 H1 Ht Hx'.
    injection Hv as <-. destruct (HK1 t k ltac:(rewrite Hx'; reflexivity) Hb) as (f & Hin & NR).
    exists f. split; [exact Hin | split; [apply (NotMe k f); auto | exact NR]].
  - (* XvCas2 *) assert (t < length (xthr xw))%nat as Ht by (apply HtN; discriminate).
    unfold cas. destruct (word (mw xw) =? wake_waiters_cas2_old old); cbv beta iota; cbn [fst]; xn Hx;
      [unfold wake_loop; destruct (k_wake k)|]; kn HK1 H1 Ht Hx'.
    injection Hv as <-. destruct (HK1 t k ltac:(rewrite Hx'; reflexivity) Hb) as (f & Hin & NR).
    exists f. split; [exact Hin | split; [apply (NotMe k f); auto | exact NR]].
  - (* XvLoad5 *) assert (t < length (xthr xw))%nat as Ht by (apply HtN; discriminate). cbn [fst]. xn Hx. kn HK1 H1 Ht Hx'.
    injection Hv as <-. destruct (HK1 t k ltac:(rewrite Hx'; reflexivity) Hb) as (f & Hin & NR).
    exists f. split; [exact Hin | split; [apply (NotMe k f); auto | exact NR]].
  - assert (t < length (xthr xw))%nat as Ht by (apply HtN; discriminate).
    destruct (k_wake k) as [|p rest]; cbn [fst]; xn Hx; kn HK1 H1 Ht Hx'.
  - assert (t < length (xthr xw))%nat as Ht by (apply HtN; discriminate).
    cbn [fst]; xn Hx; unfold wake_loop; destruct (k_wake k); kn HK1 H1 Ht Hx'.
  - assert (t < length (xthr xw))%nat as Ht by (apply HtN; discriminate). cbn [fst]. xn Hx. kn HK1 H1 Ht Hx'.
  - assert (t < length (xthr xw))%nat as Ht by (apply HtN; discriminate).
    destruct om as [m|]; cbn [fst]; xn Hx; kn HK1 H1 Ht Hx'; right; right; unfold cvs; rewrite Hx'; reflexivity.
  - assert (t < length (xthr xw))%nat as Ht by (apply HtN; discriminate).
    unfold mu_step. destruct (step (mw xw) t) as [m' e]. xnorm. cbn [mw].
    destruct (mu_pc_idle m' t); cbn [fst]; xn Hx; kn HK1 H1 Ht Hx'.
  - assert (t < length (xthr xw))%nat as Ht by (apply HtN; discriminate).
    destruct (cv_ready_time_load1_guard (b2z (waiting (mw xw) t))); cbn [fst]; xn Hx; kn HK1 H1 Ht Hx'.
  - assert (t < length (xthr xw))%nat as Ht by (apply HtN; discriminate).
    destruct c; [destruct (0 <? sem (mw xw) t)|]; cbn [fst]; xn Hx; kn HK1 H1 Ht Hx'.
  - assert (t < length (xthr xw))%nat as Ht by (apply HtN; discriminate).
    destruct (waiting (mw xw) t && cv_dequeue_store1_guard (b2z (mem_id t (cvq xw)))); [destruct om as [m|]|]; cbn [fst]; xn Hx;
      kn HK1 H1 Ht Hx'.
  - assert (t < length (xthr xw))%nat as Ht by (apply HtN; discriminate).
    destruct (waiting (mw xw) t); [|destruct om as [m|]]; cbn [fst]; xn Hx; kn HK1 H1 Ht Hx'.
  - assert (t < length (xthr xw))%nat as Ht by (apply HtN; discriminate).
    unfold mu_step. destruct (step (mw xw) t) as [m' e]. xnorm. cbn [mw].
    destruct (mu_pc_idle m' t); cbn [fst]; xn Hx; rewrite ?lupd_lupd; kn HK1 H1 Ht Hx'.
  - assert (t < length (xthr xw))%nat as Ht by (apply HtN; discriminate). cbn [fst]. xn Hx. kn HK1 H1 Ht Hx'.
Qed.
End KNatInvariant.

(* ================================================================== *)
(* Part 3: everything together; insensitivity to the remaining programs *)
(* ================================================================== *)
Section AllK.
Variable n : nat.
Hypothesis Hn : Z.of_nat n < 16777215.

Definition AllK (xw : xworld) : Prop := AllInv n xw /\ KNat xw.

Lemma xstep_allk xw a : AllK xw -> AllK (fst (xstep xw a)).
Proof.
  intros [HA HK]. split; [apply (xstep_all n Hn), HA|].
  destruct HA as (HI & _ & HP & _ & (_ & HX)).
  destruct a as [t c|p]; [apply (xstep_thr_knat n Hn); assumption|].
  cbn [xstep fst]. apply (KNat_xthr xw); [reflexivity | exact HK].
Qed.

Lemma xrun_allk sched : forall xw, AllK xw -> AllK (xrun xw sched).
Proof.
  unfold xrun. induction sched as [|a rest IH]; intros xw H; cbn [fold_left]; [exact H|]. apply IH, xstep_allk, H.
Qed.

(* two worlds that differ only in the remaining programs of their threads *)
Definition xsame (xw xw' : xworld) : Prop :=
  mw xw' = mw xw /\ cvq xw' = cvq xw /\ xferred xw' = xferred xw /\ length (xthr xw') = length (xthr xw) /\
  forall t, x_pc (xget xw' t) = x_pc (xget xw t) /\ x_rets (xget xw' t) = x_rets (xget xw t).

Lemma AllK_xsame xw xw' : xsame xw xw' -> AllK xw -> AllK xw'.
Proof.
  intros (Em & Eq & Ef & El & Et) ((HI & HS & HP & HT & (HH & HX)) & HK).
  assert (forall t, x_pc (xget xw' t) = x_pc (xget xw t)) as Ep by (intros t; apply Et).
  assert (forall p, xaf xw' p = xaf xw p) as XA by (intros p; unfold xaf; now rewrite Ep, Ef).
  assert (forall p, cvs xw' p = cvs xw p) as XC by (intros p; unfold cvs; now rewrite Ep, Ef).
  assert (forall p, slp xw' p = slp xw p) as XS by (intros p; unfold slp, slpf; now rewrite Em, XA).
  assert (forall p, kws xw' p = kws xw p) as XK by (intros p; unfold kws; now rewrite Ep).
  split; [split; [|split; [|split; [|split; [|split]]]]|].
  - destruct HI as (H1 & H2 & H3). split; [now rewrite Em | split; [now rewrite El|]].
    intros t. destruct (H3 t) as [A B]. destruct (Et t) as [E1 E2]. rewrite Em, E1. split; [exact A|].
    unfold rets_ok. rewrite E2. exact B.
  - destruct HS as (H1 & H2 & H3). split; [|split].
    + rewrite Em. eapply QC_ext; [|exact H1]. intros t. unfold xk. now rewrite Ep, Em.
    + intros t. rewrite Em. apply H2.
    + intros t. rewrite Ep. apply H3.
  - destruct HP as (H1 & H2 & H3 & H4). split; [|split; [|split]].
    + rewrite Em. apply (QLx_ext _ _ _ _ _ _ _ H1); [|intros; reflexivity]. intros p a b. now rewrite XS.
    + rewrite Em, Eq. apply (QLx_ext _ _ _ _ _ _ _ H2); [|exact XK]. intros p a b. now rewrite XC.
    + intros t Hp. rewrite Ep in Hp. rewrite Em, Ef. apply H3, Hp.
    + intros t f Hv. rewrite Ep in *. apply (H4 t f Hv).
  - intros p Wp Xp Wt. rewrite Ep in Wp. rewrite Ef in Xp. rewrite Em in *. apply HT; assumption.
  - unfold HXw in *. rewrite Em. apply (HX_ext _ _ _ _ _ _ _ _ _ HH); [exact XA | | |];
      intros a; unfold xsf, xvf, xof; now rewrite Ep.
  - intros t. rewrite Ep. apply HX.
  - intros t k Hk Hb. rewrite Ep in Hk. destruct (HK t k Hk Hb) as (f & Hin & NR). exists f. now rewrite Ep.
Qed.
End AllK.

Lemma xinit_knat progs : KNat (xinit progs).
Proof. destruct (xinit_pcs progs) as [PX _]. intros t k Hk. rewrite PX in Hk. discriminate Hk. Qed.

Lemma xinit_allk progs : AllK (length progs) (xinit progs).
Proof.
  split; [|apply xinit_knat].
  split; [apply xinit_inv|]. split; [apply xinit_sinv|]. split; [apply xinit_pinv|]. split; [apply xinit_tinv | apply xinit_hxinv].
Qed.

(* an unlocker that has taken the spinlock in nsync_mu_unlock_slow_ (the early-release window included) has somebody on
   its wake list: MU_WAITING with the spinlock free means a non-empty queue *)
Lemma release_has_waiter : forall progs sched t,
  Z.of_nat (length progs) < 2 ^ 24 - 1 ->
  let xw := xrun (xinit progs) sched in
  match t_pc (get (mw xw) t) with UsRelLoad _ u | UsRelCas _ u _ => wake u <> [] | _ => True end.
Proof.
  intros progs sched t H xw. destruct (xreachable_all progs sched H) as (_ & (_ & HA & _) & _). fold xw in HA.
  specialize (HA t). destruct (t_pc (get (mw xw) t)); try exact I; apply HA.
Qed.
