(* MuXferProof10: BALANCED programs over Model/MuXferModel.v.  A program is balanced when, read sequentially, every lock is
   released, every cv wait / nsync_wait_n with the mutex is entered holding it in the declared mode, nsync_wait_n (NULL, ..)
   is called holding nothing, and trylock is not used.  For such programs a thread that has finished holds nothing and a
   thread asleep inside nsync_wait_n (NULL, ..) holds nothing -- so in a quiescent world there is no holder, and by the
   hand-off theorems nobody sleeps on the mutex. *)
From NsyncBase Require Import CSem.
From NsyncGen Require Import Consts Sites.
From NsyncModel Require Import MuModel MuSpec.
From NsyncProof Require Import WordView MuProof MuProof2 MuProof3.
From NsyncModel Require Import MuXferModel.
From NsyncProof Require Import MuXferProof MuXferProof2 MuXferProof3 MuXferProof4 MuXferProof5 MuXferProof6 MuXferProof9.
From NsyncProof Require MuRefProof.
From Coq Require Import List ZArith Bool Lia PeanoNat Permutation.
Import ListNotations.
Local Open Scope Z_scope.

Definition hmode_eqb (a b : option mode) : bool :=
  match a, b with Some x, Some y => mode_eqb x y | None, None => true | _, _ => false end.
Lemma hmode_eqb_eq a b : hmode_eqb a b = true -> a = b.
Proof. destruct a as [[|]|], b as [[|]|]; try discriminate; reflexivity. Qed.

(* h: what the thread holds when it reaches this point of its program *)
Fixpoint bal (h : option mode) (ops : list xop) : bool :=
  match ops with
  | [] => hmode_eqb h None
  | XOp (OLock m) :: r => hmode_eqb h None && bal (Some m) r
  | XOp (OTry _) :: _ => false
  | XOp OUnlock :: r => negb (hmode_eqb h None) && bal None r
  | XWait m :: r => hmode_eqb h (Some m) && bal (Some m) r
  | XWaitN om :: r => hmode_eqb h om && bal om r
  | XWaitG m :: r => hmode_eqb h (Some m) && bal (Some m) r
  | XSignal :: r | XBroadcast :: r => bal h r
  end.
Definition balanced (progs : list (list xop)) : Prop := forall p, In p progs -> bal None p = true.

(* ================================================================== *)
(* Part 1: MuModel: what the thread holds when its current call is over *)
(* ================================================================== *)
Definition mgoal (s : tstate) (h : option mode) : Prop :=
  (t_ops s = [] /\
   ((t_pc s = Idle /\ held s = h) \/ (exists why, t_pc s = Crash why) \/
    (h = None /\ is_unl_pc (t_pc s) = true) \/ (exists m, h = Some m /\ is_acq_pc m (t_pc s) = true))) \/
  (* a call handed over, not yet begun *)
  (t_pc s = Idle /\ ((exists m, t_ops s = [OLock m] /\ held s = None /\ h = Some m) \/
                      (t_ops s = [OUnlock] /\ held s <> None /\ h = None))).

Lemma step_crash w t why : t_pc (get w t) = Crash why -> fst (step w t) = w.
Proof.
  intros E. unfold step. rewrite begin_op_nonidle by (rewrite E; discriminate). cbv zeta. rewrite E. reflexivity.
Qed.

Section MStep.
Variable n : nat.
Hypothesis Hn : Z.of_nat n < 16777215.

Lemma step_tops w t : t_pc (get w t) <> Idle -> t_ops (get (fst (step w t)) t) = t_ops (get w t).
Proof.
  intros NI. pose proof (get_inb _ _ NI) as Ht.
  unfold step. rewrite (begin_op_nonidle _ _ NI). cbv zeta.
  destruct (get w t) as [p ops h sl lt] eqn:Hs. unfold get in Hs. cbn [t_pc t_ops] in *.
  destruct p; try (now elim NI); unfold cas; brk; cbn [fst]; normt Hs Ht; reflexivity.
Qed.

Lemma mgoal_run w t h : Inv n w -> t_ops (get w t) = [] ->
  (t_pc (get w t) = Idle /\ held (get w t) = h) \/ (exists why, t_pc (get w t) = Crash why) \/
  (h = None /\ is_unl_pc (t_pc (get w t)) = true) \/ (exists m, h = Some m /\ is_acq_pc m (t_pc (get w t)) = true) ->
  mgoal (get (fst (step w t)) t) h.
Proof.
  intros HI To [[Pi Hh] | [[why Pc] | [[-> U] | [m [-> A]]]]].
  - rewrite (MuRefProof.step_idle_noops w t Pi To). left. split; [exact To | left; auto].
  - rewrite (step_crash w t why Pc). left. split; [exact To | right; left; eauto].
  - pose proof (unl_not_idle _ U) as NI. left. split; [rewrite (step_tops w t NI); exact To|].
    destruct (step_unl n w t HI U) as [U' | [Pi Hh]]; [right; right; left; auto | left; auto].
  - pose proof (acq_not_idle _ _ A) as NI. left. split; [rewrite (step_tops w t NI); exact To|].
    destruct (step_acq w t m A) as [A' | (Pi & Hh & _)]; [right; right; right; eauto | left; auto].
Qed.

Lemma mgoal_step w t h : Inv n w -> mgoal (get w t) h -> mgoal (get (fst (step w t)) t) h.
Proof.
  intros HI [[To G] | [Pi G]]; [apply mgoal_run; assumption|].
  assert (t < length (thr w))%nat as Ht.
  { destruct (Nat.lt_ge_cases t (length (thr w))) as [|G0]; [assumption|]. rewrite (get_oob _ _ G0) in G.
    destruct G as [(m & X & _) | (X & _)]; discriminate X. }
  rewrite step_begin.
  assert (Inv n (begin_op w t)) as HI' by (apply begin_op_inv, HI).
  destruct G as [(m & To & Hh & ->) | (To & Hh & ->)].
  - assert (get (begin_op w t) t = mk_t (LkFast m) [] None 0 (last_try (get w t))) as E.
    { unfold begin_op. cbv zeta. rewrite Pi, To, Hh. now rewrite get_set_t_same. }
    apply mgoal_run; [exact HI' | rewrite E; reflexivity|]. right; right; right. exists m. rewrite E. cbn [t_pc is_acq_pc].
    split; [reflexivity | apply mode_eqb_refl].
  - destruct (held (get w t)) as [m'|] eqn:Hh'; [|now elim Hh].
    assert (get (begin_op w t) t = mk_t (UlFast m') [] (Some m') 0 (last_try (get w t))) as E.
    { unfold begin_op. cbv zeta. rewrite Pi, To, Hh'. now rewrite get_set_t_same. }
    apply mgoal_run; [exact HI' | rewrite E; reflexivity|]. right; right; left. rewrite E. split; reflexivity.
Qed.
End MStep.

(* ================================================================== *)
(* Part 2: the wrapper                                                 *)
(* ================================================================== *)
Definition bgoal (xw : xworld) (t : nat) : Prop :=
  let s := get (mw xw) t in let ops := x_ops (xget xw t) in
  match x_pc (xget xw t) with
  | XCrash _ => True
  | XIdle => exists h, mgoal s h /\ bal h ops = true
  | XwStore m | XwLoadMu m | XgStore m => t_ops s = [] /\ bal (Some m) ops = true
  | XwEnq l | XwUnlock l | XwLoop l | XwSem l | XwLoad6 l | XwConfirm l | XwLoad13 l | XwReacq l =>
      t_ops s = [] /\ bal (Some (w_m l)) ops = true
  | XkLoad _ | XkSelect _ | XvLoad1 _ | XvCas1 _ _ | XvLoad3 _ | XvCas2 _ _ | XvLoad5 _ | XvStore _ | XvV _ _ =>
      t_ops s = [] /\ bal (held s) ops = true
  | XnStore0 om | XnEnq om | XnReady om | XnSem om | XnDeq om | XnSpin om =>
      t_ops s = [] /\ bal om ops = true /\ (om = None -> held s = None)
  | XnUnlock m | XnReacq m => t_ops s = [] /\ bal (Some m) ops = true
  end.

Ltac xnorm :=
  unfold set_xpc, add_xret, set_xt, set_mw, set_cvq, set_xferred, xget; cbn [mw cvq xferred xthr];
  rewrite ?lupd_lupd.
Ltac xn Hx := xnorm; rewrite ?Hx; cbn [x_pc x_ops x_rets].

Lemma bgoal_frame xw xw' t : xget xw' t = xget xw t -> get (mw xw') t = get (mw xw) t -> bgoal xw t -> bgoal xw' t.
Proof. intros A B. unfold bgoal. now rewrite A, B. Qed.

Lemma get_push_op_same w t o : (t < length (thr w))%nat ->
  get (push_op w t o) t = mk_t (t_pc (get w t)) [o] (held (get w t)) (sleeps (get w t)) (last_try (get w t)).
Proof. intros H. unfold push_op. now rewrite get_set_t_same. Qed.

Section Balanced.
Variable n : nat.
Hypothesis Hn : Z.of_nat n < 16777215.

Lemma xbegin_bgoal xw t : XInv n xw -> bgoal xw t -> bgoal (xbegin xw t) t.
Proof.
  intros (HI & HL & _) H0. unfold xbegin. cbv zeta. unfold bgoal in H0. cbv zeta in H0.
  destruct (xget xw t) as [xp xo xr] eqn:Hx. cbn [x_pc x_ops x_rets] in *.
  destruct xp; try (unfold bgoal; rewrite Hx; exact H0).
  destruct xo as [|o rest]; [unfold bgoal; rewrite Hx; exact H0|].
  destruct (mu_idle (mw xw) t) eqn:MI; [|unfold bgoal; rewrite Hx; exact H0].
  assert (t < length (xthr xw))%nat as Ht by (apply xget_inb; rewrite Hx; discriminate).
  assert (t < length (thr (mw xw)))%nat as Ht' by (destruct HI as (-> & _); now rewrite <- HL).
  unfold mu_idle in MI. destruct (t_pc (get (mw xw) t)) eqn:Pi; try discriminate MI.
  destruct (t_ops (get (mw xw) t)) eqn:To; try discriminate MI. clear MI.
  destruct H0 as (h & G & B).
  assert (held (get (mw xw) t) = h) as Hh.
  { destruct G as [[_ [[_ X] | [[why X] | [[_ X] | [m [_ X]]]]]] | [_ [(m & X & _) | (X & _)]]]; try congruence;
      rewrite Pi in X; discriminate X. }
  unfold xget in Hx.
  destruct o as [o'|m| | |[m|]|m]; unfold bgoal; xn Hx; rewrite ?nth_lupd_same by exact Ht; cbn [x_pc x_ops x_rets].
  - (* XOp *) cbn [mw]. rewrite get_push_op_same by exact Ht'. rewrite Pi.
    destruct o' as [m|m|]; cbn [bal] in B; try discriminate B; apply andb_prop in B; destruct B as [B1 B2].
    + apply hmode_eqb_eq in B1. exists (Some m). split; [|exact B2]. right. cbn [t_pc t_ops held]. split; [reflexivity|].
      left. exists m. rewrite Hh, B1. auto.
    + exists None. split; [|exact B2]. right. cbn [t_pc t_ops held]. split; [reflexivity|]. right.
      split; [reflexivity|]. split; [|reflexivity]. rewrite Hh. intros E. rewrite E in B1. discriminate B1.
  - (* XWait *) cbn [bal] in B. apply andb_prop in B. destruct B as [B1 B2]. apply hmode_eqb_eq in B1.
    rewrite Hh, B1, mode_eqb_refl. cbn [x_pc]. auto.
  - cbn [bal] in B. rewrite To, Hh. auto.
  - cbn [bal] in B. rewrite To, Hh. auto.
  - (* XWaitN (Some m) *) cbn [bal] in B. apply andb_prop in B. destruct B as [B1 B2]. apply hmode_eqb_eq in B1.
    rewrite Hh, B1, mode_eqb_refl. cbn [x_pc]. repeat split; auto; discriminate.
  - (* XWaitN None *) cbn [bal] in B. apply andb_prop in B. destruct B as [B1 B2]. apply hmode_eqb_eq in B1.
    repeat split; auto. intros _. now rewrite Hh.
  - (* XWaitG *) cbn [bal] in B. apply andb_prop in B. destruct B as [B1 B2]. apply hmode_eqb_eq in B1.
    rewrite Hh, B1, mode_eqb_refl. cbn [x_pc]. auto.
Qed.

Lemma xstep_thr_bgoal xw0 t c : XInv n xw0 -> bgoal xw0 t -> bgoal (fst (xstep_thr xw0 t c)) t.
Proof.
  intros HI0 H0. pose proof (xbegin_bgoal _ t HI0 H0) as H1. apply (xbegin_inv n Hn _ t) in HI0. clear H0.
  unfold xstep_thr. set (xw := xbegin xw0 t) in *. clearbody xw. clear xw0. cbv zeta.
  pose proof HI0 as (HI & HL & HT). destruct (HT t) as [Hp _].
  unfold bgoal in H1. cbv zeta in H1.
  destruct (xget xw t) as [xp xo xr] eqn:Hx. cbn [x_pc x_ops x_rets] in *.
  assert (xp <> XIdle -> (t < length (xthr xw))%nat) as HtN.
  { intros NE. apply xget_inb. rewrite Hx. intros E. inversion E. contradiction. }
  assert (Hlen : length (thr (mw xw)) = length (xthr xw)) by (rewrite HL; apply HI).
  pose proof Hx as Hx'. unfold xget in Hx.
  (* wrapper-only steps: the thread record of MuModel is unchanged (or only its pc, by set_pc) *)
  Local Ltac bg Hx Ht := unfold bgoal; xn Hx; rewrite ?nth_lupd_same by exact Ht; cbn [x_pc x_ops x_rets mw];
    rewrite ?get_set_pc_same by (cbn [thr set_waiting set_wtype]; lia); cbn [t_ops held t_pc].
  destruct xp.
  - (* XIdle *) destruct H1 as (h & G & B). unfold mu_step. destruct (step (mw xw) t) as [m' e] eqn:E. cbn [fst].
    assert (m' = fst (step (mw xw) t)) as -> by now rewrite E.
    unfold bgoal. unfold xget; cbn [xthr set_mw]; fold (xget xw t); rewrite Hx'. cbn [x_pc x_ops mw set_mw]. exists h. split; [apply (mgoal_step n); assumption | exact B].
  - cbn [fst]. unfold bgoal. rewrite Hx'. exact I.
  - (* XwStore *) assert (t < length (xthr xw))%nat as Ht by (apply HtN; discriminate). cbn [fst]. bg Hx Ht. exact H1.
  - (* XwLoadMu *) assert (t < length (xthr xw))%nat as Ht by (apply HtN; discriminate). destruct Hp as [_ Hh].
    destruct (has (word (mw xw)) MU_WHELD_IF_NON_ZERO), (has (word (mw xw)) MU_RHELD_IF_NON_ZERO); cbn [fst]; bg Hx Ht;
      try exact I; cbn [w_m]; exact H1.
  - (* XwEnq *) assert (t < length (xthr xw))%nat as Ht by (apply HtN; discriminate). cbn [fst]. bg Hx Ht. exact H1.
  - (* XwUnlock *) assert (t < length (xthr xw))%nat as Ht by (apply HtN; discriminate). destruct Hp as [U _]. destruct H1 as [To B].
    unfold mu_step. destruct (step (mw xw) t) as [m' e] eqn:E. xnorm.
    assert (m' = fst (step (mw xw) t)) as Em by now rewrite E.
    assert (t_ops (get m' t) = []) as To' by (rewrite Em, (step_tops _ _ (unl_not_idle _ U)); exact To).
    cbn [mw]. destruct (mu_pc_idle m' t); cbn [fst]; unfold bgoal; xn Hx; rewrite ?nth_lupd_same by exact Ht; cbn [x_pc x_ops mw]; auto.
  - (* XwLoop *) assert (t < length (xthr xw))%nat as Ht by (apply HtN; discriminate).
    destruct (waiting (mw xw) t); cbn [fst]; [destruct (w_so l)|]; bg Hx Ht; exact H1.
  - (* XwSem *) assert (t < length (xthr xw))%nat as Ht by (apply HtN; discriminate).
    destruct c; [destruct (0 <? sem (mw xw) t)|]; cbn [fst]; try (unfold bgoal; rewrite Hx'; exact H1); bg Hx Ht; exact H1.
  - (* XwLoad6 *) assert (t < length (xthr xw))%nat as Ht by (apply HtN; discriminate).
    destruct (waiting (mw xw) t); cbn [fst]; bg Hx Ht; exact H1.
  - (* XwConfirm *) assert (t < length (xthr xw))%nat as Ht by (apply HtN; discriminate).
    destruct (mem_id t (cvq xw)); cbn [fst]; bg Hx Ht; exact H1.
  - (* XwLoad13 *) assert (t < length (xthr xw))%nat as Ht by (apply HtN; discriminate). cbn [fst]. bg Hx Ht. exact H1.
  - (* XwReacq *) assert (t < length (xthr xw))%nat as Ht by (apply HtN; discriminate). destruct Hp as [A El]. destruct H1 as [To B].
    unfold mu_step. destruct (step (mw xw) t) as [m' e] eqn:E. xnorm.
    assert (m' = fst (step (mw xw) t)) as Em by now rewrite E.
    assert (t_ops (get m' t) = []) as To' by (rewrite Em, (step_tops _ _ (acq_not_idle _ _ A)); exact To).
    pose proof (step_acq (mw xw) t _ A) as SA. cbv zeta in SA. rewrite <- Em in SA.
    cbn [mw]. destruct (mu_pc_idle m' t) eqn:MI; cbn [fst]; unfold bgoal; xn Hx; rewrite ?lupd_lupd, ?nth_lupd_same by exact Ht;
      cbn [x_pc x_ops mw]; auto.
    apply mu_pc_idle_true in MI. destruct SA as [SA | (_ & SA & _)]; [rewrite MI in SA; discriminate SA|].
    exists (Some (w_m l)). split; [|exact B]. left. split; [exact To'|]. left. split; [exact MI | now rewrite SA, El].
  - (* XkLoad *) assert (t < length (xthr xw))%nat as Ht by (apply HtN; discriminate). destruct H1 as [To B].
    destruct c; [|destruct (cvq xw)]; cbn [fst]; try (unfold bgoal; rewrite Hx'; auto; fail); bg Hx Ht; auto.
    exists (held (get (mw xw) t)). split; [|exact B]. left. split; [exact To | left; auto].
  - (* XkSelect *) assert (t < length (xthr xw))%nat as Ht by (apply HtN; discriminate). destruct H1 as [To B].
    destruct (if bc then sel_broadcast (xrd xw) (cvq xw) else sel_signal (xrd xw) (cvq xw)) as [[wk kp] allr].
    destruct wk as [|f wk']; [|destruct (nrec xw f)]; cbn [fst]; bg Hx Ht; auto.
    exists (held (get (mw xw) t)). split; [|exact B]. left. split; [exact To | left; auto].
  - (* XvLoad1 *) assert (t < length (xthr xw))%nat as Ht by (apply HtN; discriminate). destruct H1 as [To B].
    destruct (xfer_wanted (wtype (mw xw)) (word (mw xw)) k); cbn [fst]; [|unfold wake_loop; destruct (k_wake k)]; bg Hx Ht; auto.
    exists (held (get (mw xw) t)). split; [|exact B]. left. split; [exact To | left; auto].
  - (* XvCas1 *) assert (t < length (xthr xw))%nat as Ht by (apply HtN; discriminate). destruct H1 as [To B].
    unfold cas. destruct (word (mw xw) =? wake_waiters_cas1_old old); cbv beta iota.
    + destruct (xfer (nrec xw) (wtype (mw xw)) (first_cant_acquire (wtype (mw xw)) old (k_wake k)) (k_wake k)) as [[moved stay] set_on].
      cbn [fst]. bg Hx Ht. auto.
    + cbn [fst]. unfold wake_loop; destruct (k_wake k); bg Hx Ht; auto.
      exists (held (get (mw xw) t)). split; [|exact B]. left. split; [exact To | left; auto].
  - (* XvLoad3 *) assert (t < length (xthr xw))%nat as Ht by (apply HtN; discriminate). cbn [fst]. bg Hx Ht. exact H1.
  - (* XvCas2 *) assert (t < length (xthr xw))%nat as Ht by (apply HtN; discriminate). destruct Hp as [PI _]. destruct H1 as [To B].
    unfold cas. destruct (word (mw xw) =? wake_waiters_cas2_old old); cbv beta iota; cbn [fst];
      [unfold wake_loop; destruct (k_wake k)|]; bg Hx Ht; auto.
    exists (held (get (mw xw) t)). split; [|exact B]. left. split; [exact To | left; auto].
  - (* XvLoad5 *) assert (t < length (xthr xw))%nat as Ht by (apply HtN; discriminate). cbn [fst]. bg Hx Ht. exact H1.
  - (* XvStore *) assert (t < length (xthr xw))%nat as Ht by (apply HtN; discriminate). destruct H1 as [To B].
    destruct (k_wake k) as [|p rest]; cbn [fst]; bg Hx Ht; auto.
    exists (held (get (mw xw) t)). split; [|exact B]. left. split; [exact To | left; auto].
  - (* XvV *) assert (t < length (xthr xw))%nat as Ht by (apply HtN; discriminate). destruct H1 as [To B].
    cbn [fst]. unfold wake_loop; destruct (k_wake k); bg Hx Ht; auto.
    exists (held (get (mw xw) t)). split; [|exact B]. left. split; [exact To | left; auto].
  - (* XnStore0 *) assert (t < length (xthr xw))%nat as Ht by (apply HtN; discriminate). cbn [fst]. bg Hx Ht. exact H1.
  - (* XnEnq *) assert (t < length (xthr xw))%nat as Ht by (apply HtN; discriminate). destruct H1 as (To & B & Hn0).
    destruct om as [m|]; cbn [fst]; bg Hx Ht; auto.
  - (* XnUnlock *) assert (t < length (xthr xw))%nat as Ht by (apply HtN; discriminate). rename Hp into U. destruct H1 as [To B].
    unfold mu_step. destruct (step (mw xw) t) as [m' e] eqn:E. xnorm.
    assert (m' = fst (step (mw xw) t)) as Em by now rewrite E.
    assert (t_ops (get m' t) = []) as To' by (rewrite Em, (step_tops _ _ (unl_not_idle _ U)); exact To).
    cbn [mw]. destruct (mu_pc_idle m' t); cbn [fst]; unfold bgoal; xn Hx; rewrite ?nth_lupd_same by exact Ht; cbn [x_pc x_ops mw]; auto.
    repeat split; auto. discriminate.
  - (* XnReady *) assert (t < length (xthr xw))%nat as Ht by (apply HtN; discriminate).
    destruct (cv_ready_time_load1_guard (b2z (waiting (mw xw) t))); cbn [fst]; bg Hx Ht; exact H1.
  - (* XnSem *) assert (t < length (xthr xw))%nat as Ht by (apply HtN; discriminate).
    destruct c; [destruct (0 <? sem (mw xw) t)|]; cbn [fst]; try (unfold bgoal; rewrite Hx'; exact H1); bg Hx Ht; exact H1.
  - (* XnDeq *) assert (t < length (xthr xw))%nat as Ht by (apply HtN; discriminate). destruct Hp as [PI _]. destruct H1 as (To & B & Hn0).
    destruct (waiting (mw xw) t && cv_dequeue_store1_guard (b2z (mem_id t (cvq xw)))); [destruct om as [m|]|]; cbn [fst]; bg Hx Ht; auto.
    exists None. split; [|exact B]. left. split; [exact To | left; auto].
  - (* XnSpin *) assert (t < length (xthr xw))%nat as Ht by (apply HtN; discriminate). destruct Hp as [PI _]. destruct H1 as (To & B & Hn0).
    destruct (waiting (mw xw) t); [|destruct om as [m|]]; cbn [fst]; try (unfold bgoal; rewrite Hx'; auto; fail); bg Hx Ht; auto.
    exists None. split; [|exact B]. left. split; [exact To | left; auto].
  - (* XnReacq *) assert (t < length (xthr xw))%nat as Ht by (apply HtN; discriminate). rename Hp into A. destruct H1 as [To B].
    unfold mu_step. destruct (step (mw xw) t) as [m' e] eqn:E. xnorm.
    assert (m' = fst (step (mw xw) t)) as Em by now rewrite E.
    assert (t_ops (get m' t) = []) as To' by (rewrite Em, (step_tops _ _ (acq_not_idle _ _ A)); exact To).
    pose proof (step_acq (mw xw) t _ A) as SA. cbv zeta in SA. rewrite <- Em in SA.
    cbn [mw]. destruct (mu_pc_idle m' t) eqn:MI; cbn [fst]; unfold bgoal; xn Hx; rewrite ?lupd_lupd, ?nth_lupd_same by exact Ht;
      cbn [x_pc x_ops mw]; auto.
    apply mu_pc_idle_true in MI. destruct SA as [SA | (_ & SA & _)]; [rewrite MI in SA; discriminate SA|].
    exists (Some m). split; [|exact B]. left. split; [exact To'|]. left. auto.
  - (* XgStore *) assert (t < length (xthr xw))%nat as Ht by (apply HtN; discriminate). cbn [fst]. bg Hx Ht. exact H1.
Qed.
End Balanced.

(* ================================================================== *)
(* Part 3: reachable worlds of balanced programs                       *)
(* ================================================================== *)
Definition BInv (xw : xworld) : Prop := forall t, bgoal xw t.

Lemma xstep_binv n (Hn : Z.of_nat n < 16777215) xw a : XInv n xw -> BInv xw -> BInv (fst (xstep xw a)).
Proof.
  intros HI HB. destruct a as [t c|p]; cbn [xstep].
  - intros u. destruct (Nat.eq_dec u t) as [->|N]; [apply (xstep_thr_bgoal n Hn); [exact HI | apply HB]|].
    destruct (xstep_thr_frame xw t c u N) as [A B]. apply (bgoal_frame xw); [exact A | exact B | apply HB].
  - intros u. cbn [fst]. apply (bgoal_frame xw); [reflexivity | reflexivity | apply HB].
Qed.

Lemma xrun_binv n (Hn : Z.of_nat n < 16777215) sched : forall xw, XInv n xw -> BInv xw -> BInv (xrun xw sched).
Proof.
  unfold xrun. induction sched as [|a rest IH]; intros xw HI HB; cbn [fold_left]; [exact HB|].
  apply IH; [apply (xstep_inv n Hn), HI | apply (xstep_binv n Hn); assumption].
Qed.

Lemma xinit_binv progs : balanced progs -> BInv (xinit progs).
Proof.
  intros HB t. destruct (xinit_pcs progs) as [PX PM]. unfold bgoal. cbv zeta. rewrite PX.
  assert (get (mw (xinit progs)) t = dflt_t) as E.
  { unfold get, xinit, init; cbn [mw thr]. rewrite map_map.
    change dflt_t with ((fun _ : list xop => mk_t Idle [] None 0 None) []). now rewrite map_nth. }
  assert (x_ops (xget (xinit progs) t) = nth t progs []) as Eo.
  { unfold xget, xinit; cbn [xthr]. change dflt_xt with ((fun p => mk_xt XIdle p []) []). now rewrite map_nth. }
  exists None. rewrite E, Eo. split; [left; split; [reflexivity | left; split; reflexivity]|].
  destruct (Nat.lt_ge_cases t (length progs)) as [L|G]; [apply HB, nth_In, L | rewrite nth_overflow by exact G; reflexivity].
Qed.

(* a thread that has finished holds nothing; so does a thread asleep in the model *)
Lemma balanced_done_holds_nothing xw t : BInv xw -> x_done xw t -> held (get (mw xw) t) = None.
Proof.
  intros HB (Xp & Xo & MI). specialize (HB t). unfold bgoal in HB. cbv zeta in HB. rewrite Xp, Xo in HB.
  destruct HB as (h & G & B). cbn [bal] in B. apply hmode_eqb_eq in B. subst h.
  unfold mu_idle in MI. destruct (t_pc (get (mw xw) t)) eqn:Pi; try discriminate MI.
  destruct (t_ops (get (mw xw) t)) eqn:To; try discriminate MI.
  destruct G as [[_ [[_ X] | [[why X] | [[_ X] | [m [_ X]]]]]] | [_ [(m & X & _) | (X & _)]]];
    first [congruence | rewrite Pi in X; cbn in X; discriminate X].
Qed.

Lemma balanced_asleep_holds_nothing n xw t : XInv n xw -> BInv xw -> x_asleep xw t -> held (get (mw xw) t) = None.
Proof.
  intros HI HB A. pose proof HI as (HI0 & _ & HT). destruct (HT t) as [Hp _].
  destruct (x_asleep_cases n xw t HI A) as [(l & X & _) | [(_ & m & l & Pc & _) | (om & X & _)]].
  - rewrite X in Hp. apply Hp.
  - apply (acq_holds_nothing n _ _ m HI0). unfold P in Pc. rewrite Pc. apply mode_eqb_refl.
  - rewrite X in Hp. cbn [xpc_ok] in Hp. destruct om as [m|]; [apply Hp|].
    specialize (HB t). unfold bgoal in HB. cbv zeta in HB. rewrite X in HB. now apply HB.
Qed.

(* THE COROLLARY: in a quiescent reachable world of a balanced program nobody sleeps on the mutex (neither inside
   nsync_mu_lock_slow_ nor as a cv waiter that wake_waiters transferred to the mutex queue) *)
Lemma balanced_no_mu_sleeper : forall progs sched,
  Z.of_nat (length progs) < 2 ^ 24 - 1 -> balanced progs ->
  let xw := xrun (xinit progs) sched in
  x_quiescent xw -> forall p, ~ x_mu_sleeper xw p.
Proof.
  intros progs sched Hn HBal xw Q p Sp.
  destruct (x_no_lost_handoff progs sched Hn Q p Sp) as ((t' & Hh) & _). fold xw in Hh.
  pose proof (xreachable_inv progs sched Hn) as HI. fold xw in HI.
  pose proof (xrun_binv (length progs) Hn sched (xinit progs) (xinit_inv progs) (xinit_binv progs HBal)) as HB. fold xw in HB.
  assert (exists m, held (get (mw xw) t') = Some m) as [m Hm] by (destruct Hh as [H | H]; unfold holds in H; eauto).
  assert (t' < length (xthr xw))%nat as Lt.
  { destruct HI as (HI0 & HL & _). rewrite HL. destruct HI0 as (<- & _).
    destruct (Nat.lt_ge_cases t' (length (thr (mw xw)))) as [|G]; [assumption|]. rewrite (get_oob _ _ G) in Hm. discriminate Hm. }
  destruct (Q t' Lt) as [A | D].
  - rewrite (balanced_asleep_holds_nothing _ xw t' HI HB A) in Hm. discriminate Hm.
  - rewrite (balanced_done_holds_nothing xw t' HB D) in Hm. discriminate Hm.
Qed.

(* ----- non-vacuity ----- *)
From NsyncProof Require Import MuXferProof8.
(* the three-thread program of MuXferProof8 (two waiters, a broadcast that TRANSFERS both to the mutex queue, everybody unlocks) is
   balanced; in mid-run thread 1 is an x_mu_sleeper (transferred, asleep, not quiescent: others can move); at the end everybody is done *)
Lemma balanced_example :
  balanced bal_progs /\
  (let x1 := xrun (xinit bal_progs) bal_s1 in x_mu_sleeper x1 1%nat /\ ~ x_quiescent x1) /\
  (let x2 := xrun (xrun (xinit bal_progs) bal_s1) bal_s2 in x_quiescent x2 /\ forall p, ~ x_mu_sleeper x2 p).
Proof.
  assert (balanced bal_progs) as HB by (intros p [<-|[<-|[<-|[]]]]; reflexivity).
  split; [exact HB|]. split.
  - cbv zeta. split; [right; eexists; split; vm_compute; reflexivity|].
    intros Q. destruct (Q 0%nat ltac:(vm_compute; lia)) as [A | (_ & D & _)]; [vm_compute in A; discriminate A | vm_compute in D; discriminate D].
  - cbv zeta. assert (x_quiescent (xrun (xrun (xinit bal_progs) bal_s1) bal_s2)) as Q.
    { intros t Ht. vm_compute in Ht. right. destruct t as [|[|[|t]]]; [| | |lia]; vm_compute; auto. }
    split; [exact Q|]. rewrite xrun_app in *. apply balanced_no_mu_sleeper; [vm_compute; reflexivity | exact HB | exact Q].
Qed.

(* a balanced program whose quiescent world has a sleeper -- on the CV, where it legitimately waits for a signal nobody sends:
   it is not asleep on the mutex *)
Definition lone_progs : list (list xop) := [[XOp (OLock R); XWait R; XOp OUnlock]; [XWaitN None]].
Definition lone_sched : list actor := map go [0;0;0;0;0;0; 1;1;1]%nat.
Lemma balanced_example_cv_sleepers :
  let xw := xrun (xinit lone_progs) lone_sched in
  balanced lone_progs /\ x_quiescent xw /\ x_asleep xw 0%nat /\ x_asleep xw 1%nat /\ cvq xw = [0; 1]%nat /\
  forall p, ~ x_mu_sleeper xw p.
Proof.
  cbv zeta. assert (balanced lone_progs) as HB by (intros p [<-|[<-|[]]]; reflexivity).
  assert (x_quiescent (xrun (xinit lone_progs) lone_sched)) as Q.
  { intros t Ht. vm_compute in Ht. left. destruct t as [|[|t]]; [| |lia]; vm_compute; reflexivity. }
  split; [exact HB|]. split; [exact Q|]. split; [vm_compute; reflexivity|]. split; [vm_compute; reflexivity|].
  split; [vm_compute; reflexivity|]. apply balanced_no_mu_sleeper; [vm_compute; reflexivity | exact HB | exact Q].
Qed.
