(* The control structure of nsync_semaphore_futex.c between its atomic sites, regenerated from /repo on this run, is the pinned one. *)
From Coq Require Import String List.
From NsyncGen Require Import Flow.
From NsyncModel Require Import FlowExpected.

Lemma flow_current_nsync_semaphore_futex_c : flow_nsync_semaphore_futex_c = expected_flow_nsync_semaphore_futex_c.
Proof. vm_compute. reflexivity. Qed.
