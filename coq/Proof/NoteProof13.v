(* NoteProof13: C09, the strong form of "no call gets stuck": some UNFINISHED thread can take a step that CHANGES the world.
   (The conclusion `exists t c, snd (step w t c) <> EvBlocked` of C09_no_stuck_full is also met by an idle thread, whose step
   returns EvNone, and `progress` of NoteProof11 by a frame that only waits for its callee to return.)
   - InvT: the top frame of a call stack is never a frame that waits for a callee to return (N9, CR, FR, WD, AIs, ANotify,
     WReady, WLoop, WDeq), and the stages of notify / nsync_note_free that use the saved parent pointer have one;
   - every step of such a top frame that is not EvBlocked changes the thread's call stack (step1_changes);
   - hence `progress w` gives `live w`: a thread inside a call whose step changes the world. *)
From Coq Require Import String.
From NsyncBase Require Import CSem.
From NsyncGen Require Import Consts Sites.
From NsyncModel Require Import NoteModel.
From NsyncProof Require Import NoteProof NoteProof2 NoteProof3 NoteProof4 NoteProof7 NoteProof8 NoteProof11 NoteProof12.
From Coq Require Import List ZArith Bool Lia Arith.
Import ListNotations.
Local Open Scope Z_scope.

Definition topok (f : frame) : Prop :=
  match f with
  | FN _ s par _ => match s with N9 => False | N5 | N6 | N7 | N10 => par <> None | _ => True end
  | FC _ _ s => match s with CR _ _ => False | _ => True end
  | FF _ s par => match s with FR _ _ => False | F2 | F3 | F4 | F7 _ _ | F11 => par <> None | _ => True end
  | ANew _ _ s => match s with WD _ => False | _ => True end
  | AWait _ _ s => match s with WReady | WLoop | WDeq => False | _ => True end
  | AIs _ | ANotify _ => False
  | _ => True
  end.
Definition InvT (w : world) : Prop := forall t f rest, stk w t = f :: rest -> topok f.

Lemma step1_topok w t c : shape (stk w t) -> (forall f rest, stk w t = f :: rest -> topok f) ->
  forall f rest, stk (fst (step1 w t c)) t = f :: rest -> topok f.
Proof.
  intros Sh. remember (fst (step1 w t c)) as w' eqn:Hw'. revert Hw'. unfold stk in Sh.
  leaves.
  all: intros ->; cbn [fst].
  all: try (intros Hold; exact Hold).
  all: rets Sh.
  all: rewrite ?stk_setst, ?stk_finish.
  all: intros Hold f0 rest0 E; try discriminate E; inversion E; subst; cbn [topok]; auto.
  all: try discriminate.
  all: unfold stk in Hold; rewrite Hst in Hold; specialize (Hold _ _ eq_refl); cbn [topok] in Hold; auto.
  all: try match goal with H : nsync_note_free_load1_guard _ = true |- _ => rewrite free_guard in H end.
  all: try (intros ->; discriminate).
Qed.

Lemma step1_changes w t c : shape (stk w t) -> (forall f rest, stk w t = f :: rest -> topok f) -> stk w t <> [] ->
  snd (step1 w t c) <> EvBlocked -> stk (fst (step1 w t c)) t <> stk w t.
Proof.
  intros Sh. remember (step1 w t c) as r eqn:Hr. revert Hr. unfold stk in Sh.
  leaves.
  all: intros ->; cbn [fst snd].
  all: intros Hold Hne Hev.
  all: try (exfalso; apply Hev; reflexivity).
  all: try (exfalso; apply Hne; unfold stk; exact Hst).
  all: try (exfalso; unfold stk in Hold; rewrite Hst in Hold; specialize (Hold _ _ eq_refl); cbn [topok] in Hold; solve [contradiction | congruence]).
  all: rets Sh.
  all: rewrite ?stk_setst, ?stk_finish.
  all: unfold stk; rewrite Hst.
  all: try discriminate.
  all: try (intros E; inversion E; fail).
  all: intros E; apply (f_equal (@length frame)) in E; cbn [length] in E; lia.
Qed.

(* the program of a thread changes only when a call begins *)
Lemma prog_setst w t st : prog (thr (setst w t st) t) = prog (thr w t).
Proof. unfold setst, set_thr, get. cbn. now rewrite fupd_same. Qed.
Lemma prog_set_tw w o v t : prog (thr (set_tw w o v) t) = prog (thr w t).
Proof. unfold set_tw, set_thr, get. cbn. unfold fupd. destruct (Nat.eqb_spec t o); subst; reflexivity. Qed.
Lemma prog_set_sem w o v t : prog (thr (set_sem w o v) t) = prog (thr w t).
Proof. unfold set_sem, set_thr, get. cbn. unfold fupd. destruct (Nat.eqb_spec t o); subst; reflexivity. Qed.
Lemma prog_finish w t o r : prog (thr (finish w t o r) t) = prog (thr w t).
Proof. unfold finish. destruct o, r; cbn; now rewrite fupd_same. Qed.
Ltac prog_norm := repeat (progress (rewrite ?prog_finish, ?prog_setst, ?prog_set_tw, ?prog_set_sem; cbn [thr set_note acquire release set_gh])).
Lemma prog_ret_D w t rest v : prog (thr (ret_D w t rest v) t) = prog (thr w t).
Proof. unfold ret_D. split_match; prog_norm; reflexivity. Qed.
Lemma prog_ret_N w t rest : prog (thr (ret_N w t rest) t) = prog (thr w t).
Proof. unfold ret_N. split_match; rewrite ?prog_ret_D; prog_norm; reflexivity. Qed.
Lemma prog_ret_C w t rest : prog (thr (ret_C w t rest) t) = prog (thr w t).
Proof. unfold ret_C. split_match; prog_norm; reflexivity. Qed.
Lemma step1_prog w t c : prog (thr (fst (step1 w t c)) t) = prog (thr w t).
Proof.
  leaves.
  all: repeat (progress (rewrite ?prog_ret_D, ?prog_ret_N, ?prog_ret_C; prog_norm)).
  all: reflexivity.
Qed.
Lemma begin_prog w t o rest : stk w t = [] -> prog (thr w t) = o :: rest -> prog (thr (begin_call w t) t) = rest.
Proof.
  intros Hs Hp. unfold begin_call, get. unfold stk in Hs. rewrite Hs, Hp.
  destruct (op_note o) as [n|] eqn:Hop.
  - destruct (Nat.ltb n (nnext w)); cbn; rewrite fupd_same; reflexivity.
  - destruct o; try discriminate Hop. destruct par; try discriminate Hop. cbn. rewrite fupd_same. reflexivity.
Qed.

(* ---------- InvT is an invariant ---------- *)
Lemma InvT_step1 w t c : InvA w -> InvT w -> InvT (fst (step1 w t c)).
Proof.
  intros I T t0 f rest Hst. destruct (Nat.eq_dec t0 t) as [->|Hne].
  - eapply step1_topok; eauto using ia_shape.
  - rewrite (stk_other _ _ _ _ (step1_ext w t c) Hne) in Hst. eauto.
Qed.
Lemma InvT_begin w t : InvT w -> InvT (begin_call w t).
Proof.
  intros T t0 f rest Hst. destruct (Nat.eq_dec t0 t) as [->|Hne].
  - destruct (begin_stack w t) as [E|[[_ E]|(_ & o & r & _ & E & _)]]; rewrite E in Hst.
    + eauto.
    + discriminate.
    + destruct o; cbn in Hst; inversion Hst; subst; exact Logic.I.
  - destruct (to_thr _ _ _ (tonly_begin t w) t0 Hne) as (E & _). unfold stk in *. rewrite E in Hst. eapply T; eauto.
Qed.
Lemma InvT_tick w d : InvT w -> InvT (tick w d).
Proof. intros T. exact T. Qed.
Lemma InvT_init c0 progs : InvT (init c0 progs).
Proof.
  intros t f rest Hst. exfalso. revert Hst. unfold stk, init. cbn.
  destruct (nth_in_or_default t (map (fun p => mk_t [] p [] 0 O false) progs) dflt) as [H|H].
  - apply in_map_iff in H. destruct H as (p & <- & _). discriminate.
  - rewrite H. discriminate.
Qed.
Lemma InvT_run sched : forall w, InvA w -> InvT w -> InvT (run w sched).
Proof.
  induction sched as [|a r IH]; intros w I T; cbn; auto. apply IH; [apply InvA_exec, I|].
  destruct a as [t c|d]; cbn [exec]; [rewrite step_step1; apply InvT_step1; [apply InvA_begin, I|apply InvT_begin, T]|apply InvT_tick, T].
Qed.
Theorem InvT_reachable w : reachable w -> InvT w.
Proof. intros (c0 & progs & sched & H0 & ->). apply InvT_run; [apply InvA_init, H0|apply InvT_init]. Qed.

(* ---------- a thread inside a call can take a step that changes the world ---------- *)
Definition live (w : world) : Prop := exists t c, stk w t <> [] /\ fst (step1 w t c) <> w.
Lemma progress_live w : InvA w -> InvT w -> progress w -> live w.
Proof.
  intros I T (t & c & Hne & Hev). exists t, c. split; [exact Hne|]. intros E.
  apply (step1_changes w t c (ia_shape _ I t) (T t) Hne Hev). rewrite E. reflexivity.
Qed.
Lemma live_step w : live w -> exists t c, unfinished w t /\ fst (step w t c) <> w.
Proof.
  intros (t & c & Hne & Hs). exists t, c. split; [left; exact Hne|]. rewrite step_step1.
  assert (begin_call w t = w) as ->; [|exact Hs].
  unfold begin_call, get. unfold stk in Hne. destruct (stack (thr w t)); [congruence|reflexivity].
Qed.

Theorem lock_holder_rank_strong w : reachable w -> broken (gh w) = false ->
  forall y h, lock (nt w y) = Some h ->
  live w \/ exists f rest v, stk w h = f :: rest /\ wrank f = Some v /\ (2 * y + 2 < v)%nat /\ (v < rank_bound w)%nat.
Proof.
  intros R B y h Hl. destruct (lock_holder_rank w R B y h Hl) as [P|P]; [left|right; exact P].
  apply progress_live; auto using InvA_reachable, InvT_reachable.
Qed.
Theorem disc_holder_rank_strong w : reachable w -> broken (gh w) = false ->
  forall x r, (tcount w r x >= 1)%nat ->
  live w \/ exists f rest v, stk w r = f :: rest /\ wrank f = Some v /\ (1 <= v)%nat /\ (v < rank_bound w)%nat /\
                             forall p, parent (nt w x) = Some p -> (2 * p + 1 < v)%nat.
Proof.
  intros R B x r Hc. destruct (disc_holder_rank w R B x r Hc) as [P|P]; [left|right; exact P].
  apply progress_live; auto using InvA_reachable, InvT_reachable.
Qed.

Theorem no_stuck_strong w : reachable w -> broken (gh w) = false ->
  (exists t, unfinished w t /\ ~ (exists n dl d rest, stk w t = AWait n dl (S1 d) :: rest)) ->
  exists t c, unfinished w t /\ fst (step w t c) <> w.
Proof.
  intros R B (t & Hu & Hns).
  pose proof (InvC_reachable w R) as C. pose proof (InvS_reachable w R B) as S.
  pose proof (InvA_reachable w R) as I. pose proof (InvT_reachable w R) as T.
  unfold unfinished, get in Hu. change (stack (thr w t)) with (stk w t) in Hu.
  destruct (stk w t) as [|f rest] eqn:Hst.
  - (* the thread is about to begin a call *)
    destruct Hu as [Hu|Hu]; [congruence|]. destruct (prog (thr w t)) as [|o pr] eqn:Hp; [congruence|].
    destruct (ev_blocked_dec (snd (step w t false))) as [Eb|Eb].
    + (* its first step is a blocked nsync_mu_lock: the holder of that lock *)
      destruct (first_step w t false Hst Eb) as (y & h & Hl).
      apply live_step, progress_live; auto. eapply held_progress; eauto.
    + (* the call begins: the program gets shorter *)
      exists t, false. split; [right; unfold get; rewrite Hp; discriminate|]. intros E.
      assert (prog (thr (fst (step w t false)) t) = pr) as Hpr by (rewrite step_step1, step1_prog; apply (begin_prog w t o pr Hst Hp)).
      rewrite E, Hp in Hpr. apply (f_equal (@length op)) in Hpr. cbn in Hpr. lia.
  - apply live_step, progress_live; auto. apply (incall_progress w C B S t f rest Hst).
    intros n dl d ->. apply Hns. eauto.
Qed.

(* ---------- the hypotheses are satisfiable: a world where one thread is blocked on a note lock and another moves ---------- *)
Definition ex_progs : list (list op) := [[ONew None None; ONotify 0%nat]; [OIsNotified 0%nat]].
Definition ex_sched : list act := repeat (AStep 0 false) 12 ++ [AStep 1 false].
Definition ex_world : world := run (init 0 ex_progs) ex_sched.
(* thread 0 is inside notify (note 0) holding its note_mu (N4); thread 1 is inside nsync_note_is_notified (note 0) at the
   nsync_mu_lock of nsync_note_notified_deadline_ (D2) *)
Lemma ex_reachable : reachable ex_world.
Proof. exists 0, ex_progs, ex_sched. split; [lia|reflexivity]. Qed.
Lemma ex_stk0 : stk ex_world 0 = [FN 0 N4 None false; ANotify 0]. Proof. vm_compute. reflexivity. Qed.
Lemma ex_stk1 : stk ex_world 1 = [FD 0 D2; AIs 0]. Proof. vm_compute. reflexivity. Qed.
Lemma ex_lock : lock (nt ex_world 0) = Some 0%nat. Proof. vm_compute. reflexivity. Qed.
Lemma ex_broken : broken (gh ex_world) = false. Proof. vm_compute. reflexivity. Qed.
Lemma ex_next0 : stk (fst (step ex_world 0 false)) 0 = [FC 0 None C1; FN 0 N9 None true; ANotify 0]. Proof. vm_compute. reflexivity. Qed.
Global Opaque ex_world.
Lemma ex_blocked_and_live :
  reachable ex_world /\ broken (gh ex_world) = false /\
  (unfinished ex_world 1 /\ ~ (exists n dl d rest, stk ex_world 1 = AWait n dl (S1 d) :: rest) /\
   lock_blocked ex_world 1 0 /\ forall c, step ex_world 1 c = (ex_world, EvBlocked)) /\
  (unfinished ex_world 0 /\ fst (step ex_world 0 false) <> ex_world).
Proof.
  assert (lock_blocked ex_world 1 0) as LB.
  { exists (FD 0 D2), [AIs 0%nat]. split; [exact ex_stk1|]. split; [reflexivity|]. unfold lock_free. rewrite ex_lock. reflexivity. }
  split; [exact ex_reachable|]. split; [exact ex_broken|]. split; [|split].
  - split; [left; unfold get; fold (stk ex_world 1); rewrite ex_stk1; discriminate|].
    split; [intros (n & dl & d & rest & E); rewrite ex_stk1 in E; discriminate|]. split; [exact LB|].
    intros c. rewrite step_step1.
    assert (begin_call ex_world 1 = ex_world) as -> by (unfold begin_call, get; fold (stk ex_world 1); rewrite ex_stk1; reflexivity).
    apply (lock_blocked_step _ _ _ c LB).
  - left. unfold get. fold (stk ex_world 0). rewrite ex_stk0. discriminate.
  - intros E. pose proof ex_next0 as F4. rewrite E, ex_stk0 in F4. discriminate.
Qed.

Print Assumptions no_stuck_strong.
Print Assumptions lock_holder_rank_strong.
Print Assumptions disc_holder_rank_strong.
Print Assumptions ex_blocked_and_live.
