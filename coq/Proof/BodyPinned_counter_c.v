(* The code of every function of counter.c, regenerated from /repo on this run (digest of its AST), is the code the models were validated against. *)
From Coq Require Import String List.
From NsyncGen Require Import Body.
From NsyncModel Require Import BodyExpected.

Lemma body_current_counter_c : body_counter_c = expected_body_counter_c.
Proof. vm_compute. reflexivity. Qed.
