(* C03, mutex + nsync_mu_wait hand-off: in every execution of MuWaitModel (mu.c + mu_wait.c), instrumented by
   Model/HbMuWait.v (which credits ONLY the memory orders requested in the C source, Gen/Sites.v, and only to sites
   that are accesses of the right kind to the right object), whatever a thread had in its view when it gave up the
   mutex -- release CAS of unlock / runlock / unlock_without_wakeup / unlock_slow, the CAS_REL of
   nsync_mu_wait_with_deadline that enqueues and releases, the back-out STORE of mu_try_acquire_after_timeout_or_cancel --
   is contained in the view of every thread that takes it later.

   The two plain stores to the mutex word (sites 1108 / 1109 = mu_wait.c:106 / :111) replace the release view of the
   word by the storer's view.  That loses nothing ONLY because (invariant [K]) a thread inside the window between the
   acquiring CAS of mu_try_acquire_after_timeout_or_cancel and its store has the whole release view of the word in its
   own view: it got it by the acquire CAS (site 1102), and nobody else can write the word while it owns WLOCK and the
   spinlock (MuWaitProof's invariant: [nonowner_no_release]).  If either store were relaxed the release view would
   become bottom: [muwait_orders] fails, and with it [rel_mono_step] / [release_step].
   Part 1 is the only place where the regenerated inventory is evaluated.
   No axioms, nothing admitted. *)
From Coq Require Import List ZArith Bool String Lia PeanoNat.
From NsyncBase Require Import CSem.
From NsyncGen Require Import Consts Sites.
From NsyncModel Require Import HbModel.
From NsyncProof Require HbProof.
From NsyncModel Require Import MuWaitModel MuWaitSpec HbMuWait.
From NsyncProof Require Import MuWaitProof.
Import ListNotations.
Local Open Scope Z_scope.

Local Opaque wrap_u wrap_s Z.land Z.lor Z.lxor Z.shiftl.

(* ================================================================== *)
(* Part 1: the orders the proof needs, from the inventory               *)
(* ================================================================== *)
Definition acq_sites : list Z := 903 :: mw_acquire_cas_sites.
Definition norel_sites : list Z := [101; 103; 201; 203; 301; 303; 401; 403; 502; 503; 1102; 1402].

Lemma muwait_orders :
  Forall (fun s => has_rel (mw_word_order Kcas s) = true) mw_release_cas_sites /\
  Forall (fun s => has_rel (mw_word_order Kstore s) = true) [1108; 1109] /\
  Forall (fun s => has_acq (mw_word_order Kcas s) = true) (903 :: mw_acquire_cas_sites) /\
  Forall (fun s => has_rel (mw_word_order Kcas s) = false) [101; 103; 201; 203; 301; 303; 401; 403; 502; 503; 1102; 1402].
Proof.
  (* one site at a time, so that a failure names the conjunct: "Unable to unify true with false" *)
  split; [|split; [|split]]; repeat (apply Forall_cons; [vm_compute; reflexivity|]); apply Forall_nil.
Qed.

Lemma rel_cas s : In s mw_release_cas_sites -> has_rel (mw_word_order Kcas s) = true.
Proof. destruct muwait_orders as (A & _). apply (proj1 (Forall_forall _ _) A). Qed.
Lemma rel_store s : s = 1108 \/ s = 1109 -> has_rel (mw_word_order Kstore s) = true.
Proof. destruct muwait_orders as (_ & A & _). intros H. apply (proj1 (Forall_forall _ _) A). destruct H as [-> | ->]; cbn; auto. Qed.
Lemma acq_cas s : In s acq_sites -> has_acq (mw_word_order Kcas s) = true.
Proof. destruct muwait_orders as (_ & _ & A & _). apply (proj1 (Forall_forall _ _) A). Qed.
Lemma norel_cas s : In s norel_sites -> has_rel (mw_word_order Kcas s) = false.
Proof. destruct muwait_orders as (_ & _ & _ & A). apply (proj1 (Forall_forall _ _) A). Qed.

Local Opaque mw_word_order mw_waiting_order.

(* ================================================================== *)
(* Part 2: what one step of the model can be                           *)
(* ================================================================== *)
(* the compare-and-swap a pc is about to execute: (site, expected value) *)
Definition cas_site_of_pc (p : pc) : option (Z * Z) :=
  match p with
  | LkFast m => Some (fid_lock m + 1, 0)
  | LkCas2 m old => Some (fid_lock m + 3, old)
  | TryFast m => Some (fid_try m + 1, 0)
  | TryCas2 m old => Some (fid_try m + 3, old)
  | LsCasAcq _ _ old => Some (502, old)
  | LsCasEnq _ _ old => Some (503, old)
  | RelCas _ old => Some (602, old)
  | SpinCas _ old => Some (1402, old)
  | UlFast m => Some (fid_unlock m + 1, ufast_old m)
  | UlCas2 m old => Some (fid_unlock m + 3, old)
  | UwFast => Some (1201, nsync_mu_unlock_without_wakeup_cas1_old)
  | UwCas2 old => Some (1203, old)
  | UsCasRel _ old => Some (902, old)
  | UsCasSpin _ old => Some (903, old)
  | UsRelCas _ _ old => Some (905, old)
  | MwRelCas old _ => Some (1005, old)
  | MtCas1 old => Some (1102, old)
  | MtCas2 old => Some (1103, old)
  | _ => None
  end.

Record scls (wb : world) (s s' : tstate) (e : ev) : Prop := mk_scls {
  sc_held : held s' = held s \/
            (held s' = None /\ ((exists x o n, e = EvCas x o n true /\ In x mw_release_cas_sites) \/
                                (exists n, e = EvStoreWord 1109 n))) \/
            (held s' <> None /\ exists x o n, e = EvCas x o n true /\ In x acq_sites) \/
            (held s' <> None /\ exists n old, e = EvStoreWord 1108 n /\ t_pc s = MtStore2 old);
  sc_store : forall x n, e = EvStoreWord x n -> (x = 1108 \/ x = 1109) /\ frozen_old (t_pc s) <> None;
  sc_cas : forall x o n, e = EvCas x o n true -> cas_site_of_pc (t_pc s) = Some (x, o) /\ word wb = o;
  sc_frozen : frozen_old (t_pc s') <> None -> frozen_old (t_pc s) <> None \/ exists o n, e = EvCas 1102 o n true }.

(* the pcs the scan of nsync_mu_unlock_slow_ continues at are outside the window of mu_try_acquire_... *)
Lemma inner_nf w m : forall rest u, match inner w m u rest with InPc p => frozen_old p = None | InEnd _ => True end.
Proof.
  induction rest as [|q tl IH]; intros u; cbn [inner]; [exact I|].
  destruct (u_wty u) as [[|]|]; [exact I | |];
    (destruct (wcond w q); [destruct (u_test u); reflexivity | destruct (wakeable w u q); [reflexivity | apply IH]]).
Qed.
Lemma scan_from_nf m : forall fuel w u, frozen_old (snd (scan_from fuel w m u)) = None.
Proof.
  induction fuel as [|f IH]; intros w u; cbn [scan_from]; [reflexivity|].
  destruct (u_new u); [unfold finalize; cbn [snd]; reflexivity|].
  destruct (adjust_test w u n); [reflexivity|].
  match goal with |- context [inner ?a ?b ?c ?d] => pose proof (inner_nf a b d c) as K; destruct (inner a b c d) end; [exact K|].
  destruct (round_end w (end_inner_set u0)) as [w2 u3]. apply IH.
Qed.
Lemma after_inner_nf w m r : match r with InPc p => frozen_old p = None | InEnd _ => True end ->
  frozen_old (snd (after_inner w m r)) = None.
Proof.
  destruct r; cbn [after_inner]; [auto|]. intros _.
  destruct (u_test (end_inner_set u)); [reflexivity|].
  destruct (round_end w (end_inner_set u)) as [w2 u3]. apply scan_from_nf.
Qed.
Lemma round_end_wt w u : wt_eq w (fst (round_end w u)).
Proof. unfold round_end. split; reflexivity. Qed.

Ltac tsolve Hr :=
  repeat lazymatch goal with
  | |- TS _ ?w0 ?w0 _ _ => apply TS_base; exact Hr
  | |- TS _ _ (set_pc _ _ _) _ _ => eapply TS_set_pc
  | |- TS _ _ (set_t _ _ _) _ _ => eapply TS_set_t
  | |- TS _ _ (set_word _ _) _ _ => eapply TS_set_word
  | |- TS _ _ (set_own _ _ _ _ _) _ _ => eapply TS_set_own
  | |- TS _ _ (set_held _ _ _) _ _ => eapply TS_set_held
  | |- TS _ _ (set_spin _ _ _) _ _ => eapply TS_set_spin
  | |- TS _ _ (set_mw _ _ _) _ _ => eapply TS_set_mw
  | |- TS _ _ (upd_mw _ _ _) _ _ => eapply TS_upd_mw
  | |- TS _ _ (released _ _) _ _ => eapply TS_released
  | |- TS _ _ (acquire _ _ _) _ _ => eapply TS_acquire
  | |- TS _ _ (ret_unlock _ _) _ _ => eapply TS_ret_unlock
  | |- TS _ _ (mw_return _ _ _) _ _ => eapply TS_mw_return
  | |- TS _ _ (mw_after_eval _ _ _) _ _ => eapply TS_mw_after_eval
  | |- TS _ _ (set_queue ?w _) _ _ => eapply (TS_world _ _ w); [| reflexivity | reflexivity]
  | |- TS _ _ (set_waiting ?w _ _) _ _ => eapply (TS_world _ _ w); [| reflexivity | reflexivity]
  | |- TS _ _ (set_sem ?w _ _) _ _ => eapply (TS_world _ _ w); [| reflexivity | reflexivity]
  | |- TS _ _ (set_winfo ?w _ _ _ _) _ _ => eapply (TS_world _ _ w); [| reflexivity | reflexivity]
  | |- TS _ _ (set_rcount ?w _ _) _ _ => eapply (TS_world _ _ w); [| reflexivity | reflexivity]
  | |- TS _ _ (set_rings ?w _) _ _ => eapply (TS_world _ _ w); [| reflexivity | reflexivity]
  | |- TS _ _ (set_pst ?w _ _ _) _ _ => eapply (TS_world _ _ w); [| reflexivity | reflexivity]
  | |- TS _ _ (add_ev ?w _) _ _ => eapply (TS_world _ _ w); [| reflexivity | reflexivity]
  | |- TS _ _ (log_eval ?w _ _ _ _) _ _ => eapply (TS_world _ _ w); [| reflexivity | reflexivity]
  | |- TS _ _ (w_merge ?w _ _) _ _ => eapply (TS_world _ _ w); [| reflexivity | reflexivity]
  | |- TS _ _ ?w _ _ =>
      match goal with H : wt_eq ?W w |- _ => eapply (TS_eq _ _ W); [| apply H | apply H] end
  end.

Ltac in_list := cbn; repeat (first [left; reflexivity | right]).

Ltac brk :=
  repeat (cbv beta iota; cbn [fst snd];
  match goal with
  | |- context [cas ?w ?a ?b] => unfold cas
  | |- context [word ?w =? ?e] => destruct (Z.eqb_spec (word w) e)
  | |- context [let '(_, _) := scan_from ?f ?w ?m ?u in _] =>
      let Hwt := fresh "Hwt" in let Hnf := fresh "Hnf" in
      pose proof (scan_from_wt m f w u) as Hwt; pose proof (scan_from_nf m f w u) as Hnf;
      destruct (scan_from f w m u) as [? ?]; cbn [fst snd] in Hwt, Hnf
  | |- context [let '(_, _) := after_inner ?w ?m ?r in _] =>
      let Hwt := fresh "Hwt" in let Hnf := fresh "Hnf" in
      pose proof (after_inner_wt w m r) as Hwt;
      assert (Hnf : frozen_old (snd (after_inner w m r)) = None)
        by (apply after_inner_nf;
            repeat match goal with |- context [if ?g then _ else _] => destruct g end;
            first [apply inner_nf | reflexivity | exact I]);
      destruct (after_inner w m r) as [? ?]; cbn [fst snd] in Hwt, Hnf
  | |- context [let '(_, _) := round_end ?w ?u in _] =>
      let Hwt := fresh "Hwt" in
      pose proof (round_end_wt w u) as Hwt; destruct (round_end w u) as [? ?]; cbn [fst] in Hwt
  | |- context [let '(_, _) := ?x in _] => destruct x as [? ?] eqn:?
  | |- context [if ?c then _ else _] => destruct c eqn:?
  | |- context [match ?x with _ => _ end] => destruct x eqn:?
  end).

Ltac in_list_m := repeat match goal with m : mode |- _ => destruct m end; cbn; repeat (first [left; reflexivity | right]).

Ltac fin1 Epc :=
  constructor; cbn [held t_pc t_ops conv spin mw last_ret];
  [ first [ solve [left; reflexivity]
          | solve [right; left; split; [reflexivity | left; eexists _, _, _; split; [reflexivity | in_list_m]]]
          | solve [right; left; split; [reflexivity | right; eexists; reflexivity]]
          | solve [right; right; left; split; [discriminate | eexists _, _, _; split; [reflexivity | in_list_m]]]
          | solve [right; right; right; split; [discriminate | eexists _, _; split; [reflexivity | exact Epc]]] ]
  | intros ? ? E; first [discriminate E | injection E as <- _; split; [auto | rewrite Epc; discriminate]]
  | intros ? ? ? E;
    first [ discriminate E
          | injection E as <- <- _; split;
            [rewrite Epc; reflexivity | first [assumption | symmetry; assumption | reflexivity]] ]
  | intros HF;
    first [ left; exact HF
          | exfalso; apply HF; first [reflexivity | assumption | (destruct (mw _); reflexivity)]
          | left; rewrite Epc; discriminate
          | right; eexists _, _; reflexivity ] ].
Ltac fin Epc :=
  cbv beta iota;
  repeat match goal with |- context [if ?g then _ else _] => match type of g with bool => destruct g eqn:? end end;
  fin1 Epc.

Lemma step_cls w0 t c : let wb := begin_op w0 t in (t < length (thr wb))%nat ->
  exists x' s', TS t wb (fst (step_thr w0 t c)) x' s' /\ scls wb (get wb t) s' (snd (step_thr w0 t c)).
Proof.
  intros wb Hr. unfold step_thr. fold wb. cbv zeta. clearbody wb.
  destruct (t_pc (get wb t)) eqn:Epc.
  all: brk.
  all: cbv beta iota; cbn [fst snd].
  all: eexists _, _; (split; [tsolve Hr | fin Epc]).
Qed.


(* ================================================================== *)
(* Part 3: views and the instrumentation                               *)
(* ================================================================== *)
Lemma vle_tick v t : vle v (vtick v t).
Proof. intros x. unfold vtick. destruct (Nat.eqb x t); lia. Qed.
Lemma vle_join_lub a b c : vle a c -> vle b c -> vle (vjoin a b) c.
Proof. intros H1 H2 x. specialize (H1 x). specialize (H2 x). unfold vjoin. lia. Qed.

Lemma vupd_same f k v : vupd f k v k = v.
Proof. unfold vupd. now rewrite Nat.eqb_refl. Qed.
Lemma vupd_other f k v x : x <> k -> vupd f k v x = f x.
Proof. unfold vupd. intros H. destruct (Nat.eqb_spec x k); congruence. Qed.

Notation vrefl := HbProof.vle_refl.
Notation vtrans := HbProof.vle_trans.
Notation vjl := HbProof.vle_join_l.
Notation vjr := HbProof.vle_join_r.

Ltac dev e := destruct e as [s o n [|]|s v|s n|s p v|s v|s p v|s p o n ok| |p|r|p f a res|f a b| | |p| | |].

(* the views of the other threads are untouched *)
Lemma th_others h t e u : u <> t -> mviews (mhb_thread_step h t e) u = mviews h u.
Proof. intros Hu. unfold mhb_thread_step. dev e; cbn [mviews]; rewrite vupd_other by exact Hu; reflexivity. Qed.

(* a thread's own view only grows *)
Lemma th_grows h t e : vle (mviews h t) (mviews (mhb_thread_step h t e) t).
Proof.
  unfold mhb_thread_step.
  dev e; cbn [mviews]; rewrite vupd_same; try destruct (has_acq _);
    first [ apply vle_tick | eapply vtrans; [apply vle_tick | apply vjl] ].
Qed.

(* a successful RMW with acquire: the thread's view contains the release view of the word, before and after *)
Lemma th_cas_acq h t s o n : has_acq (mw_word_order Kcas s) = true ->
  vle (mrel_word h) (mviews (mhb_thread_step h t (EvCas s o n true)) t) /\
  vle (mrel_word (mhb_thread_step h t (EvCas s o n true))) (mviews (mhb_thread_step h t (EvCas s o n true)) t).
Proof.
  intros Ha. unfold mhb_thread_step. rewrite Ha. cbn [mviews mrel_word]. rewrite vupd_same.
  split; [apply vjr|]. destruct (has_rel _); [|apply vjr].
  apply vle_join_lub; [apply vjr | apply vrefl].
Qed.
(* a successful RMW with release publishes the thread's (new) view *)
Lemma th_cas_rel h t s o n : has_rel (mw_word_order Kcas s) = true ->
  vle (mviews (mhb_thread_step h t (EvCas s o n true)) t) (mrel_word (mhb_thread_step h t (EvCas s o n true))).
Proof. intros Hr. unfold mhb_thread_step. rewrite Hr. cbn [mviews mrel_word]. rewrite vupd_same. apply vjr. Qed.
(* a release store makes the thread's (new) view the release view of the word *)
Lemma th_store_rel h t s n : has_rel (mw_word_order Kstore s) = true ->
  mrel_word (mhb_thread_step h t (EvStoreWord s n)) = mviews (mhb_thread_step h t (EvStoreWord s n)) t /\
  mviews (mhb_thread_step h t (EvStoreWord s n)) t = vtick (mviews h t) t.
Proof. intros Hr. unfold mhb_thread_step. rewrite Hr. cbn [mviews mrel_word]. rewrite vupd_same. auto. Qed.

(* an event that is not a plain store to the word takes nothing out of its release view *)
Lemma th_rel_mono h t e : (forall s n, e <> EvStoreWord s n) -> vle (mrel_word h) (mrel_word (mhb_thread_step h t e)).
Proof.
  intros Hs. unfold mhb_thread_step. dev e; cbn [mrel_word]; try apply vrefl.
  - destruct (has_rel _); [apply vjl | apply vrefl].
  - exfalso. eapply Hs. reflexivity.
Qed.
(* an event that is neither a release RMW nor a plain store leaves the release view of the word alone *)
Lemma th_rel_same h t e :
  (forall s o n, e = EvCas s o n true -> has_rel (mw_word_order Kcas s) = false) ->
  (forall s n, e <> EvStoreWord s n) ->
  mrel_word (mhb_thread_step h t e) = mrel_word h.
Proof.
  intros Hc Hs. unfold mhb_thread_step. dev e; cbn [mrel_word]; try reflexivity.
  - rewrite (Hc _ _ _ eq_refl). reflexivity.
  - exfalso. eapply Hs. reflexivity.
Qed.
(* if the thread's view contains the release view of the word before its step, it does after it, provided a plain
   store it executes is a release *)
Lemma th_own_keeps h t e :
  (forall s n, e = EvStoreWord s n -> has_rel (mw_word_order Kstore s) = true) ->
  vle (mrel_word h) (mviews h t) ->
  vle (mrel_word (mhb_thread_step h t e)) (mviews (mhb_thread_step h t e) t).
Proof.
  intros Hs H. assert (H' : vle (mrel_word h) (vtick (mviews h t) t)) by (eapply vtrans; [exact H | apply vle_tick]).
  unfold mhb_thread_step. dev e; cbn [mviews mrel_word]; rewrite vupd_same; try exact H'.
  - destruct (has_acq _), (has_rel _);
      repeat first [ apply vle_join_lub | apply vjr | apply vjl | apply vrefl | exact H' ].
  - destruct (has_acq _); [apply vjr | exact H'].
  - rewrite (Hs _ _ eq_refl). apply vrefl.
  - destruct (has_acq _); [eapply vtrans; [exact H' | apply vjl] | exact H'].
Qed.

(* ================================================================== *)
(* Part 4: one step of the model                                       *)
(* ================================================================== *)
Lemma begin_op_held w t : held (get (begin_op w t) t) = held (get w t).
Proof.
  unfold begin_op. destruct (t_pc (get w t)) eqn:Ep; try reflexivity. destruct (t_ops (get w t)); try reflexivity.
  destruct (match o with OLock m => _ | _ => _ end) as [p x].
  destruct (Nat.lt_ge_cases t (length (thr w))) as [L|L].
  - unfold get at 1, set_t, set_thr; cbn [thr]. rewrite nth_lupd_same by exact L. reflexivity.
  - rewrite (get_oob (set_t w t _) t) by (unfold set_t, set_thr; cbn [thr]; rewrite length_lupd; exact L).
    rewrite (get_oob w t L). reflexivity.
Qed.
Lemma begin_op_len w t : length (thr (begin_op w t)) = length (thr w).
Proof.
  unfold begin_op. destruct (t_pc (get w t)); try reflexivity. destruct (t_ops (get w t)); try reflexivity.
  destruct (match o with OLock m => _ | _ => _ end) as [p x]. unfold set_t, set_thr; cbn [thr]. apply length_lupd.
Qed.
(* begin_op never puts a thread inside the window of mu_try_acquire_after_timeout_or_cancel *)
Lemma begin_op_frozen_pc w t : frozen_old (t_pc (get (begin_op w t) t)) <> None -> frozen_old (t_pc (get w t)) <> None.
Proof.
  unfold begin_op. destruct (t_pc (get w t)) eqn:Ep; try (rewrite Ep; auto; fail).
  destruct (t_ops (get w t)) eqn:Eo; [rewrite Ep; auto|].
  destruct (match o with OLock m => _ | _ => _ end) as [p x] eqn:Em.
  destruct (Nat.lt_ge_cases t (length (thr w))) as [L|L].
  - unfold get at 1, set_t, set_thr; cbn [thr]. rewrite nth_lupd_same by exact L. cbn [t_pc].
    destruct o as [m|m| | |f a b|c e d k], (held (get w t)) as [[|]|]; injection Em as <- <-; cbn; intros H; exfalso; apply H; reflexivity.
  - rewrite (get_oob (set_t w t _) t) by (unfold set_t, set_thr; cbn [thr]; rewrite length_lupd; exact L).
    cbn. intros H; exfalso; apply H; reflexivity.
Qed.

Section Steps.
Variable n : nat.
Hypothesis Hn : Z.of_nat n < 16777215.

Lemma inv_len w : Inv n w -> length (thr w) = n.
Proof. intros (L & _). exact L. Qed.
Lemma inv_pc_ok w t : Inv n w -> pc_ok (get w t).
Proof. intros (_ & _ & H). apply H. Qed.

(* what a step of thread t is, in terms of the thread's state before (after begin_op) and after *)
Lemma thr_step_cls w t c : Inv n w ->
  let wb := begin_op w t in
  ((t < n)%nat /\ scls wb (get wb t) (get (fst (step_thr w t c)) t) (snd (step_thr w t c))) \/
  ((n <= t)%nat /\ snd (step_thr w t c) = EvNone /\ get (fst (step_thr w t c)) t = get wb t).
Proof.
  intros HI wb. pose proof (begin_op_inv n w t HI) as HIb. fold wb in HIb.
  destruct (Nat.lt_ge_cases t n) as [L|L].
  - left. split; [exact L|].
    assert (Hr : (t < length (thr wb))%nat) by (rewrite (inv_len _ HIb); exact L).
    destruct (step_cls w t c Hr) as (x' & s' & HT & HS). rewrite (TS_get _ _ _ _ _ HT). exact HS.
  - right. split; [exact L|].
    assert (E : get wb t = dflt_t) by (apply get_oob; rewrite (inv_len _ HIb); exact L).
    unfold step_thr. fold wb. cbv zeta. rewrite E. cbn [t_pc dflt_t fst snd]. auto.
Qed.

(* a thread that owns neither lock bits nor the spinlock cannot write the word with release semantics while the
   spinlock bit is set *)
Lemma cas_pc_inv p x o : cas_site_of_pc p = Some (x, o) ->
  In x norel_sites \/
  match p with
  | RelCas _ _ | UlFast _ | UlCas2 _ _ | UwFast | UwCas2 _ | UsCasRel _ _ | UsCasSpin _ _ | UsRelCas _ _ _
  | MwRelCas _ _ => True
  | MtCas2 old => old = o
  | _ => False
  end.
Proof.
  destruct p; cbn [cas_site_of_pc]; intros E; try discriminate E; injection E as <- <-;
    try (right; exact I); try (right; reflexivity);
    left; repeat match goal with m : mode |- _ => destruct m end; cbn; repeat (first [left; reflexivity | right]).
Qed.

Lemma nonowner_no_release w t c : Inv n w ->
  let wb := begin_op w t in
  held (get wb t) = None -> spin (get wb t) = false -> b1 (word wb) = 1 ->
  (forall s nw, snd (step_thr w t c) <> EvStoreWord s nw) /\
  (forall s o nw, snd (step_thr w t c) = EvCas s o nw true -> has_rel (mw_word_order Kcas s) = false).
Proof.
  intros HI wb Hh Hs Hb. pose proof (begin_op_inv n w t HI) as HIb. fold wb in HIb.
  destruct (thr_step_cls w t c HI) as [(L & C)|(L & E & _)].
  2:{ rewrite E. split; intros; discriminate. }
  fold wb in C.
  destruct C as [_ Cst Ccas _]. split.
  - intros s nw E. destruct (Cst _ _ E) as [_ F].
    destruct (frozen_old (t_pc (get wb t))) as [old|] eqn:Fo; [|apply F; reflexivity].
    destruct (frozen_pc_owner n wb t old HIb Fo) as [A _]. congruence.
  - intros s o nw E. destruct (Ccas _ _ _ E) as [Cp Cw].
    destruct (cas_pc_inv _ _ _ Cp) as [A|A]; [apply norel_cas; exact A|]. exfalso.
    pose proof (inv_pc_ok wb t HIb) as Hok. unfold pc_ok in Hok.
    destruct (t_pc (get wb t)) eqn:Epc; try contradiction.
    + (* RelCas *) destruct k as [m l|m u| |old0]; try contradiction.
      * destruct Hok as ((_ & A1 & _) & _). congruence.
      * destruct Hok as (_ & lt & _ & A1). rewrite Epc in A1. cbn [scan_pc_ok] in A1. destruct A1 as (A1 & _). congruence.
    + (* UlFast *) destruct Hok as ((A1 & _) & _). congruence.
    + destruct Hok as ((A1 & _) & _). congruence.
    + destruct Hok as ((A1 & _) & _). congruence.
    + destruct Hok as ((A1 & _) & _). congruence.
    + (* UsCasRel *) destruct Hok as ((A1 & _) & _). congruence.
    + destruct Hok as ((A1 & _) & _). congruence.
    + (* UsRelCas *) destruct Hok as (_ & lt & _ & A1). rewrite Epc in A1. cbn [scan_pc_ok] in A1. destruct A1 as (A1 & _). congruence.
    + (* MwRelCas *) destruct Hok as (x & _ & (A1 & _) & _). congruence.
    + (* MtCas2 *) destruct Hok as (_ & G). subst old. pose proof (mt_cas2_guard_facts _ G). rewrite <- Cw in H. lia.
Qed.

(* ================================================================== *)
(* Part 5: the invariant of the instrumentation and the hand-off        *)
(* ================================================================== *)
(* a thread inside the window of mu_try_acquire_after_timeout_or_cancel has the whole release view of the word *)
Definition K (w : world) (h : mhb) : Prop :=
  forall t, frozen_old (t_pc (get w t)) <> None -> vle (mrel_word h) (mviews h t).

Definition mnext (h : mhb) (w : world) (a : actor) : mhb := mhb_step h a (snd (step w a)).

Lemma env_get w a t : actor_thread a = None -> get (fst (step w a)) t = get w t.
Proof.
  destruct a as [u c|dt| |p]; cbn [actor_thread step]; intros E; try discriminate E.
  - destruct (0 <=? dt); reflexivity.
  - reflexivity.
  - destruct (note w); reflexivity.
Qed.

Lemma finv_inv w : FInv n w -> Inv n w. Proof. intros [A _]; exact A. Qed.

Lemma store_is_release w t c : Inv n w -> forall s nn, snd (step_thr w t c) = EvStoreWord s nn ->
  has_rel (mw_word_order Kstore s) = true /\ frozen_old (t_pc (get w t)) <> None.
Proof.
  intros HI s nn E. destruct (thr_step_cls w t c HI) as [(L & C)|(L & E' & _)]; [|rewrite E' in E; discriminate E].
  destruct C as [_ Cst _ _]. destruct (Cst _ _ E) as [A B]. split; [apply rel_store; exact A|].
  apply begin_op_frozen_pc. exact B.
Qed.

Lemma K_step w h a : FInv n w -> K w h -> K (fst (step w a)) (mnext h w a).
Proof.
  intros HF HK. pose proof (finv_inv _ HF) as HI. unfold mnext, mhb_step.
  destruct (actor_thread a) as [u|] eqn:Ha.
  2:{ intros t Ht. rewrite (env_get w a t Ha) in Ht. apply HK. exact Ht. }
  destruct a as [u' c| | |]; try discriminate Ha. injection Ha as ->. cbn [step].
  pose proof (begin_op_inv n w u HI) as HIb.
  pose proof (step_thr_ok n Hn w u c HI) as (HI' & _ & _ & Hoth).
  intros t Ht. destruct (Nat.eq_dec t u) as [->|Hne].
  - (* the stepping thread *)
    destruct (thr_step_cls w u c HI) as [(L & C)|(L & _ & E)].
    2:{ exfalso. rewrite E in Ht. rewrite (get_oob _ u) in Ht by (rewrite (inv_len _ HIb); exact L). apply Ht. reflexivity. }
    destruct C as [_ _ _ Cfr]. destruct (Cfr Ht) as [A|(o & nn & E)].
    + apply th_own_keeps.
      * intros s nn E. apply (store_is_release w u c HI s nn E).
      * apply HK. apply begin_op_frozen_pc. exact A.
    + rewrite E. apply th_cas_acq. apply acq_cas. unfold acq_sites, mw_acquire_cas_sites. cbn. tauto.
  - (* another thread is inside the window *)
    rewrite (Hoth t Hne) in Ht. rewrite th_others by exact Hne.
    destruct (frozen_old (t_pc (get (begin_op w u) t))) as [old|] eqn:Fo; [|exfalso; apply Ht; reflexivity].
    destruct (frozen_pc_owner n _ t old HIb Fo) as [O1 O2].
    destruct (Inv_sole n _ t u HIb O1 O2 ltac:(congruence)) as [P1 P2].
    pose proof (Inv_spin n _ t HIb O2) as B.
    destruct (nonowner_no_release w u c HI P1 P2 B) as [N1 N2].
    rewrite th_rel_same; [| exact N2 | exact N1].
    apply HK. rewrite begin_op_get_other in Fo by exact Hne. rewrite Fo. discriminate.
Qed.

(* nothing is ever taken out of the release view of the word *)
Lemma rel_mono_step w h a : FInv n w -> K w h -> vle (mrel_word h) (mrel_word (mnext h w a)).
Proof.
  intros HF HK. pose proof (finv_inv _ HF) as HI. unfold mnext, mhb_step.
  destruct (actor_thread a) as [u|] eqn:Ha; [|apply vrefl].
  destruct a as [u' c| | |]; try discriminate Ha. injection Ha as ->. cbn [step].
  destruct (snd (step_thr w u c)) eqn:E; try (apply th_rel_mono; intros; discriminate).
  destruct (store_is_release w u c HI _ _ E) as [A B].
  destruct (th_store_rel h u site new A) as [R1 R2]. rewrite R1, R2.
  eapply vtrans; [apply HK; exact B | apply vle_tick].
Qed.

(* a step after which the thread owns no lock bits, having owned some before, published its view *)
Lemma release_step w h t c : FInv n w ->
  held (get w t) <> None -> held (get (fst (step_thr w t c)) t) = None ->
  vle (mviews (mhb_thread_step h t (snd (step_thr w t c))) t) (mrel_word (mhb_thread_step h t (snd (step_thr w t c)))).
Proof.
  intros HF Hb Ha. pose proof (finv_inv _ HF) as HI.
  destruct (thr_step_cls w t c HI) as [(L & C)|(L & _ & E)].
  2:{ rewrite E, begin_op_held in Ha. congruence. }
  destruct C as [Ch _ _ _]. rewrite begin_op_held in Ch.
  destruct Ch as [A|[(_ & [(x & o & nn & E & Hx)|(nn & E)])|[(A & _)|(A & _)]]]; try congruence.
  - rewrite E. apply th_cas_rel. apply rel_cas. exact Hx.
  - rewrite E. destruct (th_store_rel h t 1109 nn) as [R1 _]; [apply rel_store; auto|]. rewrite R1. apply vrefl.
Qed.

(* a step after which the thread owns lock bits, having owned none before, joined the release view of the word *)
Lemma acquire_step w h t c : FInv n w ->
  held (get w t) = None -> held (get (fst (step_thr w t c)) t) <> None ->
  vle (mrel_word h) (mviews (mhb_thread_step h t (snd (step_thr w t c))) t).
Proof.
  intros HF Hb Ha. pose proof (finv_inv _ HF) as HI. pose proof (begin_op_inv n w t HI) as HIb.
  destruct (thr_step_cls w t c HI) as [(L & C)|(L & _ & E)].
  2:{ rewrite E, begin_op_held in Ha. congruence. }
  destruct C as [Ch _ _ _]. rewrite begin_op_held in Ch.
  destruct Ch as [A|[(A & _)|[(_ & x & o & nn & E & Hx)|(_ & nn & old & _ & Ep)]]]; try congruence.
  - rewrite E. apply th_cas_acq. apply acq_cas. exact Hx.
  - exfalso. assert (Fo : frozen_old (t_pc (get (begin_op w t) t)) = Some old) by (rewrite Ep; reflexivity).
    destruct (frozen_pc_owner n _ t old HIb Fo) as [O1 _]. rewrite begin_op_held in O1. congruence.
Qed.

Lemma run_cons w h a rest :
  run_hb_muwait w h (a :: rest) =
  mk_mobs a w (fst (step w a)) (snd (step w a)) (mview_of h a) (mview_of (mnext h w a) a)
    :: run_hb_muwait (fst (step w a)) (mnext h w a) rest.
Proof. unfold mnext. cbn [run_hb_muwait]. destruct (step w a); reflexivity. Qed.

(* anything below the release view of the word is below the view of every later acquirer *)
Lemma acquire_later : forall sched w h j oj r,
  FInv n w -> K w h -> vle r (mrel_word h) ->
  nth_error (run_hb_muwait w h sched) j = Some oj -> mw_acquire oj -> vle r (mo_view oj).
Proof.
  induction sched as [|a rest IH]; intros w h j oj r HF HK Hr Hj Hacq.
  - destruct j; discriminate Hj.
  - rewrite run_cons in Hj. destruct j as [|j]; cbn [nth_error] in Hj.
    + injection Hj as <-. destruct Hacq as (t & Ha & Hb & Hc). cbn [mo_a mo_w mo_w' mo_view] in *.
      destruct a as [u c| | |]; try discriminate Ha. injection Ha as ->.
      unfold mview_of, mnext, mhb_step. cbn [actor_thread step] in *.
      eapply vtrans; [exact Hr | apply acquire_step; assumption].
    + eapply (IH (fst (step w a)) (mnext h w a)); [apply step_finv; assumption | apply K_step; assumption | | exact Hj | exact Hacq].
      eapply vtrans; [exact Hr | apply rel_mono_step; assumption].
Qed.

Lemma handoff_gen : forall sched w h i j oi oj,
  FInv n w -> K w h ->
  nth_error (run_hb_muwait w h sched) i = Some oi -> nth_error (run_hb_muwait w h sched) j = Some oj -> (i < j)%nat ->
  mw_release oi -> mw_acquire oj -> vle (mo_view oi) (mo_view oj).
Proof.
  induction sched as [|a rest IH]; intros w h i j oi oj HF HK Hi Hj Hlt Hrel Hacq.
  - destruct i; discriminate Hi.
  - rewrite run_cons in Hi, Hj. destruct j as [|j]; [lia|]. cbn [nth_error] in Hj.
    destruct i as [|i]; cbn [nth_error] in Hi.
    + injection Hi as <-. destruct Hrel as (t & Ha & Hb & Hc). cbn [mo_a mo_w mo_w' mo_view] in *.
      eapply (acquire_later rest (fst (step w a)) (mnext h w a));
        [apply step_finv; assumption | apply K_step; assumption | | exact Hj | exact Hacq].
      destruct a as [u c| | |]; try discriminate Ha. injection Ha as ->.
      unfold mview_of, mnext, mhb_step. cbn [actor_thread step] in *.
      apply release_step; assumption.
    + eapply (IH (fst (step w a)) (mnext h w a));
        [apply step_finv; assumption | apply K_step; assumption | exact Hi | exact Hj | lia | exact Hrel | exact Hacq].
Qed.

(* which events the releasing and the acquiring steps are *)
Lemma cas903_pc p o : cas_site_of_pc p = Some (903, o) -> exists m, p = UsCasSpin m o.
Proof.
  destruct p; cbn [cas_site_of_pc]; intros E; try discriminate E;
    try (destruct m; discriminate E); injection E as <-; eauto.
Qed.

Lemma kinds_gen : forall sched w h i oi,
  FInv n w -> nth_error (run_hb_muwait w h sched) i = Some oi ->
  (mw_release oi -> (exists x, In x mw_release_cas_sites /\ mw_cas_at x oi) \/ mw_store_at 1109 oi) /\
  (mw_acquire oi -> exists x, In x mw_acquire_cas_sites /\ mw_cas_at x oi).
Proof.
  induction sched as [|a rest IH]; intros w h i oi HF Hi.
  - destruct i; discriminate Hi.
  - rewrite run_cons in Hi. destruct i as [|i]; cbn [nth_error] in Hi.
    2:{ eapply (IH (fst (step w a))); [apply step_finv; assumption | exact Hi]. }
    injection Hi as <-. pose proof (finv_inv _ HF) as HI. unfold mw_release, mw_acquire, mw_cas_at, mw_store_at.
    cbn [mo_a mo_w mo_w' mo_ev].
    split; intros (t & Ha & Hb & Hc); (destruct a as [u c| | |]; try discriminate Ha); injection Ha as ->;
      cbn [step] in *; pose proof (begin_op_inv n w t HI) as HIb;
      (destruct (thr_step_cls w t c HI) as [(L & C)|(L & _ & E)]; [|rewrite E, begin_op_held in Hc; congruence]);
      destruct C as [Ch _ Ccas _]; rewrite begin_op_held in Ch.
    + destruct Ch as [A|[(_ & [(x & o & nn & E & Hx)|(nn & E)])|[(A & _)|(A & _)]]]; try congruence.
      * left. exists x. split; [exact Hx | eauto].
      * right. eauto.
    + destruct Ch as [A|[(A & _)|[(_ & x & o & nn & E & Hx)|(_ & nn & old & _ & Ep)]]]; try congruence.
      * exists x. split; [|eauto]. destruct Hx as [<-|Hx]; [|exact Hx]. exfalso.
        destruct (Ccas _ _ _ E) as [Cp _]. destruct (cas903_pc _ _ Cp) as (m & Epc).
        pose proof (inv_pc_ok _ t HIb) as Hok. unfold pc_ok in Hok. rewrite Epc in Hok.
        destruct Hok as ((A1 & _) & _). rewrite begin_op_held in A1. congruence.
      * exfalso. assert (Fo : frozen_old (t_pc (get (begin_op w t) t)) = Some old) by (rewrite Ep; reflexivity).
        destruct (frozen_pc_owner n _ t old HIb Fo) as [O1 _]. rewrite begin_op_held in O1. congruence.
Qed.
End Steps.

Lemma K_init progs cl c0 : K (init progs cl c0) mhb0.
Proof.
  intros t Ht. exfalso. apply Ht. unfold init, get; cbn [thr].
  change dflt_t with ((fun ops => mk_t Idle ops None false false None None) []). rewrite map_nth. reflexivity.
Qed.

(* for any number of threads (below the capacity of the reader count), programs and schedules *)
Lemma muwait_handoff : forall progs cl c0 sched i j oi oj,
  Z.of_nat (length progs) < 2 ^ 24 - 1 ->
  let tr := run_hb_muwait (init progs cl c0) mhb0 sched in
  nth_error tr i = Some oi -> nth_error tr j = Some oj -> (i < j)%nat ->
  mw_release oi -> mw_acquire oj ->
  vle (mo_view oi) (mo_view oj).
Proof.
  intros progs cl c0 sched i j oi oj Hn tr. subst tr.
  apply (handoff_gen (length progs) Hn); [apply init_finv | apply K_init].
Qed.

Lemma muwait_handoff_kinds : forall progs cl c0 sched i oi,
  Z.of_nat (length progs) < 2 ^ 24 - 1 ->
  nth_error (run_hb_muwait (init progs cl c0) mhb0 sched) i = Some oi ->
  (mw_release oi -> (exists x, In x mw_release_cas_sites /\ mw_cas_at x oi) \/ mw_store_at 1109 oi) /\
  (mw_acquire oi -> exists x, In x mw_acquire_cas_sites /\ mw_cas_at x oi).
Proof. intros progs cl c0 sched i oi Hn. apply (kinds_gen (length progs) Hn). apply init_finv. Qed.

(* ================================================================== *)
(* Part 6: the wake-up edge of the mutex (waiting flag)                 *)
(* ================================================================== *)
Local Transparent mw_waiting_order.
Lemma muwait_waiting_orders :
  has_rel (mw_waiting_order Kstore 907) = true /\
  has_acq (mw_waiting_order Kload 505) = true /\ has_acq (mw_waiting_order Kload 1006) = true.
Proof. repeat split; vm_compute; reflexivity. Qed.
Local Opaque mw_waiting_order.

Lemma th_waiting_keep h t e q : (forall s v, e <> EvStoreW s q v) ->
  mrel_waiting (mhb_thread_step h t e) q = mrel_waiting h q.
Proof.
  intros Hs. unfold mhb_thread_step. dev e; cbn [mrel_waiting]; try reflexivity.
  destruct (Nat.eq_dec q p) as [->|Hne]; [exfalso; eapply Hs; reflexivity | apply vupd_other; exact Hne].
Qed.

Lemma woken_later : forall sched w h j oj p r,
  vle r (mrel_waiting h p) ->
  nth_error (run_hb_muwait w h sched) j = Some oj -> mw_sees_woken p oj ->
  (forall k ok, (k < j)%nat -> nth_error (run_hb_muwait w h sched) k = Some ok -> ~ mw_stores_waiting p ok) ->
  vle r (mo_view oj).
Proof.
  induction sched as [|a rest IH]; intros w h j oj p r Hr Hj Hw Hno.
  - destruct j; discriminate Hj.
  - rewrite run_cons in Hj, Hno. destruct j as [|j]; cbn [nth_error] in Hj.
    + injection Hj as <-. destruct Hw as [Ha He]. cbn [mo_a mo_ev mo_view] in *.
      unfold mview_of, mnext, mhb_step. rewrite Ha.
      destruct muwait_waiting_orders as (_ & A1 & A2).
      destruct He as [-> | ->]; unfold mhb_thread_step; rewrite ?A1, ?A2; cbn [mviews]; rewrite vupd_same;
        (eapply vtrans; [exact Hr | apply vjr]).
    + eapply (IH (fst (step w a)) (mnext h w a)); [| exact Hj | exact Hw |].
      * assert (N : ~ mw_stores_waiting p (mk_mobs a w (fst (step w a)) (snd (step w a)) (mview_of h a) (mview_of (mnext h w a) a)))
          by (apply (Hno 0%nat); [lia | reflexivity]).
        unfold mnext, mhb_step. destruct (actor_thread a) as [t|]; [|exact Hr].
        rewrite th_waiting_keep; [exact Hr|]. intros s v E. apply N. exists s, v. exact E.
      * intros k ok Hk Hnk. apply (Hno (S k) ok); [lia | exact Hnk].
Qed.

(* nsync_mu_unlock_slow_'s ATM_STORE_REL (&p->waiting, 0) happens before the acquire load of the woken thread that reads
   it (no store to that flag in between) *)
Lemma muwait_wake_gen : forall sched w h i j oi oj p,
  nth_error (run_hb_muwait w h sched) i = Some oi -> nth_error (run_hb_muwait w h sched) j = Some oj -> (i < j)%nat ->
  mw_wakes p oi -> mw_sees_woken p oj ->
  (forall k ok, (i < k < j)%nat -> nth_error (run_hb_muwait w h sched) k = Some ok -> ~ mw_stores_waiting p ok) ->
  vle (mo_view oi) (mo_view oj).
Proof.
  induction sched as [|a rest IH]; intros w h i j oi oj p Hi Hj Hlt Hp Hw Hno.
  - destruct i; discriminate Hi.
  - rewrite run_cons in Hi, Hj, Hno. destruct j as [|j]; [lia|]. cbn [nth_error] in Hj.
    destruct i as [|i]; cbn [nth_error] in Hi.
    + injection Hi as <-. destruct Hp as (t & Ha & He & _). cbn [mo_a mo_ev mo_view] in *.
      eapply woken_later; [| exact Hj | exact Hw |].
      * unfold mview_of, mnext, mhb_step. rewrite Ha, He. unfold mhb_thread_step.
        rewrite (proj1 muwait_waiting_orders). cbn [mviews mrel_waiting]. rewrite !vupd_same. apply vrefl.
      * intros k ok Hk Hnk. apply (Hno (S k) ok); [lia | exact Hnk].
    + eapply (IH (fst (step w a)) (mnext h w a)); [exact Hi | exact Hj | lia | exact Hp | exact Hw |].
      intros k ok Hk Hnk. apply (Hno (S k) ok); [lia | exact Hnk].
Qed.

Lemma muwait_wake_handoff : forall progs cl c0 sched i j oi oj p,
  let tr := run_hb_muwait (init progs cl c0) mhb0 sched in
  nth_error tr i = Some oi -> nth_error tr j = Some oj -> (i < j)%nat ->
  mw_wakes p oi -> mw_sees_woken p oj ->
  (forall k ok, (i < k < j)%nat -> nth_error tr k = Some ok -> ~ mw_stores_waiting p ok) ->
  vle (mo_view oi) (mo_view oj).
Proof. intros progs cl c0 sched i j oi oj p tr. subst tr. apply muwait_wake_gen. Qed.
