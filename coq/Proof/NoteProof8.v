(* NoteProof8: C09, progress of the condition waits -- definitions.
   The invariant InvS behind C09_no_stuck_full (Props/Properties_C09b.v):
   - the disconnecting count of a note is accounted to a thread (s_exact, the converse of NoteProof3.disc_ok);
   - a thread that has raised n->disconnecting and has not yet stored n->notified finds it clear (s_pre), so that
     note_notify_child (n, parent) does not return early;
   - a linked note has a positive expiry, and if it is notified somebody is still disconnecting it (s_link);
   - a thread about to lower x->disconnecting has unlinked x (s_rel);
   - what nsync_note_new knows about the note it constructs (s_new, s_newd);
   - the loops over n's children (note_notify_child, nsync_note_free): every child that the loop has passed is being
     disconnected by somebody (kfact), hence when the thread sleeps in "no children" / children_changed every child
     has a responsible thread -- or n->adoptions has moved (the F11 repair).
   Proofs: NoteProof9.v (the stage facts), NoteProof10.v (the loops), NoteProof11.v (the ranking argument). *)
From Coq Require Import String.
From NsyncBase Require Import CSem.
From NsyncGen Require Import Consts Sites.
From NsyncModel Require Import NoteModel.
From NsyncProof Require Import NoteProof NoteProof2 NoteProof3 NoteProof4 NoteProof7.
From Coq Require Import List ZArith Bool Lia Arith.
Import ListNotations.
Local Open Scope Z_scope.

(* ---------- the suffix of a children list that a loop has still to visit ---------- *)
Fixpoint from (l : list nat) (x : nat) : list nat :=
  match l with [] => [] | y :: r => if Nat.eqb y x then y :: r else from r x end.
Definition ofrom (l : list nat) (o : option nat) : list nat := match o with None => [] | Some x => from l x end.

Lemma from_hd l c : hd_error l = Some c -> from l c = l.
Proof. destruct l; cbn; [discriminate|]. intros E; inversion E; subst. now rewrite Nat.eqb_refl. Qed.
Lemma from_incl l x : incl (from l x) l.
Proof.
  induction l as [|y r IH]; cbn; [intros ? []|]. destruct (Nat.eqb y x); [apply incl_refl|].
  intros a Ha. right. auto.
Qed.
Lemma from_in l x : In x l -> In x (from l x).
Proof.
  induction l as [|y r IH]; cbn; [tauto|]. destruct (Nat.eqb_spec y x); [subst; left; reflexivity|].
  intros [H|H]; [congruence|auto].
Qed.
Lemma from_next l x : NoDup l -> forall c', In c' (from l x) -> c' = x \/ In c' (ofrom l (next_in l x)).
Proof.
  induction l as [|y r IH]; cbn; [tauto|]. intros Hd. apply NoDup_cons_iff in Hd. destruct Hd as [Hy Hr].
  destruct (Nat.eqb_spec y x).
  - subst y. intros c' [H|H]; [left; auto|]. right. destruct r as [|z r']; [destruct H|]. cbn.
    destruct (Nat.eqb_spec x z); [subst; exfalso; apply Hy; left; reflexivity|]. rewrite Nat.eqb_refl. exact H.
  - intros c' H. destruct (IH Hr c' H) as [E|E]; [left; exact E|]. right.
    destruct (next_in r x) as [z|] eqn:Ez; [|destruct E]. cbn in *.
    destruct (Nat.eqb_spec y z); [|exact E]. subst z. exfalso. apply Hy. eapply next_in_In; eauto.
Qed.
Lemma from_remove l c x c' : c' <> c -> x <> c -> In c' (from l x) -> In c' (from (remove_nat c l) x).
Proof.
  intros Hc Hx. induction l as [|y r IH]; cbn; [tauto|].
  destruct (Nat.eqb_spec y x).
  - subst y. destruct (Nat.eqb_spec x c); [congruence|]. cbn. rewrite Nat.eqb_refl.
    intros [H|H]; [left; exact H|right; apply remove_nat_other; auto].
  - intros H. destruct (Nat.eqb_spec y c); [exact H|].
    cbn. destruct (Nat.eqb_spec y x); [congruence|]. auto.
Qed.
Lemma ofrom_remove l c nx c' : c' <> c -> nx <> Some c -> In c' (ofrom l nx) -> In c' (ofrom (remove_nat c l) nx).
Proof. destruct nx as [x|]; cbn; [|tauto]. intros Hc Hx. apply from_remove; auto; congruence. Qed.

(* ---------- the facts ---------- *)
(* every child of n is being disconnected by somebody, or is still ahead of the loop *)
Definition acc (w : world) (n : nat) (ahead : list nat) : Prop :=
  forall c, In c (children (nt w n)) -> (0 < disc (nt w c))%nat \/ In c ahead.

Definition kfact (w : world) (f : frame) : Prop :=
  match f with
  | FC n _ s => match s with
                | C5 c nx | CR c nx => acc w n (c :: ofrom (children (nt w n)) nx)
                | C6 _ nx _ => acc w n (ofrom (children (nt w n)) nx)
                | C7 | C8 => acc w n []
                | _ => True
                end
  | FF n s _ => match s with
                | F6 c nx | F7 c nx | FR c nx => acc w n (c :: ofrom (children (nt w n)) nx)
                | F8 _ nx _ => acc w n (ofrom (children (nt w n)) nx)
                | F9 => acc w n []
                | F10 seen => (seen <= adoptions (nt w n))%nat /\ (acc w n [] \/ (seen < adoptions (nt w n))%nat)
                | _ => True
                end
  | _ => True
  end.

(* frames that hold x->disconnecting and come before the store to x->notified *)
Definition preflag (f : frame) : option nat :=
  match f with
  | FN x s _ _ => match s with N5 | N6 | N7 | N8 => Some x | _ => None end
  | FC x _ s => match s with C1 | C2 => Some x | _ => None end
  | _ => None
  end.

(* frames that will lower x->disconnecting without unlinking x any more *)
Definition relfact (w : world) (f : frame) : Prop :=
  match f with
  | FN x s par inc => inc = true -> (par = None \/ s = N10 \/ s = N11) -> parent (nt w x) = None
  | FC m par s => (par = None -> parent (nt w m) = None) /\
                  match s with C6 x _ true => parent (nt w x) = None | _ => True end
  | FF m s _ => match s with F8 x _ true => parent (nt w x) = None | _ => True end
  | _ => True
  end.

Record InvS1 (w : world) : Prop := mk_InvS1 {
  s_exact : forall x, (x < nnext w)%nat -> (0 < disc (nt w x))%nat -> exists t, (tcount w t x >= 1)%nat;
  s_pre : forall t f x, In f (stk w t) -> preflag f = Some x -> flag (nt w x) = 0 /\ tpos (expiry (nt w x)) = true;
  s_link : forall x p, (x < nnext w)%nat -> parent (nt w x) = Some p ->
           tpos (expiry (nt w x)) = true /\ (flag (nt w x) <> 0 -> (0 < disc (nt w x))%nat);
  s_rel : forall t f, In f (stk w t) -> relfact w f;
  s_new : forall t par dl n p, In (ANew par dl (W2 n p false)) (stk w t) \/ In (ANew par dl (W3 n p false)) (stk w t) ->
          flag (nt w n) = 0 /\ tpos dl = true;
  s_newd : forall t n s par dl, stk w t = [FD n s; ANew par dl (WD n)] ->
           match s with D4 x | D5 x => tpos x = true -> flag (nt w n) = 0 /\ tpos dl = true | _ => True end }.
Definition InvK (w : world) : Prop := forall t f, In f (stk w t) -> kfact w f.
Definition InvS (w : world) : Prop := InvS1 w /\ InvK w.

(* ---------- who lowers a disconnecting count ---------- *)
Definition relstage (f : frame) (x : nat) : Prop :=
  match f with
  | FN m N11 _ true => m = x
  | FC _ _ (C6 c _ true) => c = x
  | FF m s _ => match s with F8 c _ true => c = x | F12 => m = x | _ => False end
  | _ => False
  end.
Lemma step1_release w t c x :
  (x < nnext w)%nat -> (disc (nt (fst (step1 w t c)) x) < disc (nt w x))%nat -> exists f, top w t = Some f /\ relstage f x.
Proof.
  unfold top, stk. leaves.
  all: nsimpl.
  all: try solve [intros H0 H; exfalso; lia].
  all: intros _ _; cbn [hd_error]; eexists; split; [reflexivity|]; cbn; auto.
Qed.
(* ... and when it does, x is out of the tree *)
Lemma relstage_orphan w f x : fokU w f -> relfact w f -> relstage f x -> parent (nt w x) = None.
Proof.
  destruct f as [| m s par inc | m par s | m s par | | | | |]; cbn; try contradiction.
  - destruct s; try contradiction. destruct inc; [|contradiction]. intros _ R ->. apply R; auto.
  - destruct s; try contradiction. destruct dec; [|contradiction]. intros _ [_ R] <-. exact R.
  - destruct s; try contradiction.
    + destruct dec; [|contradiction]. intros _ R <-. exact R.
    + intros ((R & _) & _) _ <-. exact R.
Qed.

(* adoptions only grow *)
Lemma step1_adoptions w t c x : (adoptions (nt w x) <= adoptions (nt (fst (step1 w t c)) x))%nat \/ x = nnext w.
Proof.
  leaves.
  all: nsimpl.
  all: try (left; lia).
  all: right; reflexivity.
Qed.
(* a child list grows only by nsync_note_new's link (the parent not notified) or by an adoption (the parent not notified,
   its adoptions counter moves) *)
Lemma step1_child_added w t c m x :
  In x (children (nt (fst (step1 w t c)) m)) -> ~ In x (children (nt w m)) ->
  flag (nt w m) = 0 /\
  ((exists par dl e, top w t = Some (ANew par dl (W3 x m e))) \/
   ((exists n nx, top w t = Some (FF n (F7 x nx) (Some m))) /\ adoptions (nt (fst (step1 w t c)) m) = S (adoptions (nt w m)))).
Proof.
  unfold top, stk. leaves.
  all: nsimpl.
  all: try solve [intros H1 H2; exfalso; first [exact (H2 H1) | exact H1 | apply H2; eapply remove_nat_incl; exact H1]].
  all: intros H1 H2; apply in_app_or in H1; destruct H1 as [H1|[H1|[]]];
       try solve [exfalso; first [exact (H2 H1) | apply H2; eapply remove_nat_incl; exact H1]]; subst.
  all: cbn [hd_error].
  all: split.
  all: try solve [left; eauto].
  all: try solve [right; split; [eauto|reflexivity]].
  all: try solve [unfold nt in *; match goal with H : negb (?v =? 0) = false |- _ => destruct (Z.eqb_spec v 0); [assumption|discriminate H] end].
  all: repeat match goal with H : _ && _ = true |- _ => apply andb_prop in H; destruct H end.
  all: unfold notified_time, nt in *; match goal with H : tpos (if ?v =? 0 then _ else _) = true |- _ => destruct (Z.eqb_spec v 0); [assumption|discriminate H] end.
Qed.
