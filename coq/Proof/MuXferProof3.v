(* MuXferProof3: the spinlock / MU_WAITING invariant of MuProof2 (QB, all seven clauses) lifted to Model/MuXferModel.v.
   Since wake_waiters takes MU_WAITING back when it leaves the mutex queue empty (clear_on_release), the last clause
   "spinlock free and MU_WAITING set -> the queue is not empty" holds over the wrapper too. *)
From NsyncBase Require Import CSem.
From NsyncGen Require Import Consts Sites.
From NsyncModel Require Import MuModel MuSpec.
From NsyncProof Require Import WordView MuProof MuProof2.
From NsyncModel Require Import MuXferModel.
From NsyncProof Require Import MuXferProof MuXferProof2.
From Coq Require Import List ZArith Bool Lia PeanoNat Permutation.
Import ListNotations.
Local Open Scope Z_scope.

(* ================================================================== *)
(* Part 1: the bit part of MuProof2's queue invariant, the roles of the other threads being arbitrary *)
(* ================================================================== *)
(* b1 = MU_SPINLOCK, b2 = MU_WAITING of the word; k t = role of thread t (MuProof2.role) *)
Definition QC (b1 b2 : bool) (q : list nat) (k : nat -> role) : Prop :=
  (forall t, own (k t) = true -> b1 = true) /\
  (forall t1 t2, own (k t1) = true -> own (k t2) = true -> t1 = t2) /\
  (forall t cw, rel (k t) = Some cw -> (cw = true <-> q = [])) /\
  (forall t, lsr (k t) = true -> In t q) /\
  (q <> [] -> b2 = true) /\
  (forall t, enq (k t) = true -> b2 = true) /\
  (b1 = false -> b2 = true -> q <> []).

Ltac qc_split := split; [|split; [|split; [|split; [|split; [|split]]]]].

Lemma QC_ext b1 b2 q k k' : (forall t, k' t = k t) -> QC b1 b2 q k -> QC b1 b2 q k'.
Proof.
  intros E (B1 & B2 & C & El & Q5a & Q5b & Q6). qc_split.
  - intros t. rewrite E. apply B1.
  - intros t1 t2. rewrite !E. apply B2.
  - intros t cw. rewrite E. apply C.
  - intros t. rewrite E. apply El.
  - exact Q5a.
  - intros t. rewrite E. apply Q5b.
  - exact Q6.
Qed.

Lemma QC_same b1 b2 q k t r' : QC b1 b2 q k ->
  own r' = own (k t) -> enq r' = enq (k t) -> lsr r' = lsr (k t) -> rel r' = rel (k t) ->
  QC b1 b2 q (fupd k t r').
Proof.
  intros (B1 & B2 & C & El & Q5a & Q5b & Q6) E1 E2 E3 E4.
  assert (forall t', own (fupd k t r' t') = own (k t')) as F1
    by (intros t'; unfold fupd; destruct (Nat.eqb_spec t' t); congruence).
  assert (forall t', enq (fupd k t r' t') = enq (k t')) as F2
    by (intros t'; unfold fupd; destruct (Nat.eqb_spec t' t); congruence).
  assert (forall t', lsr (fupd k t r' t') = lsr (k t')) as F3
    by (intros t'; unfold fupd; destruct (Nat.eqb_spec t' t); congruence).
  assert (forall t', rel (fupd k t r' t') = rel (k t')) as F4
    by (intros t'; unfold fupd; destruct (Nat.eqb_spec t' t); congruence).
  qc_split.
  - intros t'. rewrite F1. apply B1.
  - intros t1 t2. rewrite !F1. apply B2.
  - intros t' cw. rewrite F4. apply C.
  - intros t'. rewrite F3. apply El.
  - exact Q5a.
  - intros t'. rewrite F2. apply Q5b.
  - exact Q6.
Qed.

Lemma QC_noowner b2 q k : QC false b2 q k -> forall t, own (k t) = false.
Proof. intros (B1 & _) t. destruct (own (k t)) eqn:E; [|reflexivity]. now apply B1 in E. Qed.

Lemma QC_unique b1 b2 q k t : QC b1 b2 q k -> own (k t) = true -> forall t', t' <> t -> own (k t') = false.
Proof.
  intros (_ & B2 & _) Ht t' N. destruct (own (k t')) eqn:E; [|reflexivity]. elim N. now apply B2.
Qed.

(* a thread takes the free spinlock and sets MU_WAITING; r' = its new role, an owner that is not yet on the queue *)
Lemma QC_take b2 q k t r' : QC false b2 q k -> own r' = true -> rel r' = None -> lsr r' = false ->
  QC true true q (fupd k t r').
Proof.
  intros H O R L. pose proof (QC_noowner _ _ _ H) as NO. destruct H as (B1 & B2 & C & El & Q5a & Q5b & Q6).
  assert (forall t', own (fupd k t r' t') = true -> t' = t) as U.
  { intros t'. unfold fupd. destruct (Nat.eqb_spec t' t); [auto|]. rewrite NO. discriminate. }
  qc_split.
  - reflexivity.
  - intros t1 t2 H1 H2. rewrite (U _ H1), (U _ H2). reflexivity.
  - intros t' cw H. pose proof (U _ (rel_own _ _ H)) as ->. rewrite fupd_same, R in H. discriminate H.
  - intros t' H. pose proof (U _ (lsr_own _ H)) as ->. rewrite fupd_same, L in H. discriminate H.
  - reflexivity.
  - reflexivity.
  - intros; discriminate.
Qed.

(* the spinlock owner (an enqueuer) changes the queue to a non-empty q' that contains it if its new role says so *)
Lemma QC_enqueue b1 b2 q q' k t r' : QC b1 b2 q k -> enq (k t) = true -> own r' = true -> rel r' = None ->
  (lsr r' = true -> In t q') -> QC b1 b2 q' (fupd k t r').
Proof.
  intros H Et O R L. assert (own (k t) = true) as Ot by (apply enq_own, Et).
  pose proof (QC_unique _ _ _ _ _ H Ot) as U. destruct H as (B1 & B2 & C & El & Q5a & Q5b & Q6).
  assert (b2 = true) as Hb2 by (apply (Q5b t Et)).
  assert (forall t', own (fupd k t r' t') = true -> t' = t) as U'.
  { intros t'. unfold fupd. destruct (Nat.eqb_spec t' t); [auto|]. rewrite U by assumption. discriminate. }
  qc_split.
  - intros t' _. exact (B1 t Ot).
  - intros t1 t2 H1 H2. rewrite (U' _ H1), (U' _ H2). reflexivity.
  - intros t' cw H. pose proof (U' _ (rel_own _ _ H)) as ->. rewrite fupd_same, R in H. discriminate H.
  - intros t' H. pose proof (U' _ (lsr_own _ H)) as ->. rewrite fupd_same in H. apply L, H.
  - intros _. exact Hb2.
  - intros t' _. exact Hb2.
  - intros Hb. rewrite (B1 t Ot) in Hb. discriminate Hb.
Qed.

(* the owner releases the spinlock; b2' is the new MU_WAITING bit *)
Lemma QC_release b1 b2 b2' q k t r' : QC b1 b2 q k -> own (k t) = true -> own r' = false ->
  (q <> [] -> b2' = true) -> (b2' = true -> q <> []) -> QC false b2' q (fupd k t r').
Proof.
  intros H Ot O Hb Hb6. pose proof (QC_unique _ _ _ _ _ H Ot) as U. destruct H as (B1 & B2 & C & El & Q5a & Q5b & Q6).
  assert (forall t', own (fupd k t r' t') = false) as U'.
  { intros t'. unfold fupd. destruct (Nat.eqb_spec t' t); [exact O | auto]. }
  qc_split.
  - intros t' H. rewrite U' in H. discriminate H.
  - intros t1 t2 H. rewrite U' in H. discriminate H.
  - intros t' cw H. apply rel_own in H. rewrite U' in H. discriminate H.
  - intros t' H. apply lsr_own in H. rewrite U' in H. discriminate H.
  - exact Hb.
  - intros t' H. apply enq_own in H. rewrite U' in H. discriminate H.
  - intros _. exact Hb6.
Qed.

(* a thread takes the free spinlock, sets MU_WAITING and leaves the queue keep (the releaser of nsync_mu_unlock_slow_
   after its scan; wake_waiters after its transfer) *)
Lemma QC_scan b2 q k t wk cw keep : QC false b2 q k -> (cw = true <-> keep = []) ->
  QC true true keep (fupd k t (Rrel wk cw)).
Proof.
  intros H Hcw. pose proof (QC_noowner _ _ _ H) as NO. destruct H as (B1 & B2 & C & El & Q5a & Q5b & Q6).
  assert (forall t', own (fupd k t (Rrel wk cw) t') = true -> t' = t) as U.
  { intros t'. unfold fupd. destruct (Nat.eqb_spec t' t); [auto|]. rewrite NO. discriminate. }
  qc_split.
  - reflexivity.
  - intros t1 t2 H1 H2. rewrite (U _ H1), (U _ H2). reflexivity.
  - intros t' cw' H. pose proof (U _ (rel_own _ _ H)) as ->. rewrite fupd_same in H.
    injection H as <-. exact Hcw.
  - intros t' H. pose proof (U _ (lsr_own _ H)) as ->. rewrite fupd_same in H. discriminate H.
  - reflexivity.
  - reflexivity.
  - intros; discriminate.
Qed.

Lemma QC_same_fp x x' q k t r' : QC (tb1 x) (tb2 x) q k -> FP x x' ->
  own r' = own (k t) -> enq r' = enq (k t) -> lsr r' = lsr (k t) -> rel r' = rel (k t) ->
  QC (tb1 x') (tb2 x') q (fupd k t r').
Proof. intros H [F1 F2] E1 E2 E3 E4. rewrite F1, F2. now apply QC_same. Qed.

(* ================================================================== *)
(* Part 2: one step of mu.c, the other threads' roles being arbitrary  *)
(* ================================================================== *)
(* thread-local facts remembered in the pc (MuProof2.pcA; "wake u <> []" holds again since wake_waiters takes MU_WAITING
   back over an empty queue: the releaser that took the spinlock saw MU_WAITING with the spinlock free, hence a waiter) *)
Definition pcA' (p : pc) : Prop :=
  match p with
  | LsCasEnq _ _ old => tb1 old = false
  | UsCasSpin _ old => tb1 old = false /\ tb2 old = true
  | UsRelLoad _ u | UsRelCas _ u _ =>
      wake u <> [] /\ tb1 (clear_on u) = true /\ tb1 (set_on u) = false /\ tb2 (set_on u) = false
  | _ => True
  end.

Definition qc_post (w' : world) (k : nat -> role) (t : nat) : Prop :=
  QC (tb1 (word w')) (tb2 (word w')) (queue w') (fupd k t (role_of (t_pc (get w' t)))) /\ pcA' (t_pc (get w' t)).

Section StepQC.
Variable n : nat.
Hypothesis Hn : Z.of_nat n < 16777215.

Lemma step_qc_core w t k : begin_op w t = w -> (t < length (thr w))%nat -> Inv n w ->
  QC (tb1 (word w)) (tb2 (word w)) (queue w) k -> k t = role_of (t_pc (get w t)) -> pcA' (t_pc (get w t)) ->
  qc_post (fst (step w t)) k t.
Proof.
  intros HB Ht H0 HQ Kt HA. unfold qc_post, step. rewrite HB. cbv zeta.
  pose proof H0 as (Hlen & _ & Hok). specialize (Hok t).
  pose proof (Inv_held n w t) as Hheld. specialize (fun m => Hheld m H0).
  destruct (get w t) as [p ops h sl lt] eqn:Hs.
  pose proof Hs as Hs'. unfold get in Hs'. rewrite Hs' in Hok.
  unfold pc_ok in Hok. cbn [t_pc t_ops held sleeps last_try] in *.
  Local Ltac c_same HQ Kt :=
    cbn [t_pc role_of pcA' word queue];
    split; [ eapply QC_same_fp; [exact HQ | try apply FP_refl | rewrite Kt; reflexivity | rewrite Kt; reflexivity
                                | rewrite Kt; reflexivity | rewrite Kt; reflexivity ]
           | try exact I ].
  destruct p.
  - (* Idle *) cbn [fst]. rewrite Hs. c_same HQ Kt.
  - (* LkFast *) cas_split w; normt Hs' Ht; c_same HQ Kt. rewrite Hcas. apply FP_fast_new.
  - (* LkLoad *) destruct (fast_guard2 m (word w)); cbn [fst]; normt Hs' Ht; c_same HQ Kt.
  - (* LkCas2 *) destruct Hok as [_ G]. cas_split w; normt Hs' Ht; c_same HQ Kt.
    subst old. apply FP_fast_new2, G.
  - (* TryFast *) cas_split w; normt Hs' Ht; c_same HQ Kt. rewrite Hcas. apply FP_try_new.
  - (* TryLoad *) destruct (try_guard2 m (word w)); cbn [fst]; normt Hs' Ht; c_same HQ Kt.
  - (* TryCas2 *) destruct Hok as [_ G]. cas_split w; normt Hs' Ht; c_same HQ Kt.
    subst old. apply FP_try_new2, G.
  - (* LsLoad *)
    destruct (nsync_mu_lock_slow_cas1_guard (word w) (zta l)) eqn:G1; cbn [fst].
    + normt Hs' Ht. c_same HQ Kt.
    + destruct (nsync_mu_lock_slow_cas2_guard (word w) (zta l)) eqn:G2; cbn [fst].
      * normt Hs' Ht. c_same HQ Kt. apply (lock_slow_cas2_guard_spin _ _ G2).
      * rewrite Hs. c_same HQ Kt.
  - (* LsCasAcq *) destruct Hok as (_ & Hl & G). cas_split w; normt Hs' Ht; c_same HQ Kt.
    subst old. apply FP_lock_slow_cas1; assumption.
  - (* LsCasEnq *) destruct Hok as (_ & Hl). cas_split w; normt Hs' Ht.
    + cbn [t_pc role_of pcA' word queue]. split; [|exact I].
      destruct (lock_slow_cas2_bits m l old Hl) as [B1 B2]. cbv zeta in B1, B2. rewrite B1, B2.
      apply (QC_take (tb2 (word w))); try reflexivity. rewrite Hcas, HA in HQ. rewrite Hcas. exact HQ.
    + c_same HQ Kt.
  - (* LsStoreWaiting *) cbn [fst]. normt Hs' Ht. cbn [t_pc role_of pcA' word queue]. split; [|exact I].
    apply (QC_enqueue _ _ (queue w)); [exact HQ | rewrite Kt; reflexivity | reflexivity | reflexivity |].
    intros _. destruct (wcount l =? 0); [apply in_or_app; right; now left | now left].
  - (* LsRelLoad *) cbn [fst]. normt Hs' Ht. c_same HQ Kt.
  - (* LsRelCas *) cas_split w; normt Hs' Ht.
    + cbn [t_pc role_of pcA' word queue]. split; [|exact I].
      destruct (release_spinlock_bits old) as [B1 B2]. rewrite B1, B2. subst old.
      apply (QC_release (tb1 (word w)) (tb2 (word w))); [exact HQ | rewrite Kt; reflexivity | reflexivity | |].
      * destruct HQ as (_ & _ & _ & _ & Q5 & _). exact Q5.
      * destruct HQ as (_ & _ & _ & El & _). intros _ E. specialize (El t). rewrite Kt, E in El. now apply El.
    + c_same HQ Kt.
  - (* LsWaitLoad *) destruct (waiting w t) eqn:Ew; cbn [fst]; normt Hs' Ht; c_same HQ Kt.
  - (* LsSemP *) destruct (0 <? sem w t); cbn [fst]; [normt Hs' Ht | rewrite Hs]; c_same HQ Kt.
  - (* UlFast *) subst h. specialize (Hheld m eq_refl). cas_split w; normt Hs' Ht; c_same HQ Kt.
    rewrite Hcas. apply FP_ufast.
  - (* UlLoad *)
    destruct (unlock_try_cas2 m (word w)); [| destruct (unlock_bad m (word w))]; cbn [fst];
      normt Hs' Ht; c_same HQ Kt.
  - (* UlCas2 *) subst h. specialize (Hheld m eq_refl). cas_split w; normt Hs' Ht; c_same HQ Kt.
    subst old. apply FP_unlock_new2, Hheld.
  - (* UsLoad *)
    destruct (has (word w) MU_CONDITION);
      [| destruct (nsync_mu_unlock_slow_cas1_guard (word w));
         [| destruct (nsync_mu_unlock_slow_cas2_guard (word w)) eqn:G2]]; cbn [fst];
      [normt Hs' Ht | normt Hs' Ht | normt Hs' Ht | rewrite Hs]; c_same HQ Kt.
    apply (unlock_slow_cas2_guard_bits _ G2).
  - (* UsCasRel *) subst h. specialize (Hheld m eq_refl). cas_split w; normt Hs' Ht; c_same HQ Kt.
    subst old. apply FP_unlock_slow_cas1, Hheld.
  - (* UsCasSpin *) subst h. specialize (Hheld m eq_refl). cas_split w.
    + destruct (us_after_scan _) as [u keep] eqn:E.
      apply us_after_scan_facts in E. cbn [queue set_word] in E.
      destruct E as (P & Nw & C1 & S1 & S2 & Cw). cbn [fst]. normt Hs' Ht.
      cbn [t_pc role_of pcA' word queue]. split.
      2:{ split; [|auto]. apply Nw. destruct HQ as (_ & _ & _ & _ & _ & _ & Q6). apply Q6; rewrite Hcas; apply HA. }
      subst old. destruct (unlock_slow_cas2_bits m (word w) Hheld) as [B1 B2]. cbv zeta in B1, B2.
      destruct HA as [A1 A2]. rewrite B1, B2, A2.
      apply (QC_scan true (queue w)); [|exact Cw]. rewrite A1, A2 in HQ. exact HQ.
    + normt Hs' Ht. c_same HQ Kt.
  - (* UsRelLoad *) cbn [fst]. normt Hs' Ht. c_same HQ Kt. exact HA.
  - (* UsRelCas *) destruct Hok as (_ & (Hlate & _)). cas_split w; normt Hs' Ht.
    + destruct HA as (Nw & C1 & S1 & S2).
      assert (role_of (match wake u with [] => Idle | _ :: _ => UsWakeStore m u end) = Rwake (wake u)) as Er
        by (destruct (wake u) eqn:Ew; cbn [role_of]; rewrite ?Ew; reflexivity).
      cbn [t_pc word queue]. rewrite Er. split; [|destruct (wake u); exact I].
      subst old. destruct (unlock_slow_cas3_bits u (word w) Hlate) as [B1 B2]. cbv zeta in B1, B2.
      rewrite B1, B2, C1, S1, S2, andb_false_r, !orb_false_r.
      apply (QC_release (tb1 (word w)) (tb2 (word w))); [exact HQ | rewrite Kt; reflexivity | reflexivity | |].
      * intros Nq. pose proof HQ as (_ & _ & C & _ & Q5 & _). rewrite (Q5 Nq).
        destruct (tb2 (clear_on u)) eqn:Ec; [|reflexivity]. exfalso. apply Nq.
        apply (C t true); [rewrite Kt; cbn [role_of rel]; rewrite Ec; reflexivity | reflexivity].
      * intros Hb E. pose proof HQ as (_ & _ & C & _). apply andb_prop in Hb. destruct Hb as [_ Hb].
        apply negb_true_iff in Hb. apply (C t (tb2 (clear_on u))) in E; [congruence | rewrite Kt; reflexivity].
    + c_same HQ Kt. exact HA.
  - (* UsWakeStore *) destruct (wake u) as [|p rest] eqn:Ew; cbn [fst]; normt Hs' Ht; c_same HQ Kt.
  - (* UsWakeV *) cbn [fst]. normt Hs' Ht.
    assert (role_of (match wake u with [] => Idle | _ :: _ => UsWakeStore m u end) = Rwake (wake u)) as Er
      by (destruct (wake u) eqn:Ew; cbn [role_of]; rewrite ?Ew; reflexivity).
    cbn [t_pc word queue]. rewrite Er.
    split; [eapply QC_same_fp; [exact HQ | apply FP_refl | rewrite Kt; reflexivity | rewrite Kt; reflexivity
                               | rewrite Kt; reflexivity | rewrite Kt; reflexivity] | destruct (wake u); exact I].
  - (* Crash *) cbn [fst]. rewrite Hs. c_same HQ Kt.
Qed.
End StepQC.

Lemma role_begin w t : role_of (t_pc (get (begin_op w t) t)) = role_of (t_pc (get w t)) /\
  (pcA' (t_pc (get w t)) -> pcA' (t_pc (get (begin_op w t) t))).
Proof.
  unfold begin_op. cbv zeta.
  destruct (t_pc (get w t)) eqn:E; try (rewrite E; split; [reflexivity | auto]).
  destruct (t_ops (get w t)) eqn:O; [rewrite E; split; [reflexivity | auto]|].
  destruct (Nat.lt_ge_cases t (length (thr w))) as [L|G].
  - rewrite get_set_t_same by exact L. cbn [t_pc].
    destruct o as [m|m|]; destruct (held (get w t)); split; first [reflexivity | intros _; exact I].
  - rewrite get_oob in O by exact G. discriminate O.
Qed.

Section StepQC2.
Variable n : nat.
Hypothesis Hn : Z.of_nat n < 16777215.

Lemma step_qc w t k : Inv n w ->
  QC (tb1 (word w)) (tb2 (word w)) (queue w) k -> k t = role_of (t_pc (get w t)) -> pcA' (t_pc (get w t)) ->
  qc_post (fst (step w t)) k t.
Proof.
  intros H0 HQ Kt HA. destruct (Nat.lt_ge_cases t (length (thr w))) as [L|G].
  - rewrite step_begin. destruct (role_begin w t) as [Er Ea].
    apply (step_qc_core n); [apply begin_op_idem | rewrite begin_op_length; exact L | apply begin_op_inv, H0
                            | rewrite begin_op_word, begin_op_queue; exact HQ | rewrite Er; exact Kt | apply Ea, HA].
  - assert (step w t = (w, EvNone)) as ->.
    { unfold step, begin_op. cbv zeta. rewrite (get_oob _ _ G). cbn [t_pc t_ops dflt_t]. rewrite (get_oob _ _ G). reflexivity. }
    cbn [fst]. split; [|exact HA]. apply (QC_ext _ _ _ k); [|exact HQ].
    intros t'. unfold fupd. destruct (Nat.eqb_spec t' t) as [->|]; [symmetry; exact Kt | reflexivity].
Qed.
End StepQC2.

(* ================================================================== *)
(* Part 3: the invariant over the wrapper                              *)
(* ================================================================== *)
(* role of a thread: a thread inside wake_waiters between its acquiring CAS and its releasing CAS owns the mutex
   spinlock like a releaser of nsync_mu_unlock_slow_ after its scan (with an empty wake list): its release clears
   MU_WAITING exactly when it leaves the queue empty *)
Definition xkr (xp : xpc) (p : pc) : role :=
  match xp with XvLoad3 k | XvCas2 k _ | XvLoad5 k => Rrel [] (tb2 (k_clr k)) | _ => role_of p end.
Definition xk (xw : xworld) (t : nat) : role := xkr (x_pc (xget xw t)) (t_pc (get (mw xw) t)).
Definition xpcA (xp : xpc) : Prop :=
  match xp with
  | XvCas1 _ old => tb1 old = false
  | XvLoad3 k | XvCas2 k _ | XvLoad5 k =>
      (k_set k = 0 \/ k_set k = MU_WRITER_WAITING) /\
      (k_clr k = MU_SPINLOCK \/ k_clr k = bor MU_SPINLOCK MU_WAITING) /\
      (k_set k = MU_WRITER_WAITING -> k_clr k = MU_SPINLOCK)
  | _ => True
  end.
Definition SInv (xw : xworld) : Prop :=
  QC (tb1 (word (mw xw))) (tb2 (word (mw xw))) (queue (mw xw)) (xk xw) /\
  (forall t, pcA' (t_pc (get (mw xw) t))) /\ (forall t, xpcA (x_pc (xget xw t))).

Lemma SInv_intro xw m' q' f' t xs' : SInv xw -> (t < length (xthr xw))%nat ->
  (forall t', t' <> t -> get m' t' = get (mw xw) t') ->
  QC (tb1 (word m')) (tb2 (word m')) (queue m') (fupd (xk xw) t (xkr (x_pc xs') (t_pc (get m' t)))) ->
  pcA' (t_pc (get m' t)) -> xpcA (x_pc xs') ->
  SInv (mk_xw m' q' f' (lupd (xthr xw) t xs')).
Proof.
  intros (HQ & HA & HX) Ht HF HQ' HA' HX'. split; [|split]; cbn [mw].
  - apply (QC_ext _ _ _ _ _ (fun t' => eq_refl) ) in HQ'. eapply QC_ext; [|exact HQ'].
    intros t'. unfold xk, fupd; cbn [mw]. destruct (Nat.eqb_spec t' t) as [->|N].
    + now rewrite xget_lupd_same.
    + rewrite xget_lupd_other by exact N. rewrite (HF _ N). reflexivity.
  - intros t'. destruct (Nat.eq_dec t' t) as [->|N]; [exact HA' | rewrite (HF _ N); apply HA].
  - intros t'. destruct (Nat.eq_dec t' t) as [->|N]; [now rewrite xget_lupd_same | rewrite xget_lupd_other by exact N; apply HX].
Qed.

(* the word keeps its two bits, the queue is unchanged, the role of t keeps its four attributes *)
Lemma SInv_same xw m' q' f' t xs' : SInv xw -> (t < length (xthr xw))%nat ->
  (forall t', t' <> t -> get m' t' = get (mw xw) t') ->
  FP (word (mw xw)) (word m') -> queue m' = queue (mw xw) ->
  xkr (x_pc xs') (t_pc (get m' t)) = xk xw t ->
  pcA' (t_pc (get m' t)) -> xpcA (x_pc xs') ->
  SInv (mk_xw m' q' f' (lupd (xthr xw) t xs')).
Proof.
  intros H0 Ht HF HP Hq Hr HA' HX'. apply SInv_intro; auto.
  rewrite Hq, Hr. destruct H0 as (HQ & _). eapply QC_same_fp; [exact HQ | exact HP | | | |]; reflexivity.
Qed.

(* a step of mu.c by thread t (wrapper pc outside wake_waiters' critical section) *)
Lemma SInv_mu n (Hn : Z.of_nat n < 16777215) xw t xs' : SInv xw -> Inv n (mw xw) -> (t < length (xthr xw))%nat ->
  xkr (x_pc (xget xw t)) = role_of -> xkr (x_pc xs') = role_of -> xpcA (x_pc xs') ->
  SInv (mk_xw (fst (step (mw xw) t)) (cvq xw) (xferred xw) (lupd (xthr xw) t xs')).
Proof.
  intros H0 HI Ht K0 K1 HX'. pose proof H0 as (HQ & HA & _).
  destruct (step_qc n (mw xw) t (xk xw) HI HQ) as [HQ' HA'].
  - unfold xk. now rewrite K0.
  - apply HA.
  - apply SInv_intro; auto; [intros t' N; now apply step_frame | now rewrite K1].
Qed.
Lemma SInv_mu0 n (Hn : Z.of_nat n < 16777215) xw t : SInv xw -> Inv n (mw xw) ->
  xkr (x_pc (xget xw t)) = role_of ->
  SInv (mk_xw (fst (step (mw xw) t)) (cvq xw) (xferred xw) (xthr xw)).
Proof.
  intros H0 HI K0. pose proof H0 as (HQ & HA & HX).
  destruct (step_qc n (mw xw) t (xk xw) HI HQ) as [HQ' HA'].
  - unfold xk. now rewrite K0.
  - apply HA.
  - split; [|split]; cbn [mw].
    + eapply QC_ext; [|exact HQ']. intros t'. unfold xk, fupd; cbn [mw]. unfold xget; cbn [xthr]. fold (xget xw t').
      destruct (Nat.eqb_spec t' t) as [->|N]; [now rewrite K0 | now rewrite step_frame].
    + intros t'. destruct (Nat.eq_dec t' t) as [->|N]; [exact HA' | rewrite step_frame by exact N; apply HA].
    + exact HX.
Qed.

Lemma wake_cas1_bits old : tb1 (wake_waiters_cas1_new old) = true /\ tb2 (wake_waiters_cas1_new old) = true.
Proof.
  rewrite wake_cas1_new_eq. tbs.
  change (Z.testbit 128 1) with false. change (Z.testbit 128 2) with false.
  change (Z.testbit 2 1) with true. change (Z.testbit 4 2) with true. change (Z.testbit 4 1) with false.
  rewrite !orb_true_r. split; reflexivity.
Qed.

Lemma wake_cas2_bits old s c : s = 0 \/ s = MU_WRITER_WAITING -> c = MU_SPINLOCK \/ c = bor MU_SPINLOCK MU_WAITING ->
  tb1 (wake_waiters_cas2_new old s c) = false /\ tb2 (wake_waiters_cas2_new old s c) = tb2 old && negb (tb2 c).
Proof.
  intros Hs Hc. rewrite wake_cas2_new_eq. tbs.
  assert (Z.testbit c 1 = true) as C1 by (destruct Hc as [-> | ->]; reflexivity).
  assert (Z.testbit s 2 = false) as S2 by (destruct Hs as [-> | ->]; reflexivity).
  rewrite C1, S2, orb_false_r. split; [apply andb_false_r | reflexivity].
Qed.

(* set_on_release = MU_WRITER_WAITING only if a writer was transferred *)
Lemma xfer_rest_taw nn ty fca fw q : forall a b,
  snd (fst (xfer_rest nn ty fca fw q a b)) = true -> a = true \/ fst (fst (fst (xfer_rest nn ty fca fw q a b))) <> [].
Proof.
  induction q as [|p rest IH]; intros a b; cbn [xfer_rest]; [cbn [fst snd]; auto|].
  destruct (nn p); [|destruct (fca || fw || mode_eqb (ty p) W)].
  - specialize (IH a b).
    destruct (xfer_rest nn ty fca fw rest a b) as [[[m s] a'] b']. cbn [fst snd] in *. exact IH.
  - specialize (IH (a || mode_eqb (ty p) W) b).
    destruct (xfer_rest nn ty fca fw rest (a || mode_eqb (ty p) W) b) as [[[m s] a'] b']. cbn [fst snd] in *.
    intros _. right. discriminate.
  - specialize (IH a (b || negb (mode_eqb (ty p) W))).
    destruct (xfer_rest nn ty fca fw rest a (b || negb (mode_eqb (ty p) W))) as [[[m s] a'] b']. cbn [fst snd] in *. exact IH.
Qed.

Lemma xfer_ww_moved nn ty fca wk : snd (xfer nn ty fca wk) = MU_WRITER_WAITING -> fst (fst (xfer nn ty fca wk)) <> [].
Proof.
  unfold xfer. destruct wk as [|f rest]; [cbn [snd]; discriminate|].
  pose proof (xfer_rest_taw nn ty fca (mode_eqb (ty f) W) rest (if fca then mode_eqb (ty f) W else false)
                (if fca then false else negb (mode_eqb (ty f) W))) as IH.
  destruct (xfer_rest nn ty fca (mode_eqb (ty f) W) rest (if fca then mode_eqb (ty f) W else false)
              (if fca then false else negb (mode_eqb (ty f) W))) as [[[m s] a] b].
  cbn [fst snd] in *. destruct a; [|cbn [andb]; intros X; discriminate X].
  intros _. destruct (IH eq_refl) as [E | E]; destruct fca; try discriminate; exact E.
Qed.

Lemma xfer_set_cases nn ty fca wk : snd (xfer nn ty fca wk) = 0 \/ snd (xfer nn ty fca wk) = MU_WRITER_WAITING.
Proof.
  unfold xfer. destruct wk as [|f rest]; [left; reflexivity|].
  destruct (xfer_rest nn ty fca (mode_eqb (ty f) W) rest (if fca then mode_eqb (ty f) W else false)
              (if fca then false else negb (mode_eqb (ty f) W))) as [[[m s] a] b].
  cbn [snd]. destruct (a && negb b); auto.
Qed.

Lemma xkr_push_op w t o : t_pc (get (push_op w t o) t) = t_pc (get w t).
Proof.
  unfold push_op. destruct (Nat.lt_ge_cases t (length (thr w))) as [L|G].
  - now rewrite get_set_t_same.
  - unfold get, set_t; cbn [thr]. rewrite !nth_overflow; [reflexivity | exact G | now rewrite length_lupd].
Qed.

Lemma xbegin_sinv xw t : SInv xw -> SInv (xbegin xw t).
Proof.
  intros H0. unfold xbegin. cbv zeta.
  destruct (xget xw t) as [xp xo xr] eqn:Hx. cbn [x_pc x_ops x_rets].
  destruct xp; try exact H0. destruct xo as [|o rest]; try exact H0.
  destruct (mu_idle (mw xw) t) eqn:MI; try exact H0.
  assert (t < length (xthr xw))%nat as Ht by (apply xget_inb; rewrite Hx; discriminate).
  pose proof H0 as (_ & HA & _). pose proof Hx as Hx'. unfold xget in Hx.
  destruct o as [o'|m| | |[m|]|m]; xn Hx; rewrite ?nth_lupd_same by exact Ht; cbn [x_pc x_ops x_rets];
    (apply SInv_same; [exact H0 | exact Ht | | apply FP_refl | reflexivity | | | ]).
  all: try (intros t' N; first [reflexivity | unfold push_op; now apply get_set_t_other]).
  all: unfold xk; rewrite ?Hx'; cbn [x_pc xkr]; rewrite ?xkr_push_op; try reflexivity; try apply HA; try exact I.
  all: destruct (held (get (mw xw) t)) as [m'|]; [destruct (mode_eqb m m')|]; cbn [xkr xpcA]; first [reflexivity | exact I].
Qed.

Section SpinInvariant.
Variable n : nat.
Hypothesis Hn : Z.of_nat n < 16777215.

Ltac sframe := let t' := fresh "t'" in let N := fresh "N" in
  intros t' N; first [ reflexivity | now apply get_set_pc_other | now rewrite get_set_pc_other ].
(* wrapper-only step: the mutex word and queue are untouched, the MuModel pc of t is unchanged *)
Ltac ssame H1 Ht Hx' HA :=
  apply SInv_same; [exact H1 | exact Ht | sframe | apply FP_refl | reflexivity
                   | unfold xk; rewrite Hx'; cbn [x_pc xkr]; try reflexivity
                   | try apply HA | cbn [x_pc xpcA]; try exact I ].

Lemma xstep_thr_sinv xw0 t c : XInv n xw0 -> SInv xw0 -> SInv (fst (xstep_thr xw0 t c)).
Proof.
  intros HI0 H0. pose proof (xbegin_sinv _ t H0) as H1. apply (xbegin_inv n Hn _ t) in HI0. clear H0.
  unfold xstep_thr. set (xw := xbegin xw0 t) in *. clearbody xw. clear xw0. cbv zeta.
  pose proof HI0 as (HI & HL & HT). destruct (HT t) as [Hp _].
  pose proof H1 as (HQ & HA & HX). pose proof (HX t) as HXt.
  destruct (xget xw t) as [xp xo xr] eqn:Hx. cbn [x_pc x_ops x_rets] in *.
  assert (xp <> XIdle -> (t < length (xthr xw))%nat) as HtN.
  { intros NE. apply xget_inb. rewrite Hx. intros E. inversion E. contradiction. }
  assert (Hlen : length (thr (mw xw)) = length (xthr xw)) by (rewrite HL; apply HI).
  pose proof Hx as Hx'. unfold xget in Hx.
  destruct xp.
  - (* XIdle *) unfold mu_step. destruct (step (mw xw) t) as [m' e] eqn:E. cbn [fst]. xnorm.
    assert (m' = fst (step (mw xw) t)) as -> by now rewrite E.
    apply (SInv_mu0 n Hn); [exact H1 | exact HI | rewrite Hx'; reflexivity].
  - exact H1.
  - (* XwStore *) assert (t < length (xthr xw))%nat as Ht by (apply HtN; discriminate). cbn [fst]. xn Hx.
    ssame H1 Ht Hx' HA.
  - (* XwLoadMu *) assert (t < length (xthr xw))%nat as Ht by (apply HtN; discriminate).
    destruct (has (word (mw xw)) MU_WHELD_IF_NON_ZERO), (has (word (mw xw)) MU_RHELD_IF_NON_ZERO); cbn [fst]; xn Hx;
      ssame H1 Ht Hx' HA.
  - (* XwEnq *) assert (t < length (xthr xw))%nat as Ht by (apply HtN; discriminate). destruct Hp as (PI & _).
    cbn [fst]. xn Hx. ssame H1 Ht Hx' HA.
    + rewrite get_set_pc_same by (rewrite Hlen; exact Ht). cbn [t_pc]. rewrite PI. reflexivity.
    + rewrite get_set_pc_same by (rewrite Hlen; exact Ht). exact I.
  - (* XwUnlock *) assert (t < length (xthr xw))%nat as Ht by (apply HtN; discriminate).
    unfold mu_step. destruct (step (mw xw) t) as [m' e] eqn:E. xnorm.
    assert (m' = fst (step (mw xw) t)) as Em by now rewrite E.
    cbn [mw]. destruct (mu_pc_idle m' t); cbn [fst]; xn Hx; rewrite Em.
    + apply (SInv_mu n Hn); [exact H1 | exact HI | exact Ht | rewrite Hx'; reflexivity | reflexivity | exact I].
    + apply (SInv_mu0 n Hn); [exact H1 | exact HI | rewrite Hx'; reflexivity].
  - (* XwLoop *) assert (t < length (xthr xw))%nat as Ht by (apply HtN; discriminate). destruct Hp as (PI & _).
    destruct (waiting (mw xw) t); cbn [fst]; xn Hx.
    + destruct (w_so l); ssame H1 Ht Hx' HA.
    + ssame H1 Ht Hx' HA.
      * rewrite get_set_pc_same by (cbn [thr set_wtype]; rewrite Hlen; exact Ht). cbn [t_pc].
        change (get (mw xw) t) with (get (mw xw) t). rewrite PI. destruct (xferred xw t); reflexivity.
      * rewrite get_set_pc_same by (cbn [thr set_wtype]; rewrite Hlen; exact Ht). cbn [t_pc].
        destruct (xferred xw t); exact I.
  - (* XwSem *) assert (t < length (xthr xw))%nat as Ht by (apply HtN; discriminate).
    destruct c; [destruct (0 <? sem (mw xw) t)|]; cbn [fst]; try exact H1; xn Hx; ssame H1 Ht Hx' HA.
  - (* XwLoad6 *) assert (t < length (xthr xw))%nat as Ht by (apply HtN; discriminate).
    destruct (waiting (mw xw) t); cbn [fst]; xn Hx; ssame H1 Ht Hx' HA.
  - (* XwConfirm *) assert (t < length (xthr xw))%nat as Ht by (apply HtN; discriminate).
    destruct (mem_id t (cvq xw)); cbn [fst]; xn Hx; ssame H1 Ht Hx' HA.
  - (* XwLoad13 *) assert (t < length (xthr xw))%nat as Ht by (apply HtN; discriminate).
    cbn [fst]; xn Hx; ssame H1 Ht Hx' HA.
  - (* XwReacq *) assert (t < length (xthr xw))%nat as Ht by (apply HtN; discriminate).
    unfold mu_step. destruct (step (mw xw) t) as [m' e] eqn:E. xnorm.
    assert (m' = fst (step (mw xw) t)) as Em by now rewrite E.
    cbn [mw]. destruct (mu_pc_idle m' t); cbn [fst]; xn Hx.
    + rewrite nth_lupd_same by exact Ht. cbn [x_ops x_rets]. rewrite Em.
      apply (SInv_mu n Hn); [exact H1 | exact HI | exact Ht | rewrite Hx'; reflexivity | reflexivity | exact I].
    + rewrite Em. apply (SInv_mu0 n Hn); [exact H1 | exact HI | rewrite Hx'; reflexivity].
  - (* XkLoad *) assert (t < length (xthr xw))%nat as Ht by (apply HtN; discriminate).
    destruct c; [|destruct (cvq xw)]; cbn [fst]; try exact H1; xn Hx; ssame H1 Ht Hx' HA.
  - (* XkSelect *) assert (t < length (xthr xw))%nat as Ht by (apply HtN; discriminate).
    destruct (if bc then sel_broadcast (xrd xw) (cvq xw) else sel_signal (xrd xw) (cvq xw)) as [[wk kp] allr].
    destruct wk as [|f wk']; [|destruct (nrec xw f)]; cbn [fst]; xn Hx; ssame H1 Ht Hx' HA.
  - (* XvLoad1 *) assert (t < length (xthr xw))%nat as Ht by (apply HtN; discriminate).
    destruct (xfer_wanted (wtype (mw xw)) (word (mw xw)) k) eqn:XW; cbn [fst]; xn Hx;
      [|unfold wake_loop; destruct (k_wake k)]; ssame H1 Ht Hx' HA.
    unfold xfer_wanted in XW. apply andb_prop in XW. destruct XW as [XW _]. apply andb_prop in XW. destruct XW as [_ XW].
    rewrite has_spin in XW. unfold tb1. destruct (Z.testbit (word (mw xw)) 1); [discriminate XW | reflexivity].
  - (* XvCas1 *) assert (t < length (xthr xw))%nat as Ht by (apply HtN; discriminate).
    unfold cas. destruct (wake_cas_old_eq old) as [-> _].
    destruct (Z.eqb_spec (word (mw xw)) old) as [Hc|Hc]; cbv beta iota.
    + pose proof (xfer_set_cases (nrec xw) (wtype (mw xw)) (first_cant_acquire (wtype (mw xw)) old (k_wake k)) (k_wake k)) as Hs.
      pose proof (xfer_ww_moved (nrec xw) (wtype (mw xw)) (first_cant_acquire (wtype (mw xw)) old (k_wake k)) (k_wake k)) as Hm.
      destruct (xfer (nrec xw) (wtype (mw xw)) (first_cant_acquire (wtype (mw xw)) old (k_wake k)) (k_wake k)) as [[moved stay] set_on].
      cbn [fst snd] in Hs, Hm. cbn [fst]. xn Hx.
      apply SInv_intro; [exact H1 | exact Ht | sframe | | apply HA |].
      * cbn [x_pc xkr word queue set_queue set_word k_clr]. destruct (wake_cas1_bits old) as [B1 B2]. rewrite B1, B2.
        assert (QC false (tb2 (word (mw xw))) (queue (mw xw)) (xk xw)) as HQ0.
        { cbn [xpcA] in HXt. rewrite <- HXt, <- Hc. exact HQ. }
        apply (QC_scan (tb2 (word (mw xw))) (queue (mw xw))); [exact HQ0|].
        destruct (queue (mw xw) ++ moved); split; intros X; first [reflexivity | discriminate X].
      * cbn [x_pc xpcA k_set k_clr queue set_word]. split; [exact Hs|]. split.
        -- destruct (queue (mw xw) ++ moved); auto.
        -- intros E. destruct (queue (mw xw) ++ moved) eqn:Eq; [|reflexivity].
           apply app_eq_nil in Eq. destruct Eq as [_ Eq]. elim (Hm E). exact Eq.
    + cbn [fst]. xn Hx. unfold wake_loop; destruct (k_wake k); ssame H1 Ht Hx' HA.
  - (* XvLoad3 *) assert (t < length (xthr xw))%nat as Ht by (apply HtN; discriminate).
    cbn [fst]; xn Hx; ssame H1 Ht Hx' HA. exact HXt.
  - (* XvCas2 *) assert (t < length (xthr xw))%nat as Ht by (apply HtN; discriminate). destruct Hp as [PI _].
    unfold cas. destruct (wake_cas_old_eq old) as [_ ->].
    destruct (Z.eqb_spec (word (mw xw)) old) as [Hc|Hc]; cbv beta iota; cbn [fst]; xn Hx.
    + cbn [xpcA] in HXt. destruct HXt as (Hs & Hcl & _). destruct (wake_cas2_bits old (k_set k) (k_clr k) Hs Hcl) as [B1 B2].
      apply SInv_intro; [exact H1 | exact Ht | sframe | | apply HA | unfold wake_loop; destruct (k_wake k); exact I].
      cbn [word queue set_word]. rewrite B1, B2.
      assert (xkr (x_pc {| x_pc := wake_loop k; x_ops := xo; x_rets := xr |}) (t_pc (get (set_word (mw xw) (wake_waiters_cas2_new old (k_set k) (k_clr k))) t)) = Rwake []) as ->.
      { change (get (set_word (mw xw) (wake_waiters_cas2_new old (k_set k) (k_clr k))) t) with (get (mw xw) t). rewrite PI.
        unfold wake_loop. destruct (k_wake k); reflexivity. }
      assert (xk xw t = Rrel [] (tb2 (k_clr k))) as Kt by (unfold xk; rewrite Hx'; reflexivity).
      pose proof HQ as (_ & _ & C & _ & Q5 & _). specialize (C t (tb2 (k_clr k)) ltac:(rewrite Kt; reflexivity)).
      subst old. apply (QC_release (tb1 (word (mw xw))) (tb2 (word (mw xw)))); [exact HQ | | reflexivity | |].
      * rewrite Kt. reflexivity.
      * intros Nq. rewrite (Q5 Nq). destruct (tb2 (k_clr k)); [exfalso; apply Nq, C; reflexivity | reflexivity].
      * intros Hb E. apply andb_prop in Hb. destruct Hb as [_ Hb]. apply negb_true_iff in Hb. apply C in E. congruence.
    + ssame H1 Ht Hx' HA. exact HXt.
  - (* XvLoad5 *) assert (t < length (xthr xw))%nat as Ht by (apply HtN; discriminate).
    cbn [fst]; xn Hx; ssame H1 Ht Hx' HA. exact HXt.
  - (* XvStore *) assert (t < length (xthr xw))%nat as Ht by (apply HtN; discriminate).
    destruct (k_wake k) as [|p rest]; cbn [fst]; xn Hx; ssame H1 Ht Hx' HA.
  - (* XvV *) assert (t < length (xthr xw))%nat as Ht by (apply HtN; discriminate).
    cbn [fst]; xn Hx; unfold wake_loop; destruct (k_wake k); ssame H1 Ht Hx' HA.
  - (* XnStore0 *) assert (t < length (xthr xw))%nat as Ht by (apply HtN; discriminate). cbn [fst]. xn Hx.
    ssame H1 Ht Hx' HA.
  - (* XnEnq *) assert (t < length (xthr xw))%nat as Ht by (apply HtN; discriminate). destruct Hp as (PI & _).
    destruct om as [m|]; cbn [fst]; xn Hx; ssame H1 Ht Hx' HA.
    + rewrite get_set_pc_same by (cbn [thr set_waiting]; rewrite Hlen; exact Ht). cbn [t_pc].
      change (get (set_waiting (mw xw) t (negb (cv_enqueue_store1_new =? 0))) t) with (get (mw xw) t). rewrite PI. reflexivity.
    + rewrite get_set_pc_same by (cbn [thr set_waiting]; rewrite Hlen; exact Ht). exact I.
  - (* XnUnlock *) assert (t < length (xthr xw))%nat as Ht by (apply HtN; discriminate).
    unfold mu_step. destruct (step (mw xw) t) as [m' e] eqn:E. xnorm.
    assert (m' = fst (step (mw xw) t)) as Em by now rewrite E.
    cbn [mw]. destruct (mu_pc_idle m' t); cbn [fst]; xn Hx; rewrite Em.
    + apply (SInv_mu n Hn); [exact H1 | exact HI | exact Ht | rewrite Hx'; reflexivity | reflexivity | exact I].
    + apply (SInv_mu0 n Hn); [exact H1 | exact HI | rewrite Hx'; reflexivity].
  - (* XnReady *) assert (t < length (xthr xw))%nat as Ht by (apply HtN; discriminate).
    destruct (cv_ready_time_load1_guard (b2z (waiting (mw xw) t))); cbn [fst]; xn Hx; ssame H1 Ht Hx' HA.
  - (* XnSem *) assert (t < length (xthr xw))%nat as Ht by (apply HtN; discriminate).
    destruct c; [destruct (0 <? sem (mw xw) t)|]; cbn [fst]; try exact H1; xn Hx; ssame H1 Ht Hx' HA.
  - (* XnDeq *) assert (t < length (xthr xw))%nat as Ht by (apply HtN; discriminate). destruct Hp as (PI & _).
    destruct (waiting (mw xw) t && cv_dequeue_store1_guard (b2z (mem_id t (cvq xw)))); [destruct om as [m|]|]; cbn [fst]; xn Hx;
      ssame H1 Ht Hx' HA.
    + rewrite get_set_pc_same by (cbn [thr set_waiting]; rewrite Hlen; exact Ht). cbn [t_pc].
      change (get (set_waiting (mw xw) t (negb (cv_dequeue_store1_new =? 0))) t) with (get (mw xw) t). rewrite PI. reflexivity.
    + rewrite get_set_pc_same by (cbn [thr set_waiting]; rewrite Hlen; exact Ht). exact I.
  - (* XnSpin *) assert (t < length (xthr xw))%nat as Ht by (apply HtN; discriminate). destruct Hp as (PI & _).
    destruct (waiting (mw xw) t); [|destruct om as [m|]]; cbn [fst]; try exact H1; xn Hx; ssame H1 Ht Hx' HA.
    + rewrite get_set_pc_same by (rewrite Hlen; exact Ht). cbn [t_pc]. rewrite PI. reflexivity.
    + rewrite get_set_pc_same by (rewrite Hlen; exact Ht). exact I.
  - (* XnReacq *) assert (t < length (xthr xw))%nat as Ht by (apply HtN; discriminate).
    unfold mu_step. destruct (step (mw xw) t) as [m' e] eqn:E. xnorm.
    assert (m' = fst (step (mw xw) t)) as Em by now rewrite E.
    cbn [mw]. destruct (mu_pc_idle m' t); cbn [fst]; xn Hx.
    + rewrite nth_lupd_same by exact Ht. cbn [x_ops x_rets]. rewrite Em.
      apply (SInv_mu n Hn); [exact H1 | exact HI | exact Ht | rewrite Hx'; reflexivity | reflexivity | exact I].
    + rewrite Em. apply (SInv_mu0 n Hn); [exact H1 | exact HI | rewrite Hx'; reflexivity].
  - (* XgStore *) assert (t < length (xthr xw))%nat as Ht by (apply HtN; discriminate). cbn [fst]. xn Hx.
    ssame H1 Ht Hx' HA.
Qed.
End SpinInvariant.

Section SpinRun.
Variable n : nat.
Hypothesis Hn : Z.of_nat n < 16777215.

Lemma xstep_sinv xw a : XInv n xw -> SInv xw -> SInv (fst (xstep xw a)).
Proof.
  destruct a as [t c|p]; [apply xstep_thr_sinv; exact Hn|]. intros _ H0. exact H0.
Qed.

Lemma xrun_sinv sched : forall xw, XInv n xw -> SInv xw -> XInv n (xrun xw sched) /\ SInv (xrun xw sched).
Proof.
  unfold xrun. induction sched as [|a rest IH]; intros xw H HS; cbn [fold_left]; [split; assumption|].
  apply IH; [apply xstep_inv; assumption | apply xstep_sinv; assumption].
Qed.
End SpinRun.

Lemma xinit_sinv progs : SInv (xinit progs).
Proof.
  assert (forall t, x_pc (xget (xinit progs) t) = XIdle) as PX.
  { intros t. unfold xget, xinit; cbn [xthr]. change dflt_xt with ((fun p => mk_xt XIdle p []) []). now rewrite map_nth. }
  assert (forall t, t_pc (get (mw (xinit progs)) t) = Idle) as PM.
  { intros t. unfold get, xinit, init; cbn [mw thr]. rewrite map_map.
    change dflt_t with ((fun _ : list xop => mk_t Idle [] None 0 None) []). now rewrite map_nth. }
  split; [|split].
  - assert (forall t, xk (xinit progs) t = Rwake []) as K by (intros t; unfold xk; rewrite PX, PM; reflexivity).
    qc_split; try (intros t; rewrite K; discriminate);
      try (intros t1 t2; rewrite K; discriminate); try (intros t cw; rewrite K; discriminate).
    + intros H. now elim H.
    + intros _ E. discriminate E.
  - intros t. rewrite PM. exact I.
  - intros t. rewrite PX. exact I.
Qed.

Lemma xreachable_sinv progs sched :
  Z.of_nat (length progs) < 2 ^ 24 - 1 -> SInv (xrun (xinit progs) sched).
Proof. intros H. apply (xrun_sinv (length progs) H); [apply xinit_inv | apply xinit_sinv]. Qed.

(* the thread owns the spinlock of the mutex: inside nsync_mu_lock_slow_ between its enqueuing CAS and the release,
   inside nsync_mu_unlock_slow_ between its spinlock CAS and the release, or inside wake_waiters between its acquiring
   CAS and its releasing CAS *)
Definition spin_owner (xw : xworld) (t : nat) : bool := own (xk xw t).

Lemma spinlock_exclusive : forall progs sched t1 t2,
  Z.of_nat (length progs) < 2 ^ 24 - 1 ->
  let xw := xrun (xinit progs) sched in
  spin_owner xw t1 = true -> spin_owner xw t2 = true ->
  t1 = t2 /\ has (word (mw xw)) MU_SPINLOCK = true.
Proof.
  intros progs sched t1 t2 H xw O1 O2. destruct (xreachable_sinv progs sched H) as ((B1 & B2 & _) & _). fold xw in B1, B2.
  split; [apply B2; assumption|]. rewrite has_spin. apply (B1 t1 O1).
Qed.

Lemma queue_sets_waiting : forall progs sched,
  Z.of_nat (length progs) < 2 ^ 24 - 1 ->
  let xw := xrun (xinit progs) sched in
  queue (mw xw) <> [] -> has (word (mw xw)) MU_WAITING = true.
Proof.
  intros progs sched H xw Nq. destruct (xreachable_sinv progs sched H) as ((_ & _ & _ & _ & Q5 & _) & _). fold xw in Q5.
  rewrite has_waiting. apply Q5, Nq.
Qed.

(* ... and conversely (MuProof2's last QB clause, true of the wrapper since wake_waiters takes MU_WAITING back when it
   transferred nobody onto an empty queue): with the spinlock free, MU_WAITING is set only over a non-empty queue *)
Lemma waiting_only_if_queued : forall progs sched,
  Z.of_nat (length progs) < 2 ^ 24 - 1 ->
  let xw := xrun (xinit progs) sched in
  has (word (mw xw)) MU_SPINLOCK = false -> has (word (mw xw)) MU_WAITING = true -> queue (mw xw) <> [].
Proof.
  intros progs sched H xw S W. destruct (xreachable_sinv progs sched H) as ((_ & _ & _ & _ & _ & _ & Q6) & _). fold xw in Q6.
  rewrite has_spin in S. rewrite has_waiting in W. apply Q6; assumption.
Qed.

(* a transferred waiter asleep in a quiescent world, its flag still set, is on the mutex queue, MU_WAITING is set, and
   therefore no holder's nsync_mu_unlock / runlock can succeed with its first (uncontended) CAS *)
Lemma no_lost_transfer_partial2 : forall progs sched l p,
  Z.of_nat (length progs) < 2 ^ 24 - 1 ->
  let xw := xrun (xinit progs) sched in
  x_quiescent xw -> x_pc (xget xw p) = XwSem l -> xferred xw p = true -> waiting (mw xw) p = true ->
  In p (queue (mw xw)) /\ has (word (mw xw)) MU_WAITING = true /\ forall m, word (mw xw) <> ufast_old m.
Proof.
  intros progs sched l p H xw Q Pp Xp Wt.
  pose proof (no_lost_transfer_partial progs sched l p H Q Pp Xp Wt) as Iq. fold xw in Iq.
  assert (has (word (mw xw)) MU_WAITING = true) as HW.
  { apply (queue_sets_waiting progs sched H). intros E. fold xw in E. rewrite E in Iq. destruct Iq. }
  split; [exact Iq | split; [exact HW|]].
  intros m E. rewrite E in HW. destruct m; discriminate HW.
Qed.
