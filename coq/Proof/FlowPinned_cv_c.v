(* The control structure of cv.c between its atomic sites, regenerated from /repo on this run, is the pinned one. *)
From Coq Require Import String List.
From NsyncGen Require Import Flow.
From NsyncModel Require Import FlowExpected.

Lemma flow_current_cv_c : flow_cv_c = expected_flow_cv_c.
Proof. vm_compute. reflexivity. Qed.
