(* NoteDesc: step lemmas for the creation-path / live-tree invariant behind C08_descendants_full (Props/Properties_C08b.v).
   Continues Proof/NoteProof6.v; the invariant itself is in Proof/NoteDesc2.v. *)
From Coq Require Import String.
From NsyncBase Require Import CSem.
From NsyncGen Require Import Consts Sites.
From NsyncModel Require Import NoteModel.
From NsyncProof Require Import NoteProof NoteProof2 NoteProof3 NoteProof4 NoteProof5 NoteProof6 NoteProof7.
From Coq Require Import List ZArith Bool Lia Arith.
Import ListNotations.
Local Open Scope Z_scope.

Definition late (s : fstg) : bool := match s with F1 | Fw1 | Fw2 => false | _ => true end.
Definition post (s : fstg) : bool := match s with F11 | F12 | F13 => true | _ => false end.

Lemma step1_ff_forward w t c n s par :
  shape (stk w t) -> In (FF n s par) (stk w t) ->
  In n (freed (gh (fst (step1 w t c)))) \/
  exists s' par', In (FF n s' par') (stk (fst (step1 w t c)) t) /\ (late s = true -> late s' = true) /\ (post s = true -> post s' = true).
Proof.
  intros Sh. remember (fst (step1 w t c)) as w' eqn:Hw'. revert Hw'. unfold stk in Sh.
  leaves.
  all: intros ->; cbn [fst] in *.
  all: change (stk w t) with (stack (thr w t)); rewrite ?Hst.
  all: try (intros Hin; exfalso; exact Hin).
  all: try (unfold stk; rewrite Hst; intros Hin; right; exists s, par; solve [auto]).
  all: bottom_nil Sh.
  all: rets Sh.
  all: rewrite ?stk_setst, ?stk_finish.
  all: intros Hin; cbn [In] in Hin.
  all: try contradiction.
  all: repeat match goal with H : _ \/ _ |- _ => destruct H as [H|H] end; try contradiction; try discriminate.
  all: try (inversion Hin; subst; clear Hin).
  all: try solve [right; do 2 eexists; split; [cbn [In]; eauto 8 | split; [intros E; first [exact E|reflexivity|discriminate E] | intros E; first [exact E|reflexivity|discriminate E]]]].
  all: try solve [left; gh_norm; left; reflexivity].
Qed.

Lemma step1_fc_unlink w t c m par s r :
  top w t = Some (FC m par s) -> (past_c2 s = true -> flag (nt w m) <> 0) ->
  parent (nt w m) = Some r -> parent (nt (fst (step1 w t c)) m) <> Some r ->
  flag (nt (fst (step1 w t c)) m) <> 0 /\ children (nt (fst (step1 w t c)) m) = [].
Proof.
  unfold top, stk. leaves.
  all: cbn [hd_error]; intros Ht; try discriminate Ht; inversion Ht; subst; clear Ht.
  all: cbn [past_c2]; intros Hf Hp.
  all: try match goal with H : no_children _ _ = true |- _ => unfold no_children in H; hyp_ns H end.
  all: try match goal with H : _ && no_children _ _ = true |- _ => apply andb_prop in H; destruct H as [? H]; unfold no_children in H; hyp_ns H end.
  all: unfold nt in *; nsimpl.
  all: try (intros Hx; exfalso; apply Hx; exact Hp).
  all: intros _.
  all: rewrite ?c_store1.
  all: try (split; [first [discriminate | apply Hf; reflexivity] | ]).
  all: try match goal with H : match children ?x with [] => true | _ :: _ => false end = true |- _ => destruct (children x); [|discriminate H] end.
  all: try reflexivity.
Qed.

Lemma stack_setst w t st : stack (thr (setst w t st) t) = st. Proof. exact (stk_setst w t st). Qed.
Lemma stack_finish w t o r : stack (thr (finish w t o r) t) = []. Proof. exact (stk_finish w t o r). Qed.
Lemma step1_ff_unlink w t c m s par r :
  top w t = Some (FF m s par) -> match s with F6 c0 _ | F7 c0 _ => c0 <> m | _ => True end -> parent (nt w m) = Some r -> parent (nt (fst (step1 w t c)) m) <> Some r ->
  In (FF m F11 par) (stk (fst (step1 w t c)) t).
Proof.
  unfold top, stk. leaves.
  all: cbn [hd_error]; intros Ht; try discriminate Ht; inversion Ht; subst; clear Ht.
  all: intros Hne Hp.
  all: rewrite ?stack_setst, ?stack_finish.
  all: unfold nt in *; nsimpl.
  all: try (intros Hx; exfalso; apply Hx; exact Hp).
  all: intros _.
  all: try (left; reflexivity).
  all: try (exfalso; apply Hne; reflexivity).
Qed.

Lemma step1_adopt w t c r m nx par s q :
  top w t = Some (FF r s par) -> s = F6 m nx \/ s = F7 m nx -> m <> r -> (forall p, par = Some p -> m <> p) ->
  parent (nt w m) = Some q -> parent (nt (fst (step1 w t c)) m) <> Some q ->
  parent (nt (fst (step1 w t c)) m) = par.
Proof.
  unfold top, stk. leaves.
  all: cbn [hd_error]; intros Ht; try discriminate Ht; inversion Ht; subst; clear Ht.
  all: intros [Hs|Hs]; try discriminate Hs; inversion Hs; subst; clear Hs.
  all: intros Hne Hnp Hp.
  all: try match goal with H : nsync_note_free_load1_guard _ = false |- _ => rewrite free_guard in H end.
  all: try match goal with p : option nat |- _ => destruct p; try discriminate end.
  all: try (assert (m <> n) by (apply Hnp; reflexivity)).
  all: unfold nt in *; nsimpl.
  all: try (intros Hx; exfalso; apply Hx; exact Hp).
  all: intros _.
  all: try reflexivity.
Qed.

Definition fokE (w : world) (f : frame) : Prop :=
  match f with ANew _ _ (W2 n _ e) | ANew _ _ (W3 n _ e) => e = true -> obs_notified w n | _ => True end.
Lemma fokE_ext t0 w w' t f : InvA w -> ext t0 w w' -> fok w t f -> fokE w f -> fokE w' f.
Proof.
  intros I E F H. destruct f; try exact Logic.I. destruct s; try exact Logic.I; cbn [fokE fok] in *;
    destruct F as (_ & _ & Hn & _); intros He; eapply obs_ext; eauto.
Qed.
Lemma step1_framesE w t c : InvA w -> (forall f, In f (stk w t) -> fokE w f) ->
  forall f, In f (stk (fst (step1 w t c)) t) -> fokE (fst (step1 w t c)) f.
Proof.
  intros I FE. pose proof (step1_ext w t c) as E.
  pose proof (ia_shape w I t) as Sh. pose proof (ia_fok w I t) as Fk.
  remember (fst (step1 w t c)) as w' eqn:Hw'. revert Hw'. unfold stk in Sh, Fk, FE.
  leaves.
  all: intros ->; cbn [fst] in *.
  all: try (unfold stk; rewrite Hst; exact FE).
  all: bottom_nil Sh.
  all: rets Sh.
  all: rewrite ?stk_setst, ?stk_finish.
  all: intros f Hin; cbn [In] in Hin.
  all: try contradiction.
  all: repeat match goal with H : _ \/ _ |- _ => destruct H as [H|H] end; try contradiction.
  all: try (subst f; cbn [fokE]; try exact Logic.I).
  all: try solve [eapply (fokE_ext _ _ _ t); [exact I | exact E | apply Fk; cbn [In]; tauto | apply FE; cbn [In]; tauto]].
  all: try (pose proof (Fk _ (or_introl eq_refl)) as F0; cbn [fok] in F0).
  all: try (pose proof (Fk _ (or_intror (or_introl eq_refl))) as F1; cbn [fok] in F1).
  all: try (pose proof (FE _ (or_introl eq_refl)) as E0; cbn [fokE] in E0).
  all: destr_ex.
  all: try solve [intros He; eapply obs_ext; [exact I | exact E | assumption | auto]].
  all: try solve [intros _; eapply obs_ext; [exact I | exact E | assumption | ]; left;
                  match goal with B : (?v =? 0) = false |- _ => destruct (Z.eqb_spec v 0); [discriminate B | assumption] end].
  all: try solve [intros He; exfalso; match goal with B : tpos ?x = true |- _ => rewrite B in He; discriminate He end].
Qed.

Lemma step1_w3c w t c par dl n p e rest :
  stk w t = ANew par dl (W3 n p e) :: rest -> n <> p ->
  let w' := fst (step1 w t c) in
  let pt := notified_time w p (flag (nt w p)) in
  parent (nt w' n) = (if negb e && tpos pt then Some p else parent (nt w n)) /\
  children (nt w' n) = children (nt w n) /\
  (children (nt w' p) <> children (nt w p) -> tpos pt = true) /\
  (forall x, x <> p -> children (nt w' x) = children (nt w x)).
Proof.
  intros Hst Hne w' pt. unfold w', pt, step1, get. unfold stk in Hst. rewrite Hst. unfold step_New. cbv zeta. cbn [fst].
  assert ((p =? n)%nat = false) as Hpn by (apply Nat.eqb_neq; auto).
  assert ((n =? p)%nat = false) as Hnp by (apply Nat.eqb_neq; auto).
  unfold nt in *.
  destruct e; destruct (tlt _ dl) eqn:E1; destruct (tpos _) eqn:E2; cbn [negb andb].
  all: repeat split.
  all: try (intros x Hx; assert ((x =? p)%nat = false) as Hxp by (apply Nat.eqb_neq; auto)).
  all: repeat (progress (cbn [notes setst set_thr set_note]; unfold fupd; rewrite ?Nat.eqb_refl, ?Hpn, ?Hnp, ?Hxp;
    cbn [alive expiry flag parent children waiters disc lock adoptions cdl cpar cinh cpz
         set_alive set_expiry set_flag set_parent set_children set_waiters set_disc set_lock set_cinh set_adoptions])).
  all: auto.
  all: try (intros Hx; exfalso; apply Hx; reflexivity).
  all: destruct (Nat.eqb_spec x n); subst; reflexivity.
Qed.

Lemma step1_enq w t c m x :
  In x (waiters (nt (fst (step1 w t c)) m)) ->
  In x (waiters (nt w m)) \/ (flag (nt w m) = 0 /\ tpos (expiry (nt w m)) = true /\ exists dl, top w t = Some (AWait m dl E2)).
Proof.
  unfold top, stk. leaves.
  all: nsimpl.
  all: try (intros H; first [left; exact H | destruct H | left; eapply remove_nat_incl; exact H]).
  all: try match goal with H : waiters _ = _ :: _ |- _ => hyp_ns H; unfold nt in H; rewrite H; intros Hx; left; right; exact Hx end.
  intros H. apply in_app_or in H. destruct H as [H|H]; [left; exact H|right].
  unfold notified_time, nt in *. destruct (Z.eqb_spec (flag (notes w n)) 0) as [Ef|Ef]; [|discriminate Heqb].
  split; [exact Ef|]. split; [exact Heqb|]. exists dl. reflexivity.
Qed.
