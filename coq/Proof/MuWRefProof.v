(* MuWRefProof: invariants of Model/MuWaitModel.v (mu.c + mu_wait.c) needed by the reference-count theorem C13w
   (Props/Properties_C13w.v), for ALL programs (nsync_mu_unlock_without_wakeup included: nothing here rests on L3 / HB of
   MuWaitWorld4 / 9, which need its absence).

   Part 1 (this file)   K1: inside nsync_mu_wait_with_deadline, from "Prepare to wait" to the end of the iteration, the
                        condition field of the caller's waiter is not NULL.  (Clause h_wc of MuWaitWorld9.HBX, re-proved without
                        the other clauses of HBX; the pass over the pcs is that of MuWaitWorld5.L4_step_thr.)
   MuWRefProof2.v       QI: "MU_CONDITION makes the release late", as an invariant.
   MuWRefProof3.v       the wrapper Model/MuWRefModel.v: RInv, the theorems, the examples. *)
From NsyncBase Require Import CSem.
From NsyncGen Require Import Consts Sites.
From NsyncModel Require Import MuWaitModel MuWaitSpec.
From NsyncProof Require Import WordView MuWaitProof MuWaitRings MuWaitBits MuWaitWorld1 MuWaitWorld2 MuWaitWorld3 MuWaitWorld4 MuWaitWorld5.
From Coq Require Import List ZArith Bool Lia PeanoNat.
Import ListNotations.
Local Open Scope Z_scope.

Definition pq (p : pc) : bool := pe_pc p || mcq p.
Definition K1 (w : world) : Prop :=
  forall t x, mw (get w t) = Some x -> pq (t_pc (get w t)) = true -> wcond w t <> None.

Lemma guard_true o : nsync_mu_wait_with_deadline_store1_guard o (b2z true) = false.
Proof. unfold nsync_mu_wait_with_deadline_store1_guard. cbn. apply andb_false_r. Qed.

Section StepK1.
Variable n : nat.
Hypothesis Hn : Z.of_nat n < 16777215.

Lemma begin_op_K1 w t : Inv n w -> K1 w -> K1 (begin_op w t).
Proof.
  intros HI H y x. destruct (begin_op_fields w t) as (_ & _ & Ewc & _). rewrite Ewc.
  destruct (Nat.eq_dec y t) as [->|N]; [| rewrite begin_op_get_other by exact N; apply H].
  destruct (begin_op_state w t) as [E | E]; [rewrite E; apply H|].
  intros _ Hw. exfalso. destruct (t_pc (get (begin_op w t) t)); try contradiction; discriminate Hw.
Qed.

Ltac cas_split w :=
  unfold cas;
  match goal with |- context [word w =? ?e] => destruct (Z.eqb_spec (word w) e) as [Hcas|Hcas] end;
  cbv beta iota; cbn [fst snd].
Ltac fldr :=
  rewrite ?acq_queue, ?acq_rings, ?acq_wcond, ?acq_cls, ?acq_waiting, ?acq_rcount, ?acq_wtype, ?acq_pst, ?acq_word,
          ?ru_queue, ?ru_rings, ?ru_wcond, ?ru_cls, ?ru_waiting, ?ru_rcount, ?ru_wtype, ?ru_pst, ?ru_word.
Ltac mwsome Hok mx :=
  unfold try_frozen, mt_pre, in_mw in Hok; cbn [mw] in Hok;
  let x := fresh "x" in let Hx := fresh "Hx" in
  first [ destruct Hok as ((x & Hx & _) & _) | destruct Hok as (x & Hx & _) ]; subst mx.

(* the generic step: the other threads keep their state and their waiter fields *)
Lemma K1_intro w W t s' : K1 w -> (forall y, y <> t -> get W y = get w y) -> get W t = s' ->
  (forall y, y <> t -> wcond W y = wcond w y) ->
  (forall x, mw s' = Some x -> pq (t_pc s') = true -> wcond W t <> None) -> K1 W.
Proof.
  intros H Ho Eg Hc Ht y x. destruct (Nat.eq_dec y t) as [->|N]; [rewrite Eg; apply Ht|].
  rewrite (Ho y N), (Hc y N). apply H.
Qed.

Lemma K1_scan w W t s' : K1 w -> (forall y, y <> t -> get W y = get w y) -> get W t = s' -> mw s' = mw (get w t) ->
  wcond W = wcond w -> pq (t_pc (get w t)) = true -> K1 W.
Proof.
  intros H Ho Eg Em Ec Hw. apply (K1_intro w W t s' H Ho Eg); [intros; rewrite Ec; reflexivity|].
  intros x Ex _. rewrite Ec. rewrite Em in Ex. exact (H t x Ex Hw).
Qed.

Ltac own1 w t H1 Hs :=
  let x0 := fresh "x0" in let Ex := fresh "Ex" in let Hw := fresh "Hw" in
  unfold get; rewrite ?Hs; unfold mw_of; cbn [t_pc mw];
  intros x0 Ex Hw;
  first [ discriminate Ex | discriminate Hw
        | (fldr; cbn [wcond set_pc set_t set_thr set_winfo upd_mw set_mw]; rewrite fupd_eq; first [discriminate | congruence])
        | (fldr; exact (H1 t _ ltac:(unfold get; rewrite Hs; reflexivity) ltac:(unfold get; rewrite Hs; reflexivity))) ].

Ltac boring1 w t H1 Hs Hlen Ht :=
  try (match goal with mx : option mwl |- _ => destruct mx end);
  let HI' := fresh "HI'" in let Hoth := fresh "Hoth" in
  intros HI' Hoth; cbn [fst] in *;
  lazymatch goal with |- K1 ?W =>
    let HT := fresh "HT" in let Eg := fresh "Eg" in
    eassert (HT : TS t w W _ _) by (ts_solve; rewrite Hlen; exact Ht);
    pose proof (TS_get _ _ _ _ _ HT) as Eg;
    eapply (K1_intro w W t _ H1 Hoth Eg);
    [ let y := fresh "y" in let Ny := fresh "Ny" in intros y Ny; fldr;
      first [ reflexivity
            | (cbn [wcond set_pc set_t set_thr set_winfo set_waiting set_queue set_rings set_rcount set_sem set_word set_own set_held set_spin set_mw upd_mw released
                    mw_return add_ev log_eval set_pst w_merge]; rewrite ?fupd_neq by exact Ny; reflexivity) ]
    | own1 w t H1 Hs ]
  end.
Ltac B1 :=
  match goal with
  | H1 : K1 ?w, Hlen : length (thr ?w) = _, Ht : (?t < _)%nat, Hs : nth ?t (thr ?w) dflt_t = _ |- _ => boring1 w t H1 Hs Hlen Ht
  end.
Ltac noop1 := cbn [fst]; intros _ _; assumption.

Lemma K1_step_thr w0 t c : Inv n w0 -> K1 w0 -> K1 (fst (step_thr w0 t c)).
Proof.
  intros H0 H1.
  pose proof (step_thr_ok n Hn w0 t c H0) as (HI' & _ & _ & Hoth).
  apply (begin_op_K1 _ t H0) in H1. apply (begin_op_inv n w0 t) in H0.
  revert HI' Hoth. unfold step_thr. set (w := begin_op w0 t) in *. clearbody w. clear w0. cbv zeta.
  destruct (Nat.lt_ge_cases t n) as [Ht|Ht].
  2:{ assert (Eg : get w t = dflt_t) by (apply get_oob'; destruct H0 as (-> & _); exact Ht).
      rewrite Eg. cbn. intros; assumption. }
  pose proof H0 as (Hlen & _ & Hok). specialize (Hok t).
  destruct (get w t) as [p ops h cv sp mx lr] eqn:Hs. unfold get in Hs. rewrite Hs in Hok.
  unfold pc_ok in Hok. cbn [t_pc t_ops held conv spin mw last_ret] in *.
  destruct p.
  - (* Idle *) noop1.
  - (* LkFast *) destruct Hok as (Ho & ->). cas_split w; B1.
  - (* LkLoad *) destruct Hok as (Ho & ->). destruct (fast_guard2 m (word w)) eqn:G; B1.
  - (* LkCas2 *) destruct Hok as (Ho & -> & G). cas_split w; B1.
  - (* TryFast *) destruct Hok as (Ho & ->). cas_split w; B1.
  - (* TryLoad *) destruct Hok as (Ho & ->). destruct (try_guard2 m (word w)) eqn:G; B1.
  - (* TryCas2 *) destruct Hok as (Ho & -> & G). cas_split w; B1.
  - (* LsLoad *) destruct (nsync_mu_lock_slow_cas1_guard (word w) (zta l)) eqn:G1; [B1|].
    destruct (nsync_mu_lock_slow_cas2_guard (word w) (zta l)) eqn:G2; [B1 | noop1].
  - (* LsCasAcq *) cas_split w; destruct mx; B1.
  - (* LsCasEnq *) cas_split w; B1.
  - (* LsStoreWaiting *) B1.
  - (* LsWaitLoad *) destruct (waiting w t) eqn:Ew; B1.
  - (* LsSemP *) destruct (0 <? sem w t); [B1 | noop1].
  - (* RelLoad *) destruct k; try contradiction; B1.
  - (* RelCas *) destruct k; try contradiction.
    + cas_split w; B1.
    + cas_split w; [| B1]. intros HI' Hoth.
      match goal with |- context [after_inner ?w2 m ?r] =>
        pose proof (after_inner_wt w2 m r) as [Hw1 Hw2];
        destruct (after_inner_fields w2 m r) as (F1 & _);
        destruct (after_inner w2 m r) as [w3 p'] eqn:Ea; cbn [fst snd] in *;
        eassert (HT : TS t w w2 _ _) by (ts_solve; rewrite Hlen; exact Ht)
      end.
      eassert (HT3 : TS t w (set_pc w3 t p') _ _) by (apply TS_set_pc; eapply TS_eq; [exact HT | exact Hw1 | exact Hw2]).
      eapply (K1_scan w _ t _ H1 Hoth (TS_get _ _ _ _ _ HT3)); [unfold get; rewrite Hs; reflexivity | change (wcond w3 = wcond w); rewrite F1; reflexivity
                                                              | unfold get; rewrite Hs; reflexivity].
  - (* SpinLoad *) destruct k; try contradiction; destruct (nsync_spin_test_and_set_cas1_guard (word w) MU_SPINLOCK) eqn:G; B1.
  - (* SpinCas *) destruct k; try contradiction.
    + unfold spin_set. cbv beta iota. cas_split w; [| B1]. intros HI' Hoth.
      match goal with |- context [round_end ?w2 u] =>
        eassert (HT : TS t w w2 _ _) by (ts_solve; rewrite Hlen; exact Ht);
        destruct (round_end_fields w2 u) as (_ & _ & R3 & _ & _ & _ & _ & _ & _ & R10 & R11 & _);
        destruct (round_end w2 u) as [w3 u3] eqn:Ere; cbn [fst snd] in *
      end.
      pose proof (scan_from_wt m 3 w3 u3) as [Hw1 Hw2]. destruct (scan_from_fields m 3 w3 u3) as (F1 & _).
      destruct (scan_from 3 w3 m u3) as [w4 p'] eqn:Esf. cbn [fst snd] in *.
      rewrite R10 in Hw1. rewrite R11 in Hw2. rewrite R3 in F1.
      eassert (HT3 : TS t w (set_pc w4 t p') _ _) by (apply TS_set_pc; eapply TS_eq; [exact HT | exact Hw1 | exact Hw2]).
      eapply (K1_scan w _ t _ H1 Hoth (TS_get _ _ _ _ _ HT3)); [unfold get; rewrite Hs; reflexivity | change (wcond w4 = wcond w); rewrite F1; reflexivity
                                                              | unfold get; rewrite Hs; reflexivity].
    + mwsome Hok mx. unfold spin_set. cbv beta iota. cas_split w; [| B1].
      match goal with |- context [mw_first (get_mw ?ww t)] =>
        assert (get_mw ww t = x) as Eg by (erewrite (TS_get_mw t w); [| ts_solve; rewrite Hlen; exact Ht]; unfold get; rewrite Hs; reflexivity);
        rewrite Eg end.
      destruct (mw_first x); B1.
  - (* RmLoad *) destruct k; try contradiction; B1.
  - (* RmCas *) destruct k; try contradiction.
    + destruct (rcount w (List.hd t (u_rest u)) =? oldv) eqn:Erc; [| B1].
      destruct (remove_from _ _ _ _ (u_new u) _) as [nl rg] eqn:Erm. intros HI' Hoth.
      match goal with |- context [after_inner ?w2 m ?r] =>
        pose proof (after_inner_wt w2 m r) as [Hw1 Hw2];
        destruct (after_inner_fields w2 m r) as (F1 & _);
        destruct (after_inner w2 m r) as [w3 p'] eqn:Ea; cbn [fst snd] in *;
        eassert (HT : TS t w w2 _ _) by (ts_solve; rewrite Hlen; exact Ht)
      end.
      eassert (HT3 : TS t w (set_pc w3 t p') _ _) by (apply TS_set_pc; eapply TS_eq; [exact HT | exact Hw1 | exact Hw2]).
      eapply (K1_scan w _ t _ H1 Hoth (TS_get _ _ _ _ _ HT3)); [unfold get; rewrite Hs; reflexivity | change (wcond w3 = wcond w); rewrite F1; reflexivity
                                                              | unfold get; rewrite Hs; reflexivity].
    + destruct (rcount w t =? oldv) eqn:Erc; [| B1]. destruct (remove_from _ _ _ _ (queue _) t) as [nl rg] eqn:Erm. B1.
  - (* UlFast *) destruct Hok as (Ho & ->). cas_split w; B1.
  - (* UlLoad *) destruct Hok as (Ho & ->). destruct (unlock_try_cas2 m (word w)); [| destruct (unlock_bad m (word w))]; B1.
  - (* UlCas2 *) destruct Hok as (Ho & ->). cas_split w; B1.
  - (* UwFast *) destruct Hok as (Ho & ->). cas_split w; B1.
  - (* UwLoad *) destruct Hok as (Ho & ->). destruct (nsync_mu_unlock_without_wakeup_cas2_guard (word w)); [| destruct (uw_bad (word w))]; B1.
  - (* UwCas2 *) destruct Hok as (Ho & ->). cas_split w; B1.
  - (* UsLoad *) destruct (nsync_mu_unlock_slow_cas1_guard (word w)); [B1|].
    destruct (nsync_mu_unlock_slow_cas2_guard (word w)) eqn:G2; [B1 | noop1].
  - (* UsCasRel *) cas_split w; destruct mx; B1.
  - (* UsCasSpin *) cas_split w; [| B1].
    destruct (has old MU_CONDITION) eqn:Etest; intros HI' Hoth;
    (match goal with |- context [scan_from 3 (set_queue ?w2 []) m ?u] =>
      eassert (HT : TS t w (set_queue w2 []) _ _) by (ts_solve; rewrite Hlen; exact Ht);
      pose proof (scan_from_wt m 3 (set_queue w2 []) u) as [Hw1 Hw2];
      destruct (scan_from_fields m 3 (set_queue w2 []) u) as (F1 & _);
      destruct (scan_from 3 (set_queue w2 []) m u) as [w4 p'] eqn:Esf; cbn [fst snd] in *
    end);
    (eassert (HT3 : TS t w (set_pc w4 t p') _ _) by (apply TS_set_pc; eapply TS_eq; [exact HT | exact Hw1 | exact Hw2]));
    (eapply (K1_scan w _ t _ H1 Hoth (TS_get _ _ _ _ _ HT3)); [unfold get; rewrite Hs; reflexivity | change (wcond w4 = wcond w); rewrite F1; reflexivity
                                                              | unfold get; rewrite Hs; reflexivity]).
  - (* UsEval *)
    destruct (u_rest u) as [|p tl0] eqn:Er; [B1|]. destruct (wcond w p) as [[f a]|] eqn:Ec; [| B1].
    intros HI' Hoth.
    match goal with |- context [after_inner ?w2 m ?r] =>
      pose proof (after_inner_wt w2 m r) as [Hw1 Hw2];
      destruct (after_inner_fields w2 m r) as (F1 & _);
      destruct (after_inner w2 m r) as [w3 p'] eqn:Ea; cbn [fst snd] in *;
      eassert (HT : TS t w w2 _ _) by (ts_solve; rewrite Hlen; exact Ht)
    end.
    eassert (HT3 : TS t w (set_pc w3 t p') _ _) by (apply TS_set_pc; eapply TS_eq; [exact HT | exact Hw1 | exact Hw2]).
    eapply (K1_scan w _ t _ H1 Hoth (TS_get _ _ _ _ _ HT3)); [unfold get; rewrite Hs; reflexivity | change (wcond w3 = wcond w); rewrite F1; reflexivity
                                                            | unfold get; rewrite Hs; reflexivity].
  - (* UsRelLoad *) B1.
  - (* UsRelCas *) cas_split w; [destruct (wake u) eqn:Ewk; destruct mx; B1 | B1].
  - (* UsWakeStore *) destruct (wake u) as [|q rest] eqn:Ewk; destruct mx; B1.
  - (* UsWakeV *) destruct (wake u) as [|q rest] eqn:Ewk; destruct mx; B1.
  - (* SetC *) destruct Hok as (Ho & ->). B1.
  - (* MwLoad *) destruct Hok as (-> & -> & Hh & Hm). destruct h as [h|]; [| congruence]. destruct mx as [x|]; [| congruence].
    destruct (band (word w) MU_ANY_LOCK =? 0); [B1|].
    match goal with |- context [mw_cond (get_mw ?ww t)] =>
      assert (get_mw ww t = mk_mw (if negb (band (word w) MU_RHELD_IF_NON_ZERO =? 0) then R else W) (mw_cond x) (mw_eq x) (mw_dl x) (mw_canc x) (mw_first x) (mw_rc x) (mw_hadw x)
                                  (mw_semout x) (mw_have x) (mw_outcome x) (mw_tmo x) (mw_ent x)) as Eg
        by (erewrite (TS_get_mw t w); [| ts_solve; rewrite Hlen; exact Ht]; unfold get; rewrite Hs; reflexivity);
      rewrite Eg end.
    cbn [mw_cond]. destruct (mw_cond x) eqn:Emc; [B1|].
    unfold mw_after_eval. rewrite Eg. cbn [mw_outcome mw_mode mw_cond mw_eq]. rewrite guard_true. B1.
  - (* MwEval *) mwsome Hok mx. unfold get_mw, get. rewrite Hs. cbn [mw].
    destruct (mw_cond x) as [[f a]|] eqn:Emc; unfold mw_after_eval;
      (match goal with |- context [get_mw ?ww t] =>
         assert (get_mw ww t = x) as Eg by (unfold get_mw, get; cbn [thr log_eval add_ev]; rewrite Hs; reflexivity); rewrite Eg end);
      [destruct (nsync_mu_wait_with_deadline_store1_guard _ _); B1 | rewrite guard_true; B1].
  - (* MwStoreWaiting *) mwsome Hok mx. B1.
  - (* MwRcLoad *) mwsome Hok mx. B1.
  - (* MwRelLoad *) mwsome Hok mx. B1.
  - (* MwRelCas *) mwsome Hok mx. cas_split w; [| B1]. destruct (add =? 0); [| B1].
    match goal with |- context [mw_mode (get_mw ?ww t)] =>
      assert (get_mw ww t = x) as Eg by (erewrite (TS_get_mw t w); [| ts_solve; rewrite Hlen; exact Ht]; unfold get; rewrite Hs; reflexivity);
      rewrite Eg end.
    B1.
  - (* MwLoadW1 *) mwsome Hok mx. unfold get_mw, get. rewrite Hs. cbn [mw].
    destruct (waiting w t) eqn:Ew.
    + destruct (mw_semout x =? 0); B1.
    + destruct (mw_have x) eqn:Eh; B1.
  - (* MwSemP *) mwsome Hok mx. unfold get_mw, get. rewrite Hs. cbn [mw]. destruct c.
    + destruct (0 <? sem w t); [B1 | noop1].
    + destruct (mw_dl x) as [d|]; [| noop1]. destruct (d <=? clock w); [B1 | noop1].
    + destruct (mw_canc x && note w); [B1 | noop1].
  - (* MwLoadW2 *) mwsome Hok mx. destruct (waiting w t); B1.
  - (* MwLoadW3 *) mwsome Hok mx. B1.
  - (* MtLoad *) mwsome Hok mx. destruct (mu_try_acquire_after_timeout_or_cancel_cas1_guard (word w)) eqn:G1;
      [| destruct (mu_try_acquire_after_timeout_or_cancel_cas2_guard (word w)) eqn:G2]; B1.
  - (* MtCas1 *) mwsome Hok mx. cas_split w; [| destruct (mu_try_acquire_after_timeout_or_cancel_cas2_guard old) eqn:G2]; B1.
  - (* MtCas2 *) mwsome Hok mx. cas_split w; B1.
  - (* MtLoadW *) mwsome Hok mx. destruct (waiting w t); B1.
  - (* MtLoadRc *) mwsome Hok mx. unfold get_mw, get. rewrite Hs. cbn [mw]. destruct (mw_rc x =? rcount w t); B1.
  - (* MtStoreW *) mwsome Hok mx. B1.
  - (* MtStore2 *) mwsome Hok mx. unfold get_mw, get. rewrite Hs. cbn [mw]. B1.
  - (* MtStore3 *) mwsome Hok mx. B1.
  - (* Crash *) noop1.
Qed.
End StepK1.

Lemma K1_step n (Hn : Z.of_nat n < 16777215) w a : Inv n w -> K1 w -> K1 (fst (step w a)).
Proof.
  intros HI H. destruct a as [t c|dt| |p]; cbn [step].
  - apply (K1_step_thr n Hn); assumption.
  - destruct (0 <=? dt); exact H.
  - exact H.
  - destruct (note w); exact H.
Qed.

Lemma K1_init progs cl c0 : K1 (init progs cl c0).
Proof. intros t x E. destruct (init_get progs cl c0 t) as [_ Em]. congruence. Qed.
