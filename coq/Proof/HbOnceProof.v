(* C03, once hand-off: in every execution of OnceModel, instrumented by Model/HbOnce.v (which credits ONLY the memory
   orders requested in the C source, Gen/Sites.v; the abstract steps on once_mu / once_cv get NO ordering credit), the
   view of the thread that ran the once-function, at its ATM_STORE_REL (once, 2) -- and already at the return of the
   once-function (OnceModel's f-end step, which precedes the store in program order) -- is contained in the view of
   every thread at every return of a call on that word (for a blocking call the return is its final nsync_mu_unlock;
   the acquire load that read 2 is an earlier step of the same thread).
   Part 1 is the only place where the regenerated inventory is evaluated: if the store became relaxed, or one of the
   loads that let a caller return (the entry load of any of the four public functions, impl#1, impl#5) became relaxed,
   [once_orders] fails and with it everything below.
   No axioms, nothing admitted. *)
From Coq Require Import List ZArith Bool String Lia PeanoNat Arith.
From NsyncBase Require Import CSem.
From NsyncGen Require Import Consts Sites.
From NsyncModel Require Import HbModel.
From NsyncProof Require HbProof.
From NsyncModel Require Import OnceModel HbOnce.
From NsyncProof Require Import OnceProof.
Import ListNotations.
Local Open Scope Z_scope.

(* ================================================================== *)
(* Part 1: the orders the proof needs, computed from the inventory     *)
(* ================================================================== *)
Lemma once_orders :
  has_rel (once_order_of Kstore 14) = true /\
  Forall (fun s => has_acq (once_order_of Kload s) = true) [1; 11; 15].
Proof. split; [vm_compute; reflexivity | repeat constructor; vm_compute; reflexivity]. Qed.

Lemma rel14 : has_rel (once_order_of Kstore 14) = true.
Proof. exact (proj1 once_orders). Qed.
Lemma acq_loads s : In s [1; 11; 15] -> has_acq (once_order_of Kload s) = true.
Proof. apply (proj1 (Forall_forall _ _) (proj2 once_orders)). Qed.
Lemma acq1 : has_acq (once_order_of Kload 1) = true.
Proof. apply acq_loads. cbn. tauto. Qed.
Lemma acq11 : has_acq (once_order_of Kload 11) = true.
Proof. apply acq_loads. cbn. tauto. Qed.
Lemma acq15 : has_acq (once_order_of Kload 15) = true.
Proof. apply acq_loads. cbn. tauto. Qed.

(* from here on the orders are used through the four lemmas above only *)
Local Opaque once_order_of.

(* ================================================================== *)
(* Part 2: views                                                       *)
(* ================================================================== *)
Lemma vle_tick v t : vle v (vtick v t).
Proof. intros x. unfold vtick. destruct (Nat.eqb x t); lia. Qed.

Lemma vle_tick_join v t b : vle v (vjoin (vtick v t) b).
Proof. eapply HbProof.vle_trans; [apply vle_tick | apply HbProof.vle_join_l]. Qed.

(* a thread's own view only grows *)
Lemma ohb_step_grows h t x e : vle (oviews h t) (oviews (ohb_step h t x e) t).
Proof.
  unfold ohb_step.
  destruct x as [o|]; [destruct e as [s v|s [|]|s v|?|?|?|?|?|?|?|?|?| |]|]; cbn [oviews]; rewrite fupd_same;
    try destruct (has_acq _); first [apply vle_tick | apply vle_tick_join].
Qed.

(* ================================================================== *)
(* Part 3: one step of the model against one step of the instrumentation *)
(* ================================================================== *)
Definition hnext (h : ohb) (w : world) (t : nat) : ohb :=
  ohb_step h t (pc_obj (pc (get (begin_call w t) t))) (snd (step w t)).

(* only the stepping thread's view changes *)
Lemma ohb_step_other h t x e t' : t' <> t -> oviews (ohb_step h t x e) t' = oviews h t'.
Proof.
  intros n. unfold ohb_step.
  destruct x as [o|]; [destruct e as [s v|s [|]|s v|?|?|?|?|?|?|?|?|?| |]|]; cbn [oviews]; apply fupd_other; exact n.
Qed.

Lemma begin_call_shared w t :
  once (begin_call w t) = once w /\ completed (begin_call w t) = completed w /\
  returned (get (begin_call w t) t) = returned (get w t).
Proof.
  destruct (begin_call_cases w t) as [[-> _]|(o&sp&rest&Hpc&Hc&->)]; [auto|].
  unfold set_thr. cbn [once completed]. repeat split.
  rewrite get_upd_same; [reflexivity|]. apply calls_in_range. rewrite Hc. discriminate.
Qed.

Lemma begin_call_pc w t : pc (get w t) <> OIdle -> begin_call w t = w.
Proof. intros H. destruct (begin_call_cases w t) as [[E _]|(o&sp&rest&Hpc&_)]; [exact E|congruence]. Qed.

Ltac brk_core :=
  repeat match goal with
         | |- context [if ?c then _ else _] => destruct c eqn:?
         | |- context [match mu ?a ?b with _ => _ end] => destruct (mu a b)
         end.

(* the step that makes word o 2 is the winner's store; it publishes the winner's view *)
Lemma publish_core w h t o :
  once w o <> 2 -> once (fst (step_core w t)) o = 2 ->
  vle (oviews (ohb_step h t (pc_obj (pc (get w t))) (snd (step_core w t))) t)
      (orel (ohb_step h t (pc_obj (pc (get w t))) (snd (step_core w t))) o).
Proof.
  intros Hf. unfold step_core, do_lock, do_unlock, ret, set_pc, set_thr, set_mu.
  destruct (pc (get w t)) as [|o0 sp|o0 sp|o0 z|o0 sp|o0 sp|o0|o0 sp|o0 sp|o0|o0|o0 sp|o0 sp|o0|o0|o0|o0|o0] eqn:Hpc;
    cbv zeta; brk_core; cbn [fst snd once]; try congruence.
  all: try (unfold fupd; destruct (Nat.eqb o o0); [discriminate|congruence]).   (* the CAS 0 -> 1 *)
  (* OStore *) unfold fupd at 1. destruct (Nat.eqb_spec o o0) as [->|Hne]; [intros _|congruence].
    cbn [pc_obj]. unfold ohb_step. rewrite rel14. cbn [oviews orel]. rewrite !fupd_same. apply HbProof.vle_refl.
Qed.

(* a step at which a call on word o returns: either it read 2 from that word with an acquire load, or it is the final
   unlock of a blocking call, whose thread read 2 earlier (pc OFinalUnlock) *)
Lemma return_core w h t o :
  Inv w ->
  returned (get (fst (step_core w t)) t) = o :: returned (get w t) ->
  once w o = 2 /\
  (vle (orel h o) (oviews (ohb_step h t (pc_obj (pc (get w t))) (snd (step_core w t))) t) \/
   pc (get w t) = OFinalUnlock o).
Proof.
  intros I. destruct (lt_dec t (length (thr w))) as [Hlt|Hge].
  2:{ rewrite step_core_oob by lia. cbn [fst]. intros H. symmetry in H. exfalso. revert H. apply cons_neq. }
  pose proof (ti_fin _ _ _ (inv_thr w I t)) as Hfin.
  unfold step_core, do_lock, do_unlock.
  destruct (pc (get w t)) as [|o0 sp|o0 sp|o0 z|o0 sp|o0 sp|o0|o0 sp|o0 sp|o0|o0|o0 sp|o0 sp|o0|o0|o0|o0|o0] eqn:Hpc;
    cbv zeta; cbn [pc_obj]; brk_core; cbn [fst snd];
    rewrite ?get_ret_same, ?get_set_pc_same, ?get_upd_same by (try exact Hlt; unfold set_mu; cbn [thr]; exact Hlt);
    cbn [returned with_pc];
    try (intros H; symmetry in H; exfalso; revert H; apply cons_neq).
  - (* OEntry, 2 *) intros H. injection H as ->. split; [apply Z.eqb_eq; assumption|]. left.
    unfold ohb_step. rewrite acq1. cbn [oviews]. rewrite fupd_same. apply HbProof.vle_join_r.
  - (* OImplLoad, 2 *) intros H. injection H as ->.
    match goal with E : negb (_ =? 2) = false |- _ => apply negb_false_iff in E; apply Z.eqb_eq in E; split; [exact E|] end.
    left. unfold ohb_step. rewrite acq11. cbn [oviews]. rewrite fupd_same. apply HbProof.vle_join_r.
  - (* OWaitLoad (spinning), 2 *) intros H. injection H as ->. split; [apply Z.eqb_eq; assumption|]. left.
    unfold ohb_step. rewrite acq15. cbn [oviews]. rewrite fupd_same. apply HbProof.vle_join_r.
  - (* OFinalUnlock *) rewrite get_set_mu. intros H. injection H as ->. split; [|right; reflexivity].
    apply Hfin. reflexivity.
Qed.

Ltac getsimp Hlt :=
  rewrite ?get_ret_same, ?get_set_pc_same, ?get_upd_same by (try exact Hlt; unfold set_mu; cbn [thr]; exact Hlt);
  rewrite ?get_set_mu.

(* a step that takes the thread to the final unlock of a call on o: the acquire load of the wait loop read 2 *)
Lemma final_core w h t o :
  (t < length (thr w))%nat ->
  pc (get (fst (step_core w t)) t) = OFinalUnlock o ->
  once w o = 2 /\ vle (orel h o) (oviews (ohb_step h t (pc_obj (pc (get w t))) (snd (step_core w t))) t).
Proof.
  intros Hlt. unfold step_core, do_lock, do_unlock.
  destruct (pc (get w t)) as [|o0 sp|o0 sp|o0 z|o0 sp|o0 sp|o0|o0 sp|o0 sp|o0|o0|o0 sp|o0 sp|o0|o0|o0|o0|o0] eqn:Hpc;
    cbv zeta; cbn [pc_obj]; brk_core; cbn [fst snd]; getsimp Hlt; cbn [pc with_pc]; rewrite ?Hpc; try discriminate.
  intros H. injection H as ->. split; [apply Z.eqb_eq; assumption|].
  unfold ohb_step. rewrite acq15. cbn [oviews]. rewrite fupd_same. apply HbProof.vle_join_r.
Qed.

(* where the hand-off stands for word o and a view r:
   either the winner has left the once-function and still has r in its view (it is at one of its last three pcs),
   or the word is 2, r is in its release view, and in the view of every thread that is about to return from the
   final unlock of a blocking call on o *)
Definition phase (o : nat) (r : view) (w : world) (h : ohb) : Prop :=
  (once w o = 2 /\ vle r (orel h o) /\ forall t, pc (get w t) = OFinalUnlock o -> vle r (oviews h t)) \/
  (exists tw, win_info (pc (get w tw)) = Some (o, true, true) /\ vle r (oviews h tw)).

Lemma phase_core w h t o r :
  Inv w -> phase o r w h ->
  phase o r (fst (step_core w t)) (ohb_step h t (pc_obj (pc (get w t))) (snd (step_core w t))).
Proof.
  intros I P.
  destruct (lt_dec t (length (thr w))) as [Hlt|Hge].
  2:{ rewrite step_core_oob by lia. cbn [fst snd]. rewrite get_oob by lia. cbn [pc pc_obj dflt].
      destruct P as [(H2 & Hr & Q)|(tw & Hw & Hr)]; [left|right].
      - repeat split; auto. intros t' Ht'. destruct (Nat.eq_dec t' t) as [->|n].
        + rewrite get_oob in Ht' by lia. discriminate.
        + rewrite ohb_step_other by auto. auto.
      - exists tw. split; auto. destruct (Nat.eq_dec tw t) as [->|n].
        + rewrite get_oob in Hw by lia. discriminate.
        + rewrite ohb_step_other by auto. auto. }
  set (h' := ohb_step h t (pc_obj (pc (get w t))) (snd (step_core w t))).
  assert (Grow : vle (oviews h t) (oviews h' t)) by apply ohb_step_grows.
  destruct P as [(H2 & Hr & Q)|(tw & Hw & Hr)].
  - (* the word is 2 *) left.
    assert (NW : forall sp, pc (get w t) <> OStore o sp).
    { intros sp E. assert (once w o = 1); [|lia]. eapply (win_once1 w t o true true I). rewrite E. reflexivity. }
    split; [|split].
    + (* stays 2 *) revert NW. unfold step_core, do_lock, do_unlock, ret, set_pc, set_thr, set_mu.
      destruct (pc (get w t)) as [|o0 sp|o0 sp|o0 z|o0 sp|o0 sp|o0|o0 sp|o0 sp|o0|o0|o0 sp|o0 sp|o0|o0|o0|o0|o0] eqn:Hpc;
        cbv zeta; brk_core; cbn [fst once]; intros NW; try exact H2.
      all: unfold fupd; destruct (Nat.eqb_spec o o0) as [->|Hne]; try exact H2; try reflexivity.
      all: match goal with E : (once _ _ =? 0) = true |- _ => apply Z.eqb_eq in E; lia end.
    + (* r stays in the release view *) subst h'. revert NW. unfold step_core, do_lock, do_unlock.
      destruct (pc (get w t)) as [|o0 sp|o0 sp|o0 z|o0 sp|o0 sp|o0|o0 sp|o0 sp|o0|o0|o0 sp|o0 sp|o0|o0|o0|o0|o0] eqn:Hpc;
        cbv zeta; cbn [pc_obj]; brk_core; cbn [fst snd]; intros NW; unfold ohb_step; try (cbn [orel]; exact Hr).
      (* what remains: a store on another word (and the CAS 0 -> 1 on another word, should it ever ask for release) *)
      all: assert (Hne : o <> o0)
        by (intros ->; first [ match goal with E : (once _ _ =? 0) = true |- _ => apply Z.eqb_eq in E; lia end
                             | eapply NW; reflexivity ]).
      all: repeat match goal with |- context [if has_rel ?x then _ else _] => destruct (has_rel x) end;
        cbn [orel]; rewrite ?fupd_other by exact Hne; exact Hr.
    + (* threads at the final unlock *) intros t' Ht'. destruct (Nat.eq_dec t' t) as [->|n].
      * destruct (final_core w h t o Hlt Ht') as [_ Hv]. eapply HbProof.vle_trans; [exact Hr|exact Hv].
      * rewrite step_core_other in Ht' by auto. subst h'. rewrite ohb_step_other by auto. auto.
  - (* the winner is on its way to the store *)
    destruct (Nat.eq_dec tw t) as [->|n].
    2:{ right. exists tw. rewrite step_core_other by auto. subst h'. rewrite ohb_step_other by auto. auto. }
    assert (Hr' : vle r (oviews h' t)) by (eapply HbProof.vle_trans; eauto).
    destruct (ti_win _ _ _ (inv_thr w I t) o true true Hw) as (_ & O1 & _ & _).
    clear Grow. subst h'. revert Hr'. unfold step_core, do_lock, do_unlock.
    destruct (pc (get w t)) as [|o0 sp|o0 sp|o0 z|o0 sp|o0 sp|o0|o0 sp|o0 sp|o0|o0|o0 sp|o0 sp|o0|o0|o0|o0|o0] eqn:Hpc;
      cbn in Hw; try discriminate; injection Hw as ->; cbv zeta; cbn [pc_obj]; brk_core; cbn [fst snd]; intros Hr'.
    + (* OWinLock: blocked *) right. exists t. rewrite Hpc. auto.
    + (* OWinLock: acquired *) right. exists t. getsimp Hlt. cbn [pc with_pc]. auto.
    + (* OWinLock: not lockable *) right. exists t. rewrite Hpc. auto.
    + (* OBroadcast *) right. exists t. getsimp Hlt. cbn [pc with_pc]. auto.
    + (* OStore *) left. cbn [once]. rewrite fupd_same. split; [reflexivity|]. split.
      * revert Hr'. unfold ohb_step. rewrite rel14. cbn [oviews orel]. rewrite !fupd_same. auto.
      * intros t' Ht'. exfalso. destruct (Nat.eq_dec t' t) as [->|n].
        -- rewrite get_upd_same in Ht' by auto. discriminate.
        -- rewrite get_upd_other in Ht' by auto.
           pose proof (ti_fin _ _ _ (inv_thr w I t') o Ht'). lia.
Qed.

(* f-end: the winner leaves the once-function; from here on it carries its view to the store *)
Lemma fend_core w h t o :
  Inv w -> completed w o = false -> completed (fst (step_core w t)) o = true ->
  phase o (oviews (ohb_step h t (pc_obj (pc (get w t))) (snd (step_core w t))) t)
        (fst (step_core w t)) (ohb_step h t (pc_obj (pc (get w t))) (snd (step_core w t))).
Proof.
  intros I Hf H.
  destruct (lt_dec t (length (thr w))) as [Hlt|Hge].
  2:{ rewrite step_core_oob in H by lia. cbn [fst] in H. congruence. }
  right. exists t. split; [|apply HbProof.vle_refl].
  revert H. unfold step_core, do_lock, do_unlock, ret, set_pc, set_thr, set_mu.
  destruct (pc (get w t)) as [|o0 sp|o0 sp|o0 z|o0 sp|o0 sp|o0|o0 sp|o0 sp|o0|o0|o0 sp|o0 sp|o0|o0|o0|o0|o0] eqn:Hpc;
    cbv zeta; brk_core; cbn [fst completed]; try congruence.
  all: unfold fupd; destruct (Nat.eqb_spec o o0) as [->|Hne]; [intros _|congruence].
  all: rewrite get_upd_same by exact Hlt; reflexivity.
Qed.

(* the same facts for [step] = [step_core] after [begin_call] *)
Lemma phase_begin w h t o r : phase o r w h -> phase o r (begin_call w t) h.
Proof.
  intros P. destruct (begin_call_cases w t) as [[-> _]|(o'&sp&rest&Hpc&Hc&->)]; [exact P|].
  assert (Hlt : (t < length (thr w))%nat) by (apply calls_in_range; rewrite Hc; discriminate).
  unfold set_thr. destruct P as [(H2 & Hr & Q)|(tw & Hw & Hr)]; [left|right].
  - repeat split; auto. intros t' Ht'. destruct (Nat.eq_dec t' t) as [->|n].
    + rewrite get_upd_same in Ht' by auto. discriminate.
    + rewrite get_upd_other in Ht' by auto. auto.
  - exists tw. split; auto. destruct (Nat.eq_dec tw t) as [->|n].
    + rewrite Hpc in Hw. discriminate.
    + rewrite get_upd_other by auto. auto.
Qed.

Lemma phase_step w h t o r : Inv w -> phase o r w h -> phase o r (fst (step w t)) (hnext h w t).
Proof.
  intros I P. unfold hnext. rewrite step_eq.
  apply phase_core; [apply inv_begin_call; exact I | apply phase_begin; exact P].
Qed.

Lemma publish_step w h t o :
  Inv w -> once w o <> 2 -> once (fst (step w t)) o = 2 ->
  phase o (oviews (hnext h w t) t) (fst (step w t)) (hnext h w t).
Proof.
  intros I Hf Ht. left. split; [exact Ht|].
  destruct (begin_call_shared w t) as (Ho & _ & _).
  split.
  - unfold hnext. rewrite step_eq in *. apply publish_core; [rewrite Ho; exact Hf | exact Ht].
  - (* nobody is at the final unlock of a call on o: that needs the word to be 2 already *)
    intros t' Ht'. exfalso. apply Hf.
    destruct (Nat.eq_dec t' t) as [->|n].
    + rewrite step_eq in Ht'. rewrite <- Ho.
      destruct (lt_dec t (length (thr (begin_call w t)))) as [Hlt|Hge].
      * exact (proj1 (final_core (begin_call w t) h t o Hlt Ht')).
      * rewrite step_core_oob in Ht' by lia. cbn [fst] in Ht'. rewrite get_oob in Ht' by lia. discriminate.
    + rewrite step_other in Ht' by auto. exact (ti_fin _ _ _ (inv_thr w I t') o Ht').
Qed.

Lemma fend_step w h t o :
  Inv w -> completed w o = false -> completed (fst (step w t)) o = true ->
  phase o (oviews (hnext h w t) t) (fst (step w t)) (hnext h w t).
Proof.
  intros I Hf Ht. unfold hnext. rewrite step_eq in *.
  destruct (begin_call_shared w t) as (_ & Hc & _).
  apply fend_core; [apply inv_begin_call; exact I | rewrite Hc; exact Hf | exact Ht].
Qed.

(* a call on o returns: the word was 2 before the step, and whatever the hand-off has in store is in the caller's view *)
Lemma return_step w t o :
  Inv w -> returned (get (fst (step w t)) t) = o :: returned (get w t) -> once w o = 2.
Proof.
  intros I H. rewrite step_eq in H.
  destruct (begin_call_shared w t) as (Ho & _ & Hr). rewrite <- Ho.
  rewrite <- Hr in H. exact (proj1 (return_core (begin_call w t) ohb0 t o (inv_begin_call w t I) H)).
Qed.

Lemma return_view w h t o r :
  Inv w -> phase o r w h -> returned (get (fst (step w t)) t) = o :: returned (get w t) ->
  vle r (oviews (hnext h w t) t).
Proof.
  intros I P H. pose proof (phase_begin w h t o r P) as P1. clear P.
  assert (I1 := inv_begin_call w t I).
  unfold hnext. rewrite step_eq in H.
  destruct (begin_call_shared w t) as (_ & _ & Hr). rewrite <- Hr in H.
  destruct (return_core (begin_call w t) h t o I1 H) as [H2 Hv].
  destruct P1 as [(_ & Hrel & Q)|(tw & Hw & _)].
  - rewrite step_eq. destruct Hv as [Hv|Hpc].
    + eapply HbProof.vle_trans; [exact Hrel|exact Hv].
    + eapply HbProof.vle_trans; [exact (Q t Hpc)|apply ohb_step_grows].
  - pose proof (win_once1 _ _ _ _ _ I1 Hw). lia.
Qed.

Lemma two_stays w t o : once w o = 2 -> once (fst (step w t)) o = 2.
Proof.
  intros H2. rewrite step_eq.
  destruct (begin_call_shared w t) as (Ho & _ & _). rewrite <- Ho in H2. revert H2.
  generalize (begin_call w t). intros w1 H2.
  unfold step_core, do_lock, do_unlock, ret, set_pc, set_thr, set_mu.
  destruct (pc (get w1 t)) as [|o0 sp|o0 sp|o0 z|o0 sp|o0 sp|o0|o0 sp|o0 sp|o0|o0|o0 sp|o0 sp|o0|o0|o0|o0|o0];
    cbv zeta; brk_core; cbn [fst once]; try exact H2.
  all: unfold fupd; destruct (Nat.eqb_spec o o0) as [->|Hne]; try exact H2; try reflexivity.
  all: match goal with E : (once _ _ =? 0) = true |- _ => apply Z.eqb_eq in E; lia end.
Qed.

Lemma completed_stays w t o : completed w o = true -> completed (fst (step w t)) o = true.
Proof.
  intros Hc. rewrite step_eq.
  destruct (begin_call_shared w t) as (_ & Hc' & _). rewrite <- Hc' in Hc. revert Hc.
  generalize (begin_call w t). intros w1 Hc.
  unfold step_core, do_lock, do_unlock, ret, set_pc, set_thr, set_mu.
  destruct (pc (get w1 t)); cbv zeta; brk_core; cbn [fst completed]; try exact Hc.
  all: unfold fupd; destruct (Nat.eqb o _); [reflexivity|exact Hc].
Qed.

(* ================================================================== *)
(* Part 4: the hand-off theorems                                       *)
(* ================================================================== *)
Lemma run_hb_once_cons w h t rest :
  run_hb_once w h (t :: rest) =
  mk_oobs t w (fst (step w t)) (snd (step w t)) (oviews h t) (oviews (hnext h w t) t)
    :: run_hb_once (fst (step w t)) (hnext h w t) rest.
Proof. unfold hnext. cbn [run_hb_once]. destruct (step w t); reflexivity. Qed.

(* the view before a step is contained in the view after it *)
Lemma pre_le_view : forall sched w h i oi,
  nth_error (run_hb_once w h sched) i = Some oi -> vle (ob_pre oi) (ob_view oi).
Proof.
  induction sched as [|t rest IH]; intros w h i oi Hi.
  - destruct i; discriminate Hi.
  - rewrite run_hb_once_cons in Hi. destruct i as [|i]; cbn [nth_error] in Hi.
    + injection Hi as <-. cbn [ob_pre ob_view]. apply ohb_step_grows.
    + eapply IH. exact Hi.
Qed.

(* program order: a thread's view only grows, and no other thread's step touches it *)
Lemma program_order : forall sched w h i j oi oj,
  nth_error (run_hb_once w h sched) i = Some oi -> nth_error (run_hb_once w h sched) j = Some oj ->
  (i <= j)%nat -> ob_t oi = ob_t oj -> vle (ob_view oi) (ob_view oj).
Proof.
  assert (G : forall sched w h j oj u r, vle r (oviews h u) ->
            nth_error (run_hb_once w h sched) j = Some oj -> ob_t oj = u -> vle r (ob_view oj)).
  { induction sched as [|t rest IH]; intros w h j oj u r Hr Hj Hu.
    - destruct j; discriminate Hj.
    - rewrite run_hb_once_cons in Hj. destruct j as [|j]; cbn [nth_error] in Hj.
      + injection Hj as <-. cbn [ob_t ob_view] in *. subst u.
        eapply HbProof.vle_trans; [exact Hr | apply ohb_step_grows].
      + eapply (IH _ _ j oj u r); [|exact Hj|exact Hu].
        unfold hnext. destruct (Nat.eq_dec u t) as [->|n].
        * eapply HbProof.vle_trans; [exact Hr | apply ohb_step_grows].
        * rewrite ohb_step_other by auto. exact Hr. }
  induction sched as [|t rest IH]; intros w h i j oi oj Hi Hj Hle Ht.
  - destruct i; discriminate Hi.
  - rewrite run_hb_once_cons in Hi, Hj. destruct i as [|i]; cbn [nth_error] in Hi.
    + injection Hi as <-. cbn [ob_t ob_view] in *.
      destruct j as [|j]; cbn [nth_error] in Hj.
      * injection Hj as <-. cbn [ob_view]. apply HbProof.vle_refl.
      * eapply (G rest _ _ j oj t); [apply HbProof.vle_refl | exact Hj | auto].
    + destruct j as [|j]; [lia|]. cbn [nth_error] in Hj. eapply IH; eauto. lia.
Qed.

(* once the hand-off for word o and view r is under way, r is in the view of every caller that returns later *)
Lemma return_later : forall sched w h j oj o r,
  Inv w -> phase o r w h ->
  nth_error (run_hb_once w h sched) j = Some oj -> once_returns o oj -> vle r (ob_view oj).
Proof.
  induction sched as [|t rest IH]; intros w h j oj o r I P Hj Hret.
  - destruct j; discriminate Hj.
  - rewrite run_hb_once_cons in Hj. destruct j as [|j]; cbn [nth_error] in Hj.
    + injection Hj as <-. unfold once_returns in Hret. cbn [ob_w ob_w' ob_t ob_view] in *.
      eapply return_view; eauto.
    + eapply IH; [apply inv_step; exact I | apply phase_step; eauto | exact Hj | exact Hret].
Qed.

(* a word that is 2 stays 2; a completed function is not completed again *)
Lemma no_publish_after : forall sched w h i oi o,
  once w o = 2 -> nth_error (run_hb_once w h sched) i = Some oi -> ~ once_publishes o oi.
Proof.
  induction sched as [|t rest IH]; intros w h i oi o H2 Hi Hpub.
  - destruct i; discriminate Hi.
  - rewrite run_hb_once_cons in Hi. destruct i as [|i]; cbn [nth_error] in Hi.
    + injection Hi as <-. destruct Hpub as [Hf _]. cbn [ob_w] in Hf. congruence.
    + eapply (IH (fst (step w t)) (hnext h w t) i oi o); [apply two_stays; assumption | exact Hi | exact Hpub].
Qed.

Lemma no_fend_after : forall sched w h i oi o,
  completed w o = true -> nth_error (run_hb_once w h sched) i = Some oi -> ~ once_fn_ends o oi.
Proof.
  induction sched as [|t rest IH]; intros w h i oi o Hc Hi Hpub.
  - destruct i; discriminate Hi.
  - rewrite run_hb_once_cons in Hi. destruct i as [|i]; cbn [nth_error] in Hi.
    + injection Hi as <-. destruct Hpub as [Hf _]. cbn [ob_w] in Hf. congruence.
    + eapply (IH (fst (step w t)) (hnext h w t) i oi o); [apply completed_stays; assumption | exact Hi | exact Hpub].
Qed.

Section Handoff.
  (* an event on word o that starts the hand-off and cannot happen once the word is 2 *)
  Variable E : nat -> oobs -> Prop.
  Hypothesis E_first : forall w h t o, Inv w ->
    E o (mk_oobs t w (fst (step w t)) (snd (step w t)) (oviews h t) (oviews (hnext h w t) t)) ->
    once w o <> 2 /\ phase o (oviews (hnext h w t) t) (fst (step w t)) (hnext h w t).
  Hypothesis E_never : forall sched w h i oi o, Inv w -> once w o = 2 ->
    nth_error (run_hb_once w h sched) i = Some oi -> ~ E o oi.

  Lemma handoff_gen : forall sched w h i j oi oj o,
    Inv w ->
    nth_error (run_hb_once w h sched) i = Some oi -> nth_error (run_hb_once w h sched) j = Some oj ->
    E o oi -> once_returns o oj ->
    (i < j)%nat /\ vle (ob_view oi) (ob_view oj).
  Proof.
    induction sched as [|t rest IH]; intros w h i j oi oj o I Hi Hj Hev Hret.
    - destruct i; discriminate Hi.
    - rewrite run_hb_once_cons in Hi, Hj.
      destruct i as [|i]; cbn [nth_error] in Hi.
      + injection Hi as <-. destruct (E_first w h t o I Hev) as [Hn2 P]. cbn [ob_view].
        destruct j as [|j]; cbn [nth_error] in Hj.
        * injection Hj as <-. unfold once_returns in Hret. cbn [ob_w ob_w' ob_t] in Hret.
          pose proof (return_step w t o I Hret). contradiction.
        * split; [lia|].
          eapply return_later; [apply inv_step; exact I | exact P | exact Hj | exact Hret].
      + destruct j as [|j]; cbn [nth_error] in Hj.
        * injection Hj as <-. unfold once_returns in Hret. cbn [ob_w ob_w' ob_t] in Hret.
          pose proof (return_step w t o I Hret) as H2.
          exfalso. eapply (E_never rest (fst (step w t)) (hnext h w t) i oi o);
            [apply inv_step; exact I | apply two_stays; exact H2 | exact Hi | exact Hev].
        * destruct (IH (fst (step w t)) (hnext h w t) i j oi oj o) as [Hlt Hv];
            [apply inv_step; exact I | exact Hi | exact Hj | exact Hev | exact Hret |].
          split; [lia | exact Hv].
  Qed.
End Handoff.

(* for any environment (slots, termination, locks), any number of threads, programs (calls on any words, blocking or
   spinning variants) and schedules: the store that makes word o 2 precedes every return of a call on o, and what the
   winner had in its view at the store is in the view of the returning thread *)
Lemma once_handoff : forall e progs sched i j oi oj o,
  let tr := run_hb_once (init e progs) ohb0 sched in
  nth_error tr i = Some oi -> nth_error tr j = Some oj ->
  once_publishes o oi -> once_returns o oj ->
  (i < j)%nat /\ vle (ob_pre oi) (ob_view oj) /\ vle (ob_view oi) (ob_view oj).
Proof.
  intros e progs sched i j oi oj o tr Hi Hj Hpub Hret. subst tr.
  destruct (handoff_gen once_publishes) with (sched := sched) (w := init e progs) (h := ohb0) (i := i) (j := j)
    (oi := oi) (oj := oj) (o := o) as [Hlt Hv]; auto.
  - intros w h t o' I [Hf Ht]. cbn [ob_w ob_w'] in *. split; [exact Hf|]. apply publish_step; auto.
  - intros sched' w h i' oi' o' _ H2. apply no_publish_after; auto.
  - apply inv_init.
  - split; [exact Hlt|]. split; [|exact Hv].
    eapply HbProof.vle_trans; [eapply pre_le_view; exact Hi | exact Hv].
Qed.

(* the same from the moment the once-function RETURNS (OnceModel's f-end step, which the winner makes before its store):
   that step precedes every return of a call on o, and the winner's view at it -- the whole run of the once-function --
   is in the view of the returning thread *)
Lemma once_fn_handoff : forall e progs sched i j oi oj o,
  let tr := run_hb_once (init e progs) ohb0 sched in
  nth_error tr i = Some oi -> nth_error tr j = Some oj ->
  once_fn_ends o oi -> once_returns o oj ->
  (i < j)%nat /\ vle (ob_pre oi) (ob_view oj) /\ vle (ob_view oi) (ob_view oj).
Proof.
  intros e progs sched i j oi oj o tr Hi Hj Hpub Hret. subst tr.
  destruct (handoff_gen once_fn_ends) with (sched := sched) (w := init e progs) (h := ohb0) (i := i) (j := j)
    (oi := oi) (oj := oj) (o := o) as [Hlt Hv]; auto.
  - intros w h t o' I [Hf Ht]. cbn [ob_w ob_w'] in *. split.
    + intros H2. pose proof (done_completed w o' I H2). congruence.
    + apply fend_step; auto.
  - intros sched' w h i' oi' o' I H2. apply no_fend_after. apply done_completed; auto.
  - apply inv_init.
  - split; [exact Hlt|]. split; [|exact Hv].
    eapply HbProof.vle_trans; [eapply pre_le_view; exact Hi | exact Hv].
Qed.

(* for the concrete examples: a property of the i-th observation, computed without destructing the trace *)
Definition opt_holds {A} (o : option A) (P : A -> Prop) : Prop := match o with Some x => P x | None => False end.
Lemma opt_holds_ex {A} (o : option A) (P : A -> Prop) : opt_holds o P -> exists x, o = Some x /\ P x.
Proof. destruct o as [x|]; cbn; [eauto | contradiction]. Qed.

(* ================================================================== *)
(* Part 5: the note flag (inventory only)                              *)
(* ================================================================== *)
(* Every atomic access to a `notified' flag, in every file of the inventory: the flag is set by a release store and
   by nothing else (no relaxed store, no read-modify-write), and every load of it -- in particular every load that
   lets a caller conclude "notified" -- is an acquire load. *)
Definition all_sites : list site :=
  sites_common_c ++ sites_counter_c ++ sites_cv_c ++ sites_debug_c ++ sites_mu_c ++ sites_mu_wait_c ++ sites_note_c ++
  sites_nsync_semaphore_futex_c ++ sites_once_c ++ sites_per_thread_waiter_c ++ sites_sem_wait_c ++ sites_wait_c.
Definition on_notified (x : site) : bool := String.prefix "notified." (s_target x).
Definition flag_access_ok (x : site) : bool :=
  match s_kind x with Kstore => has_rel (s_order x) | Kload => has_acq (s_order x) | Kcas => false end.

Lemma note_flag_orders :
  forallb flag_access_ok (filter on_notified all_sites) = true /\
  (* the store of nsync_note_notify's note_notify_child, and the loads behind nsync_note_is_notified /
     nsync_note_wait / nsync_note_expiry users (notified_deadline_), the waitable callbacks and the cancel note *)
  has_rel (site_order_in sites_note_c "note_notify_child" 2 Kstore "notified.n") = true /\
  Forall (fun fn => has_acq (site_order_in sites_note_c (fst fn) (snd fn) Kload "notified.n") = true)
         [("note_notify_child", 1%nat); ("notify", 1%nat); ("nsync_note_notified_deadline_", 1%nat);
          ("nsync_note_notified_deadline_", 2%nat); ("note_enqueue", 1%nat); ("note_dequeue", 1%nat)]%string /\
  Forall (fun n => has_acq (site_order_in sites_sem_wait_c "nsync_sem_wait_with_cancel_" n Kload "notified.cancel_note") = true)
         [2%nat; 3%nat].
Proof.
  split; [vm_compute; reflexivity|]. split; [vm_compute; reflexivity|].
  split; repeat constructor; vm_compute; reflexivity.
Qed.
