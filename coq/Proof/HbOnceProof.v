(* C03, once hand-off: in every execution of OnceModel, instrumented by Model/HbOnce.v (which credits ONLY the memory
   orders requested in the C source, Gen/Sites.v), the view of the thread that ran the once-function, at its
   ATM_STORE_REL (once, 2), is contained in the view of every thread at every return of a call on that word.
   Part 1 is the only place where the regenerated inventory is evaluated: if the store became relaxed, or one of the
   loads that let a caller return (the entry load of any of the four public functions, impl#1, impl#5) became relaxed,
   [once_orders] fails and with it everything below.
   No axioms, nothing admitted. *)
From Coq Require Import List ZArith Bool String Lia PeanoNat Arith.
From NsyncBase Require Import CSem.
From NsyncGen Require Import Consts Sites.
From NsyncModel Require Import HbModel.
From NsyncProof Require HbProof.
From NsyncModel Require Import OnceModel HbOnce.
From NsyncProof Require Import OnceProof.
Import ListNotations.
Local Open Scope Z_scope.

(* ================================================================== *)
(* Part 1: the orders the proof needs, computed from the inventory     *)
(* ================================================================== *)
Lemma once_orders :
  has_rel (once_order_of Kstore 14) = true /\
  Forall (fun s => has_acq (once_order_of Kload s) = true) [1; 11; 15].
Proof. split; [vm_compute; reflexivity | repeat constructor; vm_compute; reflexivity]. Qed.

Lemma rel14 : has_rel (once_order_of Kstore 14) = true.
Proof. exact (proj1 once_orders). Qed.
Lemma acq_loads s : In s [1; 11; 15] -> has_acq (once_order_of Kload s) = true.
Proof. apply (proj1 (Forall_forall _ _) (proj2 once_orders)). Qed.
Lemma acq1 : has_acq (once_order_of Kload 1) = true.
Proof. apply acq_loads. cbn. tauto. Qed.
Lemma acq11 : has_acq (once_order_of Kload 11) = true.
Proof. apply acq_loads. cbn. tauto. Qed.
Lemma acq15 : has_acq (once_order_of Kload 15) = true.
Proof. apply acq_loads. cbn. tauto. Qed.

(* from here on the orders are used through the four lemmas above only *)
Local Opaque once_order_of.

(* ================================================================== *)
(* Part 2: views                                                       *)
(* ================================================================== *)
Lemma vle_tick v t : vle v (vtick v t).
Proof. intros x. unfold vtick. destruct (Nat.eqb x t); lia. Qed.

Lemma vle_tick_join v t b : vle v (vjoin (vtick v t) b).
Proof. eapply HbProof.vle_trans; [apply vle_tick | apply HbProof.vle_join_l]. Qed.

(* a thread's own view only grows *)
Lemma ohb_step_grows h t x e : vle (oviews h t) (oviews (ohb_step h t x e) t).
Proof.
  unfold ohb_step.
  destruct x as [o|]; [destruct e as [s v|s [|]|s v|]|]; cbn [oviews]; rewrite fupd_same;
    try destruct (has_acq _); first [apply vle_tick | apply vle_tick_join].
Qed.

(* ================================================================== *)
(* Part 3: one step of the model against one step of the instrumentation *)
(* ================================================================== *)
Definition hnext (h : ohb) (w : world) (t : nat) : ohb :=
  ohb_step h t (pc_obj (pc (get (begin_call w t) t))) (snd (step w t)).

Lemma begin_call_shared w t :
  once (begin_call w t) = once w /\ completed (begin_call w t) = completed w /\
  returned (get (begin_call w t) t) = returned (get w t).
Proof.
  destruct (begin_call_cases w t) as [[-> _]|(o&sp&rest&Hpc&Hc&->)]; [auto|].
  cbn [once completed]. repeat split.
  rewrite get_upd_same; [reflexivity|]. apply calls_in_range. rewrite Hc. discriminate.
Qed.

(* the step that completes word o is the winner's store; it publishes the winner's view *)
Lemma publish_core w h t o :
  completed w o = false -> completed (fst (step_core w t)) o = true ->
  once (fst (step_core w t)) o = 2 /\
  vle (oviews (ohb_step h t (pc_obj (pc (get w t))) (snd (step_core w t))) t)
      (orel (ohb_step h t (pc_obj (pc (get w t))) (snd (step_core w t))) o).
Proof.
  intros Hf. unfold step_core.
  destruct (pc (get w t)) as [|o0 sp|o0 sp|o0 sp|o0 sp|o0 sp|o0 sp] eqn:Hpc; cbv zeta;
    repeat match goal with |- context [if ?c then _ else _] => destruct c end;
    cbn [fst snd]; unfold ret, set_pc; cbn [completed]; try congruence.
  (* ORunning *)
  unfold fupd at 1. destruct (Nat.eqb_spec o o0) as [->|Hne]; [intros _|congruence].
  cbn [once pc_obj]. split; [apply fupd_same|].
  unfold ohb_step. rewrite rel14. cbn [oviews orel]. rewrite !fupd_same. apply HbProof.vle_refl.
Qed.

(* once a word is 2 it stays 2, and nothing takes anything out of its release view *)
Lemma keep_core w h t o r :
  Inv w -> once w o = 2 -> vle r (orel h o) ->
  once (fst (step_core w t)) o = 2 /\
  vle r (orel (ohb_step h t (pc_obj (pc (get w t))) (snd (step_core w t))) o).
Proof.
  intros I H2 Hr.
  assert (d : norun w o).
  { destruct (inv_obj w I o) as [(a&_)|[(a&_)|(_&_&_&d)]]; [lia|lia|exact d]. }
  unfold step_core.
  destruct (pc (get w t)) as [|o0 sp|o0 sp|o0 sp|o0 sp|o0 sp|o0 sp] eqn:Hpc; cbv zeta; cbn [pc_obj].
  - split; assumption.
  - destruct (once w o0 =? 2); cbn [fst snd]; split; assumption.
  - destruct (negb (once w o0 =? 2)); [destruct (_ && _)|]; cbn [fst snd]; split; assumption.
  - destruct (once w o0 =? 0) eqn:E0; cbn [fst snd]; [|split; assumption].
    assert (Hne : o <> o0) by (intros ->; rewrite H2 in E0; discriminate).
    cbn [once]. rewrite fupd_other by exact Hne. split; [exact H2|].
    unfold ohb_step. destruct (has_rel _); cbn [orel]; [rewrite fupd_other by exact Hne|]; exact Hr.
  - destruct (once w o0 =? 0); cbn [fst snd]; split; assumption.
  - assert (Hne : o <> o0) by (intros ->; exact (d t sp Hpc)).
    cbn [fst snd once]. rewrite fupd_other by exact Hne. split; [exact H2|].
    unfold ohb_step. cbn [orel]. rewrite fupd_other by exact Hne. exact Hr.
  - destruct (once w o0 =? 2); cbn [fst snd]; split; assumption.
Qed.

(* a step at which a call on word o returns read 2 from that word with an acquire load *)
Lemma return_core w h t o :
  returned (get (fst (step_core w t)) t) = o :: returned (get w t) ->
  once w o = 2 /\
  vle (orel h o) (oviews (ohb_step h t (pc_obj (pc (get w t))) (snd (step_core w t))) t).
Proof.
  destruct (lt_dec t (length (thr w))) as [Hlt|Hge].
  2:{ rewrite step_core_oob by lia. cbn [fst]. intros H. symmetry in H. exfalso. revert H. apply cons_neq. }
  unfold step_core.
  destruct (pc (get w t)) as [|o0 sp|o0 sp|o0 sp|o0 sp|o0 sp|o0 sp] eqn:Hpc; cbv zeta; cbn [pc_obj].
  - cbn [fst]. intros H. symmetry in H. exfalso. revert H. apply cons_neq.
  - destruct (once w o0 =? 2) eqn:E; cbn [fst snd].
    + rewrite get_ret_same by exact Hlt. cbn [returned]. intros H. injection H as ->.
      apply Z.eqb_eq in E. split; [exact E|].
      unfold ohb_step. rewrite acq1. cbn [oviews]. rewrite fupd_same. apply HbProof.vle_join_r.
    + rewrite get_set_pc_same by exact Hlt. cbn [returned]. intros H. symmetry in H. exfalso. revert H. apply cons_neq.
  - destruct (once w o0 =? 2) eqn:E; cbn [negb andb]; [|destruct (once w o0 =? 0)]; cbn [fst snd].
    + rewrite get_ret_same by exact Hlt. cbn [returned]. intros H. injection H as ->.
      apply Z.eqb_eq in E. split; [exact E|].
      unfold ohb_step. rewrite acq11. cbn [oviews]. rewrite fupd_same. apply HbProof.vle_join_r.
    + rewrite get_set_pc_same by exact Hlt. cbn [returned]. intros H. symmetry in H. exfalso. revert H. apply cons_neq.
    + rewrite get_set_pc_same by exact Hlt. cbn [returned]. intros H. symmetry in H. exfalso. revert H. apply cons_neq.
  - destruct (once w o0 =? 0); cbn [fst snd].
    + rewrite get_upd_same by exact Hlt. cbn [returned]. intros H. symmetry in H. exfalso. revert H. apply cons_neq.
    + rewrite get_set_pc_same by exact Hlt. cbn [returned]. intros H. symmetry in H. exfalso. revert H. apply cons_neq.
  - destruct (once w o0 =? 0); cbn [fst snd];
      rewrite get_set_pc_same by exact Hlt; cbn [returned]; intros H; symmetry in H; exfalso; revert H; apply cons_neq.
  - cbn [fst snd]. rewrite get_upd_same by exact Hlt. cbn [returned].
    intros H. symmetry in H. exfalso. revert H. apply cons_neq.
  - destruct (once w o0 =? 2) eqn:E; cbn [fst snd].
    + rewrite get_ret_same by exact Hlt. cbn [returned]. intros H. injection H as ->.
      apply Z.eqb_eq in E. split; [exact E|].
      unfold ohb_step. rewrite acq15. cbn [oviews]. rewrite fupd_same. apply HbProof.vle_join_r.
    + intros H. symmetry in H. exfalso. revert H. apply cons_neq.
Qed.

(* the same three facts for [step] = [step_core] after [begin_call] *)
Lemma publish_step w h t o :
  completed w o = false -> completed (fst (step w t)) o = true ->
  once (fst (step w t)) o = 2 /\ vle (oviews (hnext h w t) t) (orel (hnext h w t) o).
Proof.
  intros Hf Ht. unfold hnext. rewrite step_eq in *.
  destruct (begin_call_shared w t) as (_ & Hc & _).
  apply publish_core; [rewrite Hc; exact Hf | exact Ht].
Qed.

Lemma keep_step w h t o r :
  Inv w -> once w o = 2 -> vle r (orel h o) ->
  once (fst (step w t)) o = 2 /\ vle r (orel (hnext h w t) o).
Proof.
  intros I H2 Hr. unfold hnext. rewrite step_eq.
  destruct (begin_call_shared w t) as (Ho & _ & _).
  apply keep_core; [apply inv_begin_call; exact I | rewrite Ho; exact H2 | exact Hr].
Qed.

Lemma return_step w h t o :
  returned (get (fst (step w t)) t) = o :: returned (get w t) ->
  once w o = 2 /\ vle (orel h o) (oviews (hnext h w t) t).
Proof.
  intros H. unfold hnext. rewrite step_eq in *.
  destruct (begin_call_shared w t) as (Ho & _ & Hr). rewrite <- Ho.
  apply return_core. rewrite Hr. exact H.
Qed.

Lemma completed_stays w t o : Inv w -> completed w o = true -> completed (fst (step w t)) o = true.
Proof.
  intros I Hc.
  assert (H2 : once w o = 2).
  { destruct (inv_obj w I o) as [(_&_&c&_)|[(_&_&c&_)|(a&_)]]; [congruence|congruence|exact a]. }
  destruct (keep_step w ohb0 t o vbot I H2 (HbProof.vle_refl _)) as [H2' _].
  apply done_completed; [apply inv_step; exact I | exact H2'].
Qed.

(* ================================================================== *)
(* Part 4: the hand-off theorem                                        *)
(* ================================================================== *)
Lemma run_hb_once_cons w h t rest :
  run_hb_once w h (t :: rest) =
  mk_oobs t w (fst (step w t)) (snd (step w t)) (oviews h t) (oviews (hnext h w t) t)
    :: run_hb_once (fst (step w t)) (hnext h w t) rest.
Proof. unfold hnext. cbn [run_hb_once]. destruct (step w t); reflexivity. Qed.

(* the view before a step is contained in the view after it *)
Lemma pre_le_view : forall sched w h i oi,
  nth_error (run_hb_once w h sched) i = Some oi -> vle (ob_pre oi) (ob_view oi).
Proof.
  induction sched as [|t rest IH]; intros w h i oi Hi.
  - destruct i; discriminate Hi.
  - rewrite run_hb_once_cons in Hi. destruct i as [|i]; cbn [nth_error] in Hi.
    + injection Hi as <-. cbn [ob_pre ob_view]. apply ohb_step_grows.
    + eapply IH. exact Hi.
Qed.

(* once the word is 2, anything below its release view is below the view of every caller that returns later *)
Lemma return_later : forall sched w h j oj o r,
  Inv w -> once w o = 2 -> vle r (orel h o) ->
  nth_error (run_hb_once w h sched) j = Some oj -> once_returns o oj -> vle r (ob_view oj).
Proof.
  induction sched as [|t rest IH]; intros w h j oj o r I H2 Hr Hj Hret.
  - destruct j; discriminate Hj.
  - rewrite run_hb_once_cons in Hj. destruct j as [|j]; cbn [nth_error] in Hj.
    + injection Hj as <-. unfold once_returns in Hret. cbn [ob_w ob_w' ob_t ob_view] in *.
      destruct (return_step w h t o Hret) as [_ Hv].
      eapply HbProof.vle_trans; [exact Hr | exact Hv].
    + destruct (keep_step w h t o r I H2 Hr) as [H2' Hr'].
      eapply IH; [apply inv_step; exact I | exact H2' | exact Hr' | exact Hj | exact Hret].
Qed.

(* a completed word is not completed again *)
Lemma no_publish_after : forall sched w h i oi o,
  Inv w -> completed w o = true -> nth_error (run_hb_once w h sched) i = Some oi -> ~ once_publishes o oi.
Proof.
  induction sched as [|t rest IH]; intros w h i oi o I Hc Hi Hpub.
  - destruct i; discriminate Hi.
  - rewrite run_hb_once_cons in Hi. destruct i as [|i]; cbn [nth_error] in Hi.
    + injection Hi as <-. destruct Hpub as [Hf _]. cbn [ob_w] in Hf. congruence.
    + eapply (IH (fst (step w t)) (hnext h w t) i oi o);
        [apply inv_step; exact I | apply completed_stays; assumption | exact Hi | exact Hpub].
Qed.

Lemma handoff_gen : forall sched w h i j oi oj o,
  Inv w ->
  nth_error (run_hb_once w h sched) i = Some oi -> nth_error (run_hb_once w h sched) j = Some oj ->
  once_publishes o oi -> once_returns o oj ->
  (i < j)%nat /\ vle (ob_view oi) (ob_view oj).
Proof.
  induction sched as [|t rest IH]; intros w h i j oi oj o I Hi Hj Hpub Hret.
  - destruct i; discriminate Hi.
  - rewrite run_hb_once_cons in Hi, Hj.
    destruct i as [|i]; cbn [nth_error] in Hi.
    + injection Hi as <-. destruct Hpub as [Hf Ht]. cbn [ob_w ob_w' ob_view] in *.
      destruct (publish_step w h t o Hf Ht) as [H2 Hv].
      destruct j as [|j]; cbn [nth_error] in Hj.
      * injection Hj as <-. unfold once_returns in Hret. cbn [ob_w ob_w' ob_t] in Hret.
        destruct (return_step w h t o Hret) as [H2w _].
        pose proof (done_completed w o I H2w). congruence.
      * split; [lia|].
        eapply return_later; [apply inv_step; exact I | exact H2 | exact Hv | exact Hj | exact Hret].
    + destruct j as [|j]; cbn [nth_error] in Hj.
      * injection Hj as <-. unfold once_returns in Hret. cbn [ob_w ob_w' ob_t] in Hret.
        destruct (return_step w h t o Hret) as [H2w _].
        pose proof (done_completed w o I H2w) as Hc.
        exfalso. eapply (no_publish_after rest (fst (step w t)) (hnext h w t) i oi o);
          [apply inv_step; exact I | apply completed_stays; assumption | exact Hi | exact Hpub].
      * destruct (IH (fst (step w t)) (hnext h w t) i j oi oj o) as [Hlt Hv];
          [apply inv_step; exact I | exact Hi | exact Hj | exact Hpub | exact Hret |].
        split; [lia | exact Hv].
Qed.

(* for any number of threads, programs (calls on any words, blocking or spinning variants) and schedules:
   the store that completes word o precedes every return of a call on o, and what the winner had in its view at the
   store -- in particular the whole run of the once-function -- is in the view of the returning thread *)
Lemma once_handoff : forall progs sched i j oi oj o,
  let tr := run_hb_once (init progs) ohb0 sched in
  nth_error tr i = Some oi -> nth_error tr j = Some oj ->
  once_publishes o oi -> once_returns o oj ->
  (i < j)%nat /\ vle (ob_pre oi) (ob_view oj) /\ vle (ob_view oi) (ob_view oj).
Proof.
  intros progs sched i j oi oj o tr Hi Hj Hpub Hret. subst tr.
  destruct (handoff_gen sched (init progs) ohb0 i j oi oj o (inv_init progs) Hi Hj Hpub Hret) as [Hlt Hv].
  split; [exact Hlt|]. split; [|exact Hv].
  eapply HbProof.vle_trans; [eapply pre_le_view; exact Hi | exact Hv].
Qed.

(* ================================================================== *)
(* Part 5: the note flag (inventory only)                              *)
(* ================================================================== *)
(* Every atomic access to a `notified' flag, in every file of the inventory: the flag is set by a release store and
   by nothing else (no relaxed store, no read-modify-write), and every load of it -- in particular every load that
   lets a caller conclude "notified" -- is an acquire load. *)
Definition all_sites : list site :=
  sites_common_c ++ sites_counter_c ++ sites_cv_c ++ sites_debug_c ++ sites_mu_c ++ sites_mu_wait_c ++ sites_note_c ++
  sites_nsync_semaphore_futex_c ++ sites_once_c ++ sites_per_thread_waiter_c ++ sites_sem_wait_c ++ sites_wait_c.
Definition on_notified (x : site) : bool := String.prefix "notified." (s_target x).
Definition flag_access_ok (x : site) : bool :=
  match s_kind x with Kstore => has_rel (s_order x) | Kload => has_acq (s_order x) | Kcas => false end.

Lemma note_flag_orders :
  forallb flag_access_ok (filter on_notified all_sites) = true /\
  (* the store of nsync_note_notify's note_notify_child, and the loads behind nsync_note_is_notified /
     nsync_note_wait / nsync_note_expiry users (notified_deadline_), the waitable callbacks and the cancel note *)
  has_rel (site_order_in sites_note_c "note_notify_child" 2 Kstore "notified.n") = true /\
  Forall (fun fn => has_acq (site_order_in sites_note_c (fst fn) (snd fn) Kload "notified.n") = true)
         [("note_notify_child", 1%nat); ("notify", 1%nat); ("nsync_note_notified_deadline_", 1%nat);
          ("nsync_note_notified_deadline_", 2%nat); ("note_enqueue", 1%nat); ("note_dequeue", 1%nat)]%string /\
  Forall (fun n => has_acq (site_order_in sites_sem_wait_c "nsync_sem_wait_with_cancel_" n Kload "notified.cancel_note") = true)
         [2%nat; 3%nat].
Proof.
  split; [vm_compute; reflexivity|]. split; [vm_compute; reflexivity|].
  split; repeat constructor; vm_compute; reflexivity.
Qed.
