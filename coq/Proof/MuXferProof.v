(* MuXferProof: mutual exclusion for the combined model Model/MuXferModel.v (MuModel + the part of cv.c that works
   on the mutex: wait = unlock / park / re-acquire (afresh or as designated waker after a transfer), signal /
   broadcast / wake_waiters with the transfer of cv waiters to the mutex queue).

   Part 1  the two words wake_waiters writes to the mutex (Gen/Sites.v: wake_waiters_cas1_new, wake_waiters_cas2_new)
           leave the lock field alone (SL of Proof/WordView.v), proved from the GENERATED expressions.
   Part 2  two facts about MuModel.step: an unlock in progress ends Idle holding nothing; an acquisition in mode m in
           progress ends Idle holding m, and that last step is a successful CAS of mu.c.
   Part 3  the wrapper invariant XInv = MuProof.Inv on the mutex component + a relation between the wrapper pc of a
           thread and its MuModel state + "every logged return of XWait m holds m"; preservation by every step.
   Part 4  the lemmas used by Props/Properties_C01x.v. *)
From NsyncBase Require Import CSem.
From NsyncGen Require Import Consts Sites.
From NsyncModel Require Import MuModel MuSpec.
From NsyncProof Require Import WordView MuProof MuProof2.
From NsyncModel Require Import MuXferModel.
From Coq Require Import List ZArith Bool Lia PeanoNat.
Import ListNotations.
Local Open Scope Z_scope.

(* ================================================================== *)
(* Part 1: wake_waiters' writes to the mutex word                      *)
(* ================================================================== *)
Lemma wake_cas1_new_eq old :
  wake_waiters_cas1_new old =
  wrap_u 32 (Z.land (wrap_u 32 (Z.lor (wrap_u 32 (Z.lor old 2)) 4)) (4294967295 - 128)).
Proof. reflexivity. Qed.

Lemma wake_cas1_SL old : rng old -> SL old (wake_waiters_cas1_new old).
Proof.
  intros R. rewrite wake_cas1_new_eq.
  apply SL_wland; [| apply small_128]. apply SL_wlor; [| apply small_4]. apply SL_wlor; [| apply small_2].
  now apply SL_refl.
Qed.

Lemma wake_cas2_new_eq old s c :
  wake_waiters_cas2_new old s c = wrap_u 32 (Z.land (wrap_u 32 (Z.lor old s)) (4294967295 - c)).
Proof. reflexivity. Qed.

(* clear_on_release is MU_SPINLOCK or MU_SPINLOCK | MU_WAITING: neither is a lock bit *)
Lemma wake_cas2_SL old s c : rng old -> small s -> small c -> SL old (wake_waiters_cas2_new old s c).
Proof.
  intros R S C. rewrite wake_cas2_new_eq.
  apply SL_wland; [| exact C]. apply SL_wlor; [| exact S]. now apply SL_refl.
Qed.

Lemma small_6 : small (bor MU_SPINLOCK MU_WAITING).
Proof. apply small_lor; [apply small_2 | apply small_4]. Qed.

Lemma wake_cas_old_eq old : wake_waiters_cas1_old old = old /\ wake_waiters_cas2_old old = old.
Proof. split; reflexivity. Qed.

(* set_on_release is 0 or MU_WRITER_WAITING *)
Lemma xfer_set_small nn ty fca wk : small (snd (xfer nn ty fca wk)).
Proof.
  unfold xfer. destruct wk as [|f rest]; [exact small_0|].
  destruct (xfer_rest nn ty fca (mode_eqb (ty f) W) rest (if fca then mode_eqb (ty f) W else false)
              (if fca then false else negb (mode_eqb (ty f) W))) as [[[m s] a] b].
  cbn [snd]. destruct (a && negb b); [exact small_32 | exact small_0].
Qed.

(* ================================================================== *)
(* Part 2: MuModel.step, unlocks and acquisitions in progress          *)
(* ================================================================== *)
Definition is_unl_pc (p : pc) : bool :=
  match p with
  | UlFast _ | UlLoad _ | UlCas2 _ _ | UsLoad _ | UsCasRel _ _ | UsCasSpin _ _
  | UsRelLoad _ _ | UsRelCas _ _ _ | UsWakeStore _ _ | UsWakeV _ _ _ | Crash _ => true
  | _ => false
  end.
Definition is_acq_pc (m : mode) (p : pc) : bool :=
  match p with
  | LkFast m' | LkLoad m' | LkCas2 m' _ | LsLoad m' _ | LsCasAcq m' _ _ | LsCasEnq m' _ _ | LsStoreWaiting m' _
  | LsRelLoad m' _ | LsRelCas m' _ _ | LsWaitLoad m' _ | LsSemP m' _ => mode_eqb m m'
  | _ => false
  end.
(* a successful CAS at one of the ACQUIRING sites of mu.c: nsync_mu_lock.1 / .3 (101, 103), nsync_mu_rlock.1 / .3
   (201, 203), nsync_mu_lock_slow_.2 (502) *)
Definition is_ok_cas (e : ev) : bool :=
  match e with
  | EvCas s _ _ true => (s =? 101) || (s =? 103) || (s =? 201) || (s =? 203) || (s =? 502)
  | _ => false
  end.

Lemma mode_eqb_refl m : mode_eqb m m = true.  Proof. destruct m; reflexivity. Qed.
Lemma mode_eqb_eq a b : mode_eqb a b = true -> a = b.  Proof. destruct a, b; auto; discriminate. Qed.

Lemma unl_not_idle p : is_unl_pc p = true -> p <> Idle.  Proof. destruct p; discriminate. Qed.
Lemma acq_not_idle m p : is_acq_pc m p = true -> p <> Idle.  Proof. destruct p; discriminate. Qed.

Section Steps.
Variable n : nat.
Hypothesis Hn : Z.of_nat n < 16777215.

(* an unlock in progress stays an unlock, or ends Idle with nothing held *)
Lemma step_unl w t : Inv n w -> is_unl_pc (t_pc (get w t)) = true ->
  let w' := fst (step w t) in
  is_unl_pc (t_pc (get w' t)) = true \/ (t_pc (get w' t) = Idle /\ held (get w' t) = None).
Proof.
  intros H0 U. cbv zeta. pose proof (unl_not_idle _ U) as NI.
  pose proof (get_inb _ _ NI) as Ht. pose proof H0 as (Hlen & _ & Hok). specialize (Hok t).
  unfold step. rewrite (begin_op_nonidle _ _ NI). cbv zeta.
  destruct (get w t) as [p ops h sl lt] eqn:Hs. unfold get in Hs. rewrite Hs in Hok.
  unfold pc_ok in Hok. cbn [t_pc t_ops held sleeps last_try] in *.
  destruct p; try discriminate U; unfold cas; brk; cbn [fst]; normt Hs Ht; auto;
    try (destruct Hok as [-> _]; auto).
Qed.

(* an acquisition in mode m in progress stays one, or ends Idle holding m through a successful CAS *)
Lemma step_acq w t m : is_acq_pc m (t_pc (get w t)) = true ->
  let w' := fst (step w t) in
  is_acq_pc m (t_pc (get w' t)) = true \/
  (t_pc (get w' t) = Idle /\ held (get w' t) = Some m /\ is_ok_cas (snd (step w t)) = true).
Proof.
  intros A. cbv zeta. pose proof (acq_not_idle _ _ A) as NI.
  pose proof (get_inb _ _ NI) as Ht.
  unfold step. rewrite (begin_op_nonidle _ _ NI). cbv zeta.
  destruct (get w t) as [p ops h sl lt] eqn:Hs. unfold get in Hs.
  cbn [t_pc t_ops held sleeps last_try] in *.
  destruct p; try discriminate A; cbn [is_acq_pc] in A; apply mode_eqb_eq in A; subst;
    unfold cas; brk; cbn [fst snd]; normt Hs Ht; cbn [is_acq_pc is_ok_cas]; rewrite ?mode_eqb_refl; auto.
  all: repeat match goal with m : mode |- _ => destruct m end; right; repeat split; reflexivity.
Qed.

End Steps.

(* ================================================================== *)
(* Part 3: the wrapper invariant                                       *)
(* ================================================================== *)

(* the wrapper pc of a thread against its MuModel state *)
Definition xpc_ok (s : tstate) (xp : xpc) : Prop :=
  match xp with
  | XIdle => True
  | XCrash _ => t_pc s = Idle
  | XwStore m | XwLoadMu m => t_pc s = Idle /\ held s = Some m
  | XwEnq l => t_pc s = Idle /\ held s = Some (w_lm l) /\ w_m l = w_lm l
  | XwUnlock l => is_unl_pc (t_pc s) = true /\ w_m l = w_lm l
  | XwLoop l | XwSem l | XwLoad6 l | XwConfirm l | XwLoad13 l => t_pc s = Idle /\ held s = None /\ w_m l = w_lm l
  | XwReacq l => is_acq_pc (w_lm l) (t_pc s) = true /\ w_m l = w_lm l
  | XvLoad3 k | XvCas2 k _ | XvLoad5 k => t_pc s = Idle /\ small (k_set k) /\ small (k_clr k)
  | XkLoad _ | XkSelect _ | XvLoad1 _ | XvCas1 _ _ | XvStore _ | XvV _ _ => t_pc s = Idle
  | XnStore0 om | XnEnq om => t_pc s = Idle /\ match om with Some m => held s = Some m | None => True end
  | XnUnlock _ => is_unl_pc (t_pc s) = true
  | XnReady om | XnSem om | XnDeq om | XnSpin om => t_pc s = Idle /\ match om with Some _ => held s = None | None => True end
  | XnReacq m => is_acq_pc m (t_pc s) = true
  | XgStore m => t_pc s = Idle /\ held s = Some m
  end.
(* every logged return of XWait m holds the mutex in mode m *)
Definition rets_ok (xs : xtstate) : Prop := forall r, In r (x_rets xs) -> snd r = Some (fst r).

Lemma has_wheld old : has old MU_WHELD_IF_NON_ZERO = (old mod 2 =? 1).
Proof.
  unfold has, band. change MU_WHELD_IF_NON_ZERO with (Z.ones 1). rewrite Z.land_ones by lia.
  change (2 ^ 1) with 2. pose proof (Z.mod_pos_bound old 2 ltac:(lia)).
  destruct (Z.eqb_spec (old mod 2) 0), (Z.eqb_spec (old mod 2) 1); try reflexivity; lia.
Qed.

Lemma pc_ok_same s ops sl lt : pc_ok s -> pc_ok (mk_t (t_pc s) ops (held s) sl lt).
Proof. destruct s as [p o h s0 l0]. unfold pc_ok; cbn [t_pc held]. auto. Qed.

Lemma mu_idle_pc w t : mu_idle w t = true -> t_pc (get w t) = Idle.
Proof. unfold mu_idle. destruct (t_pc (get w t)); try discriminate. reflexivity. Qed.
Lemma mu_pc_idle_true w t : mu_pc_idle w t = true -> t_pc (get w t) = Idle.
Proof. unfold mu_pc_idle. destruct (t_pc (get w t)); try discriminate. reflexivity. Qed.
Lemma mu_pc_idle_false w t : mu_pc_idle w t = false -> t_pc (get w t) <> Idle.
Proof. unfold mu_pc_idle. destruct (t_pc (get w t)); try discriminate; intros _ E; discriminate E. Qed.

Lemma xget_inb xw t : xget xw t <> dflt_xt -> (t < length (xthr xw))%nat.
Proof.
  intros H. destruct (Nat.lt_ge_cases t (length (xthr xw))) as [|G]; [assumption|].
  exfalso. apply H. unfold xget. now rewrite nth_overflow.
Qed.

Section XInvariant.
Variable n : nat.
Hypothesis Hn : Z.of_nat n < 16777215.

Definition XInv (xw : xworld) : Prop :=
  Inv n (mw xw) /\ length (xthr xw) = n /\
  forall t, xpc_ok (get (mw xw) t) (x_pc (xget xw t)) /\ rets_ok (xget xw t).

(* thread t changes its wrapper state; the mutex component changes only in t's record (and in word / queue / ...) *)
Lemma XInv_upd xw m' q' f' t xs' : XInv xw -> (t < n)%nat -> Inv n m' ->
  (forall t', t' <> t -> get m' t' = get (mw xw) t') ->
  xpc_ok (get m' t) (x_pc xs') -> rets_ok xs' ->
  XInv (mk_xw m' q' f' (lupd (xthr xw) t xs')).
Proof.
  intros (HI & HL & HT) Ht HI' HF Hp Hr. split; [exact HI'|]. split; [cbn [xthr]; now rewrite length_lupd|].
  intros t'. unfold xget; cbn [mw xthr]. destruct (Nat.eq_dec t' t) as [->|N].
  - rewrite nth_lupd_same by (rewrite HL; exact Ht). auto.
  - rewrite nth_lupd_other by exact N. rewrite (HF _ N). apply HT.
Qed.

(* only the mutex component changes, by a step of thread t whose wrapper pc imposes nothing *)
Lemma XInv_mw xw m' q' f' t : XInv xw -> Inv n m' ->
  (forall t', t' <> t -> get m' t' = get (mw xw) t') ->
  xpc_ok (get m' t) (x_pc (xget xw t)) ->
  XInv (mk_xw m' q' f' (xthr xw)).
Proof.
  intros (HI & HL & HT) HI' HF Hp. split; [exact HI'|]. split; [exact HL|].
  intros t'. unfold xget in *; cbn [mw xthr]. destruct (Nat.eq_dec t' t) as [->|N].
  - split; [exact Hp | apply HT].
  - rewrite (HF _ N). apply HT.
Qed.

Lemma Inv_set_pc w t p : Inv n w -> (t < n)%nat ->
  pc_ok (mk_t p (t_ops (get w t)) (held (get w t)) (sleeps (get w t)) (last_try (get w t))) ->
  Inv n (set_pc w t p).
Proof.
  intros H Ht Hp. unfold set_pc, set_t, Inv; cbn [word thr].
  eapply InvL_upd; [exact H | exact Ht | exact Hp |]. cbn [held]. apply trans_refl, (Inv_rng _ _ H).
Qed.

Lemma Inv_set_word_SL w x' : Inv n w -> SL (word w) x' -> Inv n (set_word w x').
Proof.
  intros (HL & (Rx & HW & HR & HX) & Hp) (Rx' & M & D). unfold set_word, Inv, InvL; cbn [word thr].
  split; [exact HL|]. split; [|exact Hp]. unfold agrees. rewrite M, D. auto.
Qed.

Lemma get_set_pc_same w t p : (t < length (thr w))%nat ->
  get (set_pc w t p) t = mk_t p (t_ops (get w t)) (held (get w t)) (sleeps (get w t)) (last_try (get w t)).
Proof. intros H. unfold set_pc. now rewrite get_set_t_same. Qed.
Lemma get_set_pc_other w t t' p : t' <> t -> get (set_pc w t p) t' = get w t'.
Proof. intros H. unfold set_pc. now rewrite get_set_t_other. Qed.

Lemma lsl_ok_desig m : lsl_ok m (ls_desig m).
Proof.
  unfold lsl_ok, ls_desig; cbn [zta clr longw]. split; [right; reflexivity|]. split; [right; reflexivity | left; reflexivity].
Qed.

Ltac xnorm :=
  unfold set_xpc, add_xret, set_xt, set_mw, set_cvq, set_xferred, xget; cbn [mw cvq xferred xthr];
  rewrite ?lupd_lupd.

Lemma xbegin_inv xw t : XInv xw -> XInv (xbegin xw t).
Proof.
  intros H0. unfold xbegin. cbv zeta.
  destruct (xget xw t) as [xp xo xr] eqn:Hx. cbn [x_pc x_ops x_rets].
  destruct xp; try exact H0. destruct xo as [|o rest]; try exact H0.
  destruct (mu_idle (mw xw) t) eqn:MI; try exact H0.
  assert (t < n)%nat as Ht.
  { destruct H0 as (_ & <- & _). apply xget_inb. rewrite Hx. discriminate. }
  pose proof H0 as (HI & HL & HT). destruct (HT t) as [_ Hr]. rewrite Hx in Hr.
  pose proof (mu_idle_pc _ _ MI) as PI.
  destruct o as [o'|m| | |om|m].
  - (* XOp *) xnorm. unfold push_op; cbn [mw].
    apply XInv_upd; auto.
    + unfold set_t, Inv; cbn [word thr]. eapply InvL_upd; [exact HI | exact Ht | |].
      * apply pc_ok_same. destruct HI as (_ & _ & Hp). apply (Hp t).
      * cbn [held]. apply trans_refl, (Inv_rng _ _ HI).
    + intros t' N. now apply get_set_t_other.
    + exact I.
  - (* XWait *) xnorm. rewrite nth_lupd_same by (rewrite HL; exact Ht). cbn [x_ops x_rets].
    apply XInv_upd; auto.
    destruct (held (get (mw xw) t)) as [m'|] eqn:Hh; cbn [x_pc]; [|exact PI].
    destruct (mode_eqb m m') eqn:E; [|exact PI]. apply mode_eqb_eq in E. subst m'. split; assumption.
  - xnorm. rewrite nth_lupd_same by (rewrite HL; exact Ht). cbn [x_ops x_rets]. apply XInv_upd; auto.
  - xnorm. rewrite nth_lupd_same by (rewrite HL; exact Ht). cbn [x_ops x_rets]. apply XInv_upd; auto.
  - (* XWaitN *) destruct om as [m|]; xnorm; rewrite nth_lupd_same by (rewrite HL; exact Ht); cbn [x_ops x_rets];
      (apply XInv_upd; auto); [|cbn [x_pc xpc_ok]; auto].
    destruct (held (get (mw xw) t)) as [m'|] eqn:Hh; cbn [x_pc]; [|exact PI].
    destruct (mode_eqb m m') eqn:E; [|exact PI]. apply mode_eqb_eq in E. subst m'. split; assumption.
  - (* XWaitG *) xnorm. rewrite nth_lupd_same by (rewrite HL; exact Ht). cbn [x_ops x_rets].
    apply XInv_upd; auto.
    destruct (held (get (mw xw) t)) as [m'|] eqn:Hh; cbn [x_pc]; [|exact PI].
    destruct (mode_eqb m m') eqn:E; [|exact PI]. apply mode_eqb_eq in E. subst m'. split; assumption.
Qed.

Ltac xn Hx := xnorm; rewrite ?Hx; cbn [x_pc x_ops x_rets].
Ltac inv_conv HI := first [ exact HI | unfold Inv, set_waiting, set_sem, set_queue, set_wtype; cbn [word thr]; exact HI ].
Ltac frame_tac := let t' := fresh "t'" in let N := fresh "N" in
  intros t' N; first [ reflexivity | now apply get_set_pc_other | now rewrite get_set_pc_other ].
Ltac wk_tac k := unfold wake_loop; destruct (k_wake k); cbn [x_pc xpc_ok]; auto.

Lemma xstep_thr_inv xw0 t c : XInv xw0 -> XInv (fst (xstep_thr xw0 t c)).
Proof.
  intros H0. apply (xbegin_inv _ t) in H0. unfold xstep_thr.
  set (xw := xbegin xw0 t) in *. clearbody xw. clear xw0. cbv zeta.
  pose proof H0 as (HI & HL & HT). destruct (HT t) as [Hp Hr].
  destruct (xget xw t) as [xp xo xr] eqn:Hx. cbn [x_pc x_ops x_rets] in *.
  assert (xp <> XIdle -> (t < n)%nat) as HtN.
  { intros NE. rewrite <- HL. apply xget_inb. rewrite Hx. intros E. inversion E. contradiction. }
  assert (Hlen : length (thr (mw xw)) = n) by apply HI.
  unfold xget in Hx.
  destruct xp.
  - (* XIdle *) unfold mu_step. destruct (step (mw xw) t) as [m' e] eqn:E. cbn [fst]. xnorm.
    assert (m' = fst (step (mw xw) t)) as -> by now rewrite E.
    apply (XInv_mw _ _ _ _ t); [exact H0 | apply step_inv; assumption | intros t' N; apply step_frame; exact N |].
    unfold xget. rewrite Hx. exact I.
  - (* XCrash *) exact H0.
  - (* XwStore *) assert (t < n)%nat as Ht by (apply HtN; discriminate). cbn [fst]. xn Hx.
    apply XInv_upd; [exact H0 | exact Ht | inv_conv HI | frame_tac | exact Hp | exact Hr].
  - (* XwLoadMu *) assert (t < n)%nat as Ht by (apply HtN; discriminate). destruct Hp as [PI Hh].
    rewrite has_wheld.
    pose proof (Inv_held _ _ t m HI Hh) as Hm.
    pose proof HI as (HL' & (Rx & HW & HR & HX) & Hpc).
    destruct (Z.eqb_spec (word (mw xw) mod 2) 1) as [E1|E1];
      [destruct (has (word (mw xw)) MU_RHELD_IF_NON_ZERO) | destruct (has (word (mw xw)) MU_RHELD_IF_NON_ZERO)];
      cbn [fst]; xn Hx;
      (apply XInv_upd; [exact H0 | exact Ht | inv_conv HI | frame_tac | | exact Hr]);
      cbn [x_pc xpc_ok w_m w_lm]; try exact PI; unfold get, set_wtype; cbn [thr]; unfold get in PI, Hh.
    + destruct m; [auto | specialize (HX E1); lia].
    + destruct m; [contradiction | auto].
  - (* XwEnq *) assert (t < n)%nat as Ht by (apply HtN; discriminate). destruct Hp as (PI & Hh & El).
    cbn [fst]. xn Hx. apply XInv_upd; [exact H0 | exact Ht | | frame_tac | | exact Hr].
    + apply Inv_set_pc; [exact HI | exact Ht |]. unfold pc_ok; cbn [t_pc held]. exact Hh.
    + rewrite get_set_pc_same by (rewrite Hlen; exact Ht). cbn [x_pc xpc_ok t_pc is_unl_pc]. auto.
  - (* XwUnlock *) destruct Hp as [U El].
    assert (t < n)%nat as Ht by (apply HtN; discriminate).
    unfold mu_step. destruct (step (mw xw) t) as [m' e] eqn:E. xnorm.
    assert (m' = fst (step (mw xw) t)) as Em by now rewrite E.
    assert (Inv n m') as HI' by (rewrite Em; apply step_inv; assumption).
    assert (forall t', t' <> t -> get m' t' = get (mw xw) t') as HF by (intros t' N; rewrite Em; now apply step_frame).
    pose proof (step_unl n (mw xw) t HI U) as SU. cbv zeta in SU. rewrite <- Em in SU.
    cbn [mw]. destruct (mu_pc_idle m' t) eqn:MI; cbn [fst]; xn Hx.
    + apply mu_pc_idle_true in MI. destruct SU as [SU | [_ SU]]; [rewrite MI in SU; discriminate SU|].
      apply XInv_upd; [exact H0 | exact Ht | exact HI' | exact HF | | exact Hr]. cbn [x_pc xpc_ok]. auto.
    + apply mu_pc_idle_false in MI. destruct SU as [SU | [SU _]]; [|contradiction].
      apply (XInv_mw _ _ _ _ t); [exact H0 | exact HI' | exact HF |]. unfold xget. rewrite Hx. cbn [x_pc xpc_ok]. auto.
  - (* XwLoop *) assert (t < n)%nat as Ht by (apply HtN; discriminate). destruct Hp as (PI & Hh & El).
    destruct (waiting (mw xw) t); cbn [fst]; xn Hx.
    + apply XInv_upd; [exact H0 | exact Ht | exact HI | frame_tac | | exact Hr].
      destruct (w_so l); cbn [x_pc xpc_ok]; auto.
    + apply XInv_upd; [exact H0 | exact Ht | | frame_tac | | exact Hr].
      * apply Inv_set_pc; [inv_conv HI | exact Ht |].
        change (get (set_wtype (mw xw) t (w_lm l)) t) with (get (mw xw) t).
        unfold pc_ok. destruct (xferred xw t); cbn [t_pc held]; [split; [exact Hh | apply lsl_ok_desig] | exact Hh].
      * rewrite get_set_pc_same by (cbn [thr set_wtype]; rewrite Hlen; exact Ht).
        cbn [x_pc xpc_ok t_pc]. split; [|exact El].
        destruct (xferred xw t); cbn [is_acq_pc]; apply mode_eqb_refl.
  - (* XwSem *) assert (t < n)%nat as Ht by (apply HtN; discriminate).
    destruct c; [destruct (0 <? sem (mw xw) t)|]; cbn [fst]; try exact H0; xn Hx;
      (apply XInv_upd; [exact H0 | exact Ht | inv_conv HI | frame_tac | exact Hp | exact Hr]).
  - (* XwLoad6 *) assert (t < n)%nat as Ht by (apply HtN; discriminate).
    destruct (waiting (mw xw) t); cbn [fst]; xn Hx;
      (apply XInv_upd; [exact H0 | exact Ht | inv_conv HI | frame_tac | exact Hp | exact Hr]).
  - (* XwConfirm *) assert (t < n)%nat as Ht by (apply HtN; discriminate).
    destruct (mem_id t (cvq xw)); cbn [fst]; xn Hx;
      (apply XInv_upd; [exact H0 | exact Ht | inv_conv HI | frame_tac | exact Hp | exact Hr]).
  - (* XwLoad13 *) assert (t < n)%nat as Ht by (apply HtN; discriminate).
    cbn [fst]; xn Hx; (apply XInv_upd; [exact H0 | exact Ht | inv_conv HI | frame_tac | exact Hp | exact Hr]).
  - (* XwReacq *) destruct Hp as [A El].
    assert (t < n)%nat as Ht by (apply HtN; discriminate).
    unfold mu_step. destruct (step (mw xw) t) as [m' e] eqn:E. xnorm.
    assert (m' = fst (step (mw xw) t)) as Em by now rewrite E.
    assert (Inv n m') as HI' by (rewrite Em; apply step_inv; assumption).
    assert (forall t', t' <> t -> get m' t' = get (mw xw) t') as HF by (intros t' N; rewrite Em; now apply step_frame).
    pose proof (step_acq (mw xw) t _ A) as SA. cbv zeta in SA. rewrite <- Em in SA.
    cbn [mw]. destruct (mu_pc_idle m' t) eqn:MI; cbn [fst]; xn Hx.
    + apply mu_pc_idle_true in MI. destruct SA as [SA | (_ & SA & _)]; [rewrite MI in SA; discriminate SA|].
      rewrite nth_lupd_same by (rewrite HL; exact Ht). cbn [x_ops x_rets].
      apply XInv_upd; [exact H0 | exact Ht | exact HI' | exact HF | exact I |].
      intros r [<- | Hin]; [cbn [fst snd]; rewrite SA, El; reflexivity | apply Hr, Hin].
    + apply mu_pc_idle_false in MI. destruct SA as [SA | [SA _]]; [|contradiction].
      apply (XInv_mw _ _ _ _ t); [exact H0 | exact HI' | exact HF |]. unfold xget. rewrite Hx. cbn [x_pc xpc_ok]. auto.
  - (* XkLoad *) assert (t < n)%nat as Ht by (apply HtN; discriminate).
    destruct c; [|destruct (cvq xw)]; cbn [fst]; try exact H0; xn Hx;
      (apply XInv_upd; [exact H0 | exact Ht | inv_conv HI | frame_tac | first [exact Hp | exact I] | exact Hr]).
  - (* XkSelect *) assert (t < n)%nat as Ht by (apply HtN; discriminate).
    destruct (if bc then sel_broadcast (xrd xw) (cvq xw) else sel_signal (xrd xw) (cvq xw)) as [[wk kp] allr].
    destruct wk as [|f wk']; [|destruct (nrec xw f)]; cbn [fst]; xn Hx;
      (apply XInv_upd; [exact H0 | exact Ht | inv_conv HI | frame_tac | first [exact Hp | exact I] | exact Hr]).
  - (* XvLoad1 *) assert (t < n)%nat as Ht by (apply HtN; discriminate).
    destruct (xfer_wanted (wtype (mw xw)) (word (mw xw)) k); cbn [fst]; xn Hx;
      (apply XInv_upd; [exact H0 | exact Ht | inv_conv HI | frame_tac | | exact Hr]); [exact Hp | wk_tac k].
  - (* XvCas1 *) assert (t < n)%nat as Ht by (apply HtN; discriminate).
    unfold cas. destruct (wake_cas_old_eq old) as [-> _].
    destruct (Z.eqb_spec (word (mw xw)) old) as [Hc|Hc]; cbv beta iota.
    + pose proof (xfer_set_small (nrec xw) (wtype (mw xw)) (first_cant_acquire (wtype (mw xw)) old (k_wake k)) (k_wake k)) as Hs.
      destruct (xfer (nrec xw) (wtype (mw xw)) (first_cant_acquire (wtype (mw xw)) old (k_wake k)) (k_wake k)) as [[moved stay] set_on].
      cbn [snd] in Hs. cbn [fst]. xn Hx.
      assert (Inv n (set_word (mw xw) (wake_waiters_cas1_new old))) as HI2.
      { apply Inv_set_word_SL; [exact HI|]. subst old. apply wake_cas1_SL, (Inv_rng _ _ HI). }
      apply XInv_upd; [exact H0 | exact Ht | inv_conv HI2 | frame_tac | | exact Hr].
      cbn [x_pc xpc_ok k_set k_clr]. split; [exact Hp | split; [exact Hs|]].
      destruct (queue (set_word (mw xw) (wake_waiters_cas1_new old)) ++ moved); [apply small_6 | apply small_2].
    + cbn [fst]. xn Hx. apply XInv_upd; [exact H0 | exact Ht | inv_conv HI | frame_tac | | exact Hr]. wk_tac k.
  - (* XvLoad3 *) assert (t < n)%nat as Ht by (apply HtN; discriminate).
    cbn [fst]; xn Hx; (apply XInv_upd; [exact H0 | exact Ht | inv_conv HI | frame_tac | exact Hp | exact Hr]).
  - (* XvCas2 *) assert (t < n)%nat as Ht by (apply HtN; discriminate). destruct Hp as (PI & Hs & Hsc).
    unfold cas. destruct (wake_cas_old_eq old) as [_ ->].
    destruct (Z.eqb_spec (word (mw xw)) old) as [Hc|Hc]; cbv beta iota; cbn [fst]; xn Hx.
    + assert (Inv n (set_word (mw xw) (wake_waiters_cas2_new old (k_set k) (k_clr k)))) as HI2.
      { apply Inv_set_word_SL; [exact HI|]. subst old. apply wake_cas2_SL; [apply (Inv_rng _ _ HI) | exact Hs | exact Hsc]. }
      apply XInv_upd; [exact H0 | exact Ht | inv_conv HI2 | frame_tac | | exact Hr]. wk_tac k.
    + apply XInv_upd; [exact H0 | exact Ht | inv_conv HI | frame_tac | | exact Hr]. cbn [x_pc xpc_ok]. auto.
  - (* XvLoad5 *) assert (t < n)%nat as Ht by (apply HtN; discriminate).
    cbn [fst]; xn Hx; (apply XInv_upd; [exact H0 | exact Ht | inv_conv HI | frame_tac | exact Hp | exact Hr]).
  - (* XvStore *) assert (t < n)%nat as Ht by (apply HtN; discriminate).
    destruct (k_wake k) as [|p rest]; cbn [fst]; xn Hx;
      (apply XInv_upd; [exact H0 | exact Ht | inv_conv HI | frame_tac | first [exact Hp | exact I] | exact Hr]).
  - (* XvV *) assert (t < n)%nat as Ht by (apply HtN; discriminate).
    cbn [fst]; xn Hx; (apply XInv_upd; [exact H0 | exact Ht | inv_conv HI | frame_tac | | exact Hr]). wk_tac k.
  - (* XnStore0 *) assert (t < n)%nat as Ht by (apply HtN; discriminate). cbn [fst]. xn Hx.
    apply XInv_upd; [exact H0 | exact Ht | inv_conv HI | frame_tac | exact Hp | exact Hr].
  - (* XnEnq *) assert (t < n)%nat as Ht by (apply HtN; discriminate). destruct Hp as (PI & Hh).
    destruct om as [m|]; cbn [fst]; xn Hx.
    + apply XInv_upd; [exact H0 | exact Ht | | frame_tac | | exact Hr].
      * apply Inv_set_pc; [inv_conv HI | exact Ht |]. unfold pc_ok; cbn [t_pc held]. exact Hh.
      * rewrite get_set_pc_same by (cbn [thr set_waiting]; rewrite Hlen; exact Ht). cbn [x_pc xpc_ok t_pc is_unl_pc]. auto.
    + apply XInv_upd; [exact H0 | exact Ht | inv_conv HI | frame_tac | | exact Hr]. cbn [x_pc xpc_ok]. auto.
  - (* XnUnlock *) rename Hp into U.
    assert (t < n)%nat as Ht by (apply HtN; discriminate).
    unfold mu_step. destruct (step (mw xw) t) as [m' e] eqn:E. xnorm.
    assert (m' = fst (step (mw xw) t)) as Em by now rewrite E.
    assert (Inv n m') as HI' by (rewrite Em; apply step_inv; assumption).
    assert (forall t', t' <> t -> get m' t' = get (mw xw) t') as HF by (intros t' N; rewrite Em; now apply step_frame).
    pose proof (step_unl n (mw xw) t HI U) as SU. cbv zeta in SU. rewrite <- Em in SU.
    cbn [mw]. destruct (mu_pc_idle m' t) eqn:MI; cbn [fst]; xn Hx.
    + apply mu_pc_idle_true in MI. destruct SU as [SU | [_ SU]]; [rewrite MI in SU; discriminate SU|].
      apply XInv_upd; [exact H0 | exact Ht | exact HI' | exact HF | | exact Hr]. cbn [x_pc xpc_ok]. auto.
    + apply mu_pc_idle_false in MI. destruct SU as [SU | [SU _]]; [|contradiction].
      apply (XInv_mw _ _ _ _ t); [exact H0 | exact HI' | exact HF |]. unfold xget. rewrite Hx. cbn [x_pc xpc_ok]. auto.
  - (* XnReady *) assert (t < n)%nat as Ht by (apply HtN; discriminate).
    destruct (cv_ready_time_load1_guard (b2z (waiting (mw xw) t))); cbn [fst]; xn Hx;
      (apply XInv_upd; [exact H0 | exact Ht | inv_conv HI | frame_tac | exact Hp | exact Hr]).
  - (* XnSem *) assert (t < n)%nat as Ht by (apply HtN; discriminate).
    destruct c; [destruct (0 <? sem (mw xw) t)|]; cbn [fst]; try exact H0; xn Hx;
      (apply XInv_upd; [exact H0 | exact Ht | inv_conv HI | frame_tac | exact Hp | exact Hr]).
  - (* XnDeq *) assert (t < n)%nat as Ht by (apply HtN; discriminate). destruct Hp as (PI & Hh).
    destruct (waiting (mw xw) t && cv_dequeue_store1_guard (b2z (mem_id t (cvq xw)))); [destruct om as [m|]|]; cbn [fst]; xn Hx.
    + apply XInv_upd; [exact H0 | exact Ht | | frame_tac | | exact Hr].
      * apply Inv_set_pc; [inv_conv HI | exact Ht |]. unfold pc_ok; cbn [t_pc held]. exact Hh.
      * rewrite get_set_pc_same by (cbn [thr set_waiting]; rewrite Hlen; exact Ht). cbn [x_pc xpc_ok t_pc is_acq_pc].
        apply mode_eqb_refl.
    + apply XInv_upd; [exact H0 | exact Ht | inv_conv HI | frame_tac | exact I | exact Hr].
    + apply XInv_upd; [exact H0 | exact Ht | inv_conv HI | frame_tac | | exact Hr]. cbn [x_pc xpc_ok]. auto.
  - (* XnSpin *) assert (t < n)%nat as Ht by (apply HtN; discriminate). destruct Hp as (PI & Hh).
    destruct (waiting (mw xw) t); [|destruct om as [m|]]; cbn [fst]; try exact H0; xn Hx.
    + apply XInv_upd; [exact H0 | exact Ht | | frame_tac | | exact Hr].
      * apply Inv_set_pc; [exact HI | exact Ht |]. unfold pc_ok; cbn [t_pc held]. exact Hh.
      * rewrite get_set_pc_same by (rewrite Hlen; exact Ht). cbn [x_pc xpc_ok t_pc is_acq_pc]. apply mode_eqb_refl.
    + apply XInv_upd; [exact H0 | exact Ht | inv_conv HI | frame_tac | exact I | exact Hr].
  - (* XnReacq *) rename Hp into A.
    assert (t < n)%nat as Ht by (apply HtN; discriminate).
    unfold mu_step. destruct (step (mw xw) t) as [m' e] eqn:E. xnorm.
    assert (m' = fst (step (mw xw) t)) as Em by now rewrite E.
    assert (Inv n m') as HI' by (rewrite Em; apply step_inv; assumption).
    assert (forall t', t' <> t -> get m' t' = get (mw xw) t') as HF by (intros t' N; rewrite Em; now apply step_frame).
    pose proof (step_acq (mw xw) t _ A) as SA. cbv zeta in SA. rewrite <- Em in SA.
    cbn [mw]. destruct (mu_pc_idle m' t) eqn:MI; cbn [fst]; xn Hx.
    + apply mu_pc_idle_true in MI. destruct SA as [SA | (_ & SA & _)]; [rewrite MI in SA; discriminate SA|].
      rewrite nth_lupd_same by (rewrite HL; exact Ht). cbn [x_ops x_rets].
      apply XInv_upd; [exact H0 | exact Ht | exact HI' | exact HF | exact I |].
      intros r [<- | Hin]; [cbn [fst snd]; rewrite SA; reflexivity | apply Hr, Hin].
    + apply mu_pc_idle_false in MI. destruct SA as [SA | [SA _]]; [|contradiction].
      apply (XInv_mw _ _ _ _ t); [exact H0 | exact HI' | exact HF |]. unfold xget. rewrite Hx. cbn [x_pc xpc_ok]. auto.
  - (* XgStore *) assert (t < n)%nat as Ht by (apply HtN; discriminate). cbn [fst]. xn Hx.
    apply XInv_upd; [exact H0 | exact Ht | inv_conv HI | frame_tac | | exact Hr].
    cbn [x_pc xpc_ok w_m w_lm]. destruct Hp as [PI Hh]. auto.
Qed.

Lemma xstep_inv xw a : XInv xw -> XInv (fst (xstep xw a)).
Proof.
  destruct a as [t c|p]; [apply xstep_thr_inv|]. intros H0. cbn [xstep fst]. xnorm.
  pose proof H0 as (HI & _). apply (XInv_mw _ _ _ _ 0%nat); [exact H0 | inv_conv HI | intros; reflexivity |].
  destruct H0 as (_ & _ & HT). apply (HT 0%nat).
Qed.

Lemma xrun_inv sched : forall xw, XInv xw -> XInv (xrun xw sched).
Proof.
  unfold xrun. induction sched as [|a rest IH]; intros xw H; cbn [fold_left]; [exact H|].
  apply IH, xstep_inv, H.
Qed.

(* an acquisition in progress holds nothing *)
Lemma acq_holds_nothing w t m : Inv n w -> is_acq_pc m (t_pc (get w t)) = true -> held (get w t) = None.
Proof.
  intros (_ & _ & Hp) A. specialize (Hp t). unfold get in *. unfold pc_ok in Hp.
  destruct (t_pc (nth t (thr w) dflt_t)); try discriminate A; tauto.
Qed.

Lemma xbegin_nonidle xw t : x_pc (xget xw t) <> XIdle -> xbegin xw t = xw.
Proof. intros H. unfold xbegin. cbv zeta. destruct (x_pc (xget xw t)); try reflexivity. now elim H. Qed.

(* the return of XWait: the step that takes a thread from the re-acquisition back to XIdle is a successful CAS of mu.c
   by a thread that held nothing and now holds the mutex in the mode it had declared on entry *)
Lemma reacq_step xw t c l : XInv xw -> x_pc (xget xw t) = XwReacq l ->
  x_pc (xget (fst (xstep_thr xw t c)) t) = XIdle ->
  held (get (mw xw) t) = None /\
  held (get (mw (fst (xstep_thr xw t c))) t) = Some (w_m l) /\
  (exists e, snd (xstep_thr xw t c) = XMu e /\ is_ok_cas e = true) /\
  x_rets (xget (fst (xstep_thr xw t c)) t) = (w_m l, Some (w_m l)) :: x_rets (xget xw t).
Proof.
  intros H0 Hpc. pose proof H0 as (HI & HL & HT). destruct (HT t) as [Hp _]. rewrite Hpc in Hp. destruct Hp as [A El].
  assert (t < n)%nat as Ht.
  { rewrite <- HL. apply xget_inb. intros E. rewrite E in Hpc. discriminate Hpc. }
  unfold xstep_thr. rewrite xbegin_nonidle by (rewrite Hpc; discriminate). cbv zeta. rewrite Hpc.
  unfold mu_step. destruct (step (mw xw) t) as [m' e] eqn:E.
  pose proof (step_acq (mw xw) t _ A) as SA. cbv zeta in SA. rewrite E in SA. cbn [fst snd] in SA.
  cbn [mw set_mw]. destruct (mu_pc_idle m' t) eqn:MI; cbn [fst snd].
  - apply mu_pc_idle_true in MI. destruct SA as [SA | (_ & SA & SC)]; [rewrite MI in SA; discriminate SA|].
    intros _. split; [apply (acq_holds_nothing _ _ _ HI A)|].
    xnorm. rewrite !nth_lupd_same by (rewrite HL; exact Ht). cbn [x_pc x_ops x_rets].
    rewrite SA, El. split; [reflexivity|]. split; [exists e; auto | reflexivity].
  - xnorm. unfold xget in Hpc. rewrite Hpc. discriminate.
Qed.

End XInvariant.

(* ================================================================== *)
(* Part 4: the lemmas of Props/Properties_C01x.v                       *)
(* ================================================================== *)
Lemma xinit_inv progs : XInv (length progs) (xinit progs).
Proof.
  unfold XInv, xinit; cbn [mw xthr]. split; [|split].
  - rewrite <- (map_length (fun _ : list xop => @nil op) progs) at 1. apply init_inv.
  - apply map_length.
  - intros t. unfold xget; cbn [xthr].
    change dflt_xt with ((fun p => mk_xt XIdle p []) []). rewrite map_nth. cbn [x_pc x_rets]. split; [exact I|].
    intros r [].
Qed.

Lemma xreachable_inv progs sched :
  Z.of_nat (length progs) < 2 ^ 24 - 1 -> XInv (length progs) (xrun (xinit progs) sched).
Proof. intros H. apply xrun_inv; [exact H | apply xinit_inv]. Qed.

Lemma xexcl_reachable : forall progs sched,
  Z.of_nat (length progs) < 2 ^ 24 - 1 -> excl (mw (xrun (xinit progs) sched)).
Proof. intros progs sched H. apply (excl_of_inv (length progs)). apply (xreachable_inv progs sched H). Qed.

Lemma xword_agrees_reachable : forall progs sched,
  Z.of_nat (length progs) < 2 ^ 24 - 1 -> word_agrees (mw (xrun (xinit progs) sched)).
Proof. intros progs sched H. apply agrees_word_agrees. apply (xreachable_inv progs sched H). Qed.

(* every return of XWait m that a reachable world has logged found the mutex held in mode m *)
Lemma xwait_returns_mode : forall progs sched t m h,
  Z.of_nat (length progs) < 2 ^ 24 - 1 ->
  In (m, h) (x_rets (xget (xrun (xinit progs) sched) t)) -> h = Some m.
Proof.
  intros progs sched t m h H Hin. destruct (xreachable_inv progs sched H) as (_ & _ & HT).
  destruct (HT t) as [_ Hr]. apply (Hr _ Hin).
Qed.

Lemma xwait_return_step : forall progs sched t c l,
  Z.of_nat (length progs) < 2 ^ 24 - 1 ->
  let xw := xrun (xinit progs) sched in
  x_pc (xget xw t) = XwReacq l ->
  x_pc (xget (fst (xstep_thr xw t c)) t) = XIdle ->
  held (get (mw xw) t) = None /\
  held (get (mw (fst (xstep_thr xw t c))) t) = Some (w_m l) /\
  (exists e, snd (xstep_thr xw t c) = XMu e /\ is_ok_cas e = true) /\
  x_rets (xget (fst (xstep_thr xw t c)) t) = (w_m l, Some (w_m l)) :: x_rets (xget xw t).
Proof. intros progs sched t c l H xw. apply (reacq_step (length progs)). apply xreachable_inv; exact H. Qed.
