(* MuRefProof: proofs about Model/MuRefModel.v (property C13, the reference-count theorem with an explicit free).

   Part 1  facts about MuModel.step used as a black box otherwise: a step with touches_mu = false leaves the word and
           the queue alone; a thread that is releasing stays inside the releasing pcs and never gains the lock; the
           tail pcs (UsWakeStore / UsWakeV / Idle without further calls / Crash) are closed under step
   Part 2  the client's rewriting of its own program keeps MuProof.Inv and MuProof2.QInv
   Part 3  counting the threads that still own a reference
   Part 4  the invariant RInv and its preservation by the four kinds of step of MuRefModel.rstep
   Part 5  the lemmas used by Props/Properties_C13r.v, the examples, the witness for the in-lock read-mode pattern *)
From NsyncBase Require Import CSem.
From NsyncGen Require Import Consts Sites.
From NsyncModel Require Import MuModel MuSpec MuRefModel.
From NsyncProof Require Import WordView MuProof MuProof2.
From Coq Require Import List ZArith Bool Lia PeanoNat Permutation.
Import ListNotations.
Local Open Scope Z_scope.

(* ================================================================== *)
(* Part 1: MuModel.step                                                *)
(* ================================================================== *)

Lemma begin_op_noops w t : t_ops (get w t) = [] -> begin_op w t = w.
Proof. intros H. unfold begin_op. cbv zeta. rewrite H. destruct (t_pc (get w t)); reflexivity. Qed.

Lemma step_idle_noops w t : t_pc (get w t) = Idle -> t_ops (get w t) = [] -> fst (step w t) = w.
Proof. intros Hp Ho. unfold step. cbv zeta. rewrite (begin_op_noops w t Ho), Hp. reflexivity. Qed.

Lemma touches_mu_sound : forall w t,
  touches_mu (t_pc (get (begin_op w t) t)) = false ->
  word (fst (step w t)) = word w /\ queue (fst (step w t)) = queue w.
Proof.
  intros w0 t. rewrite <- (begin_op_word w0 t), <- (begin_op_queue w0 t). unfold step. cbv zeta.
  generalize (begin_op w0 t). intros w H.
  destruct (t_pc (get w t)); try discriminate H; brk; cbn [fst]; split; reflexivity.
Qed.

(* the pcs of a thread that is between calls, crashed, or inside nsync_mu_unlock / runlock / unlock_slow_ *)
Definition inU (p : pc) : bool :=
  match p with
  | Idle | Crash _ | UlFast _ | UlLoad _ | UlCas2 _ _ | UsLoad _ | UsCasRel _ _ | UsCasSpin _ _
  | UsRelLoad _ _ | UsRelCas _ _ _ | UsWakeStore _ _ | UsWakeV _ _ _ => true
  | _ => false
  end.

(* a thread whose only remaining call is the release (not yet begun, it holds the lock), or that has no call left
   and is inside its release / back from it *)
Definition releasing (s : tstate) : Prop :=
  (t_pc s = Idle /\ t_ops s = [OUnlock] /\ held s <> None) \/ (t_ops s = [] /\ inU (t_pc s) = true).

Lemma step_releasing : forall w t, releasing (get w t) ->
  t_ops (get (fst (step w t)) t) = [] /\ inU (t_pc (get (fst (step w t)) t)) = true /\
  (held (get w t) = None -> held (get (fst (step w t)) t) = None).
Proof.
  intros w t H.
  destruct (Nat.lt_ge_cases t (length (thr w))) as [Ht|Ht].
  2:{ assert (get w t = dflt_t) as E by (apply get_oob; exact Ht).
      rewrite step_idle_noops by (rewrite E; reflexivity). rewrite E. repeat split; reflexivity. }
  destruct H as [(Hp & Ho & Hh) | (Ho & Hu)].
  - (* the release has not begun *)
    destruct (get w t) as [p ops h sl lt] eqn:Hs. cbn [t_pc t_ops held] in *. subst p ops.
    destruct h as [m|]; [clear Hh | now elim Hh].
    unfold step. cbv zeta. unfold begin_op. cbv zeta. rewrite Hs. cbn [t_pc t_ops held sleeps last_try].
    assert (get (set_t w t (mk_t (UlFast m) [] (Some m) 0 lt)) t = mk_t (UlFast m) [] (Some m) 0 lt) as G
      by (apply get_set_t_same; exact Ht).
    rewrite G. cbn [t_pc].
    assert (t < length (thr (set_t w t (mk_t (UlFast m) [] (Some m) 0 lt))))%nat as Ht'
      by (unfold set_t; cbn [thr]; rewrite length_lupd; exact Ht).
    unfold get in G. revert G Ht'. generalize (set_t w t (mk_t (UlFast m) [] (Some m) 0 lt)). intros w1 G Ht'.
    unfold cas; brk; cbn [fst]; normt G Ht'; (split; [reflexivity|]); (split; [reflexivity|]);
      intros E; first [reflexivity | discriminate E].
  - destruct (get w t) as [p ops h sl lt] eqn:Hs. cbn [t_pc t_ops held] in *. subst ops.
    assert (p = Idle \/ p <> Idle) as [-> | N] by (destruct p; auto; right; discriminate).
    + (* Idle, nothing left *)
      rewrite step_idle_noops by (rewrite Hs; reflexivity). rewrite Hs. repeat split; auto.
    + unfold step. rewrite begin_op_nonidle by (rewrite Hs; exact N). cbv zeta. rewrite Hs. cbn [t_pc].
      unfold get in Hs.
      destruct p; try discriminate Hu; try (now elim N);
        unfold cas; brk; cbn [fst]; normt Hs Ht; repeat split; auto.
Qed.

(* the tail: no call left and a pc whose step does not touch the mutex *)
Definition safe (s : tstate) : Prop := t_ops s = [] /\ touches_mu (t_pc s) = false.

Lemma step_safe : forall w t, safe (get w t) ->
  safe (get (fst (step w t)) t) /\ touches_mu (t_pc (get (begin_op w t) t)) = false.
Proof.
  intros w t [Ho Hp]. rewrite (begin_op_noops w t Ho). split; [|exact Hp].
  destruct (Nat.lt_ge_cases t (length (thr w))) as [Ht|Ht].
  2:{ assert (get w t = dflt_t) as E by (apply get_oob; exact Ht).
      rewrite step_idle_noops by (rewrite E; reflexivity). rewrite E. split; reflexivity. }
  destruct (get w t) as [p ops h sl lt] eqn:Hs. cbn [t_pc t_ops] in *. subst ops.
  assert (p = Idle \/ p <> Idle) as [-> | N] by (destruct p; auto; right; discriminate).
  - rewrite step_idle_noops by (rewrite Hs; reflexivity). rewrite Hs. split; reflexivity.
  - unfold step. rewrite begin_op_nonidle by (rewrite Hs; exact N). cbv zeta. rewrite Hs. cbn [t_pc].
    unfold get in Hs.
    destruct p; try discriminate Hp; try (now elim N); brk; cbn [fst]; normt Hs Ht; split; reflexivity.
Qed.

Lemma safe_releasing s : safe s -> releasing s.
Proof. intros [Ho Hp]. right. split; [exact Ho|]. destruct (t_pc s); try discriminate Hp; reflexivity. Qed.

(* ================================================================== *)
(* Part 2: the client rewrites its own program                         *)
(* ================================================================== *)

Lemma set_ops_frame w t t' o : t' <> t -> get (set_ops w t o) t' = get w t'.
Proof. intros H. unfold set_ops. apply get_set_t_other. exact H. Qed.

Lemma set_ops_same w t o : (t < length (thr w))%nat ->
  get (set_ops w t o) t = mk_t (t_pc (get w t)) o (held (get w t)) (sleeps (get w t)) (last_try (get w t)).
Proof. intros H. unfold set_ops. apply get_set_t_same. exact H. Qed.

Lemma set_ops_held w t o T : (t < length (thr w))%nat -> held (get (set_ops w t o) T) = held (get w T).
Proof.
  intros H. destruct (Nat.eq_dec T t) as [->|N]; [rewrite set_ops_same by exact H; reflexivity|].
  rewrite set_ops_frame by exact N. reflexivity.
Qed.

Lemma set_ops_inv n w t o : Inv n w -> (t < n)%nat -> Inv n (set_ops w t o).
Proof.
  intros H0 Ht. pose proof H0 as (Hlen & _ & Hok). specialize (Hok t).
  unfold set_ops, set_t, Inv. cbn [word thr].
  eapply InvL_upd; [exact H0 | exact Ht | |].
  - unfold get. destruct (nth t (thr w) dflt_t) as [p ops h sl lt]. exact Hok.
  - cbn [held]. apply trans_refl, (Inv_rng _ _ H0).
Qed.

Lemma set_ops_qinv w t o : QInv w -> (t < length (thr w))%nat -> QInv (set_ops w t o).
Proof.
  intros HQ Ht. pose proof HQ as (_ & _ & HA).
  eapply (C_same w (set_ops w t o) t (get w t)); [exact HQ | exact Ht | reflexivity | reflexivity | reflexivity
    | reflexivity | apply FP_refl | cbn [t_pc]; apply HA | reflexivity].
Qed.

(* ================================================================== *)
(* Part 3: counting references                                         *)
(* ================================================================== *)

Definition isPre (p : phase) : bool := match p with Pre => true | _ => false end.
Definition cntPre (l : list phase) : Z := Z.of_nat (length (filter isPre l)).

Lemma cntPre_lupd l t v : (t < length l)%nat ->
  cntPre (lupd l t v) = cntPre l - b2z (isPre (nth t l Done)) + b2z (isPre v).
Proof.
  intros H. unfold cntPre. pose proof (filter_lupd isPre l t v Done H) as E.
  destruct (isPre (nth t l Done)), (isPre v); cbn [Nat.b2n b2z] in *; lia.
Qed.

Lemma cntPre_nonneg l : 0 <= cntPre l.
Proof. unfold cntPre. lia. Qed.

Lemma nth_Pre_inb l t : nth t l Done = Pre -> (t < length l)%nat.
Proof.
  intros H. destruct (Nat.lt_ge_cases t (length l)) as [|G]; [assumption|].
  rewrite nth_overflow in H by exact G. discriminate H.
Qed.

Lemma cntPre_pos l t : nth t l Done = Pre -> 1 <= cntPre l.
Proof.
  intros P. pose proof (nth_Pre_inb l t P) as H. pose proof (cntPre_lupd l t Done H) as E. rewrite P in E.
  cbn [isPre b2z] in E. pose proof (cntPre_nonneg (lupd l t Done)). lia.
Qed.

Lemma cntPre_init {A} (progs : list A) : cntPre (map (fun _ => Pre) progs) = Z.of_nat (length progs).
Proof.
  unfold cntPre. f_equal. induction progs as [|p l IH]; [reflexivity|]. cbn [map filter isPre length]. now rewrite IH.
Qed.

(* ================================================================== *)
(* Part 4: the invariant                                               *)
(* ================================================================== *)

(* what is known of a thread that has given its reference back *)
Definition nonpre_ok (v : variant) (s : tstate) : Prop :=
  match v with
  | VRafter => t_pc s = Idle /\ t_ops s = []
  | _ => (t_pc s = Idle /\ t_ops s = [OUnlock] /\ held s = Some (vmode v)) \/ (t_ops s = [] /\ inU (t_pc s) = true)
  end.

Lemma nonpre_releasing v s : nonpre_ok v s -> releasing s.
Proof.
  destruct v; cbn [nonpre_ok].
  - intros [(a & b & c) | H]; [left; repeat split; auto; rewrite c; discriminate | right; exact H].
  - intros [a b]. right. rewrite a, b. split; reflexivity.
  - intros [(a & b & c) | H]; [left; repeat split; auto; rewrite c; discriminate | right; exact H].
Qed.

Lemma releasing_not_queued s : releasing s -> in_lock_slow_queued (t_pc s) = false.
Proof.
  intros [(a & _) | (_ & b)]; [rewrite a; reflexivity|]. destruct (t_pc s); try discriminate b; reflexivity.
Qed.

Lemma step_nonpre v w t : nonpre_ok v (get w t) -> nonpre_ok v (get (fst (step w t)) t).
Proof.
  intros H. pose proof (step_releasing w t (nonpre_releasing v _ H)) as (a & b & _).
  destruct v; cbn [nonpre_ok] in *; try (right; split; assumption).
  destruct H as [Hp Ho]. rewrite (step_idle_noops w t Hp Ho). split; assumption.
Qed.

Definition RInv (v : variant) (n : nat) (w : rworld) : Prop :=
  Inv n (mw w) /\ QInv (mw w) /\ length (ph w) = n /\
  refs w = cntPre (ph w) /\
  bad w = false /\
  (forall t, phase_of w t = Dec true -> refs w = 0) /\
  (freed w = true -> refs w = 0) /\
  (forall t1 t2, phase_of w t1 = Dec true -> phase_of w t2 = Dec true -> t1 = t2) /\
  (freed w = true -> forall t, phase_of w t <> Dec true) /\
  (forall t, phase_of w t <> Pre -> nonpre_ok v (get (mw w) t)) /\
  (v = VWin -> forall F T, phase_of w F = Dec true -> T <> F -> held (get (mw w) T) = None) /\
  (freed w = true -> forall t, safe (get (mw w) t)).

Lemma no_pre w : refs w = cntPre (ph w) -> refs w = 0 -> forall t, phase_of w t <> Pre.
Proof. intros E Z t P. pose proof (cntPre_pos (ph w) t P). lia. Qed.

Lemma pre_refs w t : refs w = cntPre (ph w) -> phase_of w t = Pre -> 1 <= refs w.
Proof. intros E P. pose proof (cntPre_pos (ph w) t P). lia. Qed.

Lemma phase_inb w t : phase_of w t <> Done -> (t < length (ph w))%nat.
Proof.
  intros H. destruct (Nat.lt_ge_cases t (length (ph w))) as [|G]; [assumption|].
  elim H. unfold phase_of. now apply nth_overflow.
Qed.

Lemma is_idle_true p : is_idle p = true -> p = Idle.
Proof. destruct p; try discriminate; reflexivity. Qed.
Lemma no_ops_true l : no_ops l = true -> l = [].
Proof. destruct l; try discriminate; reflexivity. Qed.
Lemma only_unlock_true l : only_unlock l = true -> l = [OUnlock].
Proof. destruct l as [|[| |] [|]]; try discriminate; reflexivity. Qed.
Lemma holds_mode_true h m : holds_mode h m = true -> h = Some m.
Proof. destruct h as [[|]|], m; try discriminate; reflexivity. Qed.

Section RefInvariant.
Variable v : variant.
Hypothesis Hv : v <> VRin.
Variable n : nat.
Hypothesis Hn : Z.of_nat n < 16777215.

(* a step inside an nsync_mu_* call *)
Lemma rinv_mu w t : RInv v n w -> RInv v n (do_mu w t).
Proof.
  intros (I1 & I2 & I3 & I4 & I5 & I6 & I7 & I8 & I9 & I10 & I11 & I12).
  unfold RInv, do_mu, phase_of in *. cbn [mw refs freed bad ph].
  split; [apply (step_inv n Hn), I1|]. split; [apply (step_qinv n); assumption|].
  split; [exact I3|]. split; [exact I4|]. split.
  { rewrite I5. cbn [orb]. destruct (freed w) eqn:Ef; [|reflexivity]. cbn [andb].
    apply (step_safe (mw w) t). apply (I12 eq_refl). }
  split; [exact I6|]. split; [exact I7|]. split; [exact I8|]. split; [exact I9|]. split; [|split].
  - intros t' P. destruct (Nat.eq_dec t' t) as [->|N].
    + apply step_nonpre, I10, P.
    + rewrite step_frame by exact N. apply I10, P.
  - intros Ev F T PF N. destruct (Nat.eq_dec T t) as [->|N'].
    + pose proof (I6 F PF) as Z0.
      assert (nth t (ph w) Done <> Pre) as NP by (apply (no_pre w I4 Z0)).
      apply (step_releasing (mw w) t (nonpre_releasing v _ (I10 t NP))). apply (I11 Ev F t PF N).
    + rewrite step_frame by exact N'. apply (I11 Ev F T PF N).
  - intros Ef t'. destruct (Nat.eq_dec t' t) as [->|N].
    + apply (step_safe (mw w) t), (I12 Ef).
    + rewrite step_frame by exact N. apply (I12 Ef).
Qed.

(* the client's change of its own program *)
Lemma rinv_ops w t o rest : RInv v n w -> phase_of w t = Pre -> skip_ready (get (mw w) t) = Some rest ->
  RInv v n (do_ops w t o).
Proof.
  intros (I1 & I2 & I3 & I4 & I5 & I6 & I7 & I8 & I9 & I10 & I11 & I12) P S.
  assert (t < length (thr (mw w)))%nat as Ht.
  { destruct (Nat.lt_ge_cases t (length (thr (mw w)))) as [|G]; [assumption|].
    rewrite (get_oob _ _ G) in S. discriminate S. }
  assert (t < n)%nat as Ht' by (destruct I1 as (L & _); rewrite <- L; exact Ht).
  unfold RInv, do_ops, phase_of in *. cbn [mw refs freed bad ph].
  split; [apply set_ops_inv; assumption|]. split; [apply set_ops_qinv; assumption|].
  split; [exact I3|]. split; [exact I4|]. split; [exact I5|].
  split; [exact I6|]. split; [exact I7|]. split; [exact I8|]. split; [exact I9|]. split; [|split].
  - intros t' P'. assert (t' <> t) as N by (intros ->; contradiction).
    rewrite set_ops_frame by exact N. apply I10, P'.
  - intros Ev F T PF N. rewrite set_ops_held by exact Ht. apply (I11 Ev F T PF N).
  - intros Ef. exfalso. pose proof (pre_refs w t I4 P). specialize (I7 Ef). lia.
Qed.

(* last = (--refs == 0) *)
Lemma rinv_dec w t : RInv v n w -> phase_of w t = Pre -> dec_ready v (get (mw w) t) = true ->
  RInv v n (do_dec w t).
Proof.
  intros (I1 & I2 & I3 & I4 & I5 & I6 & I7 & I8 & I9 & I10 & I11 & I12) P D.
  pose proof (pre_refs w t I4 P) as R1.
  assert (t < length (ph w))%nat as Ht by (apply phase_inb; rewrite P; discriminate).
  assert (freed w = false) as Ef by (destruct (freed w); [specialize (I7 eq_refl); lia | reflexivity]).
  assert (forall t', phase_of w t' <> Dec true) as ND by (intros t' E; specialize (I6 t' E); lia).
  assert (forall t' x, phase_of (do_dec w t) t' = x -> (t' = t /\ x = Dec (refs w - 1 =? 0)) \/ (t' <> t /\ phase_of w t' = x)) as PH.
  { intros t' x. unfold phase_of, do_dec. cbn [ph]. destruct (Nat.eq_dec t' t) as [->|N].
    - rewrite nth_lupd_same by exact Ht. intros <-. left. split; reflexivity.
    - rewrite nth_lupd_other by exact N. intros E. right. split; assumption. }
  unfold RInv. change (mw (do_dec w t)) with (mw w). change (refs (do_dec w t)) with (refs w - 1).
  change (freed (do_dec w t)) with (freed w). change (bad (do_dec w t)) with (bad w || freed w)%bool.
  split; [exact I1|]. split; [exact I2|].
  split; [unfold do_dec; cbn [ph]; rewrite length_lupd; exact I3|].
  split. { unfold do_dec; cbn [ph]. rewrite cntPre_lupd by exact Ht. unfold phase_of in P. rewrite P. cbn [isPre b2z]. lia. }
  split; [rewrite I5, Ef; reflexivity|].
  split. { intros t' E. apply PH in E. destruct E as [[_ E] | [_ E]]; [|now elim (ND t')].
           injection E as E. symmetry in E. apply Z.eqb_eq in E. exact E. }
  split; [rewrite Ef; discriminate|].
  split. { intros t1 t2 E1 E2. apply PH in E1. apply PH in E2.
           destruct E1 as [[-> _] | [_ E1]]; [|now elim (ND t1)].
           destruct E2 as [[-> _] | [_ E2]]; [reflexivity | now elim (ND t2)]. }
  split; [rewrite Ef; discriminate|].
  split; [|split].
  - intros t' NP. destruct (Nat.eq_dec t' t) as [->|N].
    + clear NP. destruct v; [| |now elim Hv]; cbn [dec_ready nonpre_ok vmode] in *.
      * apply andb_prop in D. destruct D as [D D3]. apply andb_prop in D. destruct D as [D1 D2].
        left. split; [apply is_idle_true, D1|]. split; [apply only_unlock_true, D2 | apply holds_mode_true, D3].
      * apply andb_prop in D. destruct D as [D1 D2]. split; [apply is_idle_true, D1 | apply no_ops_true, D2].
    + apply I10. intros E. apply NP. unfold phase_of, do_dec. cbn [ph]. rewrite nth_lupd_other by exact N. exact E.
  - intros Ev F T PF N. apply PH in PF. destruct PF as [[-> _] | [_ PF]]; [|now elim (ND F)].
    subst v. cbn [dec_ready vmode] in D.
    apply andb_prop in D. destruct D as [_ D3]. apply holds_mode_true in D3.
    pose proof (excl_of_inv n (mw w) I1) as X. unfold excl, nthreads, holds in X.
    assert (t < length (thr (mw w)))%nat as Lt.
    { destruct (Nat.lt_ge_cases t (length (thr (mw w)))) as [|G]; [assumption|].
      rewrite (get_oob _ _ G) in D3. discriminate D3. }
    destruct (Nat.lt_ge_cases T (length (thr (mw w)))) as [LT|G]; [|rewrite (get_oob _ _ G); reflexivity].
    destruct (held (get (mw w) T)) as [[|]|] eqn:HT; [| |reflexivity]; exfalso; apply N; symmetry;
      apply (X t T Lt LT D3); auto.
  - rewrite Ef. discriminate.
Qed.

(* if (last) free (obj) *)
Lemma rinv_free w t l : RInv v n w -> phase_of w t = Dec l -> free_ready (get (mw w) t) = true ->
  RInv v n (do_free w t l).
Proof.
  intros (I1 & I2 & I3 & I4 & I5 & I6 & I7 & I8 & I9 & I10 & I11 & I12) P D.
  assert (t < length (ph w))%nat as Ht by (apply phase_inb; rewrite P; discriminate).
  assert (forall t' x, phase_of (do_free w t l) t' = x -> (t' = t /\ x = Done) \/ (t' <> t /\ phase_of w t' = x)) as PH.
  { intros t' x. unfold phase_of, do_free. cbn [ph]. destruct (Nat.eq_dec t' t) as [->|N].
    - rewrite nth_lupd_same by exact Ht. intros <-. left. split; reflexivity.
    - rewrite nth_lupd_other by exact N. intros E. right. split; assumption. }
  apply andb_prop in D. destruct D as [D1 D2]. apply is_idle_true in D1. apply no_ops_true in D2.
  unfold RInv. change (mw (do_free w t l)) with (mw w). change (refs (do_free w t l)) with (refs w).
  change (freed (do_free w t l)) with (freed w || l)%bool.
  change (bad (do_free w t l)) with (bad w || (l && freed w))%bool.
  assert ((freed w || l)%bool = true -> refs w = 0) as FZ.
  { intros E. apply orb_prop in E. destruct E as [E | ->]; [apply I7, E | apply (I6 t P)]. }
  split; [exact I1|]. split; [exact I2|].
  split; [unfold do_free; cbn [ph]; rewrite length_lupd; exact I3|].
  split. { unfold do_free; cbn [ph]. rewrite cntPre_lupd by exact Ht. unfold phase_of in P. rewrite P. cbn [isPre b2z]. lia. }
  split. { rewrite I5. cbn [orb]. destruct l; [|reflexivity]. destruct (freed w) eqn:Ef; [|reflexivity].
           now elim (I9 eq_refl t). }
  split. { intros t' E. apply PH in E. destruct E as [[_ E] | [_ E]]; [discriminate E | apply (I6 t' E)]. }
  split; [exact FZ|].
  split. { intros t1 t2 E1 E2. apply PH in E1. apply PH in E2.
           destruct E1 as [[_ E1] | [_ E1]]; [discriminate E1|].
           destruct E2 as [[_ E2] | [_ E2]]; [discriminate E2|]. apply (I8 t1 t2 E1 E2). }
  split. { intros E t' E'. apply PH in E'. destruct E' as [[_ E'] | [N E']]; [discriminate E'|].
           apply orb_prop in E. destruct E as [E | ->]; [now elim (I9 E t')|]. apply N, (I8 t' t E' P). }
  split; [|split].
  - intros t' NP. apply I10. destruct (Nat.eq_dec t' t) as [->|N]; [rewrite P; discriminate|].
    intros E. apply NP. unfold phase_of, do_free. cbn [ph]. rewrite nth_lupd_other by exact N. exact E.
  - intros Ev F T PF N. apply PH in PF. destruct PF as [[_ PF] | [_ PF]]; [discriminate PF|]. apply (I11 Ev F T PF N).
  - intros E T. destruct (freed w) eqn:Ef; [apply (I12 eq_refl)|]. cbn [orb] in E. subst l.
    (* THE ARGUMENT: t computed last = true, its release has returned, it frees the object now *)
    pose proof (I6 t P) as Z0.
    assert (nonpre_ok v (get (mw w) T)) as OK by (apply I10, (no_pre w I4 Z0)).
    destruct (Nat.eq_dec T t) as [->|N]; [split; [exact D2 | rewrite D1; reflexivity]|].
    destruct v; [| |now elim Hv]; cbn [nonpre_ok] in OK.
    2:{ destruct OK as [a b]. split; [exact b | rewrite a; reflexivity]. }
    pose proof (I11 eq_refl t T P N) as HT.
    destruct OK as [(_ & _ & c) | (Ho & Hu)]; [rewrite c in HT; discriminate HT|].
    split; [exact Ho|].
    pose proof I1 as (_ & _ & Hok). specialize (Hok T). fold (get (mw w) T) in Hok. unfold pc_ok in Hok.
    pose proof I2 as ((_ & _ & _ & Hw & _) & _ & HA). specialize (HA T).
    destruct (t_pc (get (mw w) T)) eqn:EP; try discriminate Hu; try reflexivity; exfalso;
      try (rewrite HT in Hok; discriminate Hok).
    + (* UsRelLoad: the early-release window -- a waiter on the wake list still owns a reference *)
      cbn [pcA] in HA. destruct HA as (Nw & _). destruct (wake u) as [|p rest] eqn:Ew; [now elim Nw|].
      specialize (Hw T p). unfold kof in Hw. rewrite EP in Hw. cbn [role_of wl] in Hw. rewrite Ew in Hw.
      destruct (Hw (or_introl eq_refl)) as (_ & Hq & _). rewrite isq_role_of in Hq.
      assert (nonpre_ok VWin (get (mw w) p)) as OKp by (apply I10, (no_pre w I4 Z0)).
      rewrite (releasing_not_queued _ (nonpre_releasing _ _ OKp)) in Hq. discriminate Hq.
    + (* UsRelCas *)
      cbn [pcA] in HA. destruct HA as (Nw & _). destruct (wake u) as [|p rest] eqn:Ew; [now elim Nw|].
      specialize (Hw T p). unfold kof in Hw. rewrite EP in Hw. cbn [role_of wl] in Hw. rewrite Ew in Hw.
      destruct (Hw (or_introl eq_refl)) as (_ & Hq & _). rewrite isq_role_of in Hq.
      assert (nonpre_ok VWin (get (mw w) p)) as OKp by (apply I10, (no_pre w I4 Z0)).
      rewrite (releasing_not_queued _ (nonpre_releasing _ _ OKp)) in Hq. discriminate Hq.
Qed.

Lemma rstep_rinv w t : RInv v n w -> RInv v n (rstep v w t).
Proof.
  intros H. unfold rstep. cbv zeta.
  destruct (phase_of w t) as [|l|] eqn:P.
  - destruct (dec_ready v (get (mw w) t)) eqn:D; [apply rinv_dec; assumption|].
    destruct (skip_ready (get (mw w) t)) as [rest|] eqn:S; [eapply rinv_ops; eassumption | apply rinv_mu, H].
  - destruct (free_ready (get (mw w) t)) eqn:D; [apply rinv_free; assumption | apply rinv_mu, H].
  - apply rinv_mu, H.
Qed.

Lemma rrun_rinv sched : forall w, RInv v n w -> RInv v n (rrun v w sched).
Proof.
  unfold rrun. induction sched as [|t rest IH]; intros w H; cbn [fold_left]; [exact H|].
  apply IH, rstep_rinv, H.
Qed.

End RefInvariant.

(* ================================================================== *)
(* Part 5: reachable worlds                                            *)
(* ================================================================== *)

Lemma nth_map_const {A B} (c d : B) (l : list A) t : (t < length l)%nat -> nth t (map (fun _ => c) l) d = c.
Proof. revert t. induction l as [|a l IH]; intros [|t] H; cbn in *; try lia; [reflexivity | apply IH; lia]. Qed.

Lemma rinit_phase progs t : phase_of (rinit progs) t = Pre \/ (phase_of (rinit progs) t = Done /\ (length progs <= t)%nat).
Proof.
  unfold phase_of, rinit. cbn [ph].
  destruct (Nat.lt_ge_cases t (length progs)) as [L|G].
  - left. apply nth_map_const, L.
  - right. split; [apply nth_overflow; rewrite map_length; exact G | exact G].
Qed.

Lemma rinit_rinv v progs : RInv v (length progs) (rinit progs).
Proof.
  unfold RInv. change (mw (rinit progs)) with (init progs). change (freed (rinit progs)) with false.
  change (bad (rinit progs)) with false. change (refs (rinit progs)) with (Z.of_nat (length progs)).
  assert (forall t l, phase_of (rinit progs) t <> Dec l) as ND.
  { intros t l E. destruct (rinit_phase progs t) as [E' | [E' _]]; rewrite E' in E; discriminate E. }
  split; [apply init_inv|]. split; [apply init_qinv|].
  split; [unfold rinit; cbn [ph]; apply map_length|].
  split; [unfold rinit; cbn [ph]; symmetry; apply cntPre_init|].
  split; [reflexivity|].
  split; [intros t E; now elim (ND t true)|]. split; [discriminate|].
  split; [intros t1 t2 E; now elim (ND t1 true)|]. split; [discriminate|].
  split; [|split; [|discriminate]].
  - intros t NP. destruct (rinit_phase progs t) as [E | [_ G]]; [contradiction|].
    assert (get (init progs) t = dflt_t) as E by (apply get_oob; unfold init; cbn [thr]; rewrite map_length; exact G).
    rewrite E. destruct v; cbn [nonpre_ok]; try (right; split; reflexivity). split; reflexivity.
  - intros _ F T E. now elim (ND F true).
Qed.

Lemma reachable_rinv v progs sched : v <> VRin -> Z.of_nat (length progs) < 2 ^ 24 - 1 ->
  RInv v (length progs) (rrun v (rinit progs) sched).
Proof. intros Hv H. apply (rrun_rinv v Hv (length progs) H). apply rinit_rinv. Qed.

(* the theorem of the property *)
Lemma no_touch_after_free : forall v progs sched, v <> VRin -> Z.of_nat (length progs) < 2 ^ 24 - 1 ->
  bad (rrun v (rinit progs) sched) = false.
Proof. intros v progs sched Hv H. apply (reachable_rinv v progs sched Hv H). Qed.

(* ... and what lies behind it: once the object is freed nobody owns a reference and every thread is between calls
   for good, crashed, or in the wake-up tail of nsync_mu_unlock_slow_ (so nobody acquires, releases or waits) *)
Lemma tail_after_free : forall v progs sched, v <> VRin -> Z.of_nat (length progs) < 2 ^ 24 - 1 ->
  let w := rrun v (rinit progs) sched in
  freed w = true ->
  refs w = 0 /\
  forall t, phase_of w t <> Pre /\ t_ops (get (mw w) t) = [] /\
            match t_pc (get (mw w) t) with
            | Idle | Crash _ | UsWakeStore _ _ | UsWakeV _ _ _ => True
            | _ => False
            end.
Proof.
  intros v progs sched Hv H w Ef.
  destruct (reachable_rinv v progs sched Hv H) as (_ & _ & _ & I4 & _ & _ & I7 & _ & _ & _ & _ & I12).
  fold w in I4, I7, I12.
  specialize (I7 Ef). split; [exact I7|]. intros t.
  split; [apply (no_pre w I4 I7)|]. destruct (I12 Ef t) as [Ho Hp]. split; [exact Ho|].
  destruct (t_pc (get (mw w) t)); try discriminate Hp; exact I.
Qed.

(* the free: by a thread that computed last = true, when its release has returned; it changes nothing of the mutex *)
Lemma free_step : forall v w t, freed w = false -> freed (rstep v w t) = true ->
  phase_of w t = Dec true /\ t_pc (get (mw w) t) = Idle /\ t_ops (get (mw w) t) = [] /\ mw (rstep v w t) = mw w.
Proof.
  intros v w t Ef. unfold rstep. cbv zeta.
  destruct (phase_of w t) as [|l|] eqn:P.
  - destruct (dec_ready v (get (mw w) t)); [cbn [do_dec freed]; congruence|].
    destruct (skip_ready (get (mw w) t)); cbn [do_ops do_mu freed]; congruence.
  - destruct (free_ready (get (mw w) t)) eqn:D; [|cbn [do_mu freed]; congruence].
    cbn [do_free freed mw]. rewrite Ef. cbn [orb]. intros ->.
    apply andb_prop in D. destruct D as [D1 D2]. apply is_idle_true in D1. apply no_ops_true in D2. auto.
  - cbn [do_mu freed]. congruence.
Qed.

(* ----- non-vacuity ----- *)
(* three threads, each lock; decrement; unlock; free-if-last.
   0 acquires; 1 queues (7 steps, now at LsWaitLoad); 0 decrements (3 -> 2) and releases through
   nsync_mu_unlock_slow_: ... UsCasSpin, UsRelLoad, UsRelCas (the last CAS), UsWakeStore (waiting := 0 of waiter 1);
   it is now at UsWakeV.  1 sees waiting = 0, acquires, decrements (2 -> 1), releases, passes its `if (last)`;
   2 acquires, decrements (1 -> 0), releases, FREES -- while 0 has still to post 1's semaphore. *)
Definition tail_progs : list (list op) := pattern VWin [[]; []; []].
Definition tail_sched : list nat :=
  [0; 1;1;1;1;1;1;1; 0;0;0;0;0;0;0;0; 1;1;1;1;1;1; 2;2;2;2]%nat.

Lemma tail_example :
  let w := rrun VWin (rinit tail_progs) tail_sched in
  freed w = true /\ bad w = false /\ refs w = 0 /\ ph w = [Dec false; Done; Done] /\
  (exists u, t_pc (get (mw w) 0%nat) = UsWakeV W 1%nat u) /\
  touches_mu (t_pc (get (mw w) 0%nat)) = false /\
  snd (step (mw w) 0%nat) = EvV 1%nat /\
  let w' := rrun VWin w [0; 0]%nat in
  bad w' = false /\ ph w' = [Done; Done; Done] /\ sem (mw w') 1%nat = 1 /\
  map (fun s => (t_pc s, t_ops s, held s)) (thr (mw w')) = [(Idle, [], None); (Idle, [], None); (Idle, [], None)].
Proof.
  cbv zeta. split; [vm_compute; reflexivity|]. split; [vm_compute; reflexivity|]. split; [vm_compute; reflexivity|].
  split; [vm_compute; reflexivity|]. split; [eexists; vm_compute; reflexivity|].
  split; [vm_compute; reflexivity|]. split; [vm_compute; reflexivity|].
  split; [vm_compute; reflexivity|]. split; [vm_compute; reflexivity|]. split; vm_compute; reflexivity.
Qed.

(* the early-release window is exercised as well: the same run stopped when thread 0 is at UsRelLoad (it has given
   the lock bit away and still owns the spinlock): waiter 1 -- on 0's wake list -- still owns its reference *)
Lemma window_example :
  let w := rrun VWin (rinit tail_progs) [0; 1;1;1;1;1;1;1; 0;0;0;0;0]%nat in
  (exists u, t_pc (get (mw w) 0%nat) = UsRelLoad W u /\ wake u = [1%nat]) /\ held (get (mw w) 0%nat) = None /\
  word (mw w) mod 2 = 0 /\ ph w = [Dec false; Pre; Pre] /\ refs w = 2 /\ freed w = false.
Proof.
  cbv zeta. split; [eexists; split; vm_compute; reflexivity|].
  split; [vm_compute; reflexivity|]. split; [vm_compute; reflexivity|].
  split; [vm_compute; reflexivity|]. split; vm_compute; reflexivity.
Qed.

(* ----- the in-lock read-mode pattern is a client error ----- *)
(* two readers: 0 rlocks and decrements (2 -> 1); 1 rlocks, decrements (1 -> 0, last), runlocks, frees -- while 0
   still holds ITS read lock and has its nsync_mu_runlock to do *)
Definition rin_progs : list (list op) := pattern VRin [[]; []].
Definition rin_sched : list nat := [0; 0; 1;1;1; 1; 1;1;1; 1]%nat.

Lemma reader_inlock_witness :
  let w := rrun VRin (rinit rin_progs) rin_sched in
  freed w = true /\ bad w = false /\
  held (get (mw w) 0%nat) = Some R /\ phase_of w 0%nat = Dec false /\ t_ops (get (mw w) 0%nat) = [OUnlock] /\
  bad (rstep VRin w 0%nat) = true.
Proof.
  cbv zeta. split; [vm_compute; reflexivity|]. split; [vm_compute; reflexivity|]. split; [vm_compute; reflexivity|].
  split; [vm_compute; reflexivity|]. split; vm_compute; reflexivity.
Qed.

Definition reader_inlock_full : Prop :=
  forall progs sched, Z.of_nat (length progs) < 2 ^ 24 - 1 -> bad (rrun VRin (rinit progs) sched) = false.

Lemma reader_inlock_refuted : ~ reader_inlock_full.
Proof.
  intros H. specialize (H rin_progs (rin_sched ++ [0%nat]) ltac:(vm_compute; reflexivity)).
  vm_compute in H. discriminate H.
Qed.

(* ----- instances ----- *)
Lemma no_touch_after_free_W : forall progs sched, Z.of_nat (length progs) < 2 ^ 24 - 1 ->
  bad (rrun VWin (rinit progs) sched) = false.
Proof. intros progs sched H. apply no_touch_after_free; [discriminate | exact H]. Qed.

Lemma no_touch_after_free_Rafter : forall progs sched, Z.of_nat (length progs) < 2 ^ 24 - 1 ->
  bad (rrun VRafter (rinit progs) sched) = false.
Proof. intros progs sched H. apply no_touch_after_free; [discriminate | exact H]. Qed.

Lemma tail_after_free_W : forall progs sched, Z.of_nat (length progs) < 2 ^ 24 - 1 ->
  let w := rrun VWin (rinit progs) sched in
  freed w = true ->
  refs w = 0 /\
  forall t, phase_of w t <> Pre /\ t_ops (get (mw w) t) = [] /\
            match t_pc (get (mw w) t) with
            | Idle | Crash _ | UsWakeStore _ _ | UsWakeV _ _ _ => True
            | _ => False
            end.
Proof. intros progs sched H. apply tail_after_free; [discriminate | exact H]. Qed.

(* in the sound read-mode pattern every other thread has returned from its last call when the object is freed *)
Lemma all_returned_Rafter : forall progs sched, Z.of_nat (length progs) < 2 ^ 24 - 1 ->
  let w := rrun VRafter (rinit progs) sched in
  freed w = true ->
  refs w = 0 /\ forall t, phase_of w t <> Pre /\ t_pc (get (mw w) t) = Idle /\ t_ops (get (mw w) t) = [].
Proof.
  intros progs sched H w Ef.
  destruct (reachable_rinv VRafter progs sched ltac:(discriminate) H) as (_ & _ & _ & I4 & _ & _ & I7 & _ & _ & I10 & _).
  fold w in I4, I7, I10. specialize (I7 Ef). split; [exact I7|]. intros t.
  pose proof (no_pre w I4 I7 t) as NP. split; [exact NP|]. exact (I10 t NP).
Qed.

(* more runs *)
(* the decrement round entered by `while (!trylock) yield` behind an extra reader round of the other thread:
   0 rlocks; 1: trylock fails (2 steps), the client retries (1), fails again (2); 0 runlocks; 1 retries, succeeds,
   decrements (2 -> 1), unlocks, is not last; 0 locks, decrements (1 -> 0), unlocks, frees *)
Definition try_progs : list (list op) := [[OLock R; OUnlock; OLock W; OUnlock]; [OTry W; OUnlock]].
Definition try_sched : list nat := [0; 1;1; 1; 1;1; 0; 1; 1; 1; 1; 1; 0; 0; 0; 0]%nat.

Lemma try_example :
  t_ops (get (mw (rrun VWin (rinit try_progs) [0; 1;1; 1]%nat)) 1%nat) = [OTry W; OUnlock] /\
  let w := rrun VWin (rinit try_progs) try_sched in
  freed w = true /\ bad w = false /\ refs w = 0 /\ ph w = [Done; Done] /\ word (mw w) = 0.
Proof.
  cbv zeta. split; [vm_compute; reflexivity|]. split; [vm_compute; reflexivity|]. split; [vm_compute; reflexivity|].
  split; [vm_compute; reflexivity|]. split; vm_compute; reflexivity.
Qed.

(* the sound read-mode pattern: two readers inside together, each decrements after its runlock has returned *)
Lemma rafter_example :
  let w := rrun VRafter (rinit (pattern VRafter [[]; []])) [0; 1;1;1; 0;0;0; 0; 0; 1; 1; 1]%nat in
  freed w = true /\ bad w = false /\ refs w = 0 /\ ph w = [Done; Done].
Proof.
  cbv zeta. split; [vm_compute; reflexivity|]. split; [vm_compute; reflexivity|]. split; vm_compute; reflexivity.
Qed.
