(* CvProof .. CvProof7: invariants of Model/CvModel.v (nsync condition variables, current code with the F3, F15 and F16 repairs) and
   the lemmas used by Props/Properties_C04.v and Props/Properties_C05cv.v.

   CvProof.v   Layer T  facts local to one wait call and the log of returns (mode held at return, reason of the return
                        code, no P in the wait loop after sem_outcome became non-zero)            -> TInv
               Layer A  the cv spinlock is a lock                                                   -> AInv
               Layer S  structure of the record table (owners, native vs nsync_wait_n records)      -> SInv
   CvProof2.v  Layer P  where every record is (cv queue / private list of a waker / mutex queue / dequeued by an
                        unlocker / nowhere), the remove_count protocol of native waiters (Jst), the membership test of
                        cv_dequeue, the waiting-flag invariant, dead records are on no list and are never touched
                        (every access of wake_waiters / signal / broadcast / cv_dequeue is a [touch])  -> PInv, Inv_run
   CvProof3.v  Layer C  CV_NON_EMPTY is set whenever the queue is non-empty and the spinlock is free   -> CInv
               Q2c      converse of the private-list invariant; a waker that holds records always moves
   CvProof4.v  Layer W  semaphore / owed-post accounting: no wake-up is lost; progress ([no_stuck_reachable])  -> WInv
               Layer N  the same for the sleepers of nsync_wait_n                                              -> NInv
   CvProof5.v  Layer K  the run-level account of every signal / broadcast call (ghost history, [wlog])         -> KInv
               Layer G  wake_waiters transfers only native waiters associated with the mutex (F16)             -> GInv
   CvProof6.v  Layer D  CV_NON_EMPTY while somebody is inside a spinlock section                               -> DInv
               Layer L  the lock field of the abstract mutex word counts the holders of the model              -> LInv
               Layer F  the mutex spinlock section of wake_waiters: owner, spinlock bit, clear_on_release against the
                        transferred queue (F15: MU_WAITING after the release only if a waiter is queued)       -> FInv, LF_run
   CvProof7.v           C05: a wait whose outcome is decided returns when run alone
   All layers are inductive over [step] for any number of threads, any programs, schedules, clock and note
   behaviour.  Every value the model writes goes through Gen/Sites.v; the lemmas [spin_new_1/3], [lowbits_set],
   [cas_new_inc], [spin_guard_low], [cas1_word], [cas2_word] are where the generated expressions are used. *)
From NsyncBase Require Import CSem.
From NsyncGen Require Import Consts Sites.
From NsyncModel Require Import CvModel.
From Coq Require Import List ZArith Bool Lia PeanoNat.
Import ListNotations.
Local Open Scope Z_scope.

(* ---------- lists ---------- *)
Lemma length_lupd {A} (l : list A) k v : length (lupd l k v) = length l.
Proof. revert k; induction l; destruct k; simpl; auto. Qed.
Lemma nth_lupd_same {A} (l : list A) k v d : (k < length l)%nat -> nth k (lupd l k v) d = v.
Proof. revert k; induction l; destruct k; simpl; intros; try lia; auto. apply IHl; lia. Qed.
Lemma nth_lupd_other {A} (l : list A) k k' v d : k <> k' -> nth k' (lupd l k v) d = nth k' l d.
Proof. revert k k'; induction l; destruct k, k'; simpl; intros; try congruence; auto. Qed.
Lemma nth_lupd_oob {A} (l : list A) k v : (length l <= k)%nat -> lupd l k v = l.
Proof. revert k; induction l; destruct k; simpl; intros; try lia; auto. f_equal; apply IHl; lia. Qed.
Lemma lupd_lupd {A} (l : list A) k a b : lupd (lupd l k a) k b = lupd l k b.
Proof. revert k; induction l; destruct k; simpl; auto. f_equal; auto. Qed.

Ltac red_w :=
  cbv beta zeta delta [set_pc set_held add_ret set_t upd_rec mu_acquire mu_release touch touch_all set_rec
         set_thr set_cvw set_cvq set_recs set_nrec set_sem set_muw set_muq set_mwake set_mspin set_clock
         set_notified set_dead set_owed set_wlog touch_queue get] in *;
  cbn [cvw cvq recs nrec sem muw muq mwake mspin clock notified expiry thr dead_touch owed wlog t_pc t_ops held rets fst snd] in *.

Ltac norm_w :=
  red_w;
  repeat (first [ rewrite lupd_lupd in * | rewrite length_lupd in *
                | rewrite nth_lupd_same in * by (rewrite ?length_lupd; assumption) ];
          cbn [t_pc t_ops held rets] in * ).

(* ---------- fupd / folds over record maps ---------- *)
Lemma fupd_same {A} (f : nat -> A) k v : fupd f k v k = v.
Proof. unfold fupd. now rewrite Nat.eqb_refl. Qed.
Lemma fupd_other {A} (f : nat -> A) k v x : x <> k -> fupd f k v x = f x.
Proof. unfold fupd. intros H. destruct (Nat.eqb_spec x k); congruence. Qed.

Lemma map_recs_notin g l f r : ~ In r l -> map_recs g l f r = f r.
Proof.
  revert f. induction l as [|p l IH]; simpl; intros f H; [reflexivity|].
  rewrite IH by tauto. apply fupd_other. intro; subst; tauto.
Qed.
Lemma map_recs_in g l f r : (forall x, g (g x) = g x) -> In r l -> map_recs g l f r = g (f r).
Proof.
  intros Hg. revert f. induction l as [|p l IH]; simpl; intros f H; [tauto|].
  destruct (in_dec Nat.eq_dec r l) as [Hi|Hn].
  - rewrite IH by assumption. destruct (Nat.eq_dec r p) as [->|Hne].
    + rewrite fupd_same. apply Hg.
    + now rewrite fupd_other.
  - rewrite map_recs_notin by assumption.
    destruct H as [->|H]; [apply fupd_same | tauto].
Qed.
Lemma map_recs_field {B} (phi : rec -> B) g l f r : (forall x, phi (g x) = phi x) -> phi (map_recs g l f r) = phi (f r).
Proof.
  intros Hg. revert f. induction l as [|p l IH]; simpl; intros f; [reflexivity|].
  rewrite IH. unfold fupd. destruct (Nat.eqb r p) eqn:E; [|reflexivity].
  apply Nat.eqb_eq in E; subst. apply Hg.
Qed.
(* ---------- id lists ---------- *)
Lemma mem_id_In r l : mem_id r l = true <-> In r l.
Proof.
  induction l as [|x l IH]; simpl; [split; [discriminate|tauto]|].
  destruct (Nat.eqb_spec x r); [subst; tauto|]. rewrite IH. split; [tauto|]. intros [?|?]; [congruence|assumption].
Qed.
Lemma mem_id_false r l : mem_id r l = false <-> ~ In r l.
Proof. rewrite <- mem_id_In. destruct (mem_id r l); split; congruence. Qed.
Lemma In_remove_id x r l : In x (remove_id r l) <-> In x l /\ x <> r.
Proof.
  induction l as [|y l IH]; simpl; [tauto|].
  destruct (Nat.eqb_spec y r); simpl; rewrite ?IH; split; intros; intuition (subst; auto; congruence).
Qed.
Lemma NoDup_remove_id r l : NoDup l -> NoDup (remove_id r l).
Proof.
  induction 1 as [|y l Hy Hl IH]; simpl; [constructor|].
  destruct (Nat.eqb_spec y r); [assumption|]. constructor; [|assumption]. rewrite In_remove_id. tauto.
Qed.
Lemma remove_id_notin r l : ~ In r l -> remove_id r l = l.
Proof.
  induction l as [|y l IH]; simpl; intros H; [reflexivity|].
  destruct (Nat.eqb_spec y r); [subst; tauto|]. f_equal. apply IH. tauto.
Qed.

(* ---------- the selection functions ---------- *)
Definition part (q a b : list nat) : Prop :=
  (forall x, In x q <-> In x a \/ In x b) /\
  (NoDup q -> NoDup a /\ NoDup b /\ (forall x, In x a -> ~ In x b)).

Lemma part_nil : part [] [] [].
Proof. split; simpl; [tauto|]. intros; repeat split; try constructor. tauto. Qed.
Lemma part_cons_l p q a b : part q a b -> part (p :: q) (p :: a) b.
Proof.
  intros [H1 H2]. split.
  - intros x; simpl; rewrite H1; tauto.
  - intros H; inversion H as [|? ? Hn Hq]; subst. destruct (H2 Hq) as (Ha & Hb & Hd).
    repeat split; [constructor; [rewrite H1 in Hn; tauto | assumption] | assumption |].
    intros x [->|Hx]; [rewrite H1 in Hn; tauto | now apply Hd].
Qed.
Lemma part_cons_r p q a b : part q a b -> part (p :: q) a (p :: b).
Proof.
  intros [H1 H2]. split.
  - intros x; simpl; rewrite H1; tauto.
  - intros H; inversion H as [|? ? Hn Hq]; subst. destruct (H2 Hq) as (Ha & Hb & Hd).
    repeat split; [assumption | constructor; [rewrite H1 in Hn; tauto | assumption] |].
    intros x Hx [->|Hx']; [rewrite H1 in Hn; tauto | now apply (Hd x)].
Qed.

Lemma sig_scan_part rs q ww : part q (fst (fst (sig_scan rs q ww))) (snd (fst (sig_scan rs q ww))).
Proof.
  revert ww; induction q as [|p q IH]; intros ww; simpl; [apply part_nil|].
  destruct (is_rdr (rs p)).
  - specialize (IH ww). destruct (sig_scan rs q ww) as [[wk kp] w']. simpl in *. now apply part_cons_l.
  - destruct ww; simpl.
    + specialize (IH true). destruct (sig_scan rs q true) as [[wk kp] w']. simpl in *. now apply part_cons_r.
    + specialize (IH true). destruct (sig_scan rs q true) as [[wk kp] w']. simpl in *. now apply part_cons_l.
Qed.

Lemma sel_signal_part rs q : part q (fst (fst (sel_signal rs q))) (snd (fst (sel_signal rs q))).
Proof.
  destruct q as [|f q]; simpl; [apply part_nil|].
  destruct (is_rdr (rs f)).
  - pose proof (sig_scan_part rs q false) as H. destruct (sig_scan rs q false) as [[wk kp] w']. simpl in *. now apply part_cons_l.
  - simpl. apply part_cons_l. clear. induction q; [apply part_nil | now apply part_cons_r].
Qed.
Lemma sel_broadcast_part rs q : part q (fst (fst (sel_broadcast rs q))) (snd (fst (sel_broadcast rs q))).
Proof. simpl. induction q; [apply part_nil | now apply part_cons_l]. Qed.

(* what nsync_cv_signal selects *)
Lemma sel_signal_first rs f q : In f (fst (fst (sel_signal rs (f :: q)))).
Proof. simpl. destruct (is_rdr (rs f)); [destruct (sig_scan rs q false) as [[? ?] ?]|]; simpl; auto. Qed.
Lemma sig_scan_readers rs q ww x : In x q -> is_rdr (rs x) = true -> In x (fst (fst (sig_scan rs q ww))).
Proof.
  revert ww; induction q as [|p q IH]; intros ww Hx Hr; simpl in *; [tauto|].
  destruct Hx as [->|Hx].
  - rewrite Hr. destruct (sig_scan rs q ww) as [[? ?] ?]; simpl; auto.
  - destruct (is_rdr (rs p)); [|destruct ww; simpl].
    + specialize (IH ww Hx Hr). destruct (sig_scan rs q ww) as [[? ?] ?]; simpl in *; auto.
    + specialize (IH true Hx Hr). destruct (sig_scan rs q true) as [[? ?] ?]; simpl in *; auto.
    + specialize (IH true Hx Hr). destruct (sig_scan rs q true) as [[? ?] ?]; simpl in *; auto.
Qed.
Definition nonreaders (rs : nat -> rec) (l : list nat) : list nat := filter (fun p => negb (is_rdr (rs p))) l.
Lemma sig_scan_writers rs q ww :
  (length (nonreaders rs (fst (fst (sig_scan rs q ww)))) <= if ww then 0 else 1)%nat /\
  (nonreaders rs q <> [] -> snd (sig_scan rs q ww) = true) /\ (ww = true -> snd (sig_scan rs q ww) = true).
Proof.
  revert ww; induction q as [|p q IH]; intros ww; simpl.
  - repeat split; try (destruct ww; simpl; lia); auto; unfold nonreaders; simpl; congruence.
  - unfold nonreaders in *. simpl. destruct (is_rdr (rs p)) eqn:E; simpl.
    + specialize (IH ww). destruct (sig_scan rs q ww) as [[wk kp] w']. simpl in *. rewrite E. simpl. exact IH.
    + destruct ww; simpl.
      * specialize (IH true). destruct (sig_scan rs q true) as [[wk kp] w']. simpl in *. destruct IH as (A & B & C).
        repeat split; auto.
      * specialize (IH true). destruct (sig_scan rs q true) as [[wk kp] w']. simpl in *. rewrite E. simpl.
        destruct IH as (A & B & C). repeat split; auto; try lia; congruence.
Qed.

(* wake_waiters: the transfer *)
Lemma xfer_rest_part rs fca fw q a b :
  part q (fst (fst (fst (xfer_rest rs fca fw q a b)))) (snd (fst (fst (xfer_rest rs fca fw q a b)))).
Proof.
  revert a b; induction q as [|p q IH]; intros a b; simpl; [apply part_nil|].
  destruct (negb (is_mucv (rs p)) || negb (cv_mu (rs p))).
  - specialize (IH a b). destruct (xfer_rest rs fca fw q a b) as [[[m s] a'] b']. simpl in *. now apply part_cons_r.
  - destruct (fca || fw || (is_mucv (rs p) && is_W (l_type (rs p)))).
    + specialize (IH (a || (is_mucv (rs p) && is_W (l_type (rs p)))) b).
      destruct (xfer_rest rs fca fw q _ b) as [[[m s] a'] b']. simpl in *. now apply part_cons_l.
    + specialize (IH a (b || negb (is_mucv (rs p) && is_W (l_type (rs p))))).
      destruct (xfer_rest rs fca fw q a _) as [[[m s] a'] b']. simpl in *. now apply part_cons_r.
Qed.
Lemma xfer_rest_native rs fca fw q a b x : In x (fst (fst (fst (xfer_rest rs fca fw q a b)))) -> is_mucv (rs x) = true.
Proof.
  revert a b; induction q as [|p q IH]; intros a b; simpl; [tauto|].
  destruct (is_mucv (rs p)) eqn:E; simpl.
  - destruct (negb (cv_mu (rs p))).
    { specialize (IH a b). destruct (xfer_rest rs fca fw q a b) as [[[m s] a'] b']. simpl in *. auto. }
    destruct (fca || fw || is_W (l_type (rs p))).
    + specialize (IH (a || is_W (l_type (rs p))) b). destruct (xfer_rest rs fca fw q _ b) as [[[m s] a'] b']. simpl in *.
      intros [->|H]; auto.
    + specialize (IH a (b || negb (is_W (l_type (rs p))))). destruct (xfer_rest rs fca fw q a _) as [[[m s] a'] b']. simpl in *. auto.
  - specialize (IH a b). destruct (xfer_rest rs fca fw q a b) as [[[m s] a'] b']. simpl in *. auto.
Qed.
(* ... and (the repair of F16) associated with the mutex: a waiter of nsync_cv_wait_with_deadline_generic with the caller's own
   lock routines (cv_mu == NULL) is never moved to the mutex queue *)
Lemma xfer_rest_assoc rs fca fw q a b x : In x (fst (fst (fst (xfer_rest rs fca fw q a b)))) -> is_mucv (rs x) = true /\ cv_mu (rs x) = true.
Proof.
  revert a b; induction q as [|p q IH]; intros a b; simpl; [tauto|].
  destruct (is_mucv (rs p)) eqn:E; simpl.
  - destruct (cv_mu (rs p)) eqn:E2; simpl.
    + destruct (fca || fw || is_W (l_type (rs p))).
      * specialize (IH (a || is_W (l_type (rs p))) b). destruct (xfer_rest rs fca fw q _ b) as [[[m s] a'] b']. simpl in *.
        intros [->|H]; auto.
      * specialize (IH a (b || negb (is_W (l_type (rs p))))). destruct (xfer_rest rs fca fw q a _) as [[[m s] a'] b']. simpl in *. auto.
    + specialize (IH a b). destruct (xfer_rest rs fca fw q a b) as [[[m s] a'] b']. simpl in *. auto.
  - specialize (IH a b). destruct (xfer_rest rs fca fw q a b) as [[[m s] a'] b']. simpl in *. auto.
Qed.
Lemma xfer_part rs fca wake : part wake (fst (fst (xfer rs fca wake))) (snd (fst (xfer rs fca wake))).
Proof.
  destruct wake as [|f q]; simpl; [apply part_nil|].
  pose proof (xfer_rest_part rs fca (is_W (l_type (rs f))) q (if fca then is_W (l_type (rs f)) else false)
                (if fca then false else negb (is_W (l_type (rs f))))) as H.
  destruct (xfer_rest rs fca _ q _ _) as [[[m s] a'] b']. simpl in *.
  destruct fca; simpl; [now apply part_cons_l | now apply part_cons_r].
Qed.
Lemma xfer_native rs fca f rest x : is_mucv (rs f) = true -> In x (fst (fst (xfer rs fca (f :: rest)))) -> is_mucv (rs x) = true.
Proof.
  intros Hf. simpl.
  pose proof (xfer_rest_native rs fca (is_W (l_type (rs f))) rest (if fca then is_W (l_type (rs f)) else false)
                (if fca then false else negb (is_W (l_type (rs f)))) x) as H.
  destruct (xfer_rest rs fca _ rest _ _) as [[[m s] a'] b']. simpl in *.
  destruct fca; simpl; [intros [<-|Hx]; auto | auto].
Qed.
Lemma xfer_assoc rs fca f rest x : is_mucv (rs f) = true -> cv_mu (rs f) = true -> In x (fst (fst (xfer rs fca (f :: rest)))) ->
  is_mucv (rs x) = true /\ cv_mu (rs x) = true.
Proof.
  intros Hf Hc. simpl.
  pose proof (xfer_rest_assoc rs fca (is_W (l_type (rs f))) rest (if fca then is_W (l_type (rs f)) else false)
                (if fca then false else negb (is_W (l_type (rs f)))) x) as H.
  destruct (xfer_rest rs fca _ rest _ _) as [[[m s] a'] b']. simpl in *.
  destruct fca; simpl; [intros [<-|Hx]; auto | auto].
Qed.
Lemma xfer_set rs fca wake : snd (xfer rs fca wake) = 0 \/ snd (xfer rs fca wake) = MU_WRITER_WAITING.
Proof.
  destruct wake as [|f q]; simpl; [auto|].
  destruct (xfer_rest rs fca _ q _ _) as [[[m s] a'] b']. simpl. destruct (a' && negb b'); auto.
Qed.

(* ---------- thread states ---------- *)
Lemma get_same w t s : (t < length (thr w))%nat -> get (set_t w t s) t = s.
Proof. intros. unfold get, set_t, set_thr; cbn [thr]. now apply nth_lupd_same. Qed.
Lemma get_other w t s t' : t <> t' -> get (set_t w t s) t' = get w t'.
Proof. intros. unfold get, set_t, set_thr; cbn [thr]. now apply nth_lupd_other. Qed.
Lemma get_oob w t : (length (thr w) <= t)%nat -> get w t = dflt_t.
Proof. intros. unfold get. now apply nth_overflow. Qed.

Lemma get_set_pc w t p : (t < length (thr w))%nat ->
  get (set_pc w t p) t = mk_t p (t_ops (get w t)) (held (get w t)) (rets (get w t)).
Proof. intros. unfold set_pc. now apply get_same. Qed.
Lemma pc_set_pc w t p : (t < length (thr w))%nat -> t_pc (get (set_pc w t p) t) = p.
Proof. intros. now rewrite get_set_pc. Qed.
Lemma get_set_held w t h : (t < length (thr w))%nat ->
  get (set_held w t h) t = mk_t (t_pc (get w t)) (t_ops (get w t)) h (rets (get w t)).
Proof. intros. unfold set_held. now apply get_same. Qed.
Lemma get_add_ret w t r : (t < length (thr w))%nat ->
  get (add_ret w t r) t = mk_t (t_pc (get w t)) (t_ops (get w t)) (held (get w t)) (r :: rets (get w t)).
Proof. intros. unfold add_ret. now apply get_same. Qed.
Lemma get_mu_acquire w t m : (t < length (thr w))%nat ->
  get (mu_acquire w t m) t = mk_t (t_pc (get w t)) (t_ops (get w t)) (Some m) (rets (get w t)).
Proof. intros. unfold mu_acquire. now rewrite get_set_held. Qed.
Lemma get_mu_release w t m : (t < length (thr w))%nat ->
  get (mu_release w t m) t = mk_t (t_pc (get w t)) (t_ops (get w t)) None (rets (get w t)).
Proof. intros. unfold mu_release. now rewrite get_set_held. Qed.
Lemma get_set_cvw w v t : get (set_cvw w v) t = get w t. Proof. reflexivity. Qed.
Lemma get_set_cvq w v t : get (set_cvq w v) t = get w t. Proof. reflexivity. Qed.
Lemma get_set_recs w v t : get (set_recs w v) t = get w t. Proof. reflexivity. Qed.
Lemma get_set_rec w r v t : get (set_rec w r v) t = get w t. Proof. reflexivity. Qed.
Lemma get_upd_rec w r v t : get (upd_rec w r v) t = get w t. Proof. reflexivity. Qed.
Lemma get_set_nrec w v t : get (set_nrec w v) t = get w t. Proof. reflexivity. Qed.
Lemma get_set_sem w r v t : get (set_sem w r v) t = get w t. Proof. reflexivity. Qed.
Lemma get_set_muw w v t : get (set_muw w v) t = get w t. Proof. reflexivity. Qed.
Lemma get_set_muq w v t : get (set_muq w v) t = get w t. Proof. reflexivity. Qed.
Lemma get_set_mwake w v t : get (set_mwake w v) t = get w t. Proof. reflexivity. Qed.
Lemma get_set_mspin w v t : get (set_mspin w v) t = get w t. Proof. reflexivity. Qed.
Lemma get_set_clock w v t : get (set_clock w v) t = get w t. Proof. reflexivity. Qed.
Lemma get_set_notified w v t : get (set_notified w v) t = get w t. Proof. reflexivity. Qed.
Lemma get_set_dead w v t : get (set_dead w v) t = get w t. Proof. reflexivity. Qed.
Lemma get_touch w r t : get (touch w r) t = get w t. Proof. reflexivity. Qed.
Lemma get_touch_all w r t : get (touch_all w r) t = get w t. Proof. reflexivity. Qed.
Lemma get_touch_queue w t : get (touch_queue w) t = get w t. Proof. reflexivity. Qed.
Lemma get_set_owed w r v t : get (set_owed w r v) t = get w t. Proof. reflexivity. Qed.
Lemma get_set_wlog w v t : get (set_wlog w v) t = get w t. Proof. reflexivity. Qed.
Lemma len_set_pc w t p : length (thr (set_pc w t p)) = length (thr w).
Proof. unfold set_pc, set_t; simpl. apply length_lupd. Qed.
Lemma len_set_t w t p : length (thr (set_t w t p)) = length (thr w).
Proof. unfold set_t; simpl. apply length_lupd. Qed.
Lemma len_set_held w t p : length (thr (set_held w t p)) = length (thr w).
Proof. unfold set_held, set_t; simpl. apply length_lupd. Qed.
Lemma len_add_ret w t p : length (thr (add_ret w t p)) = length (thr w).
Proof. unfold add_ret, set_t; simpl. apply length_lupd. Qed.
Lemma len_mu_acquire w t p : length (thr (mu_acquire w t p)) = length (thr w).
Proof. unfold mu_acquire. now rewrite len_set_held. Qed.
Lemma len_mu_release w t p : length (thr (mu_release w t p)) = length (thr w).
Proof. unfold mu_release. now rewrite len_set_held. Qed.
#[export] Hint Rewrite get_set_cvw get_set_cvq get_set_recs get_set_rec get_upd_rec get_set_nrec get_set_sem get_set_muw
  get_set_muq get_set_mwake get_set_mspin get_set_clock get_set_notified get_set_dead get_touch get_touch_all get_touch_queue
  get_set_owed get_set_wlog : getdb.
Ltac len_solve := rewrite ?len_set_pc, ?len_set_t, ?len_set_held, ?len_add_ret, ?len_mu_acquire, ?len_mu_release; simpl;
                  rewrite ?len_set_pc, ?len_set_t, ?len_set_held, ?len_add_ret, ?len_mu_acquire, ?len_mu_release; simpl;
                  rewrite ?length_lupd; assumption.
(* normal form of [get w' t] for the thread that stepped *)
Ltac get_nf :=
  repeat first [ rewrite get_set_pc by len_solve | rewrite get_same by len_solve | rewrite get_add_ret by len_solve | rewrite get_set_held by len_solve
               | rewrite get_mu_acquire by len_solve | rewrite get_mu_release by len_solve
               | progress autorewrite with getdb ]; cbn [t_pc t_ops held rets].

Ltac destr_all :=
  repeat match goal with
         | |- context [match ?x with _ => _ end] => destruct x eqn:?
         end.

(* ================================================================== *)
(* Layer T: facts local to one nsync_cv_wait_with_deadline_generic /   *)
(* nsync_wait_n call, and the log of returns (C05, cv half)            *)
(* ================================================================== *)
Definition mode_of (rdr : bool) : mode := if rdr then R else W.

Definition so_ok (clk : Z) (ntf : bool) (l : wl) : Prop :=
  w_so l = 0 \/
  (w_so l = ETIMEDOUT /\ exists d c, w_dl l = Some d /\ w_toclk l = Some c /\ d <= c /\ c <= clk) \/
  (w_so l = ECANCELED /\ w_can l = true /\ ntf = true).
Definition wl_ok (clk : Z) (ntf : bool) (l : wl) : Prop :=
  so_ok clk ntf l /\ (w_out l = 0 \/ w_out l = w_so l) /\ w_pafter l = 0.
Definition lt_ok (x : rec) (l : wl) : Prop :=
  if w_gen l then True else l_type x = Some (mode_of (w_rdr l)).

(* phase of a wait: 0 before the mode is captured, 1 until the mutex is released, 2 afterwards *)
Definition wphase (p : pc) : option (nat * wl) :=
  match p with
  | WStore1 l | WLoadMu l => Some (0%nat, l)
  | SpLoad _ (KWaitEnq l) | SpCas (KWaitEnq l) _ | WLoadRc l | WStoreRel l | WMuRel l => Some (1%nat, l)
  | SpLoad _ (KWaitTo l) | SpCas (KWaitTo l) _ | WLoop l | WSem l | WLoad6 l | WLoad7 l | WLoad8 l | WRcLoad l
  | WRcCas l _ | WStore0 l | WStoreW l | WLoad13 l | WMuAcq l => Some (2%nat, l)
  | _ => None
  end.
(* nsync_wait_n: 0 until cv_enqueue is done, 1 about to release, 2 afterwards *)
Definition nphase (p : pc) : option (nat * nl) :=
  match p with
  | SpLoad _ (KEnq n) | SpCas (KEnq n) _ | NEnqStore n | NEnqRel n => Some (0%nat, n)
  | NMuRel n => Some (1%nat, n)
  | SpLoad _ (KDeq n) | SpCas (KDeq n) _ | NReady n | NSem n | NDeqLoad n | NDeqStore n | NDeqRel n | NDeqSpin n
  | NMuAcq n => Some (2%nat, n)
  | _ => None
  end.

Definition ret_ok (r : ret) : Prop :=
  r_held r = r_entry r /\
  (r_wait r = true ->
     r_held r <> None /\ r_pafter r = 0 /\
     (r_code r = 0 \/
      (r_code r = ETIMEDOUT /\ exists d c, r_dl r = Some d /\ r_toclk r = Some c /\ d <= c /\ c <= r_clk r) \/
      (r_code r = ECANCELED /\ r_can r = true /\ r_notified r = true))).

Definition tinv_s (w : world) (t : nat) (s : tstate) : Prop :=
  Forall ret_ok (rets s) /\
  match wphase (t_pc s) with
  | None => True
  | Some (ph, l) =>
      wl_ok (clock w) (notified w) l /\ (match t_pc s with WSem _ => w_so l = 0 | _ => True end) /\
      match ph with
      | 0%nat => w_entry l = held s /\ w_rdr l = false /\ (match t_pc s with WLoadMu _ => w_gen l = false | _ => True end)
      | 1%nat => w_entry l = held s /\ lt_ok (recs w t) l
      | _ => (exists m, w_entry l = Some m /\ m = mode_of (w_rdr l)) /\ lt_ok (recs w t) l /\ held s = None
      end
  end /\
  match nphase (t_pc s) with
  | None => True
  | Some (ph, n) =>
      match ph with
      | 0%nat => n_rel n = None
      | 1%nat => n_rel n = held s /\ held s <> None
      | _ => held s = None /\ (match t_pc s with NMuAcq _ => n_rel n <> None | _ => True end)
      end
  end.

Definition tinv (w : world) (t : nat) : Prop := tinv_s w t (get w t).

Definition TInv (w : world) : Prop := (length (thr w) <= nrec w)%nat /\ forall t, tinv w t.

Ltac unfold_st :=
  unfold st_MLock, st_MUnlock, st_SpLoad, st_SpCas, st_WStore1, st_WLoadMu, st_WLoadRc, st_WStoreRel, st_WMuRel, st_WLoop,
         st_WSem, st_WLoad6, st_WLoad7, st_WLoad8, st_WRcLoad, st_WRcCas, st_WStore0, st_WStoreW, st_WLoad13, st_WMuAcq,
         st_KLoadW, st_KRcLoad, st_KRcCas, st_KStoreW, st_VLoad1, st_VCas1, st_VLoad3, st_VCas2, st_VLoad5, st_VStore, st_VV,
         st_NEnqStore, st_NEnqRel, st_NMuRel, st_NReady, st_NSem, st_NDeqLoad, st_NDeqStore, st_NDeqRel, st_NDeqSpin, st_NMuAcq,
         int_p, spin_done, waitn_end, wake_done, touch_queue.
Ltac step_cases w t := unfold step_core; destruct (t_pc (get w t)) eqn:Hpc; unfold_st; destr_all.

Lemma fupd_field {B} (phi : rec -> B) f p v r : (r = p -> phi v = phi (f p)) -> phi (fupd f p v r) = phi (f r).
Proof. intros H. unfold fupd. destruct (Nat.eqb_spec r p); [subst; auto | reflexivity]. Qed.

Ltac frame_field phi :=
  repeat first [ rewrite (map_recs_field phi) by reflexivity
               | rewrite (fupd_field phi) by (intros; subst; (reflexivity || congruence)) ]; try reflexivity.

(* fields of records and how a step of thread t can change them *)
Lemma step_core_static w t c r :
  owner (recs (fst (step_core w t c)) r) = owner (recs w r) /\ is_mucv (recs (fst (step_core w t c)) r) = is_mucv (recs w r).
Proof. step_cases w t; simpl; unfold clear_cv_mu; (split; [frame_field owner | frame_field is_mucv]). Qed.

Lemma step_core_ltype w t c r : r <> t -> l_type (recs (fst (step_core w t c)) r) = l_type (recs w r).
Proof. intros Hr. step_cases w t; simpl; unfold clear_cv_mu; frame_field l_type. Qed.

Lemma step_core_other w t c t' : t <> t' -> get (fst (step_core w t c)) t' = get w t'.
Proof.
  intros Hn. step_cases w t; simpl; unfold set_pc, add_ret, mu_acquire, mu_release, set_held; simpl;
    rewrite ?get_other by assumption; try reflexivity.
Qed.
Lemma step_core_misc w t c :
  let w' := fst (step_core w t c) in
  clock w' = clock w /\ nrec w' = nrec w /\ length (thr w') = length (thr w) /\ expiry w' = expiry w /\
  (notified w = true -> notified w' = true).
Proof. step_cases w t; simpl; rewrite ?length_lupd; auto. Qed.

Lemma tinv_frame w w' t :
  get w' t = get w t -> clock w <= clock w' -> (notified w = true -> notified w' = true) ->
  l_type (recs w' t) = l_type (recs w t) -> tinv w t -> tinv w' t.
Proof.
  intros Hg Hc Hn Hl. unfold tinv. rewrite Hg. generalize (get w t) as s. intros s (H1 & H2 & H3).
  unfold tinv_s. split; [assumption|]. split; [|assumption].
  destruct (wphase (t_pc s)) as [[ph l]|]; [|trivial].
  destruct H2 as ((Hso & Ho & Hp) & Hs & Hph). split; [|split; [assumption|]].
  - split; [|tauto]. destruct Hso as [Hso|[(Hso & d & c & Hd & Hc' & Hle1 & Hle2)|(Hso & Hcan & Hnt)]].
    + now left.
    + right; left. split; [assumption|]. exists d, c. repeat split; auto; lia.
    + right; right. auto.
  - unfold lt_ok in *. rewrite Hl. exact Hph.
Qed.

Ltac getred :=
  unfold get; simpl;
  repeat (progress (rewrite ?lupd_lupd, ?length_lupd; rewrite ?nth_lupd_same by (rewrite ?length_lupd; assumption)); simpl).
Ltac zbool :=
  repeat match goal with
         | H : (_ =? _) = true |- _ => apply Z.eqb_eq in H
         | H : (_ =? _) = false |- _ => apply Z.eqb_neq in H
         | H : (_ <=? _) = true |- _ => apply Z.leb_le in H
         | H : (_ <? _) = true |- _ => apply Z.ltb_lt in H
         | H : (_ && _) = true |- _ => apply andb_true_iff in H; destruct H
         end.
Lemma wphase_after_todo k : wphase (after_todo k) = None /\ nphase (after_todo k) = None.
Proof. unfold after_todo; destruct (k_todo k); auto. Qed.
Lemma wphase_enter_wake_loop k : wphase (enter_wake_loop k) = None /\ nphase (enter_wake_loop k) = None.
Proof. unfold enter_wake_loop; destruct (k_wake k); auto. Qed.
Lemma mode_eqb_eq a b : mode_eqb a b = true -> a = b.
Proof. destruct a, b; simpl; congruence. Qed.

Lemma wl_ok_old c n l v : wl_ok c n (wl_set_old l v) = wl_ok c n l. Proof. reflexivity. Qed.
Lemma wl_ok_rc c n l v : wl_ok c n (wl_set_rc l v) = wl_ok c n l. Proof. reflexivity. Qed.
Lemma wl_ok_rdr c n l v : wl_ok c n (wl_set_rdr l v) = wl_ok c n l. Proof. reflexivity. Qed.
Lemma lt_ok_old x l v : lt_ok x (wl_set_old l v) = lt_ok x l. Proof. reflexivity. Qed.
Lemma lt_ok_rc x l v : lt_ok x (wl_set_rc l v) = lt_ok x l. Proof. reflexivity. Qed.
Lemma lt_ok_out x l v : lt_ok x (wl_set_out l v) = lt_ok x l. Proof. reflexivity. Qed.
Lemma lt_ok_so x l v c : lt_ok x (wl_set_so l v c) = lt_ok x l. Proof. reflexivity. Qed.
Lemma lt_ok_pa x l : lt_ok x (wl_inc_pafter l) = lt_ok x l. Proof. reflexivity. Qed.
Lemma lt_ok_field x y l : l_type x = l_type y -> lt_ok x l = lt_ok y l.
Proof. unfold lt_ok. now intros ->. Qed.

Lemma wl_ok_pa c n l : w_so l = 0 -> wl_ok c n l -> wl_ok c n (wl_inc_pafter l).
Proof.
  intros Hs (A & B & C). unfold wl_ok, so_ok, wl_inc_pafter in *; simpl. rewrite Hs in *. simpl.
  split; [now left|]. split; assumption.
Qed.
Lemma wl_ok_timeout c n l d : w_so l = 0 -> w_dl l = Some d -> d <= c -> wl_ok c n l -> wl_ok c n (wl_set_so l ETIMEDOUT (Some c)).
Proof.
  intros Hs Hd Hle (A & B & C). unfold wl_ok, so_ok in *; simpl. repeat split; [|lia|assumption].
  right; left. split; [reflexivity|]. exists d, c. repeat split; auto; lia.
Qed.
Lemma wl_ok_cancel c n l : w_so l = 0 -> w_can l = true -> wl_ok c n l -> wl_ok c true (wl_set_so l ECANCELED None).
Proof. intros Hs Hd (A & B & C). unfold wl_ok, so_ok in *; simpl. repeat split; [|lia|assumption]. right; right. auto. Qed.
Lemma wl_ok_out c n l : wl_ok c n l -> wl_ok c n (wl_set_out l (w_so l)).
Proof. intros (A & B & C). unfold wl_ok, so_ok in *; simpl. tauto. Qed.
Lemma lt_ok_taker x o p l : lt_ok (r_move x o p) l = lt_ok x l. Proof. reflexivity. Qed.

Lemma ret_ok_wait clk ntf l m tk r :
  wl_ok clk ntf l -> w_entry l = Some m ->
  ret_ok (mk_ret true (w_out l) (w_entry l) (Some m) r tk (w_dl l) (w_toclk l) clk (w_can l) ntf (w_pafter l)).
Proof.
  intros (A & B & C) E. unfold ret_ok; simpl. split; [congruence|]. intros _. split; [congruence|]. split; [assumption|].
  destruct B as [B|B]; [now left|]. rewrite B. exact A.
Qed.

Lemma tinv_step_self w t c : TInv w -> (t < length (thr w))%nat -> tinv (fst (step_core w t c)) t.
Proof.
  intros [Hn H] Hlt. pose proof (H t) as HT. pose proof HT as Ht. unfold tinv, tinv_s in Ht.
  step_cases w t; try rewrite Hpc in Ht; simpl in Ht.
  all: simpl fst; try exact HT.
  all: unfold tinv; get_nf; unfold tinv_s, wait_ret, waitn_ret; simpl; get_nf.
  all: rewrite ?(proj1 (wphase_after_todo _)), ?(proj2 (wphase_after_todo _)),
               ?(proj1 (wphase_enter_wake_loop _)), ?(proj2 (wphase_enter_wake_loop _)).
  all: try (try rewrite Hpc; simpl; tauto).
  all: rewrite ?wl_ok_old, ?wl_ok_rc, ?wl_ok_rdr, ?lt_ok_old, ?lt_ok_rc, ?lt_ok_out, ?lt_ok_so, ?lt_ok_pa.
  all: try tauto.
  all: unfold clear_cv_mu;
       try (erewrite (lt_ok_field (fupd _ _ _ _)) by (rewrite fupd_same; reflexivity));
       try (erewrite (lt_ok_field (map_recs _ _ _ _)) by (apply (map_recs_field l_type); reflexivity)).
  all: try tauto.
  all: rewrite ?lt_ok_taker.
  all: destruct Ht as (HF & Hw & Hnn); repeat match goal with H : _ /\ _ |- _ => destruct H end; zbool;
       repeat match goal with H : mode_eqb _ _ = true |- _ => apply mode_eqb_eq in H end.
  all: repeat match goal with |- _ /\ _ => split end; auto using wl_ok_pa, wl_ok_out; eauto using wl_ok_timeout, wl_ok_cancel.
  all: try (constructor; [|assumption]).
  all: unfold lt_ok in *; simpl in *.
  all: try solve [destruct (w_gen l); simpl in *; congruence].
  all: try solve [eexists; split; [etransitivity; [eassumption|eassumption]|]; destruct (w_rdr l); simpl in *; congruence].
  all: try solve [apply (ret_ok_wait _ _ _ _ _ _ ltac:(eassumption)); destruct (w_gen l), (w_rdr l); simpl in *; congruence].
  all: try match goal with H : nsync_cv_wait_with_deadline_generic_load1_guard (if w_gen ?l then 0 else 1) = _ |- _ =>
           destruct (w_gen l); cbv in H; simpl in *; congruence end.
  all: repeat match goal with H : exists _, _ |- _ => destruct H as (? & ? & ?) end; subst.
  all: repeat match goal with
              | H : w_rdr ?l = _ |- _ => rewrite H in *; clear H
              | H : w_gen ?l = _ |- _ => rewrite H in *; clear H
              | H : negb _ = true |- _ => apply negb_true_iff in H
              end; simpl in *.
  all: try reflexivity.
  all: try solve [eapply ret_ok_wait; eassumption].
  all: try match goal with A : l_type ?x = Some ?m1, B : l_type ?x = Some ?m2 |- _ => rewrite A in B; injection B as <- end.
  all: try congruence.
  all: try solve [eapply ret_ok_wait; eassumption].
  all: try solve [unfold ret_ok; simpl; split; [congruence | discriminate]].
  all: try congruence.
  all: eauto.
Qed.

Lemma tinv_oob w t : get w t = dflt_t -> tinv w t.
Proof. intros E. unfold tinv. rewrite E. unfold tinv_s. simpl. auto. Qed.

Lemma TInv_step_core w t c : TInv w -> (t < length (thr w))%nat -> TInv (fst (step_core w t c)).
Proof.
  intros HI Hlt. pose proof (step_core_misc w t c) as (Hc & Hr & Hl & _ & Hnt). split.
  - rewrite Hl, Hr. apply HI.
  - intros t'. destruct (Nat.eq_dec t' t) as [->|Hne]; [now apply tinv_step_self|].
    apply (tinv_frame w); [apply step_core_other; congruence | lia | assumption | now apply step_core_ltype | apply HI].
Qed.

Lemma begin_op_other w t t' : t <> t' -> get (begin_op w t) t' = get w t'.
Proof.
  intros Hn. unfold begin_op. destruct (t_pc (get w t)); try reflexivity. destruct (t_ops (get w t)) as [|o rest]; [reflexivity|].
  destruct o; unfold set_pc; simpl; rewrite ?get_other by assumption; try reflexivity.
  all: unfold get, set_t; simpl; rewrite ?nth_lupd_other by assumption; reflexivity.
Qed.
Lemma begin_op_misc w t :
  let w' := begin_op w t in
  clock w' = clock w /\ (nrec w <= nrec w')%nat /\ length (thr w') = length (thr w) /\ notified w' = notified w /\
  expiry w' = expiry w /\ (forall r, r <> nrec w -> recs w' r = recs w r) /\
  cvw w' = cvw w /\ cvq w' = cvq w /\ muw w' = muw w /\ muq w' = muq w /\ mwake w' = mwake w /\ mspin w' = mspin w /\
  sem w' = sem w /\ dead_touch w' = dead_touch w.
Proof.
  unfold begin_op. destruct (t_pc (get w t)); try (repeat split; auto; fail).
  destruct (t_ops (get w t)) as [|o rest]; [repeat split; auto|].
  destruct o; simpl; rewrite ?length_lupd; repeat split; auto.
  intros r Hr. now rewrite fupd_other.
Qed.

Lemma TInv_begin_op w t : TInv w -> TInv (begin_op w t).
Proof.
  intros [Hn H]. pose proof (begin_op_misc w t) as (Hc & Hr & Hl & Hnt & _ & Hrec & _). split; [lia|].
  intros t'. destruct (Nat.eq_dec t' t) as [->|Hne].
  - pose proof (H t) as Ht. unfold tinv, tinv_s in Ht.
    unfold begin_op. destruct (t_pc (get w t)) eqn:Hpc; try apply H.
    destruct (t_ops (get w t)) as [|o rest] eqn:Hops; [apply H|].
    destruct (le_lt_dec (length (thr w)) t) as [Hoob|Hlt].
    { rewrite (get_oob w t Hoob) in Hops. discriminate. }
    simpl in Ht. destruct Ht as (HF & _ & _).
    destruct o; unfold tinv; get_nf; rewrite ?get_same by (simpl; assumption); unfold tinv_s; simpl.
    all: try (destruct (held (get w t)); simpl; tauto).
    all: try tauto.
    split; [assumption|]. split; [|trivial]. split; [|tauto]. unfold wl_ok, so_ok; simpl. tauto.
  - destruct (le_lt_dec (length (thr w)) t') as [Hoob|Hlt].
    + apply tinv_oob. rewrite begin_op_other by congruence. now apply get_oob.
    + apply (tinv_frame w); [apply begin_op_other; congruence | lia | congruence | | apply H].
      rewrite Hrec by lia. reflexivity.
Qed.

Lemma step_thr_oob w t c : (length (thr w) <= t)%nat -> fst (step_thr w t c) = w.
Proof.
  intros Hoob. unfold step_thr, begin_op. rewrite (get_oob w t Hoob). simpl.
  unfold step_core. rewrite (get_oob w t Hoob). reflexivity.
Qed.

(* the environment steps leave the threads and the l_type of every record alone *)
Lemma env_frame w a c :
  (forall t, a <> Thr t) ->
  let w' := fst (step w a c) in
  (forall t, get w' t = get w t) /\ clock w <= clock w' /\ (notified w = true -> notified w' = true) /\
  (forall r, l_type (recs w' r) = l_type (recs w r) /\ owner (recs w' r) = owner (recs w r) /\
             is_mucv (recs w' r) = is_mucv (recs w r) /\ live (recs w' r) = live (recs w r) /\
             taker (recs w' r) = taker (recs w r) /\ cv_mu (recs w' r) = cv_mu (recs w r)) /\
  nrec w' = nrec w /\ length (thr w') = length (thr w) /\ cvw w' = cvw w /\ cvq w' = cvq w /\ dead_touch w' = dead_touch w.
Proof.
  intros Ha. destruct a; try (exfalso; eapply Ha; reflexivity); simpl; destr_all; simpl; repeat split; auto; try lia.
  all: zbool; try lia.
  all: try (apply (fupd_field _); intros; subst; reflexivity).
Qed.

Lemma TInv_step w a c : TInv w -> TInv (fst (step w a c)).
Proof.
  intros HI. destruct a as [t| | | | | | | |].
  { simpl. destruct (le_lt_dec (length (thr w)) t) as [Hoob|Hlt].
    - now rewrite step_thr_oob.
    - unfold step_thr. apply TInv_step_core; [now apply TInv_begin_op|].
      now rewrite (proj1 (proj2 (proj2 (begin_op_misc w t)))). }
  all: match goal with |- TInv (fst (step ?w0 ?a ?c0)) =>
         pose proof (env_frame w0 a c0 ltac:(intros; discriminate)) as (Hg & Hc & Hn & Hr & Hnr & Hl & _) end.
  all: destruct HI as [Hlen H]; split; [rewrite Hl, Hnr; assumption|].
  all: intros t0; eapply tinv_frame; [apply Hg | assumption | assumption | apply Hr | apply H].
Qed.

Lemma TInv_init progs clock0 exp : TInv (init progs clock0 exp).
Proof.
  split; [simpl; rewrite map_length; lia|]. intros t. unfold tinv, tinv_s, get, init; simpl.
  destruct (le_lt_dec (length progs) t) as [Hoob|Hlt].
  - rewrite nth_overflow by (rewrite map_length; assumption). simpl. auto.
  - rewrite (nth_indep _ dflt_t (mk_t Idle [] None [])) by (rewrite map_length; assumption).
    change (mk_t Idle [] None []) with ((fun p => mk_t Idle p None []) []). rewrite map_nth. simpl. auto.
Qed.

Lemma run_app w s1 s2 : run w (s1 ++ s2) = run (run w s1) s2.
Proof. unfold run. apply fold_left_app. Qed.
Lemma run_snoc w s a c : run w (s ++ [(a, c)]) = fst (step (run w s) a c).
Proof. rewrite run_app. reflexivity. Qed.

Lemma TInv_run progs clock0 exp sched : TInv (run (init progs clock0 exp) sched).
Proof.
  induction sched as [|[a c] s IH] using rev_ind; [apply TInv_init|]. rewrite run_snoc. now apply TInv_step.
Qed.

(* ================================================================== *)
(* Layer A: the cv spinlock is a lock                                  *)
(* ================================================================== *)
Definition pc_spin (p : pc) : bool :=
  match p with
  | WLoadRc _ | WStoreRel _ | WLoad7 _ | WLoad8 _ | WRcLoad _ | WRcCas _ _ | WStore0 _ | WStoreW _
  | KRcLoad _ | KRcCas _ _ | KStoreW _ | NEnqStore _ | NEnqRel _ | NDeqLoad _ | NDeqStore _ | NDeqRel _ => true
  | _ => false
  end.
(* the copy of the cv word a thread will write back (or CAS against) *)
Definition pc_old (p : pc) : option Z :=
  match p with
  | SpCas _ old => Some old
  | WLoadRc l | WStoreRel l | WLoad7 l | WLoad8 l | WRcLoad l | WRcCas l _ | WStore0 l | WStoreW l => Some (w_old l)
  | KRcLoad k | KRcCas k _ | KStoreW k => Some (k_old k)
  | NEnqStore n | NEnqRel n | NDeqLoad n | NDeqStore n | NDeqRel n => Some (n_old n)
  | _ => None
  end.
Definition lowbits (v : Z) : Prop := v = 0 \/ v = 2.     (* CV_NON_EMPTY or nothing: the spinlock bit is clear *)

Definition AInv (w : world) : Prop :=
  (forall t1 t2, pc_spin (t_pc (get w t1)) = true -> pc_spin (t_pc (get w t2)) = true -> t1 = t2) /\
  (forall t, pc_spin (t_pc (get w t)) = true -> cvw w = 1 \/ cvw w = 3) /\
  (forall t old, pc_old (t_pc (get w t)) = Some old -> lowbits old) /\
  ((exists t, pc_spin (t_pc (get w t)) = true) \/ lowbits (cvw w)).

Lemma spin_guard_low old : 0 <= old < 4 -> nsync_spin_test_and_set_cas1_guard old CV_SPINLOCK = true -> lowbits old.
Proof.
  intros R H. unfold lowbits. assert (old = 0 \/ old = 1 \/ old = 2 \/ old = 3) as [-> | [-> | [-> | ->]]] by lia;
    vm_compute in H; try discriminate; auto.
Qed.
Lemma spin_new_val old k : lowbits old ->
  nsync_spin_test_and_set_cas1_new old (spin_set k) 0 = 1 \/ nsync_spin_test_and_set_cas1_new old (spin_set k) 0 = 3.
Proof. intros [-> | ->]; destruct k; vm_compute; auto. Qed.
Lemma spin_new_1 old : lowbits old ->
  nsync_spin_test_and_set_cas1_new old CV_SPINLOCK 0 = 1 \/ nsync_spin_test_and_set_cas1_new old CV_SPINLOCK 0 = 3.
Proof. intros [-> | ->]; vm_compute; auto. Qed.
Lemma spin_new_3 old : lowbits old ->
  nsync_spin_test_and_set_cas1_new old 3 0 = 1 \/ nsync_spin_test_and_set_cas1_new old 3 0 = 3.
Proof. intros [-> | ->]; vm_compute; auto. Qed.

Lemma lowbits_clear old : lowbits old -> lowbits (band old (bnot32 CV_NON_EMPTY)).
Proof. intros [-> | ->]; vm_compute; auto. Qed.
Lemma lowbits_set old : lowbits old -> lowbits (nsync_cv_wait_with_deadline_generic_store2_new old) /\ lowbits (cv_enqueue_store2_new old).
Proof. intros [-> | ->]; vm_compute; auto. Qed.
Lemma lowbits_0 : lowbits 0. Proof. now left. Qed.
Lemma pc_old_after_todo k : pc_old (after_todo k) = Some (k_old k) /\ pc_spin (after_todo k) = true.
Proof. unfold after_todo. destruct (k_todo k); auto. Qed.
Lemma pc_old_enter_wake_loop k : pc_old (enter_wake_loop k) = None /\ pc_spin (enter_wake_loop k) = false.
Proof. unfold enter_wake_loop. destruct (k_wake k); auto. Qed.

Lemma AInv_range w : AInv w -> 0 <= cvw w < 4.
Proof. intros (_ & A2 & _ & [[t Ht]|[H|H]]); [destruct (A2 t Ht)|..]; lia. Qed.

Ltac pc_nf := rewrite ?pc_set_pc by len_solve.
Lemma step_core_A w t c : AInv w -> (t < length (thr w))%nat ->
  let w' := fst (step_core w t c) in
  let p := t_pc (get w t) in let p' := t_pc (get w' t) in
  (forall old, pc_old p' = Some old -> lowbits old) /\
  ((pc_spin p = pc_spin p' /\ cvw w' = cvw w) \/
   (pc_spin p = false /\ pc_spin p' = true /\ lowbits (cvw w) /\ (cvw w' = 1 \/ cvw w' = 3)) \/
   (pc_spin p = true /\ pc_spin p' = false /\ lowbits (cvw w'))).
Proof.
  intros HA Hlt. pose proof (AInv_range w HA) as Hrng. destruct HA as (A1 & A2 & A3 & A4).
  pose proof (A3 t) as Hold.
  step_cases w t; try rewrite Hpc in *; simpl in Hold; simpl fst; pc_nf; rewrite ?Hpc; simpl.
  all: try (split; [exact Hold | left; split; reflexivity]).
  all: try (split; [intros ? [=] | left; split; reflexivity]).
  all: rewrite ?(proj1 (pc_old_after_todo _)), ?(proj2 (pc_old_after_todo _)),
               ?(proj1 (pc_old_enter_wake_loop _)), ?(proj2 (pc_old_enter_wake_loop _)); simpl.
  all: try (split; [exact Hold | left; split; reflexivity]).
  all: try (split; [intros ? [=] | left; split; reflexivity]).
  all: autorewrite with getdb; rewrite ?Hpc; simpl.
  all: try (split; [exact Hold | left; split; reflexivity]).
  all: try (subst; eapply spin_guard_low; eassumption).
  all: zbool; unfold nsync_spin_test_and_set_cas1_old in *.
  all: try match goal with H : forall o : Z, Some ?x = Some o -> lowbits o |- _ =>
         assert (Hlow : lowbits x) by (apply H; reflexivity) end.
  all: try (split; [intros ? [= <-]; auto using lowbits_clear, lowbits_0 |]).
  (* acquisitions *)
  all: try (right; left; repeat split; [congruence | first [apply spin_new_1 | apply spin_new_3]; assumption]).
  (* releases *)
  all: try (right; right; repeat split;
            first [ apply (proj1 (lowbits_set _ Hlow)) | apply (proj2 (lowbits_set _ Hlow)) | exact Hlow | exact lowbits_0 ]).
  all: subst; now apply lowbits_clear.
Qed.

Lemma AInv_step_core w t c : AInv w -> (t < length (thr w))%nat -> AInv (fst (step_core w t c)).
Proof.
  intros HA Hlt. pose proof (step_core_A w t c HA Hlt) as (Hold & Hch). cbv zeta in *.
  pose proof (AInv_range w HA) as Hrng. destruct HA as (A1 & A2 & A3 & A4).
  set (w' := fst (step_core w t c)) in *.
  assert (Hoth : forall t', t' <> t -> get w' t' = get w t') by (intros; apply step_core_other; congruence).
  assert (Hsp : forall t', t' <> t -> pc_spin (t_pc (get w' t')) = pc_spin (t_pc (get w t'))) by (intros; now rewrite Hoth).
  destruct Hch as [(Hs & Hw) | [(Hs0 & Hs1 & Hl & Hw) | (Hs0 & Hs1 & Hl)]].
  - (* no change of ownership *)
    assert (Hall : forall t', pc_spin (t_pc (get w' t')) = pc_spin (t_pc (get w t'))).
    { intros t'. destruct (Nat.eq_dec t' t) as [->|Hne]; [congruence | now apply Hsp]. }
    repeat split.
    + intros t1 t2. rewrite !Hall. apply A1.
    + intros t'. rewrite Hall, Hw. apply A2.
    + intros t' old. destruct (Nat.eq_dec t' t) as [->|Hne]; [apply Hold | rewrite Hoth by assumption; apply A3].
    + rewrite Hw. destruct A4 as [[t' Ht']|A4]; [left; exists t'; now rewrite Hall | now right].
  - (* acquisition: nobody held it *)
    assert (Hnone : forall t', pc_spin (t_pc (get w t')) = false).
    { intros t'. destruct (pc_spin (t_pc (get w t'))) eqn:E; [|reflexivity].
      destruct (A2 t' E) as [E'|E']; destruct Hl as [Hl|Hl]; congruence. }
    repeat split.
    + intros t1 t2 H1 H2. destruct (Nat.eq_dec t1 t) as [->|Hn1], (Nat.eq_dec t2 t) as [->|Hn2]; auto;
        rewrite ?Hsp, ?Hnone in * by assumption; discriminate.
    + intros _ _. exact Hw.
    + intros t' old. destruct (Nat.eq_dec t' t) as [->|Hne]; [apply Hold | rewrite Hoth by assumption; apply A3].
    + left. exists t. exact Hs1.
  - (* release *)
    assert (Hnone : forall t', pc_spin (t_pc (get w' t')) = false).
    { intros t'. destruct (Nat.eq_dec t' t) as [->|Hne]; [exact Hs1|]. rewrite Hsp by assumption.
      destruct (pc_spin (t_pc (get w t'))) eqn:E; [|reflexivity]. elim Hne. now apply A1. }
    repeat split.
    + intros t1 t2 H1. rewrite Hnone in H1. discriminate.
    + intros t' H1. rewrite Hnone in H1. discriminate.
    + intros t' old. destruct (Nat.eq_dec t' t) as [->|Hne]; [apply Hold | rewrite Hoth by assumption; apply A3].
    + now right.
Qed.


Lemma AInv_frame w w' :
  (forall t, pc_spin (t_pc (get w' t)) = pc_spin (t_pc (get w t)) /\ pc_old (t_pc (get w' t)) = pc_old (t_pc (get w t))) ->
  cvw w' = cvw w -> AInv w -> AInv w'.
Proof.
  intros Hf Hc (A1 & A2 & A3 & A4). repeat split.
  - intros t1 t2. rewrite (proj1 (Hf t1)), (proj1 (Hf t2)). apply A1.
  - intros t. rewrite (proj1 (Hf t)), Hc. apply A2.
  - intros t old. rewrite (proj2 (Hf t)). apply A3.
  - rewrite Hc. destruct A4 as [[t Ht]|A4]; [left; exists t; now rewrite (proj1 (Hf t)) | now right].
Qed.

Lemma begin_op_pc w t :
  get (begin_op w t) t = get w t \/
  (t_pc (get w t) = Idle /\ (t < length (thr w))%nat /\
   exists o rest, t_ops (get w t) = o :: rest /\
     t_pc (get (begin_op w t) t) =
       match o with
       | OLock m => match held (get w t) with None => MLock m | Some _ => Crash 4 end
       | OUnlock => match held (get w t) with Some _ => MUnlock | None => Crash 1 end
       | OWait dl can gen => WStore1 (mk_wl dl can gen (held (get w t)) false 0 0 0 0 None 0)
       | OSignal => KLoadW false
       | OBroadcast => KLoadW true
       | OWaitN dl => SpLoad true (KEnq (mk_nl (nrec w) dl 0 false None))
       end).
Proof.
  unfold begin_op. destruct (t_pc (get w t)) eqn:Hpc; auto. destruct (t_ops (get w t)) as [|o rest] eqn:Hops; auto.
  right. split; [reflexivity|]. destruct (le_lt_dec (length (thr w)) t) as [Hoob|Hlt].
  { rewrite (get_oob w t Hoob) in Hops. discriminate. }
  split; [assumption|]. exists o, rest. split; [reflexivity|].
  destruct o; rewrite pc_set_pc by len_solve; reflexivity.
Qed.

Lemma AInv_begin_op w t : AInv w -> AInv (begin_op w t).
Proof.
  intros HA. apply (AInv_frame w); [|apply begin_op_misc|assumption].
  intros t'. destruct (Nat.eq_dec t' t) as [->|Hne]; [|rewrite begin_op_other by congruence; auto].
  destruct (begin_op_pc w t) as [E|(Hpc & _ & o & rest & _ & E)]; [rewrite E; auto|].
  rewrite E, Hpc. destruct o; simpl; try destruct (held (get w t)); auto.
Qed.

Lemma AInv_step w a c : AInv w -> AInv (fst (step w a c)).
Proof.
  intros HA. destruct a as [t| | | | | | | |].
  { simpl. destruct (le_lt_dec (length (thr w)) t) as [Hoob|Hlt].
    - now rewrite step_thr_oob.
    - unfold step_thr. apply AInv_step_core; [now apply AInv_begin_op|].
      now rewrite (proj1 (proj2 (proj2 (begin_op_misc w t)))). }
  all: match goal with |- AInv (fst (step ?w0 ?a ?c0)) =>
         pose proof (env_frame w0 a c0 ltac:(intros; discriminate)) as (Hg & _ & _ & _ & _ & _ & Hcv & _) end.
  all: eapply AInv_frame; [intros t0; rewrite Hg; auto | exact Hcv | assumption].
Qed.

Lemma AInv_init progs clock0 exp : AInv (init progs clock0 exp).
Proof.
  assert (Hidle : forall t, t_pc (get (init progs clock0 exp) t) = Idle).
  { intros t. unfold get, init; simpl. destruct (le_lt_dec (length progs) t) as [Hoob|Hlt].
    - rewrite nth_overflow by (rewrite map_length; assumption). reflexivity.
    - rewrite (nth_indep _ dflt_t (mk_t Idle [] None [])) by (rewrite map_length; assumption).
      change (mk_t Idle [] None []) with ((fun p => mk_t Idle p None []) []). now rewrite map_nth. }
  repeat split.
  - intros t1 t2 H. rewrite Hidle in H. discriminate.
  - intros t H. rewrite Hidle in H. discriminate.
  - intros t old H. rewrite Hidle in H. discriminate.
  - right. now left.
Qed.

Lemma AInv_run progs clock0 exp sched : AInv (run (init progs clock0 exp) sched).
Proof.
  induction sched as [|[a c] s IH] using rev_ind; [apply AInv_init|]. rewrite run_snoc. now apply AInv_step.
Qed.

(* ================================================================== *)
(* Layer S: structure of the record table                              *)
(* ================================================================== *)
Definition pc_nl (p : pc) : option nl :=
  match p with
  | SpLoad _ (KEnq n) | SpCas (KEnq n) _ | SpLoad _ (KDeq n) | SpCas (KDeq n) _
  | NEnqStore n | NEnqRel n | NMuRel n | NReady n | NSem n | NDeqLoad n | NDeqStore n | NDeqRel n | NDeqSpin n | NMuAcq n => Some n
  | _ => None
  end.
Definition inc (x : Z) : Z := wrap_u 32 (x + 1).
Definition rng32 (x : Z) : Prop := 0 <= x < 4294967296.

Definition SInv (w : world) : Prop :=
  (length (thr w) <= nrec w)%nat /\
  (forall t, (t < length (thr w))%nat -> owner (recs w t) = t /\ is_mucv (recs w t) = true /\ live (recs w t) = true) /\
  (forall r, rng32 (rcount (recs w r))) /\
  (forall t n, pc_nl (t_pc (get w t)) = Some n ->
     (length (thr w) <= n_r n < nrec w)%nat /\ owner (recs w (n_r n)) = t /\ is_mucv (recs w (n_r n)) = false).

Lemma inc_rng x : rng32 (inc x).
Proof. unfold inc, rng32, wrap_u. change (2 ^ 32) with 4294967296. pose proof (Z.mod_pos_bound (x + 1) 4294967296 eq_refl). lia. Qed.
Lemma inc_neq x : rng32 x -> inc x <> x /\ inc (inc x) <> x.
Proof.
  unfold inc, rng32, wrap_u. change (2 ^ 32) with 4294967296. intros H.
  destruct (Z.eq_dec x 4294967295) as [->|Hn]; [split; vm_compute; discriminate|].
  rewrite (Z.mod_small (x + 1)) by lia. split; [lia|].
  destruct (Z.eq_dec x 4294967294) as [->|Hn2]; [vm_compute; discriminate|]. rewrite Z.mod_small by lia. lia.
Qed.
Lemma cas_new_inc old :
  nsync_cv_wait_with_deadline_generic_cas1_new old = inc old /\ nsync_cv_signal_cas1_new old = inc old /\
  nsync_cv_signal_cas2_new old = inc old /\ nsync_cv_broadcast_cas1_new old = inc old.
Proof. repeat split; reflexivity. Qed.

Lemma pc_nl_after_todo k : pc_nl (after_todo k) = None.
Proof. unfold after_todo. destruct (k_todo k); reflexivity. Qed.
Lemma pc_nl_enter_wake_loop k : pc_nl (enter_wake_loop k) = None.
Proof. unfold enter_wake_loop. destruct (k_wake k); reflexivity. Qed.

(* the nl of the stepping thread never changes its record *)
Lemma step_core_nl w t c n' : (t < length (thr w))%nat ->
  pc_nl (t_pc (get (fst (step_core w t c)) t)) = Some n' -> exists n, pc_nl (t_pc (get w t)) = Some n /\ n_r n' = n_r n.
Proof.
  intros Hlt. step_cases w t; simpl fst; pc_nf; try rewrite Hpc; simpl;
    rewrite ?pc_nl_after_todo, ?pc_nl_enter_wake_loop; try discriminate.
  all: autorewrite with getdb; try rewrite Hpc; simpl; try discriminate.
  all: try (intros [= <-]; eexists; split; reflexivity).
  all: destruct k; try discriminate; intros [= <-]; eexists; split; reflexivity.
Qed.

Lemma SInv_step_core w t c : SInv w -> (t < length (thr w))%nat -> SInv (fst (step_core w t c)).
Proof.
  intros (S1 & S2 & S3 & S4) Hlt. pose proof (step_core_misc w t c) as (_ & Hnr & Hlen & _).
  split; [rewrite Hlen, Hnr; assumption|]. split; [|split].
  - intros t' Ht'. rewrite Hlen in Ht'. destruct (step_core_static w t c t') as (Ho & Hm). rewrite Ho, Hm.
    destruct (S2 t' Ht') as (A & B & C). repeat split; auto.
    (* live: only waitn_end clears it, for a record that is not a thread's own *)
    clear Ho Hm. revert C. step_cases w t; simpl; unfold clear_cv_mu; try (intros C; frame_field live; exact C).
    all: pose proof (S4 t _ ltac:(rewrite Hpc; reflexivity)) as (Hr & _); intros C; rewrite fupd_other by lia; exact C.
  - intros r. step_cases w t; simpl; unfold clear_cv_mu; try (frame_field rcount; apply S3).
    all: unfold fupd; destruct (Nat.eqb r _); simpl; try apply S3; rewrite ?(map_recs_field rcount) by reflexivity; try apply S3.
    all: rewrite ?(proj1 (cas_new_inc _)), ?(proj1 (proj2 (cas_new_inc _))), ?(proj1 (proj2 (proj2 (cas_new_inc _)))),
                 ?(proj2 (proj2 (proj2 (cas_new_inc _)))); apply inc_rng.
  - intros t' n' Hn'. rewrite Hlen, Hnr. destruct (Nat.eq_dec t' t) as [->|Hne].
    + destruct (step_core_nl w t c n' Hlt Hn') as (n & Hn & E). rewrite E.
      destruct (step_core_static w t c (n_r n)) as (Ho & Hm). rewrite Ho, Hm. now apply S4.
    + rewrite step_core_other in Hn' by congruence.
      destruct (step_core_static w t c (n_r n')) as (Ho & Hm). rewrite Ho, Hm. now apply S4.
Qed.

Lemma begin_op_recs_new w t r dl rest : t_pc (get w t) = Idle -> t_ops (get w t) = OWaitN dl :: rest ->
  recs (begin_op w t) r = if Nat.eqb r (nrec w) then mk_rec t 0 0 false None false true None PNone else recs w r.
Proof. intros Hpc Hops. unfold begin_op. rewrite Hpc, Hops. simpl. reflexivity. Qed.
Lemma begin_op_nrec w t :
  (nrec (begin_op w t) = nrec w /\ forall r, recs (begin_op w t) r = recs w r) \/
  (exists dl rest, t_pc (get w t) = Idle /\ t_ops (get w t) = OWaitN dl :: rest /\ nrec (begin_op w t) = S (nrec w)).
Proof.
  unfold begin_op. destruct (t_pc (get w t)) eqn:Hpc; auto. destruct (t_ops (get w t)) as [|o rest] eqn:Hops; auto.
  destruct o; simpl; auto. right. eauto.
Qed.

Lemma SInv_begin_op w t : SInv w -> SInv (begin_op w t).
Proof.
  intros (S1 & S2 & S3 & S4). pose proof (begin_op_misc w t) as (_ & Hnr & Hlen & _ & _ & Hrec & _).
  assert (Hold : forall r, (r < nrec w)%nat -> recs (begin_op w t) r = recs w r) by (intros; apply Hrec; lia).
  split; [lia|]. split; [|split].
  - intros t' Ht'. rewrite Hlen in Ht'. rewrite Hold by lia. now apply S2.
  - intros r. destruct (begin_op_nrec w t) as [(_ & E)|(dl & rest & Hpc & Hops & _)]; [rewrite E; apply S3|].
    rewrite (begin_op_recs_new w t r dl rest Hpc Hops). destruct (Nat.eqb r (nrec w)); [simpl; unfold rng32; lia | apply S3].
  - intros t' n' Hn'. rewrite Hlen. destruct (Nat.eq_dec t' t) as [->|Hne].
    + destruct (begin_op_pc w t) as [E|(Hpc & Hlt & o & rest & Hops & E)].
      * rewrite E in Hn'. destruct (S4 t n' Hn') as (A & B & C). rewrite Hold by lia. split; [lia|auto].
      * rewrite E in Hn'. destruct o; simpl in Hn'; try (destruct (held (get w t)); discriminate); try discriminate.
        injection Hn' as <-. simpl. rewrite (begin_op_recs_new w t _ dl rest Hpc Hops), Nat.eqb_refl. simpl.
        destruct (begin_op_nrec w t) as [(E1 & _)|(dl' & rest' & _ & _ & E1)]; [|split; [lia|auto]].
        exfalso. unfold begin_op in E1. rewrite Hpc, Hops in E1. simpl in E1. lia.
    + rewrite begin_op_other in Hn' by congruence. destruct (S4 t' n' Hn') as (A & B & C). rewrite Hold by lia. split; [lia|auto].
Qed.

Lemma SInv_step w a c : SInv w -> SInv (fst (step w a c)).
Proof.
  intros HS. destruct a as [t| | | | | | | |].
  { simpl. destruct (le_lt_dec (length (thr w)) t) as [Hoob|Hlt].
    - now rewrite step_thr_oob.
    - unfold step_thr. apply SInv_step_core; [now apply SInv_begin_op|].
      now rewrite (proj1 (proj2 (proj2 (begin_op_misc w t)))). }
  all: match goal with |- SInv (fst (step ?w0 ?a ?c0)) =>
         pose proof (env_frame w0 a c0 ltac:(intros; discriminate)) as (Hg & _ & _ & Hr & Hnr & Hl & _) end.
  all: destruct HS as (S1 & S2 & S3 & S4); split; [rewrite Hl, Hnr; assumption|]; split; [|split].
  all: try (intros t0 Ht0; rewrite Hl in Ht0; destruct (Hr t0) as (_ & Ho & Hm & Hlv & _); rewrite Ho, Hm, Hlv; now apply S2).
  all: try (intros t0 n0 Hn0; rewrite Hg in Hn0; rewrite Hl, Hnr; destruct (Hr (n_r n0)) as (_ & Ho & Hm & _); rewrite Ho, Hm; now apply S4).
  all: intros r0; simpl; destr_all; simpl; try apply S3; unfold fupd; destruct (Nat.eqb r0 _); simpl; try apply S3; apply inc_rng.
Qed.

Lemma get_init progs clock0 exp t : t_pc (get (init progs clock0 exp) t) = Idle /\ rets (get (init progs clock0 exp) t) = [].
Proof.
  unfold get, init; simpl. destruct (le_lt_dec (length progs) t) as [Hoob|Hlt].
  - rewrite nth_overflow by (rewrite map_length; assumption). auto.
  - rewrite (nth_indep _ dflt_t (mk_t Idle [] None [])) by (rewrite map_length; assumption).
    change (mk_t Idle [] None []) with ((fun p => mk_t Idle p None []) []). rewrite map_nth. auto.
Qed.
Lemma SInv_init progs clock0 exp : SInv (init progs clock0 exp).
Proof.
  split; [simpl; rewrite map_length; lia|]. split; [|split].
  - intros t _. simpl. auto.
  - intros r. simpl. unfold rng32. lia.
  - intros t n H. rewrite (proj1 (get_init progs clock0 exp t)) in H. discriminate.
Qed.
Lemma SInv_run progs clock0 exp sched : SInv (run (init progs clock0 exp) sched).
Proof.
  induction sched as [|[a c] s IH] using rev_ind; [apply SInv_init|]. rewrite run_snoc. now apply SInv_step.
Qed.

