(* NoteProof3: the frame-level facts of the locking discipline of NoteModel (continues Proof/NoteProof2.v). *)
From Coq Require Import String.
From NsyncBase Require Import CSem.
From NsyncGen Require Import Consts Sites.
From NsyncModel Require Import NoteModel.
From NsyncProof Require Import NoteProof NoteProof2.
From Coq Require Import List ZArith Bool Lia Arith.
Import ListNotations.
Local Open Scope Z_scope.

(* ------------------------------------------------------------------------------------------------ *)
(* Facts a frame relies on about lock-protected fields *)
Definition nx_in (w : world) (n : nat) (nx : option nat) : Prop := forall c', nx = Some c' -> In c' (children (nt w n)).
Definition fokU (w : world) (f : frame) : Prop :=
  match f with
  | FN n s par inc =>
      (inc = true -> s <> N1 /\ s <> N2 /\ s <> N3 /\ s <> N4) /\ (s = N4 -> disc (nt w n) = 0%nat) /\
      (s = N5 \/ s = N6 \/ s = N7 \/ s = N8 \/ s = N9 \/ s = N10 -> inc = true) /\
      (forall p, par = Some p -> (s = N5 \/ s = N6 \/ s = N7 \/ s = N8) -> parent (nt w n) = Some p)
  | FC n par s =>
      (forall p, par = Some p -> parent (nt w n) = Some p) /\
      match s with
      | C5 c nx | CR c nx => In c (children (nt w n)) /\ nx_in w n nx /\ nx <> Some c
      | C6 c nx _ => nx_in w n nx
      | _ => True
      end
  | FF n s par =>
      match s with
      | F1 | Fw1 | Fw2 => par = None
      | F11 | F12 => parent (nt w n) = None /\ children (nt w n) = []
      | F13 => True
      | _ => (forall p, par = Some p -> parent (nt w n) = Some p) /\ (par = None -> parent (nt w n) = None)
      end /\
      match s with
      | F6 c nx | F7 c nx | FR c nx => In c (children (nt w n)) /\ nx_in w n nx /\ nx <> Some c
      | F8 c nx _ => nx_in w n nx
      | _ => True
      end /\
      match s with F7 c _ => disc (nt w c) = 0%nat | _ => True end
  | _ => True
  end.
(* frames below the top of a stack are inside a call; their facts only concern notes whose lock they hold *)
Definition incall (f : frame) : Prop :=
  match f with
  | FN _ N9 _ _ | FC _ _ (CR _ _) | FF _ (FR _ _) _ | FD _ (D5 _) | AIs _ | ANotify _ | ANew _ _ (WD _)
  | AWait _ _ WReady | AWait _ _ WLoop | AWait _ _ WDeq => True
  | _ => False
  end.
Lemma shape_incall f l : shape (f :: l) -> forall g, In g l -> incall g.
Proof.
  revert f. induction l as [|h r IH]; intros f Sh g Hin; [destruct Hin|].
  destruct Hin as [<-|Hin].
  - cbn in Sh. destruct Sh as [L _]. destruct f; cbn in L; try contradiction; destruct h; try contradiction;
      try (destruct s0; try contradiction); try (destruct s; try contradiction); cbn; auto.
  - eapply IH; [eapply shape_tail; eauto|exact Hin].
Qed.
Lemma fokU_dep w w' f :
  incall f -> (forall x, In x (owns f) -> prot_same (nt w' x) (nt w x)) -> fokU w f -> fokU w' f.
Proof.
  intros Hi Hp F. destruct f; cbn in Hi; try contradiction; try exact Logic.I.
  - destruct s; try contradiction. cbn [fokU] in *. destruct F as (F1 & F2 & F3 & F4). repeat split; auto; try (intros; discriminate).
    intros p Hp' [H|[H|[H|H]]]; discriminate.
  - destruct s; try contradiction. cbn [fokU owns] in *.
    destruct (Hp n (or_introl eq_refl)) as (E1 & E2 & _). unfold nx_in. rewrite E1, E2. exact F.
  - destruct s; try contradiction. cbn [fokU owns] in *.
    destruct (Hp n (or_introl eq_refl)) as (E1 & E2 & _). unfold nx_in. rewrite E1, E2. exact F.
Qed.

Definition tree_ok (w : world) : Prop :=
  (forall c p, (c < nnext w)%nat -> parent (nt w c) = Some p -> In c (children (nt w p))) /\
  (forall p c, (p < nnext w)%nat -> In c (children (nt w p)) -> parent (nt w c) = Some p) /\
  (forall p, (p < nnext w)%nat -> NoDup (children (nt w p))) /\
  (forall c p, (c < nnext w)%nat -> parent (nt w c) = Some p -> (p < c)%nat).

Lemma next_in_neq l x y : NoDup l -> next_in l x = Some y -> y <> x.
Proof.
  induction l as [|a r IH]; cbn; [discriminate|]. intros Hd. apply NoDup_cons_iff in Hd. destruct Hd as [Ha Hr].
  destruct (Nat.eqb_spec a x).
  - subst. destruct r; cbn; [discriminate|]. intros E; inversion E; subst. intros ->. apply Ha. left; reflexivity.
  - auto.
Qed.

Lemma remove_nat_nodup x l : NoDup l -> NoDup (remove_nat x l).
Proof.
  induction l as [|a r IH]; cbn; auto. intros Hd. apply NoDup_cons_iff in Hd. destruct Hd as [Ha Hr].
  destruct (Nat.eqb a x); auto. constructor; auto. intros H. apply Ha. eapply remove_nat_incl; eauto.
Qed.
Ltac hyp_ns H := match goal with |- ?G => let X := fresh "X" in set (X := G); revert H; unfold nt; nsimpl; intros H; subst X end.

Lemma step1_framesU w t c :
  InvA w -> (forall x, In x (owned w t) <-> lock (nt w x) = Some t) -> NoDup (owned w t) -> tree_ok w ->
  (forall f, In f (stk w t) -> fokU w f) ->
  forall f, In f (stk (fst (step1 w t c)) t) -> fokU (fst (step1 w t c)) f.
Proof.
  intros I Ho Hd (T1 & T2 & T3 & T0) Fk.
  pose proof (ia_shape w I t) as Sh. pose proof (ia_fok w I t) as FkA.
  remember (fst (step1 w t c)) as w' eqn:Hw'. revert Hw'. unfold owned in *. unfold stk in Sh, Fk, FkA, Ho, Hd.
  leaves.
  all: intros ->; cbn [fst] in *.
  all: try (unfold stk; rewrite Hst; exact Fk).
  all: bottom_nil Sh.
  all: rets Sh.
  all: repeat match goal with H : Some _ = Some _ |- _ => injection H as H; try subst end.
  all: rewrite ?stk_setst, ?stk_finish.
  all: intros f Hin; cbn [In] in Hin.
  all: try contradiction.
  all: repeat match goal with H : _ \/ _ |- _ => destruct H as [H|H] end; try contradiction.
  all: try (subst f).
  all: cbn [flat_map owns opt_list app] in *.
  all: repeat match goal with H : _ && _ = true |- _ => apply andb_prop in H; destruct H end.
  all: repeat match goal with H : lock_free ?w ?n = true |- _ => apply lock_free_none in H end.
  (* frames deeper in the stack: their notes are not touched *)
  all: try solve [
    match goal with Hi : In ?f ?l |- fokU _ ?f =>
      apply (fokU_dep w); [ eapply shape_incall; [|exact Hi]; first [exact Sh | eapply shape_tail; exact Sh | eapply shape_tail; eapply shape_tail; exact Sh]
                          | | apply Fk; cbn [In]; tauto ];
      let y := fresh "y" in let Hy := fresh "Hy" in intros y Hy;
      assert (In y (flat_map owns l)) as Hyl by (apply in_flat_map; exists f; split; assumption);
      unfold prot_same, nt in *; nodup_norm; nsimpl; repeat split; try reflexivity;
      exfalso; cbn [In] in *; try tauto;
      match goal with Hn : lock (notes _ ?c) = None |- _ =>
        assert (lock (notes w c) = Some t) by (apply Ho; cbn [In]; tauto); congruence end
    end ].
  (* new frames *)
  all: try (pose proof (Fk _ (or_introl eq_refl)) as F0; cbn [fokU] in F0).
  all: try (pose proof (Fk _ (or_intror (or_introl eq_refl))) as F1; cbn [fokU] in F1).
  all: try (pose proof (FkA _ (or_introl eq_refl)) as A0; cbn [fok] in A0).
  all: cbn [fokU].
  all: try exact Logic.I.
  all: destr_ex.
  all: repeat match goal with |- _ /\ _ => split end.
  all: try exact Logic.I.
  all: try reflexivity.
  all: try solve [intros; discriminate].
  all: try solve [intros; repeat match goal with H : _ \/ _ |- _ => destruct H as [H|H] end; discriminate].
  all: try solve [intros; repeat match goal with H : _ \/ _ |- _ => destruct H as [H|H] end; try discriminate; auto].
  all: unfold nx_in, nt in *.
  all: try solve [nsimpl; auto].
  all: try solve [intros; nsimpl; auto].
  (* stage bookkeeping of notify *)
  all: try solve [intros _; repeat split; discriminate].
  all: try solve [let Hi := fresh in intros Hi; exfalso;
                  match goal with F : _ = true -> _ /\ _ /\ _ /\ _ |- _ => destruct (F Hi) as (? & ? & ? & ?); congruence end].
  all: try solve [intros _; match goal with F : _ \/ _ \/ _ \/ _ \/ _ \/ _ -> _ = true |- _ => apply F; tauto end].
  all: try solve [intros _; match goal with H : not_disconnecting _ _ = true |- _ =>
                    unfold not_disconnecting in H; apply Nat.eqb_eq in H; revert H; unfold nt; nsimpl; auto end].
  (* the loops over the children *)
  all: try solve [match goal with H : hd_error _ = Some ?c |- In ?c _ => apply hd_error_In in H; revert H; nsimpl; auto end].
  all: try solve [let c' := fresh in let Hc := fresh in intros c' Hc; apply next_in_In in Hc; revert Hc; nsimpl; auto].
  all: try solve [let E := fresh in intros E; apply next_in_neq in E; [congruence|]; nsimpl; auto using remove_nat_nodup].
  (* parent pointers *)
  all: try match goal with F : forall p, Some ?x = Some p -> parent (notes _ ?n) = Some p |- _ =>
             let Hlt := fresh "Hlt" in assert (Hlt : (x < n)%nat) by (apply (T0 n x); [assumption | apply F; reflexivity]) end.
  all: try solve [let p := fresh in let Hp := fresh in intros p Hp; inversion Hp; subst; nsimpl; try lia;
                  first [ assumption | apply T2; assumption | eauto ] ].
  all: try solve [let p := fresh in let Hp := fresh in intros p Hp; nsimpl; try lia; eauto].
  all: try solve [let c' := fresh in let Hc := fresh in intros c'; nsimpl; try lia; intros Hc;
                  match goal with F : forall c0, ?nx = Some c0 -> In c0 _, G : ?nx <> Some ?m |- _ =>
                    apply remove_nat_other; [intros ->; apply G; exact Hc | apply F; exact Hc] end].
  (* facts read in this step *)
  all: try match goal with H : parent _ = _ |- _ => hyp_ns H end.
  all: try match goal with H : no_children _ _ = true |- _ => unfold no_children in H; hyp_ns H end.
  all: try solve [let p := fresh in let Hp := fresh in intros p Hp; inversion Hp; subst; nsimpl; try lia; congruence].
  all: try solve [nsimpl; try lia; try congruence;
                  match goal with H : match ?l with [] => true | _ :: _ => false end = true |- _ => destruct l; [reflexivity|discriminate H] end].
  all: try solve [intros _; nsimpl; try lia; congruence].
  all: try solve [match goal with H : (disc _ =? 0)%nat = true |- _ => apply Nat.eqb_eq in H; revert H; nsimpl; auto end].
  (* deep frames below a caller that holds its parent's lock as well *)
  all: repeat match goal with H : context [opt_list ?p] |- _ => is_var p; destruct p end; cbn [opt_list app] in *.
  all: try solve [
    match goal with Hi : In ?f ?l |- fokU _ ?f =>
      apply (fokU_dep w); [ eapply shape_incall; [|exact Hi]; first [exact Sh | eapply shape_tail; exact Sh | eapply shape_tail; eapply shape_tail; exact Sh]
                          | | apply Fk; cbn [In]; tauto ];
      let y := fresh "y" in let Hy := fresh "Hy" in intros y Hy;
      assert (In y (flat_map owns l)) as Hyl by (apply in_flat_map; exists f; split; assumption);
      unfold prot_same, nt in *; nodup_norm; nsimpl; repeat split; try reflexivity;
      exfalso; cbn [In] in *; try tauto;
      match goal with Hn : lock (notes _ ?c) = None |- _ =>
        assert (lock (notes w c) = Some t) by (apply Ho; cbn [In]; tauto); congruence end
    end ].
  all: try solve [intros; discriminate].
  all: try solve [exfalso; match goal with H : nsync_note_free_load1_guard _ = false |- _ => rewrite free_guard in H; discriminate H end].
Qed.

(* who can change a parent pointer that is set -- with what the step itself checks about the disconnecting count *)
Lemma step1_unlink2 w t c n p :
  parent (nt w n) = Some p -> parent (nt (fst (step1 w t c)) n) <> Some p ->
  (exists par s, top w t = Some (FC n par s)) \/
  (exists s par, top w t = Some (FF n s par) /\ (in_disc s = true \/ disc (nt w n) = 0%nat)) \/
  (exists m nx par, top w t = Some (FF m (F6 n nx) par) /\ disc (nt w n) = 0%nat) \/
  (exists m nx par, top w t = Some (FF m (F7 n nx) par)) \/ n = nnext w \/
  (exists par dl p' e, top w t = Some (ANew par dl (W3 n p' e))).
Proof.
  unfold top, stk.
  leaves.
  all: repeat match goal with H : _ && _ = true |- _ => apply andb_prop in H; destruct H end.
  all: repeat match goal with H : not_disconnecting _ _ = true |- _ => unfold not_disconnecting in H; apply Nat.eqb_eq in H end.
  all: repeat match goal with H : (disc _ =? 0)%nat = true |- _ => apply Nat.eqb_eq in H end.
  all: unfold nt in *.
  all: repeat match goal with H : disc _ = 0%nat |- _ => revert H end.
  all: nsimpl.
  all: try solve [intros; match goal with H1 : ?a = Some ?b, H2 : ?a <> Some ?b |- _ => exfalso; apply H2; exact H1 end].
  all: intros; cbn [hd_error in_disc].
  all: try solve [left; eauto].
  all: try solve [right; left; do 2 eexists; split; [reflexivity | auto]].
  all: try solve [do 3 right; left; eauto].
  all: try solve [do 4 right; left; reflexivity].
  all: try solve [do 5 right; eauto].
  all: try solve [do 2 right; left; do 3 eexists; split; [reflexivity| assumption]].
Qed.

(* ------------------------------------------------------------------------------------------------ *)
(* The disconnecting counts across threads *)
Definition disc_ok (w : world) : Prop :=
  forall t x, (tcount w t x > 0)%nat -> disc (nt w x) = tcount w t x /\ forall t', t' <> t -> tcount w t' x = 0%nat.

Lemma scount_cons g r x : scount (g :: r) x = (ncontrib g x + scount r x)%nat.
Proof. reflexivity. Qed.
Lemma scount_in st f x : In f st -> (ncontrib f x <= scount st x)%nat.
Proof.
  induction st as [|g r IH]; intros Hin; [destruct Hin|]. rewrite scount_cons. destruct Hin as [<-|H]; [lia|]. specialize (IH H). lia.
Qed.
(* a thread running note_notify_child on n has n's count raised (by the caller of that frame) *)
Lemma fc_contrib w st n par s :
  shape st -> (forall f, In f st -> fokU w f) -> In (FC n par s) st -> (scount st n >= 1)%nat.
Proof.
  induction st as [|g r IH]; intros Sh Fk Hin; [destruct Hin|].
  destruct Hin as [->|Hin].
  - destruct r as [|h r']; [cbn in Sh; contradiction|]. cbn in Sh. destruct Sh as [L _].
    assert (ncontrib h n >= 1)%nat as Hh.
    { pose proof (Fk h (or_intror (or_introl eq_refl))) as Fh.
      destruct h as [? ?|m sn parn incn|m parm sc|m sf parf| | | | |]; cbn in L; try contradiction.
      - destruct sn; try contradiction. destruct L; subst. cbn in Fh |- *.
        destruct Fh as (_ & _ & Fi & _). rewrite Fi by tauto. rewrite Nat.eqb_refl. cbn. lia.
      - destruct sc; try contradiction. destruct L; subst. cbn. rewrite Nat.eqb_refl. cbn. lia.
      - destruct sf; try contradiction. destruct L; subst. cbn. rewrite Nat.eqb_refl. cbn. destruct (m =? c)%nat; cbn; lia. }
    pose proof (scount_in (FC n par s :: h :: r') h n (or_intror (or_introl eq_refl))). lia.
  - assert (scount r n >= 1)%nat by (apply IH; [eapply shape_tail; eauto | intros; apply Fk; right; auto | exact Hin]).
    rewrite scount_cons. lia.
Qed.

Definition ftarget (f : frame) : option nat := match f with FN n _ _ _ | FC n _ _ | FF n _ _ => Some n | _ => None end.
(* the notes a frame may still touch (saved pointers that will not be used any more are left out) *)
Definition lrefs (f : frame) : list nat :=
  match f with
  | FD n _ | AIs n | ANotify n | AExp n | AWait n _ _ => [n]
  | FN n s par _ => n :: match s with N5 | N6 | N7 | N8 | N9 | N10 => opt_list par | _ => [] end
  | FC n par s => n :: opt_list par ++ match s with C5 c nx | CR c nx | C6 c nx _ => c :: opt_list nx | _ => [] end
  | FF n s par => n :: match s with F1 | Fw1 | Fw2 | F12 | F13 => [] | _ => opt_list par end
                    ++ match s with F6 c nx | F7 c nx | FR c nx | F8 c nx _ => c :: opt_list nx | _ => [] end
  | ANew par _ s => opt_list par ++ match s with W1 => [] | WD n => [n] | W2 n p _ | W3 n p _ | W4 n p => [n; p] end
  end.
Lemma ftarget_lrefs f n : ftarget f = Some n -> In n (lrefs f).
Proof. destruct f; cbn; intros E; inversion E; subst; auto. Qed.
(* a note under construction is private to the thread constructing it *)
Definition uc_priv (w : world) : Prop :=
  forall t f x, In f (stk w t) -> uc_of f = Some x -> forall t' g, t' <> t -> In g (stk w t') -> ~ In x (lrefs g).

Lemma owns_owned w t f x : In f (stk w t) -> In x (owns f) -> In x (owned w t).
Proof. intros. unfold owned. apply in_flat_map. eauto. Qed.

(* the protected fields of a note whose lock another thread holds do not change *)
Lemma guard_other w t c t' x :
  InvA w -> InvH w -> t' <> t -> lock (nt w x) = Some t' ->
  (forall par dl p e, top w t = Some (ANew par dl (W3 x p e)) -> False) ->
  prot_same (nt (fst (step1 w t c)) x) (nt w x).
Proof.
  intros I H Ht Hl Hw3.
  destruct (step1_guard2 w t c x) as [G|[(f & Hf & [G|(n & s & ->)])|[[G _]|[(par & dl & p & e & G)|G]]]]; auto.
  - exfalso. apply top_In in Hf. pose proof (owns_owned _ _ _ _ Hf G) as Ho. apply (ih_own _ H) in Ho. congruence.
  - exfalso. (* the parent of the note being finished is locked by the caller *)
    pose proof (ia_shape _ I t) as Sh. unfold top in Hf. destruct (stk w t) as [|g r] eqn:Hst; [discriminate|]. cbn in Hf. inversion Hf; subst g.
    destruct (shape_FC _ _ _ _ Sh) as [(inc & l' & ->)|[(m & par' & nx & l' & -> & E)|(m & par' & nx & l' & -> & E)]].
    + assert (In x (owned w t)) as Ho.
      { unfold owned; rewrite Hst; cbn [flat_map owns opt_list app In]. destruct s; cbn [In app]; auto 6. }
      apply (ih_own _ H) in Ho. congruence.
    + inversion E; subst. assert (In m (owned w t)) as Ho.
      { unfold owned; rewrite Hst; cbn [flat_map owns opt_list app In]. destruct s; cbn [In app]; auto 6. }
      apply (ih_own _ H) in Ho. congruence.
    + inversion E; subst. assert (In m (owned w t)) as Ho.
      { unfold owned; rewrite Hst; cbn [flat_map owns opt_list app In]. destruct s; cbn [In app]; auto 6. }
      apply (ih_own _ H) in Ho. congruence.
  - congruence.
  - exfalso. eauto.
  - exfalso. subst x. assert (In (nnext w) (owned w t')) as Ho by (apply (ih_own _ H); exact Hl).
    apply (ih_bound _ H) in Ho. lia.
Qed.

Lemma tcount_ge w t f x : In f (stk w t) -> (ncontrib f x >= 1)%nat -> (tcount w t x >= 1)%nat.
Proof. intros Hin Hc. pose proof (scount_in _ _ x Hin). unfold tcount. lia. Qed.

(* nobody else can unlink a note while this thread has its disconnecting count raised *)
Lemma pinned_parent w t c t' n p :
  InvA w -> InvH w -> disc_ok w -> (forall t0 f, In f (stk w t0) -> fokU w f) -> uc_priv w ->
  t' <> t -> (tcount w t' n >= 1)%nat -> (n < nnext w)%nat ->
  (forall g, In g (stk w t') -> ftarget g = Some n -> True) ->
  (exists g, In g (stk w t') /\ ftarget g = Some n) ->
  parent (nt w n) = Some p -> parent (nt (fst (step1 w t c)) n) = Some p.
Proof.
  intros I H D Fk U Ht Hc Hn _ (g & Hg & Hgt) Hp.
  destruct (D t' n ltac:(lia)) as [Hd Ho]. specialize (Ho t ltac:(congruence)).
  destruct (parent (nt (fst (step1 w t c)) n)) as [q|] eqn:E.
  - destruct (Nat.eq_dec q p) as [->|Hne]; [reflexivity|]. exfalso.
    assert (parent (nt (fst (step1 w t c)) n) <> Some p) as Hx by (rewrite E; congruence).
    destruct (step1_unlink2 w t c n p Hp Hx) as [(par & s & Hf)|[(s & par & Hf & Hs)|[(m & nx & par & Hf & Hs)|[(m & nx & par & Hf)|[Hf|(par & dl & p' & e & Hf)]]]]].
    + apply top_In in Hf. pose proof (fc_contrib w (stk w t) n par s (ia_shape _ I t) (Fk t) Hf). unfold tcount in Ho. lia.
    + apply top_In in Hf. destruct Hs as [Hs|Hs]; [|lia].
      pose proof (tcount_ge w t _ n Hf). cbn in H0. rewrite Hs, Nat.eqb_refl in H0. cbn in H0. lia.
    + lia.
    + apply top_In in Hf. pose proof (Fk t _ Hf) as F. cbn in F. destruct F as (_ & _ & F). lia.
    + lia.
    + apply top_In in Hf. eapply (U t _ n Hf eq_refl t' g); eauto using ftarget_lrefs.
  - exfalso.
    assert (parent (nt (fst (step1 w t c)) n) <> Some p) as Hx by (rewrite E; congruence).
    destruct (step1_unlink2 w t c n p Hp Hx) as [(par & s & Hf)|[(s & par & Hf & Hs)|[(m & nx & par & Hf & Hs)|[(m & nx & par & Hf)|[Hf|(par & dl & p' & e & Hf)]]]]].
    + apply top_In in Hf. pose proof (fc_contrib w (stk w t) n par s (ia_shape _ I t) (Fk t) Hf). unfold tcount in Ho. lia.
    + apply top_In in Hf. destruct Hs as [Hs|Hs]; [|lia].
      pose proof (tcount_ge w t _ n Hf). cbn in H0. rewrite Hs, Nat.eqb_refl in H0. cbn in H0. lia.
    + lia.
    + apply top_In in Hf. pose proof (Fk t _ Hf) as F. cbn in F. destruct F as (_ & _ & F). lia.
    + lia.
    + apply top_In in Hf. eapply (U t _ n Hf eq_refl t' g); eauto using ftarget_lrefs.
Qed.

(* ... and nobody else can give it a parent *)
Lemma pinned_orphan w t c t' n :
  InvA w -> (forall t0 f, In f (stk w t0) -> fokU w f) -> disc_ok w -> uc_priv w ->
  t' <> t -> (tcount w t' n >= 1)%nat -> (exists g, In g (stk w t') /\ ftarget g = Some n) ->
  parent (nt w n) = None -> parent (nt (fst (step1 w t c)) n) = None.
Proof.
  intros I Fk D U Ht Hc (g & Hg & Hgt) Hp.
  destruct (D t' n ltac:(lia)) as [Hd Ho].
  destruct (parent (nt (fst (step1 w t c)) n)) as [q|] eqn:E; [|reflexivity]. exfalso.
  destruct (step1_parent w t c n q E) as [H|[(par & dl & e & Hf)|(m & nx & Hf)]].
  - congruence.
  - apply top_In in Hf. eapply (U t _ n Hf eq_refl t' g); eauto using ftarget_lrefs.
  - apply top_In in Hf. pose proof (Fk t _ Hf) as F. cbn in F. destruct F as (_ & _ & F). lia.
Qed.

Lemma fokU_other w t c t' g :
  InvA w -> InvH w -> disc_ok w -> (forall t0 f, In f (stk w t0) -> fokU w f) -> uc_priv w ->
  t' <> t -> In g (stk w t') -> fokU (fst (step1 w t c)) g.
Proof.
  intros I H D Fk U Ht Hg. pose proof (Fk _ _ Hg) as F. pose proof (ia_fok _ I _ _ Hg) as FA.
  set (w' := fst (step1 w t c)).
  (* notes whose lock t' holds keep their protected fields *)
  assert (forall x, In x (owns g) -> (forall par dl p e, top w t = Some (ANew par dl (W3 x p e)) -> False) -> prot_same (nt w' x) (nt w x)) as Keep.
  { intros x Hx Hw3. apply guard_other with (t' := t'); auto. apply (ih_own _ H). eapply owns_owned; eauto. }
  assert (forall n, In n (lrefs g) -> forall par dl p e, top w t = Some (ANew par dl (W3 n p e)) -> False) as NoW3'.
  { intros n Hn par dl p e Hf. apply top_In in Hf. eapply (U t _ n Hf eq_refl t' g); eauto. }
  assert (forall n, ftarget g = Some n -> forall par dl p e, top w t = Some (ANew par dl (W3 n p e)) -> False) as NoW3.
  { intros n Hn. apply NoW3'. apply ftarget_lrefs; auto. }
  destruct g as [| n s par inc | n par s | n s par | | | | |]; try exact Logic.I.
  - (* FN *)
    cbn [fokU] in *. destruct F as (F1 & F2 & F3 & F4). destruct FA as (Hn & _).
    split; [exact F1|]. split; [|split; [exact F3|]].
    + intros ->. destruct (Keep n (or_introl eq_refl) (NoW3 n eq_refl)) as (_ & _ & E & _). rewrite E. auto.
    + intros p Hp Hs. specialize (F4 p Hp Hs).
      destruct Hs as [->|[->|Hs]].
      * destruct (Keep n (or_introl eq_refl) (NoW3 n eq_refl)) as (E & _). rewrite E. auto.
      * destruct (Keep n (or_introl eq_refl) (NoW3 n eq_refl)) as (E & _). rewrite E. auto.
      * eapply pinned_parent; eauto.
        all: try (eapply tcount_ge; eauto; cbn; rewrite F3 by tauto; rewrite Nat.eqb_refl; cbn; lia).
        all: try (eexists; split; [exact Hg|reflexivity]).
  - (* FC *)
    cbn [fokU] in *. destruct F as (F1 & F2). destruct FA as (Hn & _).
    assert (s = C8 \/ In n (owns (FC n par s))) as [->|Ho] by (destruct s; cbn; auto).
    + split; [|exact Logic.I]. intros p Hp. eapply pinned_parent; eauto.
      all: try (pose proof (fc_contrib w (stk w t') n par C8 (ia_shape _ I t') (Fk t') Hg); unfold tcount; lia).
      all: try (eexists; split; [exact Hg|reflexivity]).
    + destruct (Keep n Ho (NoW3 n eq_refl)) as (E1 & E2 & _). unfold nx_in. rewrite E1, E2. auto.
  - (* FF *)
    destruct FA as (Hn & _).
    assert (tcount w t' n >= 1 \/ in_disc s = false)%nat as Hc.
    { destruct (in_disc s) eqn:Es; [left|right; reflexivity]. eapply tcount_ge; eauto. cbn. rewrite Es, Nat.eqb_refl. cbn. lia. }
    assert (exists g0, In g0 (stk w t') /\ ftarget g0 = Some n) as Hex by (eexists; split; [exact Hg|reflexivity]).
    assert (forall q, parent (nt w n) = Some q -> in_disc s = true -> parent (nt w' n) = Some q) as PinS.
    { intros q Hq Es. destruct Hc as [Hc|Hc]; [|congruence]. apply (pinned_parent w t c t' n q I H D Fk U Ht Hc Hn (fun _ _ _ => Logic.I) Hex Hq). }
    assert (parent (nt w n) = None -> in_disc s = true -> parent (nt w' n) = None) as PinN.
    { intros Hq Es. destruct Hc as [Hc|Hc]; [|congruence]. apply (pinned_orphan w t c t' n I Fk D U Ht Hc Hex Hq). }
    assert (In n (owns (FF n s par)) -> prot_same (nt w' n) (nt w n)) as KeepN.
    { intros Ho. apply Keep; [exact Ho | apply NoW3; reflexivity]. }
    destruct s; cbn [fokU owns in_disc] in *; destruct F as (F1 & F2 & F3).
    all: try (split; [exact F1|split; exact Logic.I]).
    all: try (destruct (KeepN (or_introl eq_refl)) as (E1 & E2 & _); unfold nx_in; rewrite ?E1, ?E2).
    all: try (split; [exact F1|split; [exact F2|exact F3]]).
    all: try (split; [|split; exact Logic.I]; destruct F1 as [Fa Fb]; split; [intros p Hp; apply PinS; auto|intros Hp; apply PinN; auto]).
    (* F7: the child's count, under the child's lock *)
    split; [exact F1|]. split; [exact F2|].
    assert (In c0 (owns (FF n (F7 c0 nx) par))) as Hc0 by (cbn; auto).
    assert (forall par0 dl p e, top w t = Some (ANew par0 dl (W3 c0 p e)) -> False) as NW.
    { apply NoW3'. cbn. destruct par; cbn; auto. }
    destruct (Keep c0 Hc0 NW) as (_ & _ & E & _). rewrite E. exact F3.
Qed.

(* ------------------------------------------------------------------------------------------------ *)
(* The tree of notes *)
Lemma tree_ok_same w w' :
  (forall m, parent (nt w' m) = parent (nt w m) /\ children (nt w' m) = children (nt w m)) -> nnext w' = nnext w ->
  tree_ok w -> tree_ok w'.
Proof.
  intros E Ex (T1 & T2 & T3 & T0). unfold tree_ok. rewrite Ex.
  repeat split; intros a b; destruct (E a) as [Ea1 Ea2]; try destruct (E b) as [Eb1 Eb2]; rewrite ?Ea1, ?Ea2, ?Eb1, ?Eb2; auto.
Qed.
Lemma nnext_ret_D w t r v : nnext (ret_D w t r v) = nnext w. Proof. apply (to_next _ _ _ (tonly_ret_D t w r v)). Qed.
Lemma nnext_ret_N w t r : nnext (ret_N w t r) = nnext w. Proof. apply (to_next _ _ _ (tonly_ret_N t w r)). Qed.
Lemma nnext_ret_C w t r : nnext (ret_C w t r) = nnext w. Proof. apply (to_next _ _ _ (tonly_ret_C t w r)). Qed.
Lemma nnext_finish w t o r : nnext (finish w t o r) = nnext w. Proof. apply (to_next _ _ _ (tonly_finish t w o r)). Qed.
Ltac nnext_tac := rewrite ?nnext_ret_D, ?nnext_ret_N, ?nnext_ret_C, ?nnext_finish; cbn [nnext setst set_thr set_tw set_sem set_note set_gh acquire release];
                  rewrite ?nnext_ret_D, ?nnext_ret_N, ?nnext_ret_C, ?nnext_finish; reflexivity.

Lemma remove_nat_notin x l : NoDup l -> ~ In x (remove_nat x l).
Proof.
  induction l as [|a r IH]; cbn; auto. intros Hd. apply NoDup_cons_iff in Hd. destruct Hd as [Ha Hr].
  destruct (Nat.eqb_spec a x); [subst; exact Ha|]. cbn. intros [H|H]; [congruence|]. apply IH; auto.
Qed.
Lemma NoDup_snoc (l : list nat) x : NoDup l -> ~ In x l -> NoDup (l ++ [x]).
Proof.
  induction l as [|a r IH]; cbn; intros Hd Hn; [constructor; [intros []|constructor]|].
  apply NoDup_cons_iff in Hd. destruct Hd as [Ha Hr]. constructor.
  - intros H. apply in_app_or in H. destruct H as [H|[H|[]]]; [auto|]. subst. apply Hn. left; reflexivity.
  - apply IH; auto.
Qed.
(* unlink n from its parent p *)
Lemma tree_unlink w w' n p :
  tree_ok w -> (n < nnext w)%nat -> (p < nnext w)%nat -> parent (nt w n) = Some p -> nnext w' = nnext w ->
  (forall m, parent (nt w' m) = if Nat.eqb m n then None else parent (nt w m)) ->
  (forall m, children (nt w' m) = if Nat.eqb m p then remove_nat n (children (nt w p)) else children (nt w m)) ->
  tree_ok w'.
Proof.
  intros (T1 & T2 & T3 & T0) Hn Hp Hpar Ex EP EC. unfold tree_ok. rewrite Ex. repeat split.
  - intros c q Hc. rewrite EP, EC. destruct (Nat.eqb_spec c n); [discriminate|]. intros Hq.
    destruct (Nat.eqb_spec q p); subst; [apply remove_nat_other; auto|]; auto.
  - intros q c Hq. rewrite EP, EC. destruct (Nat.eqb_spec q p).
    + subst q. intros Hin. destruct (Nat.eqb_spec c n).
      * subst c. exfalso. eapply remove_nat_notin; eauto.
      * apply T2; auto. eapply remove_nat_incl; eauto.
    + intros Hin. destruct (Nat.eqb_spec c n); [|auto]. subst c. specialize (T2 q n Hq Hin). congruence.
  - intros q Hq. rewrite EC. destruct (Nat.eqb_spec q p); [apply remove_nat_nodup|]; auto.
  - intros c q Hc. rewrite EP. destruct (Nat.eqb_spec c n); [discriminate|]. auto.
Qed.
(* link a parentless note n as the last child of p *)
Lemma tree_link w w' n p :
  tree_ok w -> (n < nnext w)%nat -> (p < nnext w)%nat -> (p < n)%nat -> parent (nt w n) = None -> nnext w' = nnext w ->
  (forall m, parent (nt w' m) = if Nat.eqb m n then Some p else parent (nt w m)) ->
  (forall m, children (nt w' m) = if Nat.eqb m p then children (nt w p) ++ [n] else children (nt w m)) ->
  tree_ok w'.
Proof.
  intros (T1 & T2 & T3 & T0) Hn Hp Hlt Hpar Ex EP EC. unfold tree_ok. rewrite Ex.
  assert (forall q, (q < nnext w)%nat -> ~ In n (children (nt w q))) as Nin.
  { intros q Hq Hin. specialize (T2 q n Hq Hin). congruence. }
  repeat split.
  - intros c q Hc. rewrite EP, EC. destruct (Nat.eqb_spec c n).
    + intros E; inversion E; subst. rewrite Nat.eqb_refl. apply in_or_app. right; left; reflexivity.
    + intros Hq. destruct (Nat.eqb_spec q p); [subst; apply in_or_app; left|]; auto.
  - intros q c Hq. rewrite EP, EC. destruct (Nat.eqb_spec q p).
    + subst q. intros Hin. apply in_app_or in Hin. destruct Hin as [Hin|[<-|[]]].
      * destruct (Nat.eqb_spec c n); [subst; exfalso; eapply Nin; eauto|auto].
      * rewrite Nat.eqb_refl. reflexivity.
    + intros Hin. destruct (Nat.eqb_spec c n); [subst; exfalso; eapply Nin; eauto|auto].
  - intros q Hq. rewrite EC. destruct (Nat.eqb_spec q p); [|auto]. subst.
    apply NoDup_snoc; auto.
  - intros c q Hc. rewrite EP. destruct (Nat.eqb_spec c n); [intros E; inversion E; subst; auto|auto].
Qed.

(* move c from its parent n to p (nsync_note_free hands a child to its own parent) *)
Lemma tree_move w w' n c p :
  tree_ok w -> (c < nnext w)%nat -> (n < nnext w)%nat -> (p < nnext w)%nat -> parent (nt w c) = Some n -> (p < n)%nat -> (n < c)%nat ->
  nnext w' = nnext w ->
  (forall m, parent (nt w' m) = if Nat.eqb m c then Some p else parent (nt w m)) ->
  (forall m, children (nt w' m) = if Nat.eqb m p then children (nt w p) ++ [c]
                                  else if Nat.eqb m n then remove_nat c (children (nt w n)) else children (nt w m)) ->
  tree_ok w'.
Proof.
  intros T Hc Hn Hp Hpar Hpn Hnc Ex EP EC.
  set (w1 := set_note (set_note w n (set_children (nt w n) (remove_nat c (children (nt w n))))) c
                      (set_parent (nt (set_note w n (set_children (nt w n) (remove_nat c (children (nt w n))))) c) None)).
  assert (tree_ok w1) as T1.
  { apply (tree_unlink w w1 c n T); auto.
    all: intros m; unfold w1, nt; nsimpl; auto; lia. }
  apply (tree_link w1 w' c p T1); auto.
  all: try lia.
  all: try (unfold w1, nt; nsimpl; auto; lia).
  all: try (intros m; rewrite ?EP, ?EC; unfold w1, nt; nsimpl; auto; lia).
Qed.

(* the tree stays consistent: children lists are the inverse of the parent pointers *)
Lemma step1_tree w t c :
  InvA w -> tree_ok w -> (forall f, In f (stk w t) -> fokU w f) ->
  (forall par dl n p e rest, stk w t = ANew par dl (W3 n p e) :: rest -> parent (nt w n) = None) ->
  tree_ok (fst (step1 w t c)).
Proof.
  intros I T Fk Huc.
  pose proof (ia_shape w I t) as Sh. pose proof (ia_fok w I t) as FkA.
  remember (fst (step1 w t c)) as w' eqn:Hw'. revert Hw'. unfold stk in Sh, Fk, FkA, Huc.
  leaves.
  all: intros ->; cbn [fst] in *.
  all: try exact T.
  all: try solve [apply (tree_ok_same w); [intros m; unfold nt; nsimpl; auto | nnext_tac | exact T]].
  all: pose proof (Fk _ (or_introl eq_refl)) as F0; cbn [fokU] in F0.
  all: pose proof (FkA _ (or_introl eq_refl)) as A0; cbn [fok] in A0.
  all: destr_ex.
  all: try match goal with F : child_ok _ _ _ _ |- _ => destruct F as (? & ? & ?) end.
  (* unlink (the end of note_notify_child, the end of nsync_note_free) *)
  all: try solve [
    match goal with F : forall p, Some ?p0 = Some p -> parent (nt _ ?n) = Some p |- _ =>
      pose proof (F p0 eq_refl) as Hpar; destruct (ia_par _ I n p0 ltac:(assumption) Hpar) as [Hp0 _];
      apply (tree_unlink w _ n p0 T); [assumption | assumption | exact Hpar | nnext_tac | | ];
      intros m; unfold nt; nsimpl; auto end ].
  all: destruct T as (T1 & T2 & T3 & T0).
  - (* F6: a child becomes a root *)
    assert (parent (nt w c0) = Some n) as Hpc by (apply T2; assumption).
    apply (tree_unlink w _ c0 n (conj T1 (conj T2 (conj T3 T0)))); auto; try nnext_tac.
    all: intros m; unfold nt; nsimpl; auto.
  - (* F7: a child moves to the grandparent *)
    assert (parent (nt w c0) = Some n) as Hpc by (apply T2; assumption).
    match goal with F : forall p, Some ?q = Some p -> parent _ = Some p |- _ => pose proof (F q eq_refl) as Hpn end.
    match goal with F : forall p, Some ?q = Some p -> (p < _)%nat /\ _ |- _ => destruct (F q eq_refl) as [Hn0 _] end.
    assert (n0 < n)%nat as Hlt1 by (eapply T0; eauto).
    assert (n < c0)%nat as Hlt2 by (eapply T0; eauto).
    apply (tree_move w _ n c0 n0 (conj T1 (conj T2 (conj T3 T0)))); auto; try nnext_tac.
    all: intros m; unfold nt; nsimpl; auto; try lia.
  - (* W1: a fresh note *)
    match goal with |- tree_ok ?W => set (W' := W) end.
    assert (forall m, m <> nnext w -> nt W' m = nt w m) as Oth.
    { intros m Hm. unfold W', nt. cbn. apply fupd_other; auto. }
    assert (parent (nt W' (nnext w)) = None /\ children (nt W' (nnext w)) = []) as [New1 New2].
    { unfold W', nt. cbn. rewrite fupd_same. cbn. auto. }
    assert (nnext W' = S (nnext w)) as Nx by reflexivity.
    unfold tree_ok. rewrite Nx.
    repeat split.
    + intros c0 p Hc. destruct (Nat.eq_dec c0 (nnext w)) as [->|Hne]; [rewrite New1; discriminate|].
      rewrite (Oth c0 Hne). intros Hp. assert (c0 < nnext w)%nat as Hc0 by lia. pose proof (T0 c0 p Hc0 Hp).
      rewrite Oth by lia. auto.
    + intros p c0 Hp. destruct (Nat.eq_dec p (nnext w)) as [->|Hne]; [rewrite New2; contradiction|].
      rewrite (Oth p Hne). intros Hin. assert (p < nnext w)%nat as Hp0 by lia.
      destruct (ia_chl _ I p c0 Hp0 Hin) as [Hc0 _]. rewrite Oth by lia. auto.
    + intros p Hp. destruct (Nat.eq_dec p (nnext w)) as [->|Hne]; [rewrite New2; constructor|].
      rewrite (Oth p Hne). apply T3. lia.
    + intros c0 p Hc. destruct (Nat.eq_dec c0 (nnext w)) as [->|Hne]; [rewrite New1; discriminate|].
      rewrite (Oth c0 Hne). apply T0. lia.
  - (* W3: the new note is linked under its parent *)
    match goal with Hc : cpar (nt _ ?n0) = ?pr, Hq : ?pr = Some ?p0, F : forall q, ?pr = Some q -> (q < _)%nat |- _ =>
      pose proof (F _ Hq) as Hp;
      assert (p0 < n0)%nat as Hlt by (eapply (ia_lt _ I); [eassumption | rewrite Hc; exact Hq]) end;
    apply (tree_link w _ n p (conj T1 (conj T2 (conj T3 T0)))); auto; try nnext_tac;
    [ eapply Huc; reflexivity | intros m; unfold nt; nsimpl; auto; try lia | intros m; unfold nt; nsimpl; auto; try lia ].
  -
    match goal with Hc : cpar (nt _ ?n0) = ?pr, Hq : ?pr = Some ?p0, F : forall q, ?pr = Some q -> (q < _)%nat |- _ =>
      pose proof (F _ Hq) as Hp;
      assert (p0 < n0)%nat as Hlt by (eapply (ia_lt _ I); [eassumption | rewrite Hc; exact Hq]) end;
    apply (tree_link w _ n p (conj T1 (conj T2 (conj T3 T0)))); auto; try nnext_tac;
    [ eapply Huc; reflexivity | intros m; unfold nt; nsimpl; auto; try lia | intros m; unfold nt; nsimpl; auto; try lia ].
Qed.


(* ------------------------------------------------------------------------------------------------ *)
(* The disconnecting counts are exact *)
Lemma ncontrib_lt w t f x : fok w t f -> (ncontrib f x >= 1)%nat -> (x < nnext w)%nat.
Proof.
  destruct f; cbn; try lia.
  - intros (Hn & _). destruct inc; cbn; [|lia]. destruct (Nat.eqb_spec n x); cbn; [subst; auto|lia].
  - intros (_ & _ & _ & F). destruct s; try lia.
    + destruct F as (Hc & _). destruct (Nat.eqb_spec c x); cbn; [subst; auto|lia].
    + destruct dec; [|lia]. destruct F as (Hc & _). destruct (Nat.eqb_spec c x); cbn; [subst; auto|lia].
  - intros (Hn & _ & F) Hx.
    assert ((n =? x)%nat = true \/ match s with FR c _ | F8 c _ true => (c =? x)%nat = true | _ => False end) as [E|E].
    { destruct (in_disc s), (Nat.eqb_spec n x); cbn in Hx; auto; right; destruct s; try lia; try (destruct dec; try lia);
        destruct (c =? x)%nat; cbn in Hx; auto; lia. }
    + apply Nat.eqb_eq in E. subst. auto.
    + destruct s; try contradiction; try (destruct dec; try contradiction); destruct F as (Hc & _); apply Nat.eqb_eq in E; subst; auto.
Qed.
Lemma tcount_lt w t x : InvA w -> (tcount w t x >= 1)%nat -> (x < nnext w)%nat.
Proof.
  intros I. unfold tcount. pose proof (ia_fok _ I t) as Fk. induction (stk w t) as [|f r IH]; [cbn; lia|].
  rewrite scount_cons. intros H. destruct (Nat.eq_dec (ncontrib f x) 0).
  - apply IH; [intros; apply Fk; right; auto|lia].
  - eapply ncontrib_lt; [apply Fk; left; reflexivity|lia].
Qed.
Lemma fokU_dfact w f : fokU w f -> dfact w f.
Proof.
  destruct f; cbn; auto.
  - intros (F1 & F2 & _). auto.
  - intros (_ & _ & F). destruct s; auto.
Qed.

Lemma step1_W1_count w t c par dl rest x :
  shape (stk w t) -> stk w t = ANew par dl W1 :: rest -> tcount (fst (step1 w t c)) t x = 0%nat.
Proof.
  intros Sh Hst. rewrite Hst in Sh. pose proof (shape_bottom _ _ Sh Logic.I). subst rest.
  unfold tcount, step1, get. unfold stk in Hst. rewrite Hst. unfold step_New. destruct c; cbn [fst].
  - rewrite stk_finish. reflexivity.
  - rewrite stk_setst. reflexivity.
Qed.

Lemma disc_ok_step1 w t c :
  InvA w -> disc_ok w -> (forall t0 f, In f (stk w t0) -> fokU w f) -> disc_ok (fst (step1 w t c)).
Proof.
  intros I D Fk. pose proof (InvA_step1 w t c I) as I'. pose proof (step1_ext w t c) as E.
  set (w' := fst (step1 w t c)) in *.
  assert (forall t0, t0 <> t -> forall x, tcount w' t0 x = tcount w t0 x) as Oth.
  { intros t0 Ht x. unfold tcount. rewrite (stk_other _ _ _ _ E Ht). reflexivity. }
  assert (forall x, (x < nnext w)%nat ->
            (disc (nt w' x) + tcount w t x = disc (nt w x) + tcount w' t x)%nat /\
            ((tcount w t x < tcount w' t x)%nat -> disc (nt w x) = 0%nat)) as Mine.
  { intros x Hx. apply step1_disc; auto using ia_shape.
    - destruct (Nat.eq_dec (tcount w t x) 0) as [->|Hne]; [lia|]. destruct (D t x ltac:(lia)) as [Hd _]. lia.
    - intros f Hf. apply fokU_dfact. eauto. }
  intros t1 x Hpos.
  assert (x < nnext w')%nat as Hx' by (eapply tcount_lt; eauto; lia).
  destruct (Nat.lt_ge_cases x (nnext w)) as [Hx|Hx].
  2:{ (* a note allocated in this step is not being disconnected *)
      exfalso. destruct (Nat.eq_dec t1 t) as [->|Ht1].
      - destruct (step1_nnext w t c) as [Eq|(par & dl & rest & Hst & _)]; [fold w' in Eq; lia|].
        unfold w' in Hpos. rewrite (step1_W1_count w t c par dl rest x (ia_shape _ I t) Hst) in Hpos. lia.
      - rewrite (Oth t1 Ht1) in Hpos. pose proof (tcount_lt w t1 x I ltac:(lia)). lia. }
  destruct (Mine x Hx) as [M1 M2].
  destruct (Nat.eq_dec t1 t) as [->|Ht1].
  - (* the stepping thread has the count raised afterwards *)
    destruct (Nat.eq_dec (tcount w t x) 0) as [Hz|Hnz].
    + (* it raised it in this step: nobody had it raised *)
      assert (disc (nt w x) = 0%nat) as D0 by (apply M2; lia).
      split; [lia|]. intros t' Ht'. rewrite (Oth t' Ht').
      destruct (Nat.eq_dec (tcount w t' x) 0); [auto|]. destruct (D t' x ltac:(lia)) as [Hd _]. lia.
    + destruct (D t x ltac:(lia)) as [Hd Ho]. split; [lia|]. intros t' Ht'. rewrite (Oth t' Ht'). auto.
  - (* another thread has it raised: the stepping thread cannot have touched it *)
    rewrite (Oth t1 Ht1) in *. destruct (D t1 x Hpos) as [Hd Ho].
    pose proof (Ho t ltac:(congruence)) as Hz.
    assert (tcount w' t x = 0)%nat as Hz' by (destruct (Nat.eq_dec (tcount w' t x) 0); [auto|]; assert (disc (nt w x) = 0%nat) by (apply M2; lia); lia).
    split; [lia|]. intros t' Ht'. destruct (Nat.eq_dec t' t) as [->|Ht't]; [auto|]. rewrite (Oth t' Ht't). auto.
Qed.

(* ------------------------------------------------------------------------------------------------ *)
(* Live references *)
Lemma touches_lrefs w t x :
  In x (touches w t) -> exists f, top (begin_call w t) t = Some f /\ In x (lrefs f).
Proof.
  unfold touches, top, stk, get. destruct (stack (thr (begin_call w t) t)) as [|f r]; [intros []|].
  intros H. exists f. split; [reflexivity|].
  destruct f; cbn [lrefs] in *; try (destruct s); cbn [opt_cons opt_list In app] in *;
    repeat match goal with p : option nat |- _ => destruct p end; cbn [opt_cons opt_list In app] in *; tauto.
Qed.

Definition lref_of (w : world) (t x : nat) : Prop := exists g, In g (stk w t) /\ In x (lrefs g).

(* where the notes a thread may touch after a step come from *)
Lemma step1_lrefs w t c x :
  shape (stk w t) ->
  lref_of (fst (step1 w t c)) t x ->
  lref_of w t x \/ (exists m, In m (owned (fst (step1 w t c)) t) /\ lref_of w t m /\ (parent (nt w m) = Some x \/ In x (children (nt w m)))) \/ x = nnext w.
Proof.
  intros Sh. unfold lref_of, owned.
  remember (fst (step1 w t c)) as w' eqn:Hw'. revert Hw'. unfold stk in Sh.
  leaves.
  all: intros ->; cbn [fst] in *.
  all: try (intros (g & Hg & Hx); left; exists g; split; [unfold stk in *; rewrite Hst in *; exact Hg | exact Hx]).
  all: bottom_nil Sh.
  all: rets Sh.
  all: repeat match goal with H : Some _ = Some _ |- _ => injection H as H; try subst end.
  all: rewrite ?stk_setst, ?stk_finish.
  all: change (stk w t) with (stack (thr w t)); rewrite Hst.
  all: intros (g & Hg & Hx); cbn [In] in Hg.
  all: try contradiction.
  all: repeat match goal with H : _ \/ _ |- _ => destruct H as [H|H] end; try contradiction.
  all: try (subst g; cbn [lrefs opt_list app In] in Hx).
  (* an old frame *)
  all: try solve [left; exists g; split; [cbn [In]; tauto | exact Hx]].
  all: repeat match goal with p : option nat |- _ => destruct p end; cbn [opt_list app In] in *.
  all: repeat match goal with H : _ \/ _ |- _ => destruct H as [H|H] end; try contradiction; try subst x.
  all: try solve [left; eexists; split; [left; reflexivity | cbn [lrefs opt_list app In]; tauto]].
  all: try solve [left; eexists; split; [right; left; reflexivity | cbn [lrefs opt_list app In]; tauto]].
  all: try solve [left; eexists; split; [right; right; left; reflexivity | cbn [lrefs opt_list app In]; tauto]].
  (* read from the tree *)
  all: try match goal with H : context [opt_list (next_in ?l ?c)] |- _ => destruct (next_in l c) eqn:? end; cbn [opt_list app In] in *.
  all: repeat match goal with H : _ \/ _ |- _ => destruct H as [H|H] end; try contradiction; try subst x.
  all: try solve [left; eexists; split; [left; reflexivity | cbn [lrefs opt_list app In]; tauto]].
  all: try match goal with H : parent _ = Some _ |- _ => hyp_ns H end.
  all: try match goal with H : hd_error _ = Some _ |- _ => apply hd_error_In in H; hyp_ns H end.
  all: try solve [right; left; match goal with H : stack _ = ?f :: _ |- _ => match f with FN ?n _ _ _ => exists n | FC ?n _ _ => exists n | FF ?n _ _ => exists n end end; split; [cbn [flat_map owns opt_list app In]; auto 6 | split; [eexists; split; [left; reflexivity | cbn [lrefs opt_list app In]; left; reflexivity] | unfold nt; eauto using remove_nat_incl]]].
  all: try solve [right; left; match goal with H : stack _ = ?f :: _ |- _ => match f with FN ?n _ _ _ => exists n | FC ?n _ _ => exists n | FF ?n _ _ => exists n end end; split; [cbn [flat_map owns opt_list app In]; auto 6 | split; [eexists; split; [left; reflexivity | cbn [lrefs opt_list app In]; left; reflexivity] |
                  right; match goal with |- In _ _ => idtac end;
                  match goal with H : next_in ?l ?c = Some ?y |- _ => apply next_in_In in H; hyp_ns H; unfold nt; eauto using remove_nat_incl end]]].
  all: try solve [right; right; reflexivity].
Qed.

Lemma owns_lrefs f x : In x (owns f) -> In x (lrefs f).
Proof.
  destruct f; cbn [owns lrefs]; try tauto; try (destruct s); cbn [opt_list app In];
    repeat match goal with p : option nat |- _ => destruct p end; cbn [opt_list app In]; tauto.
Qed.
Lemma lrefs_lt w t f x : fok w t f -> fokU w f -> (forall m p, (m < nnext w)%nat -> parent (nt w m) = Some p -> (p < nnext w)%nat) ->
  In x (lrefs f) -> (x < nnext w)%nat.
Proof.
  intros F U Par H.
  destruct f; cbn [fok fokU lrefs] in *; try destruct s; cbn [opt_list app In] in *;
    repeat match goal with p : option nat |- _ => destruct p end; cbn [opt_list app In] in *;
    unfold child_ok, nx_ok in *; destr_ex;
    repeat match goal with H : _ \/ _ |- _ => destruct H as [H|H] end; try contradiction; subst;
    try assumption.
  all: try solve [match goal with F : forall q, Some ?p = Some q -> (q < _)%nat /\ _ |- _ => destruct (F p eq_refl); assumption end].
  all: try solve [match goal with F : forall q, Some ?p = Some q -> (q < _)%nat |- _ => exact (F p eq_refl) end].
  all: try solve [match goal with F : forall q, Some ?p = Some q -> parent _ = Some q |- _ => eapply Par; [|exact (F p eq_refl)]; assumption end].
  all: try solve [match goal with E : ?pr = Some ?q, F : forall q0, ?pr = Some q0 -> (q0 < _)%nat |- _ => exact (F q E) end].
Qed.
