(* The control structure of debug.c between its atomic sites, regenerated from /repo on this run, is the pinned one. *)
From Coq Require Import String List.
From NsyncGen Require Import Flow.
From NsyncModel Require Import FlowExpected.

Lemma flow_current_debug_c : flow_debug_c = expected_flow_debug_c.
Proof. vm_compute. reflexivity. Qed.
