(* Generated-inventory = pinned-inventory, one lemma per source file (closed by reflexivity). *)
From NsyncGen Require Import Sites.
From NsyncModel Require Import SitesExpected.
From Coq Require Import String List.
Import ListNotations.

Lemma pinned_common_c : map site_sig sites_common_c = expected_common_c.
Proof. reflexivity. Qed.

Lemma pinned_counter_c : map site_sig sites_counter_c = expected_counter_c.
Proof. reflexivity. Qed.

Lemma pinned_cv_c : map site_sig sites_cv_c = expected_cv_c.
Proof. reflexivity. Qed.

Lemma pinned_debug_c : map site_sig sites_debug_c = expected_debug_c.
Proof. reflexivity. Qed.

Lemma pinned_mu_c : map site_sig sites_mu_c = expected_mu_c.
Proof. reflexivity. Qed.

Lemma pinned_mu_wait_c : map site_sig sites_mu_wait_c = expected_mu_wait_c.
Proof. reflexivity. Qed.

Lemma pinned_note_c : map site_sig sites_note_c = expected_note_c.
Proof. reflexivity. Qed.

Lemma pinned_nsync_semaphore_futex_c : map site_sig sites_nsync_semaphore_futex_c = expected_nsync_semaphore_futex_c.
Proof. reflexivity. Qed.

Lemma pinned_once_c : map site_sig sites_once_c = expected_once_c.
Proof. reflexivity. Qed.

Lemma pinned_per_thread_waiter_c : map site_sig sites_per_thread_waiter_c = expected_per_thread_waiter_c.
Proof. reflexivity. Qed.

Lemma pinned_sem_wait_c : map site_sig sites_sem_wait_c = expected_sem_wait_c.
Proof. reflexivity. Qed.

Lemma pinned_wait_c : map site_sig sites_wait_c = expected_wait_c.
Proof. reflexivity. Qed.

